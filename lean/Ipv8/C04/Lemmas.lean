/-
  C04 helper lemmas (core Lean only): the toy AEAD satisfies the laws; layered encryption/decryption facts.
-/
import Ipv8.C04.Model

namespace Ipv8.C04

/-! ### the toy instance satisfies the law bundle -/

theorem dirByte_inj {d d' : Dir} (h : dirByte d = dirByte d') : d = d' := by
  cases d <;> cases d' <;> simp [dirByte] at h <;> rfl

theorem toyDec_toyEnc (k : UInt8) (d : Dir) (n : Nat) (m : Bytes) : toyDec k d (toyEnc k d n m) = some m := by
  simp [toyDec, toyEnc, toyPad]

theorem toyEnc_length (k : UInt8) (d : Dir) (n : Nat) (m : Bytes) : (toyEnc k d n m).length = m.length + 24 := by
  simp only [toyEnc, toyPad, List.length_cons, List.length_append, List.length_replicate]; omega

theorem toyDec_some (k : UInt8) (d : Dir) (c m : Bytes) (h : toyDec k d c = some m) : ∃ n, c = toyEnc k d n m := by
  rcases c with _ | ⟨b0, _ | ⟨k', _ | ⟨d', _ | ⟨t, rest⟩⟩⟩⟩
  · simp [toyDec] at h
  · simp [toyDec] at h
  · simp [toyDec] at h
  · simp [toyDec] at h
  · simp only [toyDec] at h
    split at h
    · rename_i hc
      have hk : k' = k := hc.1
      have hd : d' = dirByte d := hc.2.1
      have hp : rest.take 20 = toyPad := hc.2.2.1
      have ht : t = cks (b0 :: rest.drop 20) := hc.2.2.2.2
      refine ⟨b0.toNat, ?_⟩
      have hm : rest.drop 20 = m := by simpa using h
      have hr : rest = toyPad ++ m := by
        rw [← hp, ← hm]; exact (List.take_append_drop 20 rest).symm
      have hd20 : List.drop 20 (toyPad ++ m) = m := by simp [toyPad]
      simp [toyEnc, hk, hd, hr, ht, hd20]
    · simp at h

theorem toyEnc_sep (k : UInt8) (d : Dir) (n : Nat) (m : Bytes) (k' : UInt8) (d' : Dir) (n' : Nat) (m' : Bytes)
    (h : toyEnc k d n m = toyEnc k' d' n' m') : k = k' ∧ d = d' ∧ m = m' := by
  simp only [toyEnc, List.cons.injEq] at h
  obtain ⟨_, hk, hd, _, hm⟩ := h
  exact ⟨hk, dirByte_inj hd, List.append_cancel_left hm⟩

/-! Hamming distance facts and the checksum -/

theorem hdist_self (l : Bytes) : hdist l l = 0 := by
  induction l with
  | nil => rfl
  | cons a l ih => simp [hdist, ih]

theorem hdist_eq_zero (l r : Bytes) (h : hdist l r = 0) : l = r := by
  induction l generalizing r with
  | nil => cases r with
    | nil => rfl
    | cons b r => simp [hdist] at h
  | cons a l ih => cases r with
    | nil => simp [hdist] at h
    | cons b r =>
      simp only [hdist] at h
      by_cases hab : a = b
      · subst hab; simp at h; rw [ih r h]
      · simp [hab] at h

theorem hdist_append_left (p l r : Bytes) : hdist (p ++ l) (p ++ r) = hdist l r := by
  induction p with
  | nil => rfl
  | cons a p ih => simp [hdist, ih]

def bsum (l : Bytes) : Nat := (l.map UInt8.toNat).sum

theorem bsum_cons (a : UInt8) (l : Bytes) : bsum (a :: l) = a.toNat + bsum l := by simp [bsum]

theorem bsum_hdist1 (l r : Bytes) (h : hdist l r = 1) : bsum l % 256 ≠ bsum r % 256 := by
  induction l generalizing r with
  | nil => cases r <;> simp [hdist] at h
  | cons a l ih => cases r with
    | nil => simp [hdist] at h
    | cons b r =>
      simp only [hdist] at h
      rw [bsum_cons, bsum_cons]
      have ha := a.toNat_lt
      have hb := b.toNat_lt
      by_cases hab : a = b
      · subst hab
        simp at h
        have := ih r h
        omega
      · simp [hab] at h
        have hlr : l = r := hdist_eq_zero l r (by omega)
        subst hlr
        have : a.toNat ≠ b.toNat := fun hh => hab (UInt8.toNat_inj.mp hh)
        omega

theorem cks_hdist1 (l r : Bytes) (h : hdist l r = 1) : cks l ≠ cks r := by
  intro he
  have h1 := bsum_hdist1 l r h
  have : (cks l).toNat = (cks r).toNat := by rw [he]
  simp only [cks, UInt8.toNat_ofNat'] at this
  simp only [bsum] at h1
  omega

theorem toy_tamper1 (k : UInt8) (d : Dir) (n : Nat) (m c : Bytes) (h : hdist c (toyEnc k d n m) = 1) :
    toyDec k d c = none := by
  cases hdec : toyDec k d c with
  | none => rfl
  | some x =>
    exfalso
    obtain ⟨n', rfl⟩ := toyDec_some k d c x hdec
    simp only [toyEnc, hdist, if_pos rfl, Nat.zero_add, hdist_append_left] at h
    by_cases ht : cks (UInt8.ofNat n' :: x) = cks (UInt8.ofNat n :: m)
    · simp only [ht, if_pos rfl, Nat.zero_add] at h
      have : hdist (UInt8.ofNat n' :: x) (UInt8.ofNat n :: m) = 1 := by simpa [hdist] using h
      exact cks_hdist1 _ _ this ht
    · simp only [ht, if_false] at h
      by_cases hn : UInt8.ofNat n' = UInt8.ofNat n
      · simp only [hn, if_pos rfl] at h
        have hx : x = m := hdist_eq_zero x m (by omega)
        subst hx
        exact ht (by rw [hn])
      · simp only [hn, if_false] at h
        omega

def toyLaws : Aead.Laws toy where
  ovh := 24
  ovh_pos := by decide
  len_enc := toyEnc_length
  dec_iff := by
    intro k d c m
    constructor
    · exact toyDec_some k d c m
    · rintro ⟨n, rfl⟩
      exact toyDec_toyEnc k d n m
  sep := toyEnc_sep
  tamper1 := toy_tamper1

/-! ### layers -/

variable {A : Aead}

@[simp] theorem withNonces_fst (ctr : Nat) (ks : List A.Key) : (withNonces A ctr ks).map Prod.fst = ks := by
  induction ks generalizing ctr with
  | nil => rfl
  | cons k ks ih => simp [withNonces, ih]

theorem encLayers_length (L : A.Laws) (d : Dir) (kn : List (A.Key × Nat)) (m : Bytes) :
    (encLayers A d kn m).length = m.length + L.ovh * kn.length := by
  induction kn with
  | nil => simp [encLayers]
  | cons p kn ih =>
    obtain ⟨k, n⟩ := p
    simp only [encLayers, L.len_enc, ih, List.length_cons, Nat.mul_add]; omega

theorem decLayers_encLayers (L : A.Laws) (d : Dir) (kn : List (A.Key × Nat)) (m : Bytes) :
    decLayers A d (kn.map Prod.fst) (encLayers A d kn m) = some m := by
  induction kn with
  | nil => rfl
  | cons p kn ih =>
    obtain ⟨k, n⟩ := p
    have : A.dec k d (A.enc k d n (encLayers A d kn m)) = some (encLayers A d kn m) := (L.dec_iff _ _ _ _).2 ⟨n, rfl⟩
    simp [encLayers, decLayers, this, ih]

/-- exactly the genuine layered ciphertexts decrypt -/
theorem decLayers_eq_some_iff (L : A.Laws) (d : Dir) (ks : List A.Key) (b m : Bytes) :
    decLayers A d ks b = some m ↔ ∃ kn : List (A.Key × Nat), kn.map Prod.fst = ks ∧ b = encLayers A d kn m := by
  induction ks generalizing b with
  | nil =>
    constructor
    · intro h; exact ⟨[], rfl, by simpa [decLayers, encLayers] using h⟩
    · rintro ⟨kn, hk, rfl⟩
      have : kn = [] := by simpa using hk
      subst this; rfl
  | cons k ks ih =>
    constructor
    · intro h
      simp only [decLayers] at h
      split at h
      · simp at h
      · rename_i m' hd
        obtain ⟨n, rfl⟩ := (L.dec_iff _ _ _ _).1 hd
        obtain ⟨kn, hk, rfl⟩ := (ih _).1 h
        exact ⟨(k, n) :: kn, by simp [hk], rfl⟩
    · rintro ⟨kn, hk, rfl⟩
      rw [← hk]; exact decLayers_encLayers L d kn m

theorem encLayers_append (d : Dir) (kn1 kn2 : List (A.Key × Nat)) (m : Bytes) :
    encLayers A d (kn1 ++ kn2) m = encLayers A d kn1 (encLayers A d kn2 m) := by
  induction kn1 with
  | nil => rfl
  | cons p kn ih => obtain ⟨k, n⟩ := p; simp [encLayers, ih]

theorem decLayers_append_enc (L : A.Laws) (d : Dir) (kn1 : List (A.Key × Nat)) (ks2 : List A.Key) (b : Bytes) :
    decLayers A d (kn1.map Prod.fst ++ ks2) (encLayers A d kn1 b) = decLayers A d ks2 b := by
  induction kn1 with
  | nil => rfl
  | cons p kn ih =>
    obtain ⟨k, n⟩ := p
    have : A.dec k d (A.enc k d n (encLayers A d kn b)) = some (encLayers A d kn b) := (L.dec_iff _ _ _ _).2 ⟨n, rfl⟩
    simp [encLayers, decLayers, this, ih]

/-- a ciphertext under another key or direction never decrypts -/
theorem dec_other_none (L : A.Laws) {k k' : A.Key} {d d' : Dir} (n : Nat) (m : Bytes) (h : k ≠ k' ∨ d ≠ d') :
    A.dec k' d' (A.enc k d n m) = none := by
  cases hdec : A.dec k' d' (A.enc k d n m) with
  | none => rfl
  | some x =>
    obtain ⟨n', he⟩ := (L.dec_iff _ _ _ _).1 hdec
    obtain ⟨hk, hd, _⟩ := L.sep _ _ _ _ _ _ _ _ he
    cases h with
    | inl h => exact absurd hk h
    | inr h => exact absurd hd h

end Ipv8.C04

namespace Ipv8.C04
variable {A : Aead}

/-! ### bodies seen on the successive links of a path -/

/-- layered ciphertexts over every non-empty suffix of the hop list, longest first:
    the bodies on links 0, 1, …, n-1 of a forward passage (link 0 = originator → first hop) -/
def sufBodies (A : Aead) (d : Dir) : List (A.Key × Nat) → Bytes → List Bytes
  | [], _ => []
  | p :: kn, m => encLayers A d (p :: kn) m :: sufBodies A d kn m

/-- bodies produced by successively adding the layers `new` (innermost first) on top of the layers `kn` -/
def addBodies (A : Aead) (d : Dir) : List (A.Key × Nat) → List (A.Key × Nat) → Bytes → List Bytes
  | [], _, _ => []
  | p :: new, kn, m => encLayers A d (p :: kn) m :: addBodies A d new (p :: kn) m

theorem addBodies_reverse (d : Dir) (new kn : List (A.Key × Nat)) (m : Bytes) :
    (addBodies A d new kn m).reverse ++ sufBodies A d kn m = sufBodies A d (new.reverse ++ kn) m := by
  induction new generalizing kn with
  | nil => simp [addBodies]
  | cons p new ih =>
    have := ih (p :: kn)
    simp only [addBodies, List.reverse_cons, List.append_assoc, List.singleton_append]
    simpa [sufBodies] using this

theorem sufBodies_length (d : Dir) (kn : List (A.Key × Nat)) (m : Bytes) : (sufBodies A d kn m).length = kn.length := by
  induction kn with
  | nil => rfl
  | cons p kn ih => simp [sufBodies, ih]

theorem sufBodies_mem_length (L : A.Laws) (d : Dir) (kn : List (A.Key × Nat)) (m b : Bytes)
    (h : b ∈ sufBodies A d kn m) : m.length < b.length ∧ b.length ≤ m.length + L.ovh * kn.length := by
  induction kn with
  | nil => simp [sufBodies] at h
  | cons p kn ih =>
    simp only [sufBodies, List.mem_cons] at h
    have hpos := L.ovh_pos
    cases h with
    | inl h =>
      subst h
      rw [encLayers_length L]
      simp only [List.length_cons, Nat.mul_add, Nat.mul_one]
      constructor <;> omega
    | inr h =>
      obtain ⟨h1, h2⟩ := ih h
      simp only [List.length_cons, Nat.mul_add, Nat.mul_one]
      constructor <;> omega

/-- the bodies on the links of one passage, followed by the plaintext, are pairwise different -/
theorem sufBodies_pairwise (L : A.Laws) (d : Dir) (kn : List (A.Key × Nat)) (m : Bytes) :
    (sufBodies A d kn m ++ [m]).Pairwise (· ≠ ·) := by
  induction kn with
  | nil => simp [sufBodies]
  | cons p kn ih =>
    simp only [sufBodies, List.cons_append, List.pairwise_cons]
    refine ⟨?_, ih⟩
    intro b hb heq
    have hlen : (encLayers A d (p :: kn) m).length = m.length + L.ovh * (kn.length + 1) := by
      rw [encLayers_length L]; rfl
    have hpos := L.ovh_pos
    rw [heq] at hlen
    simp only [List.mem_append, List.mem_singleton] at hb
    cases hb with
    | inl hb =>
      have := (sufBodies_mem_length L d kn m b hb).2
      simp only [Nat.mul_add, Nat.mul_one] at hlen
      omega
    | inr hb =>
      subst hb
      simp only [Nat.mul_add, Nat.mul_one] at hlen
      omega

/-! ### table helpers -/

theorem lookup_setEntry_self {β : Type} (cid : Nat) (v v0 : β) (t : List (Nat × β))
    (h : List.lookup cid t = some v0) : List.lookup cid (setEntry cid v t) = some v := by
  induction t with
  | nil => simp at h
  | cons p t ih =>
    obtain ⟨c, e⟩ := p
    by_cases hc : c = cid
    · subst hc; simp [setEntry, List.lookup]
    · have hc' : (cid == c) = false := by simpa using fun h => hc h.symm
      have hc'' : (c == cid) = false := by simpa using hc
      simp only [List.lookup, hc'] at h
      simp [setEntry, hc'', List.lookup, hc', ih h]

@[simp] theorem encLayers_single (d : Dir) (k : A.Key) (n : Nat) (b : Bytes) :
    encLayers A d [(k, n)] b = A.enc k d n b := rfl

@[simp] theorem withNonces_single (ctr : Nat) (k : A.Key) : withNonces A ctr [k] = [(k, ctr)] := rfl

theorem decLayers_single_enc (L : A.Laws) (d : Dir) (k : A.Key) (n : Nat) (b : Bytes) :
    decLayers A d [k] (A.enc k d n b) = some b := by
  have : A.dec k d (A.enc k d n b) = some b := (L.dec_iff _ _ _ _).2 ⟨n, rfl⟩
  simp [decLayers, this]

@[simp] theorem noKeysYet_exit (ci : Option (CircuitE A)) (x : ExitE A) : noKeysYet ci (some x) = false := by
  cases ci <;> rfl

@[simp] theorem noKeysYet_own (ce : CircuitE A) : noKeysYet (some ce) none = ce.hops.isEmpty := rfl

@[simp] theorem noKeysYet_none (xe : Option (ExitE A)) : noKeysYet (none : Option (CircuitE A)) xe = false := by
  cases xe <;> rfl

/-! ### single steps of the code, with the table lookups resolved -/

/-- a forward relay peels exactly its own layer and passes the rest on under the next circuit id -/
theorem relay_fwd_step (L : A.Laws) (nd : Node A) (cid cid' nxt early n : Nat) (k : A.Key) (re : Bool) (inner : Bytes)
    (hl : List.lookup cid nd.relays = some ⟨cid', k, .fwd, false, nxt, early⟩)
    (hre : re = true → early < nd.maxEarly) :
    (processCell nd ⟨cid, false, re, A.enc k .fwd n inner⟩).2 = .forward nxt ⟨cid', false, re, inner⟩ := by
  have h1a : ¬ (nd.maxEarly ≤ early ∧ re = true) := fun h => by have := hre h.2; omega
  have h1b : ¬ (re = true ∧ nd.maxEarly ≤ early) := fun h => by have := hre h.1; omega
  simp [processCell, relayCell, hl, h1a, h1b, relayCrypto, decryptCell, decLayers_single_enc L]

/-- a backward relay adds exactly its own layer -/
theorem relay_bwd_step (nd : Node A) (cid cid' nxt early : Nat) (k : A.Key) (body : Bytes)
    (hl : List.lookup cid nd.relays = some ⟨cid', k, .bwd, false, nxt, early⟩) :
    (processCell nd ⟨cid, false, false, body⟩).2 = .forward nxt ⟨cid', false, false, A.enc k .bwd nd.ctr body⟩ := by
  simp [processCell, relayCell, hl, relayCrypto, encryptCell]

theorem toNat_ne_of_ne {b c : UInt8} (h : b ≠ c) : b.toNat ≠ c.toNat := fun e => h (UInt8.toNat_inj.mp e)

/-- the exit removes the last layer and hands the message to the tunnel community -/
theorem exit_step (L : A.Laws) (nd : Node A) (cid prev n : Nat) (k : A.Key) (re : Bool) (m : Bytes) (b : UInt8)
    (hr : List.lookup cid nd.relays = none) (hx : List.lookup cid nd.exits = some ⟨k, prev⟩)
    (hmax : 0 < nd.maxEarly) (hm : m.head? = some b) (hb : re = true ∨ b ≠ 4) :
    (processCell nd ⟨cid, false, re, A.enc k .fwd n m⟩).2 = .deliver ⟨cid, false, re, m⟩ := by
  have h0 : nd.maxEarly ≠ 0 := by omega
  have h1 : genEndpointEarlyDrop re b.toNat nd.maxEarly = false := by
    cases hb with
    | inl h => simp [h, h0]
    | inr h =>
      have := toNat_ne_of_ne h
      simp at this
      simp [this, h0]
  have h2 : ¬ (re = false ∧ b.toNat = 4 ∨ nd.maxEarly = 0) := by
    simp at h1
    rintro (⟨ha, hb4⟩ | hz)
    · exact absurd (h1.1 ha) (by simp [hb4])
    · exact h0 hz
  simp [processCell, hr, incomingCrypto, exitIncoming, hx, decryptCell, decLayers_single_enc L, endpointAccepts, hm, h2]

/-- the originator removes all layers in hop order -/
theorem orig_step (L : A.Laws) (nd : Node A) (cid : Nat) (ce : CircuitE A) (kn : List (A.Key × Nat)) (m : Bytes) (b : UInt8)
    (hr : List.lookup cid nd.relays = none) (hx : List.lookup cid nd.exits = none)
    (hc : List.lookup cid nd.circuits = some ce) (hk : kn.map Prod.fst = ce.hops) (hs : ce.hs = none)
    (hne : ce.hops ≠ [])
    (hmax : 0 < nd.maxEarly) (hm : m.head? = some b) (hb : b ≠ 4) :
    (processCell nd ⟨cid, false, false, encLayers A .bwd kn m⟩).2 = .deliver ⟨cid, false, false, m⟩ := by
  have h0 : nd.maxEarly ≠ 0 := by omega
  have hb' : b.toNat ≠ 4 := by have := toNat_ne_of_ne hb; simpa using this
  have he : ce.hops.isEmpty = false := by cases hh : ce.hops <;> simp_all
  have hd : decLayers A .bwd ce.hops (encLayers A .bwd kn m) = some m := by
    rw [← hk]; exact decLayers_encLayers L .bwd kn m
  simp [processCell, hr, incomingCrypto, ownIncoming, hx, hc, decryptCell, hd, hs, endpointAccepts, hm, h0, hb', he]

end Ipv8.C04

namespace Ipv8.C04
variable {A : Aead}

/-! ### well-formed paths: what the tables of the nodes along a ready circuit contain -/

/-- `FwdChain re cid nodes keys xa xc`: `nodes` = relays r₁ … rₙ₋₁ followed by the exit; a cell arrives at the first
    node under circuit id `cid`; node i holds the forward relay entry (or exit socket) keyed with `keys[i]`;
    the exit is node `xa` and knows the circuit as `xc`.  `re` = the relay_early flag of the travelling cell
    (relays refuse flagged cells once their budget is spent). -/
inductive FwdChain (re : Bool) : Nat → List (Node A) → List A.Key → Nat → Nat → Prop
  | exit (nd : Node A) (k : A.Key) (cid prev : Nat) :
      List.lookup cid nd.relays = none → List.lookup cid nd.exits = some ⟨k, prev⟩ → 0 < nd.maxEarly →
      FwdChain re cid [nd] [k] nd.addr cid
  | relay (nd nx : Node A) (rest : List (Node A)) (k : A.Key) (ks : List A.Key) (cid cid' early xa xc : Nat) :
      List.lookup cid nd.relays = some ⟨cid', k, .fwd, false, nx.addr, early⟩ →
      (re = true → early < nd.maxEarly) →
      FwdChain re cid' (nx :: rest) ks xa xc →
      FwdChain re cid (nd :: nx :: rest) (k :: ks) xa xc

/-- `BwdChain cid nodes ks oa oc`: `nodes` = backward relays rₙ₋₁ … r₁ followed by the originator `oa`; the cell that
    arrives at the first node under `cid` already carries the layers `ks` (outermost first); the originator knows the
    circuit as `oc` and its hop list is exactly the layers the cell has when it arrives there. -/
inductive BwdChain : Nat → List (Node A) → List A.Key → Nat → Nat → Prop
  | orig (nd : Node A) (ce : CircuitE A) (cid : Nat) (ks : List A.Key) :
      List.lookup cid nd.relays = none → List.lookup cid nd.exits = none →
      List.lookup cid nd.circuits = some ce → ce.hops = ks → ce.hs = none → ks ≠ [] → 0 < nd.maxEarly →
      BwdChain cid [nd] ks nd.addr cid
  | relay (nd nx : Node A) (rest : List (Node A)) (k : A.Key) (ks : List A.Key) (cid cid' early oa oc : Nat) :
      List.lookup cid nd.relays = some ⟨cid', k, .bwd, false, nx.addr, early⟩ →
      BwdChain cid' (nx :: rest) (k :: ks) oa oc →
      BwdChain cid (nd :: nx :: rest) ks oa oc

theorem walk_forward (nd nx : Node A) (rest : List (Node A)) (c c' : Cell) (tgt : Nat)
    (h : (processCell nd c).2 = .forward tgt c') (ht : nx.addr = tgt) :
    walk (nd :: nx :: rest) c = (⟨nd.addr, tgt, c'⟩ :: (walk (nx :: rest) c').1, (walk (nx :: rest) c').2) := by
  rw [walk, h]; simp [ht]

theorem walk_deliver (nd : Node A) (rest : List (Node A)) (c c' : Cell)
    (h : (processCell nd c).2 = .deliver c') : walk (nd :: rest) c = ([], .delivered nd.addr c') := by
  rw [walk, h]

theorem walk_drop (nd : Node A) (rest : List (Node A)) (c : Cell) (r : Reason)
    (h : (processCell nd c).2 = .drop r) : walk (nd :: rest) c = ([], .dropped nd.addr r) := by
  rw [walk, h]

theorem walk_fwd (L : A.Laws) (re : Bool) (cid xa xc : Nat) (nodes : List (Node A)) (keys : List A.Key)
    (h : FwdChain re cid nodes keys xa xc) (kn : List (A.Key × Nat)) (hk : kn.map Prod.fst = keys)
    (m : Bytes) (b : UInt8) (hm : m.head? = some b) (hb : re = true ∨ b ≠ 4) :
    (walk nodes ⟨cid, false, re, encLayers A .fwd kn m⟩).2 = .delivered xa ⟨xc, false, re, m⟩ ∧
    (walk nodes ⟨cid, false, re, encLayers A .fwd kn m⟩).1.map (fun e => e.cell.msg) = (sufBodies A .fwd kn m).tail ∧
    ∀ e ∈ (walk nodes ⟨cid, false, re, encLayers A .fwd kn m⟩).1, e.cell.plaintext = false ∧ e.cell.relayEarly = re := by
  induction h generalizing kn with
  | exit nd k cid prev hr hx hmax =>
    match kn, hk with
    | [(k', n)], hk =>
      have : k' = k := by simpa using hk
      subst this
      have hstep := exit_step L nd cid prev n k' re m b hr hx hmax hm hb
      simp [encLayers, walk_deliver nd [] _ _ hstep, sufBodies]
  | relay nd nx rest k ks cid cid' early xa xc hl hre _ ih =>
    match kn, hk with
    | (k', n) :: kn', hk =>
      have hk1 : k' = k := by simpa using (List.cons.inj hk).1
      have hk2 : kn'.map Prod.fst = ks := (List.cons.inj hk).2
      subst hk1
      have hstep := relay_fwd_step L nd cid cid' nx.addr early n k' re (encLayers A .fwd kn' m) hl hre
      obtain ⟨ih1, ih2, ih3⟩ := ih kn' hk2
      have hne : kn' ≠ [] := by
        intro h0; subst h0
        cases ‹FwdChain re cid' (nx :: rest) ks xa xc› <;> simp at hk2
      obtain ⟨p, kn'', rfl⟩ := List.exists_cons_of_ne_nil hne
      have hw := walk_forward nd nx rest _ _ nx.addr hstep rfl
      simp only [encLayers] at hw ih1 ih2 ih3 ⊢
      rw [hw]
      refine ⟨ih1, ?_, ?_⟩
      · simp only [List.map_cons, ih2]
        simp [sufBodies, encLayers]
      · intro e he
        simp only [List.mem_cons] at he
        cases he with
        | inl he => subst he; simp
        | inr he => exact ih3 e he

theorem walk_bwd (L : A.Laws) (cid oa oc : Nat) (nodes : List (Node A)) (ks : List A.Key)
    (h : BwdChain cid nodes ks oa oc) (kn : List (A.Key × Nat)) (hk : kn.map Prod.fst = ks)
    (m : Bytes) (b : UInt8) (hm : m.head? = some b) (hb : b ≠ 4) :
    (walk nodes ⟨cid, false, false, encLayers A .bwd kn m⟩).2 = .delivered oa ⟨oc, false, false, m⟩ ∧
    ∃ new : List (A.Key × Nat),
      (walk nodes ⟨cid, false, false, encLayers A .bwd kn m⟩).1.map (fun e => e.cell.msg) = addBodies A .bwd new kn m ∧
      (∃ nd ce, nodes.getLast? = some nd ∧ List.lookup oc nd.circuits = some ce ∧ (new.reverse ++ kn).map Prod.fst = ce.hops) ∧
      ∀ e ∈ (walk nodes ⟨cid, false, false, encLayers A .bwd kn m⟩).1, e.cell.plaintext = false ∧ e.cell.relayEarly = false := by
  induction h generalizing kn with
  | orig nd ce cid ks hr hx hc hh hs hne hmax =>
    have hstep := orig_step L nd cid ce kn m b hr hx hc (by rw [hk, hh]) hs (by rw [hh]; exact hne) hmax hm hb
    have hw := walk_deliver nd [] _ _ hstep
    rw [hw]
    refine ⟨rfl, [], by simp [addBodies], ⟨nd, ce, rfl, hc, by simp [hk, hh]⟩, by simp⟩
  | relay nd nx rest k ks cid cid' early oa oc hl _ ih =>
    have hstep := relay_bwd_step nd cid cid' nx.addr early k (encLayers A .bwd kn m) hl
    obtain ⟨ih1, new, ih2, ⟨ndl, ce, hlast, hcl, hkl⟩, ih3⟩ := ih ((k, nd.ctr) :: kn) (by simp [hk])
    have hw := walk_forward nd nx rest _ _ nx.addr hstep rfl
    simp only [encLayers] at ih1 ih2 ih3
    rw [hw]
    refine ⟨ih1, (k, nd.ctr) :: new, ?_, ⟨ndl, ce, ?_, hcl, ?_⟩, ?_⟩
    · simp [ih2, addBodies, encLayers]
    · simpa [List.getLast?_cons_cons] using hlast
    · simpa using hkl
    · intro e he
      simp only [List.mem_cons] at he
      cases he with
      | inl he => subst he; simp
      | inr he => exact ih3 e he

end Ipv8.C04

namespace Ipv8.C04
variable {A : Aead}

/-! ### inversion: what must have been true of a cell that a node passes on or delivers -/

theorem decryptCell_inv (d : Dir) (ks : List A.Key) (c c1 : Cell) (h : decryptCell A d ks c = some c1) :
    c1.cid = c.cid ∧ c1.plaintext = c.plaintext ∧ c1.relayEarly = c.relayEarly ∧
    (c.plaintext = true → c1 = c) ∧ (c.plaintext = false → decLayers A d ks c.msg = some c1.msg) := by
  unfold decryptCell at h
  split at h
  · rename_i hp
    cases h; simp [hp]
  · rename_i hp
    split at h
    · cases h
    · rename_i m hm
      cases h
      simp [hm, hp]

/-- a forward relay only passes on the inner part of a genuine ciphertext under its own key -/
theorem relay_fwd_forward_inv (L : A.Laws) (nd : Node A) (c c2 : Cell) (cid' nxt early tgt : Nat) (k : A.Key)
    (hl : List.lookup c.cid nd.relays = some ⟨cid', k, .fwd, false, nxt, early⟩)
    (h : (processCell nd c).2 = .forward tgt c2) :
    c.plaintext = false ∧ tgt = nxt ∧ c2.cid = cid' ∧ c2.plaintext = false ∧ c2.relayEarly = c.relayEarly ∧
    ∃ n, c.msg = A.enc k .fwd n c2.msg := by
  simp only [processCell, hl, relayCell] at h
  split at h
  · cases h
  · rename_i hp
    split at h
    · cases h
    · simp only [relayCrypto] at h
      split at h
      · cases h
      · rename_i c1 hc1
        simp only [Bool.false_eq_true, if_false] at hc1
        split at hc1
        · cases hc1
        · rename_i c0 hd
          cases hc1
          obtain ⟨h1, h2, h3, _, h5⟩ := decryptCell_inv .fwd [k] c _ hd
          have hp' : c.plaintext = false := by simpa using hp
          have hdec := h5 hp'
          simp only [decLayers] at hdec
          split at hdec
          · cases hdec
          · rename_i m' hm'
            cases hdec
            obtain ⟨n, hn⟩ := (L.dec_iff _ _ _ _).1 hm'
            cases h
            exact ⟨hp', rfl, rfl, by simpa [hp'] using h2, h3, n, hn⟩

theorem relay_no_deliver (nd : Node A) (c c' : Cell) (e : RelayE A)
    (hl : List.lookup c.cid nd.relays = some e) : (processCell nd c).2 ≠ .deliver c' := by
  simp only [processCell, hl, relayCell]
  split
  · simp
  · split
    · simp
    · split <;> simp

/-- a backward relay passes on the cell with exactly one layer under its own key added -/
theorem relay_bwd_forward_inv (nd : Node A) (c c2 : Cell) (cid' nxt early tgt : Nat) (k : A.Key)
    (hl : List.lookup c.cid nd.relays = some ⟨cid', k, .bwd, false, nxt, early⟩)
    (h : (processCell nd c).2 = .forward tgt c2) :
    c.plaintext = false ∧ tgt = nxt ∧ c2.cid = cid' ∧ c2.plaintext = false ∧ c2.relayEarly = c.relayEarly ∧
    c2.msg = A.enc k .bwd nd.ctr c.msg := by
  simp only [processCell, hl, relayCell] at h
  split at h
  · cases h
  · rename_i hp
    have hp' : c.plaintext = false := by simpa using hp
    split at h
    · cases h
    · simp only [relayCrypto, Bool.false_eq_true, if_false, encryptCell, hp'] at h
      cases h
      simp [hp']

/-- an endpoint (no relay entry for the circuit id) never forwards -/
theorem endpoint_no_forward (nd : Node A) (c c' : Cell) (tgt : Nat)
    (hr : List.lookup c.cid nd.relays = none) : (processCell nd c).2 ≠ .forward tgt c' := by
  simp only [processCell, hr]
  split
  · simp
  · split <;> simp

theorem endpointAccepts_inv (mx : Nat) (c c' : Cell) (h : endpointAccepts mx c = .ok c') : c' = c := by
  unfold endpointAccepts at h
  split at h
  · cases h
  · split at h
    · cases h
    · split at h
      · cases h
      · cases h; rfl

theorem incomingCrypto_exit (nd : Node A) (c : Cell) (k : A.Key) (prev : Nat)
    (hx : List.lookup c.cid nd.exits = some ⟨k, prev⟩) :
    incomingCrypto nd c = exitIncoming k c := by
  simp [incomingCrypto, hx]

theorem incomingCrypto_own (nd : Node A) (c : Cell) (ce : CircuitE A)
    (hx : List.lookup c.cid nd.exits = none) (hc : List.lookup c.cid nd.circuits = some ce) :
    incomingCrypto nd c = (if (ce.hops.isEmpty && !c.plaintext) = true then .error .noKeys else ownIncoming ce c) := by
  simp [incomingCrypto, hx, hc]

theorem processCell_endpoint (nd : Node A) (c c' : Cell) (hr : List.lookup c.cid nd.relays = none)
    (h : (processCell nd c).2 = .deliver c') : incomingCrypto nd c = .ok c' := by
  simp only [processCell, hr] at h
  split at h
  · cases h
  · rename_i c1 hi
    split at h
    · cases h
    · rename_i c2 he
      cases h
      have := endpointAccepts_inv _ _ _ he
      subst this
      exact hi

/-- whatever an exit node delivers from a non-plaintext cell is the content of a genuine ciphertext under the exit key -/
theorem exit_deliver_inv (L : A.Laws) (nd : Node A) (c c' : Cell) (k : A.Key) (prev : Nat)
    (hr : List.lookup c.cid nd.relays = none) (hx : List.lookup c.cid nd.exits = some ⟨k, prev⟩)
    (h : (processCell nd c).2 = .deliver c') :
    c'.cid = c.cid ∧ c'.plaintext = c.plaintext ∧ (c.plaintext = false → ∃ n, c.msg = A.enc k .fwd n c'.msg) := by
  have hi := processCell_endpoint nd c c' hr h
  rw [incomingCrypto_exit nd c k prev hx] at hi
  unfold exitIncoming at hi
  split at hi
  · cases hi
  · rename_i c0 hd
    cases hi
    obtain ⟨h1, h2, _, _, h5⟩ := decryptCell_inv .fwd [k] c _ hd
    refine ⟨h1, h2, fun hp => ?_⟩
    have hdec := h5 hp
    simp only [decLayers] at hdec
    split at hdec
    · cases hdec
    · rename_i m' hm'
      cases hdec
      exact (L.dec_iff _ _ _ _).1 hm'

/-- whatever the originator delivers from a non-plaintext cell of a plain circuit is the content of a genuine
    ciphertext layered under all its hop keys, in hop order — and the circuit has at least one hop -/
theorem orig_deliver_inv (L : A.Laws) (nd : Node A) (c c' : Cell) (ce : CircuitE A)
    (hr : List.lookup c.cid nd.relays = none) (hx : List.lookup c.cid nd.exits = none)
    (hc : List.lookup c.cid nd.circuits = some ce) (hs : ce.hs = none)
    (h : (processCell nd c).2 = .deliver c') :
    c'.cid = c.cid ∧ c'.plaintext = c.plaintext ∧
    (c.plaintext = false → ce.hops ≠ [] ∧
      ∃ kn : List (A.Key × Nat), kn.map Prod.fst = ce.hops ∧ c.msg = encLayers A .bwd kn c'.msg) := by
  have hi := processCell_endpoint nd c c' hr h
  rw [incomingCrypto_own nd c ce hx hc] at hi
  split at hi
  · cases hi
  · rename_i hg
    simp only [ownIncoming, hs] at hi
    split at hi
    · cases hi
    · rename_i c0 hd
      cases hi
      obtain ⟨h1, h2, _, _, h5⟩ := decryptCell_inv .bwd ce.hops c _ hd
      refine ⟨h1, h2, fun hp => ⟨?_, (decLayers_eq_some_iff L .bwd ce.hops c.msg _).1 (h5 hp)⟩⟩
      intro h0
      simp [h0, hp] at hg

theorem endpointAccepts_plain_err (mx : Nat) (c : Cell) (hp : c.plaintext = true)
    (hm : ∀ b, c.msg.head? = some b → b ≠ 2 ∧ b ≠ 3) : ∃ r, endpointAccepts mx c = .error r := by
  unfold endpointAccepts
  split
  · exact ⟨_, rfl⟩
  · rename_i b hb
    obtain ⟨h2, h3⟩ := hm b hb
    have h2' : b.toNat ≠ 2 := by have := toNat_ne_of_ne h2; simpa using this
    have h3' : b.toNat ≠ 3 := by have := toNat_ne_of_ne h3; simpa using this
    split
    · exact ⟨_, rfl⟩
    · simp [hp, h2', h3', genNoCryptoIds]

/-- a plaintext-flagged cell is dropped by every node unless it is a create (2) or created (3) -/
theorem plaintext_rule (nd : Node A) (c : Cell) (hp : c.plaintext = true)
    (hm : ∀ b, c.msg.head? = some b → b ≠ 2 ∧ b ≠ 3) : (processCell nd c).2.isDrop = true := by
  simp only [processCell]
  split
  · simp [relayCell, hp, Action.isDrop]
  · have hx : ∀ k, exitIncoming (A := A) k c = .ok c := by
      intro k; simp [exitIncoming, decryptCell, hp]
    have ho : ∀ ce : CircuitE A, ownIncoming ce c = .ok c := by
      intro ce
      simp only [ownIncoming, decryptCell, hp, if_true]
      split <;> rfl
    have hi : incomingCrypto nd c = .ok c := by
      simp only [incomingCrypto, hx, ho]
      simp only [genUnknownCircuit, genNoKeysYet, hp, Bool.not_true, Bool.and_false, Bool.false_and, Bool.and_self,
        Bool.false_eq_true, if_false]
      split
      · rfl
      · split <;> rfl
    rw [hi]
    obtain ⟨r, hr⟩ := endpointAccepts_plain_err nd.maxEarly c hp hm
    simp only [hr, Action.isDrop]

/-- not a genuine layered ciphertext for hop list `k :: ks` when the outermost layer is under another key/direction -/
theorem other_layer_not_genuine (L : A.Laws) (d d' : Dir) (k k' : A.Key) (ks : List A.Key) (n : Nat) (x : Bytes)
    (h : k' ≠ k ∨ d' ≠ d) (kn : List (A.Key × Nat)) (m : Bytes) (hk : kn.map Prod.fst = k :: ks) :
    A.enc k' d' n x ≠ encLayers A d kn m := by
  match kn, hk with
  | (k0, n0) :: kn', hk =>
    have hk0 : k0 = k := by simpa using (List.cons.inj hk).1
    subst hk0
    intro he
    simp only [encLayers] at he
    obtain ⟨h1, h2, _⟩ := L.sep _ _ _ _ _ _ _ _ he
    cases h with
    | inl h => exact h h1
    | inr h => exact h h2

end Ipv8.C04

namespace Ipv8.C04
variable {A : Aead}

/-! ### origination -/

theorem outgoing_own (nd : Node A) (c : Cell) (ce : CircuitE A) (hp : c.plaintext = false)
    (hc : List.lookup c.cid nd.circuits = some ce) (hs : ce.hs = none) (hne : ce.hops ≠ []) :
    outgoingCrypto nd c = some { c with msg := encLayers A .fwd (withNonces A nd.ctr ce.hops) c.msg } := by
  have he : ce.hops.isEmpty = false := by cases hh : ce.hops <;> simp_all
  simp [outgoingCrypto, noKeyToSend, hc, hs, encryptCell, hp, he]

theorem orig_send (nd : Node A) (target cid : Nat) (re0 : Bool) (m : Bytes) (ce : CircuitE A)
    (hc : List.lookup cid nd.circuits = some ce) (hs : ce.hs = none) (hne : ce.hops ≠ []) :
    (sendCell nd target ⟨cid, false, re0, m⟩).2 =
      some (target, ⟨cid, false, sendEarly m ce.early nd.maxEarly,
                     encLayers A .fwd (withNonces A nd.ctr ce.hops) m⟩) := by
  generalize hce' : (if (sendEarly m ce.early nd.maxEarly) = true
      then ({ ce with early := ce.early + 1 } : CircuitE A) else ce) = ce'
  have hes : earlyStep nd ⟨cid, false, re0, m⟩ =
      ({ nd with circuits := setEntry cid ce' nd.circuits },
       ⟨cid, false, sendEarly m ce.early nd.maxEarly, m⟩) := by
    simp only [earlyStep, hc, ← hce']
  have h1 : ce'.hops = ce.hops := by rw [← hce']; split <;> rfl
  have h2 : ce'.hs = none := by rw [← hce']; split <;> simp [hs]
  have hl := lookup_setEntry_self cid ce' ce nd.circuits hc
  have ho := outgoing_own { nd with circuits := setEntry cid ce' nd.circuits }
    ⟨cid, false, sendEarly m ce.early nd.maxEarly, m⟩ ce' rfl hl h2 (by rw [h1]; exact hne)
  simp only [sendCell, hes, ho, h1]

theorem exit_send (nd : Node A) (target cid prev : Nat) (re0 : Bool) (m : Bytes) (k : A.Key)
    (hc : List.lookup cid nd.circuits = none) (hx : List.lookup cid nd.exits = some ⟨k, prev⟩) :
    (sendCell nd target ⟨cid, false, re0, m⟩).2 = some (target, ⟨cid, false, re0, A.enc k .bwd nd.ctr m⟩) := by
  have hes : earlyStep nd ⟨cid, false, re0, m⟩ = (nd, ⟨cid, false, re0, m⟩) := by simp [earlyStep, hc]
  simp [sendCell, hes, hc, outgoingCrypto, noKeyToSend, hx, encryptCell]

/-! ### tampered / foreign cells along a path -/

/-- forward: a cell whose body is not a genuine layered ciphertext for the remaining hops is never delivered as
    circuit data (whatever its header flags are) -/
theorem walk_fwd_tampered (L : A.Laws) (re : Bool) (cid xa xc : Nat) (nodes : List (Node A)) (keys : List A.Key)
    (h : FwdChain re cid nodes keys xa xc) (c : Cell) (hcid : c.cid = cid)
    (hbad : ∀ (kn : List (A.Key × Nat)) (m : Bytes), kn.map Prod.fst = keys → c.msg ≠ encLayers A .fwd kn m)
    (a : Nat) (c' : Cell) (hd : (walk nodes c).2 = .delivered a c') : c'.plaintext = true := by
  induction h generalizing c with
  | exit nd k cid prev hr hx hmax =>
    subst hcid
    cases hact : (processCell nd c).2 with
    | drop r => rw [walk_drop nd [] c r hact] at hd; cases hd
    | forward tgt c2 => exact absurd hact (endpoint_no_forward nd c c2 tgt hr)
    | deliver c2 =>
      rw [walk_deliver nd [] c c2 hact] at hd
      have hcc : c2 = c' := by injection hd
      subst hcc
      obtain ⟨_, h2, h3⟩ := exit_deliver_inv L nd c c2 k prev hr hx hact
      cases hp : c.plaintext with
      | true => rw [h2, hp]
      | false =>
        obtain ⟨n, hn⟩ := h3 hp
        exact absurd hn (hbad [(k, n)] c2.msg rfl)
  | relay nd nx rest k ks cid cid' early xa xc hl hre _ ih =>
    subst hcid
    cases hact : (processCell nd c).2 with
    | drop r => rw [walk_drop nd _ c r hact] at hd; cases hd
    | deliver c2 => exact absurd hact (relay_no_deliver nd c c2 _ hl)
    | forward tgt c2 =>
      obtain ⟨_, ht, h3, _, _, n, hn⟩ := relay_fwd_forward_inv L nd c c2 cid' nx.addr early tgt k hl hact
      subst ht
      rw [walk_forward nd nx rest c c2 nx.addr hact rfl] at hd
      refine ih c2 h3 ?_ hd
      intro kn m hk he
      exact hbad ((k, n) :: kn) m (by simp [hk]) (by rw [hn, he]; rfl)

/-- backward: relays add their layers blindly; the originator refuses whatever is not genuine for its hop list -/
theorem walk_bwd_tampered (L : A.Laws) (cid oa oc : Nat) (nodes : List (Node A)) (ks : List A.Key)
    (h : BwdChain cid nodes ks oa oc) (c : Cell) (hcid : c.cid = cid)
    (hbad : ∀ (kn : List (A.Key × Nat)) (m : Bytes), kn.map Prod.fst = ks → c.msg ≠ encLayers A .bwd kn m)
    (a : Nat) (c' : Cell) (hd : (walk nodes c).2 = .delivered a c') : c'.plaintext = true := by
  induction h generalizing c with
  | orig nd ce cid ks hr hx hc hh hs _ hmax =>
    subst hcid
    cases hact : (processCell nd c).2 with
    | drop r => rw [walk_drop nd [] c r hact] at hd; cases hd
    | forward tgt c2 => exact absurd hact (endpoint_no_forward nd c c2 tgt hr)
    | deliver c2 =>
      rw [walk_deliver nd [] c c2 hact] at hd
      have hcc : c2 = c' := by injection hd
      subst hcc
      obtain ⟨_, h2, h3⟩ := orig_deliver_inv L nd c c2 ce hr hx hc hs hact
      cases hp : c.plaintext with
      | true => rw [h2, hp]
      | false =>
        obtain ⟨_, kn, hk, hn⟩ := h3 hp
        exact absurd hn (hbad kn c2.msg (by rw [hk, hh]))
  | relay nd nx rest k ks cid cid' early oa oc hl _ ih =>
    subst hcid
    cases hact : (processCell nd c).2 with
    | drop r => rw [walk_drop nd _ c r hact] at hd; cases hd
    | deliver c2 => exact absurd hact (relay_no_deliver nd c c2 _ hl)
    | forward tgt c2 =>
      obtain ⟨_, ht, h3, _, _, hn⟩ := relay_bwd_forward_inv nd c c2 cid' nx.addr early tgt k hl hact
      subst ht
      rw [walk_forward nd nx rest c c2 nx.addr hact rfl] at hd
      refine ih c2 h3 ?_ hd
      intro kn m hk he
      match kn, hk with
      | (k0, n0) :: kn', hk =>
        have hk0 : k0 = k := by simpa using (List.cons.inj hk).1
        have hk' : kn'.map Prod.fst = ks := (List.cons.inj hk).2
        subst hk0
        rw [hn] at he
        simp only [encLayers] at he
        obtain ⟨_, _, hm⟩ := L.sep _ _ _ _ _ _ _ _ he
        exact hbad kn' m hk' hm

theorem sufBodies_getElem_length (L : A.Laws) (d : Dir) (kn : List (A.Key × Nat)) (m b : Bytes) (i : Nat)
    (h : (sufBodies A d kn m)[i]? = some b) : b.length = m.length + L.ovh * (kn.length - i) := by
  induction kn generalizing i with
  | nil => simp [sufBodies] at h
  | cons p kn ih =>
    cases i with
    | zero =>
      simp only [sufBodies, List.getElem?_cons_zero, Option.some.injEq] at h
      subst h
      rw [encLayers_length L]; simp
    | succ i =>
      simp only [sufBodies, List.getElem?_cons_succ] at h
      rw [ih i h]; simp

end Ipv8.C04

/-! ### a concrete two-hop circuit over the toy AEAD (used by the non-vacuity examples in Props.lean) -/
namespace Ipv8.C04.Ex

def kn2 : List (toy.Key × Nat) := [((1 : UInt8), 0), ((2 : UInt8), 1)]
def msg : Bytes := [1, 7, 7]

/-- originator: circuit 10 over hops keyed 1 (relay) and 2 (exit) -/
def o : Node toy := { addr := 0, circuits := [(10, ⟨[(1 : UInt8), (2 : UInt8)], 1, none, .data, 3⟩)], relays := [], exits := [],
                      maxEarly := 8, ctr := 0 }
/-- relay: 10 ↔ 11, keyed 1 -/
def r : Node toy := { addr := 1, circuits := [],
                      relays := [(10, ⟨11, (1 : UInt8), .fwd, false, 2, 1⟩), (11, ⟨10, (1 : UInt8), .bwd, false, 0, 1⟩)],
                      exits := [], maxEarly := 8, ctr := 5 }
/-- exit: knows the circuit as 11, keyed 2 -/
def x : Node toy := { addr := 2, circuits := [], relays := [], exits := [(11, ⟨(2 : UInt8), 1⟩)], maxEarly := 8, ctr := 9 }

theorem fwd (re : Bool) : FwdChain re 10 [r, x] [(1 : UInt8), (2 : UInt8)] 2 11 :=
  .relay r x [] (1 : UInt8) [(2 : UInt8)] 10 11 1 2 11 rfl (by intro _; decide)
    (.exit x (2 : UInt8) 11 1 rfl rfl (by decide))

theorem bwd : BwdChain 11 [r, o] [(2 : UInt8)] 0 10 :=
  .relay r o [] (1 : UInt8) [(2 : UInt8)] 11 10 1 0 10 rfl
    (.orig o ⟨[(1 : UInt8), (2 : UInt8)], 1, none, .data, 3⟩ 10 [(1 : UInt8), (2 : UInt8)] rfl rfl rfl rfl rfl (by decide) (by decide))

end Ipv8.C04.Ex

/-! ### decidable path checks (toy keys): the driver runs them on the tables read from the real nodes, so that every
    run confirms that the hypotheses `FwdChain` / `BwdChain` of the theorems describe what the code builds -/
namespace Ipv8.C04

def checkFwd (re : Bool) : Nat → List (Node toy) → List UInt8 → Option (Nat × Nat)
  | cid, [nd], [k] =>
    match List.lookup cid nd.relays, List.lookup cid nd.exits with
    | none, some xe => if xe.key = k ∧ 0 < nd.maxEarly then some (nd.addr, cid) else none
    | _, _ => none
  | cid, nd :: nx :: rest, k :: ks =>
    match List.lookup cid nd.relays with
    | some r =>
      if r.key = k ∧ r.dir = .fwd ∧ r.rendezvous = false ∧ r.next = nx.addr ∧ (re = true → r.early < nd.maxEarly)
      then checkFwd re r.toCid (nx :: rest) ks else none
    | none => none
  | _, _, _ => none

theorem checkFwd_sound (re : Bool) (cid : Nat) (nodes : List (Node toy)) (keys : List UInt8) (xa xc : Nat)
    (h : checkFwd re cid nodes keys = some (xa, xc)) : FwdChain (A := toy) re cid nodes keys xa xc := by
  induction nodes generalizing cid keys with
  | nil => simp [checkFwd] at h
  | cons nd rest ih =>
    cases rest with
    | nil =>
      match keys, h with
      | [k], h =>
        simp only [checkFwd] at h
        split at h
        · rename_i xe hr hx
          split at h
          · rename_i hc
            simp only [Option.some.injEq, Prod.mk.injEq] at h
            have h1 : nd.addr = xa := h.1
            have h2 : cid = xc := h.2
            subst h1; subst h2
            have : xe = ⟨k, xe.prev⟩ := by cases xe; simp_all
            rw [this] at hx
            exact .exit nd k cid xe.prev hr hx hc.2
          · cases h
        · cases h
      | [], h => simp [checkFwd] at h
      | _ :: _ :: _, h => simp [checkFwd] at h
    | cons nx rest' =>
      match keys, h with
      | k :: ks, h =>
        simp only [checkFwd] at h
        split at h
        · rename_i r hl
          split at h
          · rename_i hc
            obtain ⟨h1, h2, h3, h4, h5⟩ := hc
            have : r = ⟨r.toCid, k, .fwd, false, nx.addr, r.early⟩ := by cases r; simp_all
            rw [this] at hl
            exact .relay nd nx rest' k ks cid r.toCid r.early xa xc hl h5 (ih r.toCid ks h)
          · cases h
        · cases h
      | [], h => simp [checkFwd] at h

def checkBwd : Nat → List (Node toy) → List UInt8 → Option (Nat × Nat)
  | cid, [nd], ks =>
    match List.lookup cid nd.relays, List.lookup cid nd.exits, List.lookup cid nd.circuits with
    | none, none, some ce => if ce.hops = ks ∧ ce.hs = none ∧ ks ≠ [] ∧ 0 < nd.maxEarly then some (nd.addr, cid) else none
    | _, _, _ => none
  | cid, nd :: nx :: rest, ks =>
    match List.lookup cid nd.relays with
    | some r =>
      if r.dir = .bwd ∧ r.rendezvous = false ∧ r.next = nx.addr then checkBwd r.toCid (nx :: rest) (r.key :: ks) else none
    | none => none
  | _, [], _ => none

theorem checkBwd_sound (cid : Nat) (nodes : List (Node toy)) (ks : List UInt8) (oa oc : Nat)
    (h : checkBwd cid nodes ks = some (oa, oc)) : BwdChain (A := toy) cid nodes ks oa oc := by
  induction nodes generalizing cid ks with
  | nil => simp [checkBwd] at h
  | cons nd rest ih =>
    cases rest with
    | nil =>
      simp only [checkBwd] at h
      split at h
      · rename_i ce hr hx hc
        split at h
        · rename_i hcond
          simp only [Option.some.injEq, Prod.mk.injEq] at h
          have h1 : nd.addr = oa := h.1
          have h2 : cid = oc := h.2
          subst h1; subst h2
          exact .orig nd ce cid ks hr hx hc hcond.1 hcond.2.1 hcond.2.2.1 hcond.2.2.2
        · cases h
      · cases h
    | cons nx rest' =>
      simp only [checkBwd] at h
      split at h
      · rename_i r hl
        split at h
        · rename_i hc
          obtain ⟨h2, h3, h4⟩ := hc
          have : r = ⟨r.toCid, r.key, .bwd, false, nx.addr, r.early⟩ := by cases r; simp_all
          rw [this] at hl
          exact .relay nd nx rest' r.key ks cid r.toCid r.early oa oc hl (ih r.toCid (r.key :: ks) h)
        · cases h
      · cases h

end Ipv8.C04

/-! ### end-to-end (hidden service) circuits: node-level facts -/
namespace Ipv8.C04
variable {A : Aead}

/-- the rendezvous relay replaces the downloader-side hop layer by the seeder-side one and never looks inside -/
theorem rendezvous_step (L : A.Laws) (nd : Node A) (cid cid' nxt nxt' e e' n : Nat) (kD kS : A.Key) (dS : Dir) (re : Bool)
    (inner : Bytes)
    (h1 : List.lookup cid nd.relays = some ⟨cid', kD, .fwd, true, nxt, e⟩)
    (h2 : List.lookup cid' nd.relays = some ⟨cid, kS, dS, true, nxt', e'⟩)
    (hre : re = true → e < nd.maxEarly) :
    (processCell nd ⟨cid, false, re, A.enc kD .fwd n inner⟩).2 =
      .forward nxt ⟨cid', false, false, A.enc kS .bwd nd.ctr inner⟩ := by
  have hba : ¬ (nd.maxEarly ≤ e ∧ re = true) := fun h => by have := hre h.2; omega
  have hbb : ¬ (re = true ∧ nd.maxEarly ≤ e) := fun h => by have := hre h.1; omega
  simp [processCell, relayCell, h1, hba, hbb, relayCrypto, decryptCell, decLayers_single_enc L, h2, encryptCell]

/-- an e2e circuit's owner wraps the message in the end-to-end layer first and then in all hop layers -/
theorem e2e_outgoing (nd : Node A) (c : Cell) (ce : CircuitE A) (hk : A.Key) (hp : c.plaintext = false)
    (hc : List.lookup c.cid nd.circuits = some ce) (hs : ce.hs = some hk) (hne : ce.hops ≠ []) :
    outgoingCrypto nd c = some { c with msg := encLayers A .fwd (withNonces A nd.ctr ce.hops)
                                                  (A.enc hk (hsDirOut ce.ctype) (nd.ctr + ce.hops.length) c.msg) } := by
  have he : ce.hops.isEmpty = false := by cases hh : ce.hops <;> simp_all
  simp [outgoingCrypto, noKeyToSend, hc, hs, encryptCell, hp, he]

/-- what the owner of an e2e circuit delivers is the content of a genuine end-to-end ciphertext (under the e2e key, for
    the receiving direction of its circuit type) wrapped in genuine hop layers -/
theorem e2e_deliver_inv (L : A.Laws) (nd : Node A) (c c' : Cell) (ce : CircuitE A) (hk : A.Key)
    (hr : List.lookup c.cid nd.relays = none) (hx : List.lookup c.cid nd.exits = none)
    (hc : List.lookup c.cid nd.circuits = some ce) (hs : ce.hs = some hk) (hp : c.plaintext = false)
    (h : (processCell nd c).2 = .deliver c') :
    c'.cid = c.cid ∧ ∃ (kn : List (A.Key × Nat)) (n : Nat), kn.map Prod.fst = ce.hops ∧
      c.msg = encLayers A .bwd kn (A.enc hk (hsDirIn ce.ctype) n c'.msg) := by
  have hi := processCell_endpoint nd c c' hr h
  rw [incomingCrypto_own nd c ce hx hc] at hi
  split at hi
  · cases hi
  · simp only [ownIncoming, hs] at hi
    split at hi
    · cases hi
    · rename_i c0 hd
      split at hi
      · cases hi
      · rename_i c00 hd2
        cases hi
        obtain ⟨a1, a2, _, _, a5⟩ := decryptCell_inv .bwd ce.hops c _ hd
        obtain ⟨b1, _, _, _, b5⟩ := decryptCell_inv (hsDirIn ce.ctype) [hk] _ _ hd2
        have hp0 : c0.plaintext = false := by rw [a2, hp]
        obtain ⟨kn, hkn, hbody⟩ := (decLayers_eq_some_iff L .bwd ce.hops c.msg _).1 (a5 hp)
        have hdec := b5 hp0
        simp only [decLayers] at hdec
        split at hdec
        · cases hdec
        · rename_i m' hm'
          cases hdec
          obtain ⟨n, hn⟩ := (L.dec_iff _ _ _ _).1 hm'
          exact ⟨by rw [b1, a1], kn, n, hkn, by rw [hbody, hn]⟩

theorem hsDir_match : hsDirOut .rpDownloader = hsDirIn .rpSeeder ∧ hsDirOut .rpSeeder = hsDirIn .rpDownloader ∧
    hsDirOut .rpDownloader ≠ hsDirIn .rpDownloader ∧ hsDirOut .rpSeeder ≠ hsDirIn .rpSeeder := by
  decide

end Ipv8.C04

/-! ### exit socket: nothing handed to `sendto` is lost or duplicated -/
namespace Ipv8.C04

def ind (i x : Nat) : Nat := if i = x then 1 else 0

theorem count_cons' (x i : Nat) (l : List Nat) : (i :: l).count x = ind i x + l.count x := by
  simp only [List.count_cons, ind, beq_iff_eq]; omega

theorem pushCap_small (x : XItem) (q : List XItem) (h : q.length < 10) : pushCap x q = q ++ [x] := by
  unfold pushCap; rw [if_neg (by omega)]

theorem XSock.sendIp_held (s : XSock) (i : Nat) (a : Nat × Nat) (h : s.queue.length < 10) (x : Nat) :
    (s.sendIp i a).held.count x = s.held.count x + [i].count x := by
  unfold XSock.sendIp
  split
  · simp only [XSock.held, List.map_append, List.count_append, List.map_cons, List.map_nil, List.append_assoc,
      List.cons_append, List.nil_append, count_cons', List.count_nil]; omega
  · simp only [XSock.held, pushCap_small _ _ h, List.map_append, List.count_append, List.map_cons, List.map_nil,
      List.append_assoc, List.cons_append, List.nil_append, count_cons', List.count_nil]; omega

theorem XSock.sendIp_load (s : XSock) (i : Nat) (a : Nat × Nat) (h : s.queue.length < 10) :
    (s.sendIp i a).queue.length + (s.sendIp i a).pending.length ≤ s.queue.length + s.pending.length + 1 := by
  unfold XSock.sendIp
  split
  · simp
  · simp [pushCap_small _ _ h]; omega

theorem XSock.step_held (dns : Nat → Nat) (s : XSock) (ev : XEv) (h : s.queue.length + s.pending.length < 10) (x : Nat) :
    ((s.step dns ev).held.count x = s.held.count x + ev.sentId.count x) ∧
    (s.step dns ev).queue.length + (s.step dns ev).pending.length ≤ s.queue.length + s.pending.length + ev.sentId.length := by
  cases ev with
  | send i d =>
    cases d with
    | ip a pp =>
      exact ⟨XSock.sendIp_held s i (a, pp) (by omega) x, XSock.sendIp_load s i (a, pp) (by omega)⟩
    | name hh pp =>
      constructor
      · simp only [XSock.step, XSock.held, XEv.sentId, List.map_append, List.count_append, List.map_cons, List.map_nil, count_cons', List.count_nil]; omega
      · simp [XSock.step, XEv.sentId]; omega
  | resolved =>
    simp only [XSock.step]
    split
    · rename_i hp; simp [XEv.sentId]
    · rename_i i hh pp r hp
      have h1 := XSock.sendIp_held { s with pending := r } i (dns hh, pp) (by simp; omega) x
      have h2 := XSock.sendIp_load { s with pending := r } i (dns hh, pp) (by simp; omega)
      constructor
      · rw [h1]
        simp only [XSock.held, hp, XEv.sentId, List.map_append, List.count_append, List.map_cons, count_cons', List.count_nil]
        omega
      · simp only [hp, List.length_cons, XEv.sentId, List.length_nil] at h2 ⊢; omega
  | transportsReady =>
    constructor
    · simp [XSock.step, XSock.held, XEv.sentId, List.count_append]
    · simp [XSock.step, XEv.sentId]

theorem XSock.run_held (dns : Nat → Nat) (evs : List XEv) (s : XSock)
    (h : s.queue.length + s.pending.length + (evs.flatMap XEv.sentId).length ≤ 10) (x : Nat) :
    (s.run dns evs).held.count x = s.held.count x + (evs.flatMap XEv.sentId).count x := by
  induction evs generalizing s with
  | nil => simp [XSock.run]
  | cons ev evs ih =>
    simp only [List.flatMap_cons, List.length_append, List.count_append] at h ⊢
    by_cases hs : ev.sentId = []
    · -- not a send: the load does not grow
      by_cases hfull : s.queue.length + s.pending.length < 10
      · obtain ⟨h1, h2⟩ := XSock.step_held dns s ev hfull x
        have := ih (s.step dns ev) (by rw [hs] at h2; simp at h2; omega)
        simp only [XSock.run, List.foldl_cons] at this ⊢
        rw [this, h1]; omega
      · -- the socket already holds 10 datagrams and no further send follows: resolved / ready only move them
        have hz : (evs.flatMap XEv.sentId).length = 0 := by omega
        cases ev with
        | send i d => simp [XEv.sentId] at hs
        | transportsReady =>
          obtain ⟨h1, h2⟩ : ((s.step dns .transportsReady).held.count x = s.held.count x + (XEv.sentId .transportsReady).count x) ∧
              (s.step dns .transportsReady).queue.length + (s.step dns .transportsReady).pending.length ≤ s.queue.length + s.pending.length := by
            constructor
            · simp [XSock.step, XSock.held, XEv.sentId, List.count_append]
            · simp [XSock.step]
          have := ih (s.step dns .transportsReady) (by omega)
          simp only [XSock.run, List.foldl_cons] at this ⊢
          rw [this, h1]; omega
        | resolved =>
          by_cases hq : s.queue.length < 10
          · have key : ((s.step dns .resolved).held.count x = s.held.count x) ∧
                (s.step dns .resolved).queue.length + (s.step dns .resolved).pending.length ≤ s.queue.length + s.pending.length := by
              simp only [XSock.step]
              split
              · simp
              · rename_i i hh pp r hp
                have h1 := XSock.sendIp_held { s with pending := r } i (dns hh, pp) (by simpa using hq) x
                have h2 := XSock.sendIp_load { s with pending := r } i (dns hh, pp) (by simpa using hq)
                constructor
                · rw [h1]
                  simp only [XSock.held, hp, List.map_append, List.count_append, List.map_cons, count_cons', List.count_nil]
                  omega
                · simp only [hp, List.length_cons] at h2 ⊢; omega
            have := ih (s.step dns .resolved) (by omega)
            simp only [XSock.run, List.foldl_cons] at this ⊢
            rw [this, key.1]; simp [XEv.sentId]
          · -- queue full (10) means nothing is pending (load ≤ 10)
            have hp : s.pending = [] := by
              cases hpp : s.pending with
              | nil => rfl
              | cons a b => rw [hpp] at h; simp at h; omega
            have hst : s.step dns .resolved = s := by simp [XSock.step, hp]
            have := ih s (by omega)
            simp only [XSock.run, List.foldl_cons, hst] at this ⊢
            rw [this]; simp [XEv.sentId]
    · -- a send
      have hl : 1 ≤ ev.sentId.length := by
        cases ev <;> simp [XEv.sentId] at hs ⊢
      obtain ⟨h1, h2⟩ := XSock.step_held dns s ev (by omega) x
      have := ih (s.step dns ev) (by omega)
      simp only [XSock.run, List.foldl_cons] at this ⊢
      rw [this, h1]; omega

/-! ### whatever `send_cell` puts on the wire without the plaintext flag carries at least one layer -/
variable {A : Aead}

theorem earlyStep_cell (nd : Node A) (c : Cell) :
    (earlyStep nd c).2.plaintext = c.plaintext ∧ (earlyStep nd c).2.msg = c.msg ∧ (earlyStep nd c).2.cid = c.cid := by
  unfold earlyStep; split <;> simp

theorem earlyStep_noKey (nd : Node A) (c : Cell) :
    noKeyToSend (earlyStep nd c).1 (earlyStep nd c).2 = noKeyToSend nd c := by
  unfold earlyStep
  split
  · rename_i ce hc
    simp only [noKeyToSend, hc]
    have hl : ∀ ce', List.lookup c.cid (setEntry c.cid ce' nd.circuits) = some ce' :=
      fun ce' => lookup_setEntry_self c.cid ce' ce nd.circuits hc
    rw [hl]
    simp only
    split <;> rfl
  · rfl

theorem encryptCell_cons_msg (d : Dir) (ctr : Nat) (k : A.Key) (ks : List A.Key) (c : Cell) (hp : c.plaintext = false) :
    (encryptCell A d ctr (k :: ks) c).msg = A.enc k d ctr (encLayers A d (withNonces A (ctr + 1) ks) c.msg) ∧
    (encryptCell A d ctr (k :: ks) c).plaintext = false ∧ (encryptCell A d ctr (k :: ks) c).cid = c.cid := by
  simp [encryptCell, hp, withNonces, encLayers]

theorem encryptCell_flags (d : Dir) (ctr : Nat) (ks : List A.Key) (c : Cell) :
    (encryptCell A d ctr ks c).plaintext = c.plaintext ∧ (encryptCell A d ctr ks c).cid = c.cid := by
  unfold encryptCell; split <;> simp

/-- the crypto step of `send_cell`: if the cell is not flagged plaintext and something is sent, the outermost thing is
    an AEAD ciphertext and the body is at least one overhead longer than the message (so it is not the message) -/
theorem outgoing_wraps (L : A.Laws) (nd : Node A) (c c' : Cell) (hp : c.plaintext = false) (h : outgoingCrypto nd c = some c') :
    c'.plaintext = false ∧ c'.cid = c.cid ∧ (∃ (k : A.Key) (d : Dir) (n : Nat) (inner : Bytes), c'.msg = A.enc k d n inner) ∧
      c.msg.length + L.ovh ≤ c'.msg.length := by
  unfold outgoingCrypto at h
  split at h
  · cases h
  · rename_i hg
    split at h
    · -- own circuit
      rename_i ce hc
      have hne : ce.hops ≠ [] := by
        intro h0; simp [noKeyToSend, hp, hc, h0] at hg
      obtain ⟨k, ks, hks⟩ := List.exists_cons_of_ne_nil hne
      cases hhs : ce.hs with
      | none =>
        simp only [hhs, hks] at h
        cases h
        obtain ⟨h1, h2, h3⟩ := encryptCell_cons_msg .fwd nd.ctr k ks c hp
        refine ⟨h2, h3, ⟨k, .fwd, nd.ctr, _, h1⟩, ?_⟩
        rw [h1, L.len_enc, encLayers_length L]; omega
      | some hk =>
        simp only [hhs, hks] at h
        cases h
        have hp1 : (encryptCell A (hsDirOut ce.ctype) (nd.ctr + (k :: ks).length) [hk] c).plaintext = false := by
          rw [(encryptCell_flags _ _ _ _).1, hp]
        obtain ⟨h1, h2, h3⟩ := encryptCell_cons_msg .fwd nd.ctr k ks _ hp1
        refine ⟨h2, by rw [h3, (encryptCell_flags _ _ _ _).2], ⟨k, .fwd, nd.ctr, _, h1⟩, ?_⟩
        rw [h1, L.len_enc, encLayers_length L]
        have : (encryptCell A (hsDirOut ce.ctype) (nd.ctr + (k :: ks).length) [hk] c).msg.length = c.msg.length + L.ovh := by
          simp [encryptCell, hp, withNonces, encLayers, L.len_enc]
        omega
    · split at h
      · rename_i xe hx
        cases h
        obtain ⟨h1, h2, h3⟩ := encryptCell_cons_msg .bwd nd.ctr xe.key [] c hp
        refine ⟨h2, h3, ⟨xe.key, .bwd, nd.ctr, _, h1⟩, ?_⟩
        rw [h1, L.len_enc]; simp [withNonces, encLayers]
      · split at h
        · rename_i re hr
          split at h
          · cases h
            obtain ⟨h1, h2, h3⟩ := encryptCell_cons_msg .bwd nd.ctr re.key [] c hp
            refine ⟨h2, h3, ⟨re.key, .bwd, nd.ctr, _, h1⟩, ?_⟩
            rw [h1, L.len_enc]; simp [withNonces, encLayers]
          · split at h
            · rename_i other ho
              cases h
              obtain ⟨h1, h2, h3⟩ := encryptCell_cons_msg other.dir nd.ctr other.key [] c hp
              refine ⟨h2, h3, ⟨other.key, other.dir, nd.ctr, _, h1⟩, ?_⟩
              rw [h1, L.len_enc]; simp [withNonces, encLayers]
            · cases h
        · -- no entry at all: the guard has already refused
          rename_i _ hc0 _ hx0 _ hr0
          simp [noKeyToSend, hp, hc0, hx0, hr0] at hg

/-! ### strict versions: a cell whose plaintext flag is NOT set and whose body is not genuine is delivered nowhere -/

theorem walk_fwd_tampered_strict (L : A.Laws) (re : Bool) (cid xa xc : Nat) (nodes : List (Node A)) (keys : List A.Key)
    (h : FwdChain re cid nodes keys xa xc) (c : Cell) (hcid : c.cid = cid) (hpt : c.plaintext = false)
    (hbad : ∀ (kn : List (A.Key × Nat)) (m : Bytes), kn.map Prod.fst = keys → c.msg ≠ encLayers A .fwd kn m)
    (a : Nat) (c' : Cell) : (walk nodes c).2 ≠ .delivered a c' := by
  intro hd
  have h1 := walk_fwd_tampered L re cid xa xc nodes keys h c hcid hbad a c' hd
  -- the delivered cell would carry the plaintext flag, but no node ever sets it
  clear hbad
  induction h generalizing c with
  | exit nd k cid prev hr hx hmax =>
    subst hcid
    cases hact : (processCell nd c).2 with
    | drop r => rw [walk_drop nd [] c r hact] at hd; cases hd
    | forward tgt c2 => exact absurd hact (endpoint_no_forward nd c c2 tgt hr)
    | deliver c2 =>
      rw [walk_deliver nd [] c c2 hact] at hd
      have hcc : c2 = c' := by injection hd
      subst hcc
      obtain ⟨_, h2, _⟩ := exit_deliver_inv L nd c c2 k prev hr hx hact
      rw [h2, hpt] at h1; cases h1
  | relay nd nx rest k ks cid cid' early xa xc hl hre _ ih =>
    subst hcid
    cases hact : (processCell nd c).2 with
    | drop r => rw [walk_drop nd _ c r hact] at hd; cases hd
    | deliver c2 => exact absurd hact (relay_no_deliver nd c c2 _ hl)
    | forward tgt c2 =>
      obtain ⟨_, ht, h3, h4, _, _⟩ := relay_fwd_forward_inv L nd c c2 cid' nx.addr early tgt k hl hact
      subst ht
      rw [walk_forward nd nx rest c c2 nx.addr hact rfl] at hd
      exact ih c2 h3 h4 hd

theorem walk_bwd_tampered_strict (L : A.Laws) (cid oa oc : Nat) (nodes : List (Node A)) (ks : List A.Key)
    (h : BwdChain cid nodes ks oa oc) (c : Cell) (hcid : c.cid = cid) (hpt : c.plaintext = false)
    (hbad : ∀ (kn : List (A.Key × Nat)) (m : Bytes), kn.map Prod.fst = ks → c.msg ≠ encLayers A .bwd kn m)
    (a : Nat) (c' : Cell) : (walk nodes c).2 ≠ .delivered a c' := by
  intro hd
  have h1 := walk_bwd_tampered L cid oa oc nodes ks h c hcid hbad a c' hd
  clear hbad
  induction h generalizing c with
  | orig nd ce cid ks hr hx hc hh hs _ hmax =>
    subst hcid
    cases hact : (processCell nd c).2 with
    | drop r => rw [walk_drop nd [] c r hact] at hd; cases hd
    | forward tgt c2 => exact absurd hact (endpoint_no_forward nd c c2 tgt hr)
    | deliver c2 =>
      rw [walk_deliver nd [] c c2 hact] at hd
      have hcc : c2 = c' := by injection hd
      subst hcc
      obtain ⟨_, h2, _⟩ := orig_deliver_inv L nd c c2 ce hr hx hc hs hact
      rw [h2, hpt] at h1; cases h1
  | relay nd nx rest k ks cid cid' early oa oc hl _ ih =>
    subst hcid
    cases hact : (processCell nd c).2 with
    | drop r => rw [walk_drop nd _ c r hact] at hd; cases hd
    | deliver c2 => exact absurd hact (relay_no_deliver nd c c2 _ hl)
    | forward tgt c2 =>
      obtain ⟨_, ht, h3, h4, _, _⟩ := relay_bwd_forward_inv nd c c2 cid' nx.addr early tgt k hl hact
      subst ht
      rw [walk_forward nd nx rest c c2 nx.addr hact rfl] at hd
      exact ih c2 h3 h4 hd

/-! ### symbolic (Dolev–Yao) reading of a link body: what an observer who holds the keys `K` can open -/

/-- `Opens A K b y`: starting from the observed bytes `b`, repeatedly removing an outermost AEAD layer whose key is in `K`
    reaches `y`.  (This is the attacker model, not a law of the AEAD: the only way into a ciphertext is its key.) -/
inductive Opens (A : Aead) (K : A.Key → Prop) : Bytes → Bytes → Prop
  | seen (b : Bytes) : Opens A K b b
  | peel (b : Bytes) (k : A.Key) (d : Dir) (n : Nat) (x : Bytes) : Opens A K b (A.enc k d n x) → K k → Opens A K b x

theorem opens_layers (L : A.Laws) (K : A.Key → Prop) (d : Dir) (kn : List (A.Key × Nat)) (m y : Bytes)
    (h : Opens A K (encLayers A d kn m) y) :
    (∃ pre suf, kn = pre ++ suf ∧ y = encLayers A d suf m ∧ ∀ p ∈ pre, K p.1) ∨
    ((∀ p ∈ kn, K p.1) ∧ Opens A K m y) := by
  induction h with
  | seen => exact Or.inl ⟨[], kn, rfl, rfl, by simp⟩
  | peel k d' n x _ hk ih =>
    rcases ih with ⟨pre, suf, hsplit, hy, hpre⟩ | ⟨hall, hop⟩
    · cases suf with
      | nil =>
        -- the payload itself happens to be a ciphertext: every hop key was needed to get here
        refine Or.inr ⟨by intro p hp; exact hpre p (by simpa [hsplit] using hp), ?_⟩
        simp only [encLayers] at hy
        exact Opens.peel m k d' n x (by rw [hy]; exact Opens.seen m) hk
      | cons p suf' =>
        obtain ⟨k0, n0⟩ := p
        simp only [encLayers] at hy
        obtain ⟨h1, _, h3⟩ := L.sep _ _ _ _ _ _ _ _ hy
        refine Or.inl ⟨pre ++ [(k0, n0)], suf', by simp [hsplit], h3, ?_⟩
        intro q hq
        simp only [List.mem_append, List.mem_singleton] at hq
        rcases hq with hq | hq
        · exact hpre q hq
        · subst hq; exact h1 ▸ hk
    · exact Or.inr ⟨hall, Opens.peel m k d' n x hop hk⟩

/-! ### anonymizing endpoint: every packet handed to `send` is queued or sent, once, with its own destination -/

theorem TEp.send_count (s : TEp) (ready : Bool) (x y : Nat × Nat) (h : s.queue.length < 100) :
    ((s.send ready x).out ++ (s.send ready x).queue).count y = (s.out ++ s.queue).count y + [x].count y := by
  unfold TEp.send
  cases ready with
  | true => simp only [if_true, List.append_nil, List.count_append, List.count_cons, List.count_nil]; omega
  | false =>
    have : pushCap100 x s.queue = s.queue ++ [x] := by unfold pushCap100; rw [if_neg (by omega)]
    simp only [Bool.false_eq_true, if_false, this, List.count_append, List.count_cons, List.count_nil]; omega

theorem TEp.send_queue_len (s : TEp) (ready : Bool) (x : Nat × Nat) (h : s.queue.length < 100) :
    (s.send ready x).queue.length ≤ s.queue.length + 1 := by
  unfold TEp.send
  cases ready with
  | true => simp
  | false =>
    have : pushCap100 x s.queue = s.queue ++ [x] := by unfold pushCap100; rw [if_neg (by omega)]
    simp [this]

theorem TEp.run_count (evs : List (Bool × (Nat × Nat))) (s : TEp) (h : s.queue.length + evs.length ≤ 100) (y : Nat × Nat) :
    ((s.run evs).out ++ (s.run evs).queue).count y = (s.out ++ s.queue).count y + (evs.map Prod.snd).count y := by
  induction evs generalizing s with
  | nil => simp [TEp.run]
  | cons e evs ih =>
    simp only [List.length_cons] at h
    have h1 := TEp.send_count s e.1 e.2 y (by omega)
    have h2 := TEp.send_queue_len s e.1 e.2 (by omega)
    have := ih (s.send e.1 e.2) (by omega)
    simp only [TEp.run, List.foldl_cons, List.map_cons, List.count_cons] at this ⊢
    simp only [List.count_cons, List.count_nil] at h1
    rw [this, h1]; omega

/-! ### exit socket: every datagram is (to be) sent to the address it was handed over with — the resolved host, ITS port -/

/-- every item in `out`/`queue` is an expected (datagram, address) pair of `E`, every pending item resolves to one -/
def XSock.faithful (dns : Nat → Nat) (E : List XItem) (s : XSock) : Prop :=
  (∀ x ∈ s.out ++ s.queue, x ∈ E) ∧ (∀ x ∈ s.pending, (x.1, (dns x.2.1, x.2.2)) ∈ E)

theorem mem_pushCap (x y : XItem) (q : List XItem) (h : y ∈ pushCap x q) : y = x ∨ y ∈ q := by
  unfold pushCap at h
  split at h
  · simp only [List.mem_append, List.mem_singleton] at h
    rcases h with h | h
    · exact Or.inr (List.mem_of_mem_drop h)
    · exact Or.inl h
  · simp only [List.mem_append, List.mem_singleton] at h
    rcases h with h | h
    · exact Or.inr h
    · exact Or.inl h

theorem XSock.sendIp_faithful (dns : Nat → Nat) (E : List XItem) (s : XSock) (i : Nat) (a : Nat × Nat)
    (h : s.faithful dns E) (hx : (i, a) ∈ E) : (s.sendIp i a).faithful dns E := by
  obtain ⟨h1, h2⟩ := h
  unfold XSock.sendIp
  split
  · refine ⟨?_, h2⟩
    intro x hxm
    simp only [List.mem_append, List.mem_singleton] at hxm
    rcases hxm with (hxm | hxm) | hxm
    · exact h1 x (by simp [hxm])
    · subst hxm; exact hx
    · exact h1 x (by simp [hxm])
  · refine ⟨?_, h2⟩
    intro x hxm
    simp only [List.mem_append] at hxm
    rcases hxm with hxm | hxm
    · exact h1 x (by simp [hxm])
    · rcases mem_pushCap _ _ _ hxm with rfl | hq
      · exact hx
      · exact h1 x (by simp [hq])

theorem XSock.faithful_mono (dns : Nat → Nat) (E E' : List XItem) (s : XSock) (h : s.faithful dns E) (hs : ∀ x ∈ E, x ∈ E') :
    s.faithful dns E' :=
  ⟨fun x hx => hs _ (h.1 x hx), fun x hx => hs _ (h.2 x hx)⟩

theorem XSock.step_faithful (dns : Nat → Nat) (E : List XItem) (s : XSock) (ev : XEv) (h : s.faithful dns E) :
    (s.step dns ev).faithful dns (E ++ ev.expected dns) := by
  have hm := XSock.faithful_mono dns E (E ++ ev.expected dns) s h (fun x hx => by simp [hx])
  cases ev with
  | send i d =>
    cases d with
    | ip a p => exact XSock.sendIp_faithful dns _ s i (a, p) hm (by simp [XEv.expected])
    | name hh p =>
      refine ⟨hm.1, ?_⟩
      intro x hx
      simp only [XSock.step, List.mem_append, List.mem_singleton] at hx
      rcases hx with hx | hx
      · exact hm.2 x hx
      · subst hx; simp [XEv.expected]
  | resolved =>
    simp only [XSock.step]
    split
    · exact hm
    · rename_i i hh p r hp
      have hx : (i, (dns hh, p)) ∈ E ++ XEv.expected dns .resolved := hm.2 (i, (hh, p)) (by simp [hp])
      refine XSock.sendIp_faithful dns _ _ i (dns hh, p) ⟨hm.1, ?_⟩ hx
      intro x hxm
      exact hm.2 x (by simp [hp, hxm])
  | transportsReady =>
    refine ⟨?_, hm.2⟩
    intro x hx
    simp only [XSock.step, List.append_nil, List.mem_append] at hx
    exact hm.1 x (by simp only [List.mem_append]; exact hx)

theorem XSock.run_faithful (dns : Nat → Nat) (evs : List XEv) (E : List XItem) (s : XSock) (h : s.faithful dns E) :
    (s.run dns evs).faithful dns (E ++ evs.flatMap (XEv.expected dns)) := by
  induction evs generalizing s E with
  | nil => simpa [XSock.run] using h
  | cons ev evs ih =>
    have := ih (E ++ ev.expected dns) (s.step dns ev) (XSock.step_faithful dns E s ev h)
    simpa [XSock.run, List.append_assoc] using this

end Ipv8.C04
