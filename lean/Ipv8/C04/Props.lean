/-
  C04 — onion circuits deliver data intact and never expose it in transit: the property theorems.

  Every theorem is about the model of Ipv8/C04/Model.lean (which mirrors crypto.py) and holds for every AEAD `A` with
  the law bundle `L : A.Laws` as an explicit hypothesis, for paths of ANY length, payloads of any size, any circuit ids
  and any nonce counters.  A path is given by the tables of its nodes (`FwdChain` / `BwdChain` in Lemmas.lean say what
  the tables of the relays, the exit and the originator of a ready circuit contain); lookups in these tables are part
  of what is proved.  Each theorem is followed by an `example` on a concrete two-hop circuit over the toy AEAD.
-/
import Ipv8.C04.Lemmas

namespace Ipv8.C04
variable {A : Aead}

/-- the hypothesis bundle is satisfiable: the toy scheme is an instance -/
example : Aead.Laws toy := toyLaws

/-- **Forward delivery.**  The originator `o` owns circuit `cid` (hop keys `ce.hops`, no e2e layer) and sends the
    message `m` (first byte `b` = message id, not an EXTEND unless flagged relay_early); `nodes` are the relays and
    the exit of that circuit.  Then the cell leaves the originator layered under all hop keys in hop order, every relay
    peels exactly one layer, the exit `xa` delivers exactly `m`, attributed to the circuit id `xc` under which the exit
    knows the circuit; the bodies seen on the links 0 … n-1 are the layered ciphertexts over the successive hop
    suffixes; no cell on the way is flagged plaintext. -/
theorem forward_delivers (L : A.Laws) (o : Node A) (ce : CircuitE A) (cid first xa xc : Nat) (re0 : Bool)
    (nodes : List (Node A)) (m : Bytes) (b : UInt8)
    (hc : List.lookup cid o.circuits = some ce) (hs : ce.hs = none)
    (hm : m.head? = some b) (hb : (sendEarly m ce.early o.maxEarly) = true ∨ b ≠ 4)
    (hpath : FwdChain (sendEarly m ce.early o.maxEarly) cid nodes ce.hops xa xc) :
    ∃ c0 : Cell,
      (sendCell o first ⟨cid, false, re0, m⟩).2 = some (first, c0) ∧
      c0.plaintext = false ∧
      (walk nodes c0).2 = .delivered xa ⟨xc, false, sendEarly m ce.early o.maxEarly, m⟩ ∧
      c0.msg :: (walk nodes c0).1.map (fun e => e.cell.msg) = sufBodies A .fwd (withNonces A o.ctr ce.hops) m ∧
      ∀ e ∈ (walk nodes c0).1, e.cell.plaintext = false := by
  have hne : ce.hops ≠ [] := by
    generalize ce.hops = hops at hpath
    cases hpath <;> simp
  refine ⟨_, orig_send o first cid re0 m ce hc hs hne, rfl, ?_⟩
  obtain ⟨h1, h2, h3⟩ := walk_fwd L _ cid xa xc nodes ce.hops hpath (withNonces A o.ctr ce.hops) (by simp) m b hm hb
  refine ⟨h1, ?_, fun e he => (h3 e he).1⟩
  rw [h2]
  obtain ⟨k, ks, hks⟩ := List.exists_cons_of_ne_nil hne
  simp [hks, withNonces, sufBodies]

example : (walk [Ex.r, Ex.x] ⟨10, false, true, encLayers toy .fwd Ex.kn2 Ex.msg⟩).2
    = .delivered 2 ⟨11, false, true, Ex.msg⟩ :=
  (walk_fwd toyLaws true 10 2 11 _ _ (Ex.fwd true) Ex.kn2 rfl Ex.msg 1 rfl (Or.inl rfl)).1

/-- **Backward delivery.**  The exit `x` (exit socket for `cid` keyed `k`) sends `m` back; `nodes` are the backward
    relays followed by the originator.  Every relay adds exactly one layer under its own key, the originator `oa`
    removes all of them in hop order and delivers exactly `m`, attributed to its own circuit id `oc` — the circuit
    whose hop keys decrypted the cell.  Read from the originator's side, the bodies on the links are again the layered
    ciphertexts over the successive suffixes of the originator's hop list. -/
theorem backward_delivers (L : A.Laws) (x : Node A) (k : A.Key) (cid prev oa oc : Nat)
    (nodes : List (Node A)) (m : Bytes) (b : UInt8)
    (hc : List.lookup cid x.circuits = none) (hx : List.lookup cid x.exits = some ⟨k, prev⟩)
    (hm : m.head? = some b) (hb : b ≠ 4)
    (hpath : BwdChain cid nodes [k] oa oc) :
    ∃ c0 : Cell,
      (sendCell x prev ⟨cid, false, false, m⟩).2 = some (prev, c0) ∧
      c0.plaintext = false ∧
      (walk nodes c0).2 = .delivered oa ⟨oc, false, false, m⟩ ∧
      (∃ (kn : List (A.Key × Nat)) (nd : Node A) (ce : CircuitE A),
         nodes.getLast? = some nd ∧ List.lookup oc nd.circuits = some ce ∧ kn.map Prod.fst = ce.hops ∧
         (c0.msg :: (walk nodes c0).1.map (fun e => e.cell.msg)).reverse = sufBodies A .bwd kn m) ∧
      ∀ e ∈ (walk nodes c0).1, e.cell.plaintext = false := by
  refine ⟨_, exit_send x prev cid prev false m k hc hx, rfl, ?_⟩
  obtain ⟨h1, new, h2, ⟨nd, ce, hl, hcl, hk⟩, h3⟩ :=
    walk_bwd L cid oa oc nodes [k] hpath [(k, x.ctr)] rfl m b hm hb
  simp only [encLayers_single] at h1 h2 h3
  refine ⟨h1, ⟨new.reverse ++ [(k, x.ctr)], nd, ce, hl, hcl, hk, ?_⟩, fun e he => (h3 e he).1⟩
  rw [h2, ← addBodies_reverse]
  simp [sufBodies, encLayers]

example : (walk [Ex.r, Ex.o] ⟨11, false, false, encLayers toy .bwd [((2 : UInt8), 9)] Ex.msg⟩).2
    = .delivered 0 ⟨10, false, false, Ex.msg⟩ :=
  (walk_bwd toyLaws 11 0 10 _ _ Ex.bwd [((2 : UInt8), 9)] rfl Ex.msg 1 rfl (by decide)).1

/-- **One more layer on every earlier link.**  For the bodies `sufBodies d kn m` seen on the links of one passage
    (link i carries the layers of hops i+1 … n): the body on link i is exactly `(n - i) · ovh` bytes longer than the
    payload, so it has one more layer than the body on link i+1; and the bodies on all links *and the plaintext* are
    pairwise different AS WHOLE BYTE STRINGS.  This is a statement about layer counts and lengths only: `Aead.Laws` has no
    confidentiality law (the toy instance carries the message verbatim inside the body and satisfies every law), so
    "the payload cannot be read from a link body" is NOT proved here; see `payload_needs_all_later_hop_keys` for the
    symbolic version and the oracle `link:plaintext-visible` for the byte-level check on the real AEAD. -/
theorem layers_strictly_decrease (L : A.Laws) (d : Dir) (kn : List (A.Key × Nat)) (m : Bytes) :
    (sufBodies A d kn m).length = kn.length ∧
    (∀ i b, (sufBodies A d kn m)[i]? = some b → b.length = m.length + L.ovh * (kn.length - i)) ∧
    (sufBodies A d kn m ++ [m]).Pairwise (· ≠ ·) :=
  ⟨sufBodies_length d kn m, fun i b h => sufBodies_getElem_length L d kn m b i h, sufBodies_pairwise L d kn m⟩

example : (sufBodies toy .fwd Ex.kn2 Ex.msg).map List.length = [51, 27] := by decide

/-- **Tampered or foreign cells are never delivered (forward).**  Whatever cell — any header flags, any body — arrives
    on a link of a forward path: if its body is not a genuine layered ciphertext for the remaining hops, nothing is
    delivered as circuit data at the exit (the only thing that can still be handed on is a cell that is itself flagged
    plaintext, see `only_create_created_plain`). -/
theorem tampered_dropped_forward (L : A.Laws) (re : Bool) (cid xa xc : Nat) (nodes : List (Node A)) (keys : List A.Key)
    (hpath : FwdChain re cid nodes keys xa xc) (c : Cell) (hcid : c.cid = cid)
    (hbad : ∀ (kn : List (A.Key × Nat)) (m : Bytes), kn.map Prod.fst = keys → c.msg ≠ encLayers A .fwd kn m)
    (a : Nat) (c' : Cell) (hd : (walk nodes c).2 = .delivered a c') : c'.plaintext = true :=
  walk_fwd_tampered L re cid xa xc nodes keys hpath c hcid hbad a c' hd

/-- **Tampered or foreign cells are never delivered (backward).**  Backward relays add their layer without looking;
    the originator refuses every cell that is not a genuine layered ciphertext under its hop keys in hop order. -/
theorem tampered_dropped_backward (L : A.Laws) (cid oa oc : Nat) (nodes : List (Node A)) (ks : List A.Key)
    (hpath : BwdChain cid nodes ks oa oc) (c : Cell) (hcid : c.cid = cid)
    (hbad : ∀ (kn : List (A.Key × Nat)) (m : Bytes), kn.map Prod.fst = ks → c.msg ≠ encLayers A .bwd kn m)
    (a : Nat) (c' : Cell) (hd : (walk nodes c).2 = .delivered a c') : c'.plaintext = true :=
  walk_bwd_tampered L cid oa oc nodes ks hpath c hcid hbad a c' hd

/-- the two theorems above for a cell whose plaintext flag is NOT set (an altered body, an altered circuit id that still
    routes, a foreign cell): it is delivered nowhere.  (When the flag byte itself is set by the attacker the cell is a
    plaintext cell: relays drop it, and an endpoint hands it on only as a create/created message —
    `only_create_created_plain` — i.e. through the unauthenticated circuit-construction path, never as circuit data.) -/
theorem tampered_dropped_strict (L : A.Laws) (re : Bool) (cid a x1 x2 : Nat) (nodes : List (Node A)) (keys : List A.Key)
    (c c' : Cell) (hcid : c.cid = cid) (hpt : c.plaintext = false) :
    (FwdChain re cid nodes keys x1 x2 →
      (∀ (kn : List (A.Key × Nat)) (m : Bytes), kn.map Prod.fst = keys → c.msg ≠ encLayers A .fwd kn m) →
      (walk nodes c).2 ≠ .delivered a c') ∧
    (BwdChain cid nodes keys x1 x2 →
      (∀ (kn : List (A.Key × Nat)) (m : Bytes), kn.map Prod.fst = keys → c.msg ≠ encLayers A .bwd kn m) →
      (walk nodes c).2 ≠ .delivered a c') :=
  ⟨fun h hbad => walk_fwd_tampered_strict L re cid x1 x2 nodes keys h c hcid hpt hbad a c',
   fun h hbad => walk_bwd_tampered_strict L cid x1 x2 nodes keys h c hcid hpt hbad a c'⟩

/-- **A byte altered in flight.**  (Uses the integrity law `tamper1`, which — unlike `dec_iff` — is not a tautology: the toy
    instance has to carry a checksum to satisfy it.)  A body that differs in exactly one byte from a genuine layered
    ciphertext for the hops `k :: ks` is not genuine for them … -/
theorem altered_byte_not_genuine (L : A.Laws) (d : Dir) (k : A.Key) (ks : List A.Key) (kn0 : List (A.Key × Nat)) (m0 body : Bytes)
    (hk0 : kn0.map Prod.fst = k :: ks) (halt : hdist body (encLayers A d kn0 m0) = 1)
    (kn : List (A.Key × Nat)) (m : Bytes) (hk : kn.map Prod.fst = k :: ks) : body ≠ encLayers A d kn m := by
  match kn0, hk0, kn, hk with
  | (k0, n0) :: kn0', hk0, (k1, n1) :: kn', hk =>
    have e0 : k0 = k := by simpa using (List.cons.inj hk0).1
    have e1 : k1 = k := by simpa using (List.cons.inj hk).1
    rw [e0] at halt; rw [e1]
    intro he
    have hnone := L.tamper1 k d n0 _ body (by simpa [encLayers] using halt)
    have hsome : A.dec k d body = some (encLayers A d kn' m) := (L.dec_iff _ _ _ _).2 ⟨n1, by simpa [encLayers] using he⟩
    rw [hnone] at hsome; cases hsome

/-- … so, on a forward path and on a backward path alike, a genuine cell (plaintext flag not set) with ANY ONE BYTE OF ITS BODY
    altered on ANY link is delivered nowhere.  (Header bytes: circuit id → routed elsewhere or unknown, covered by the
    per-node theorems; plaintext flag → `only_create_created_plain`; relay_early flag: not authenticated, see level_note.) -/
theorem altered_byte_dropped (L : A.Laws) (re : Bool) (cid a x1 x2 : Nat) (nodes : List (Node A)) (k : A.Key) (ks : List A.Key)
    (kn0 : List (A.Key × Nat)) (m0 : Bytes) (c c' : Cell) (hcid : c.cid = cid) (hpt : c.plaintext = false)
    (hk0 : kn0.map Prod.fst = k :: ks) :
    (FwdChain re cid nodes (k :: ks) x1 x2 → hdist c.msg (encLayers A .fwd kn0 m0) = 1 → (walk nodes c).2 ≠ .delivered a c') ∧
    (BwdChain cid nodes (k :: ks) x1 x2 → hdist c.msg (encLayers A .bwd kn0 m0) = 1 → (walk nodes c).2 ≠ .delivered a c') :=
  ⟨fun h halt => (tampered_dropped_strict L re cid a x1 x2 nodes (k :: ks) c c' hcid hpt).1 h
      (fun kn m hk => altered_byte_not_genuine L .fwd k ks kn0 m0 c.msg hk0 halt kn m hk),
   fun h halt => (tampered_dropped_strict L re cid a x1 x2 nodes (k :: ks) c c' hcid hpt).2 h
      (fun kn m hk => altered_byte_not_genuine L .bwd k ks kn0 m0 c.msg hk0 halt kn m hk)⟩

/-- the reviewer's witness: the last body byte of a genuine cell altered in flight — with the checksum-carrying toy the relay
    of the example circuit now refuses it -/
example : (walk [Ex.r, Ex.x] ⟨10, false, true, (encLayers toy .fwd Ex.kn2 Ex.msg).dropLast ++ [6]⟩).2
    = .dropped 1 .decryptFail := by decide

/-- **Splices.**  A body whose outermost layer was made under another key (a cell of another circuit) or for the other
    direction (a reflected cell) is not genuine for the hop list `k :: ks`, so the two theorems above apply to it. -/
theorem spliced_not_genuine (L : A.Laws) (d d' : Dir) (k k' : A.Key) (ks : List A.Key) (n : Nat) (x : Bytes)
    (h : k' ≠ k ∨ d' ≠ d) (kn : List (A.Key × Nat)) (m : Bytes) (hk : kn.map Prod.fst = k :: ks) :
    A.enc k' d' n x ≠ encLayers A d kn m :=
  other_layer_not_genuine L d d' k k' ks n x h kn m hk

/-- a cell reflected into the forward direction of the example circuit is dropped by the relay -/
example : (walk [Ex.r, Ex.x] ⟨10, false, false, encLayers toy .bwd Ex.kn2 Ex.msg⟩).2 = .dropped 1 .decryptFail := by decide

/-- **Exactly the genuine ciphertexts are accepted** by the layered decryption of `decrypt_cell`. -/
theorem accepted_iff_genuine (L : A.Laws) (d : Dir) (ks : List A.Key) (body m : Bytes) :
    decLayers A d ks body = some m ↔ ∃ kn : List (A.Key × Nat), kn.map Prod.fst = ks ∧ body = encLayers A d kn m :=
  decLayers_eq_some_iff L d ks body m

/-- what the exit delivers from an encrypted cell is the content of a genuine ciphertext under the exit key, and is
    attributed to the circuit id the cell arrived under -/
theorem exit_delivers_only_genuine (L : A.Laws) (nd : Node A) (c c' : Cell) (k : A.Key) (prev : Nat)
    (hr : List.lookup c.cid nd.relays = none) (hx : List.lookup c.cid nd.exits = some ⟨k, prev⟩)
    (h : (processCell nd c).2 = .deliver c') :
    c'.cid = c.cid ∧ c'.plaintext = c.plaintext ∧ (c.plaintext = false → ∃ n, c.msg = A.enc k .fwd n c'.msg) :=
  exit_deliver_inv L nd c c' k prev hr hx h

/-- what the originator delivers from an encrypted cell is the content of a genuine ciphertext layered under exactly
    the hop keys of the circuit the cell is attributed to -/
theorem originator_delivers_only_genuine (L : A.Laws) (nd : Node A) (c c' : Cell) (ce : CircuitE A)
    (hr : List.lookup c.cid nd.relays = none) (hx : List.lookup c.cid nd.exits = none)
    (hc : List.lookup c.cid nd.circuits = some ce) (hs : ce.hs = none)
    (h : (processCell nd c).2 = .deliver c') :
    c'.cid = c.cid ∧ c'.plaintext = c.plaintext ∧
    (c.plaintext = false → ce.hops ≠ [] ∧
      ∃ kn : List (A.Key × Nat), kn.map Prod.fst = ce.hops ∧ c.msg = encLayers A .bwd kn c'.msg) :=
  orig_deliver_inv L nd c c' ce hr hx hc hs h

/-- **No keys, no delivery.**  On an own circuit that has no hop yet (still waiting for the created message) there is
    no session key at all; every cell that is not flagged plaintext is dropped there, whatever it contains.
    (Before the repair of `incoming_crypto` such a cell passed "decryption under zero keys" and was delivered as
    circuit data — found by this check, see known_findings.d/C04.json.) -/
theorem no_keys_no_delivery (nd : Node A) (c : Cell) (ce : CircuitE A)
    (hr : List.lookup c.cid nd.relays = none) (hx : List.lookup c.cid nd.exits = none)
    (hc : List.lookup c.cid nd.circuits = some ce) (h0 : ce.hops = []) (hp : c.plaintext = false) :
    (processCell nd c).2 = .drop .noKeys := by
  simp [processCell, hr, incomingCrypto_own nd c ce hx hc, h0, hp]

example : (processCell (A := toy)
      { addr := 0, circuits := [(10, ⟨[], 1, none, .data, 1⟩)], relays := [], exits := [], maxEarly := 8, ctr := 0 }
      ⟨10, false, false, [1, 0, 0]⟩).2 = .drop .noKeys := by decide

/-- **Only create/created may be plaintext.**  A cell flagged plaintext whose message id is not 2 or 3 is dropped by
    every node, relay or endpoint, whatever its tables contain. -/
theorem only_create_created_plain (nd : Node A) (c : Cell) (hp : c.plaintext = true)
    (hm : ∀ b, c.msg.head? = some b → b ≠ 2 ∧ b ≠ 3) : (processCell nd c).2.isDrop = true :=
  plaintext_rule nd c hp hm

example : (processCell Ex.x ⟨11, true, false, [1, 0, 0]⟩).2 = .drop .plaintextRule := by decide
example : (processCell Ex.r ⟨10, true, false, [2, 0, 0]⟩).2 = .drop .notEncrypted := by decide

/-! ### end-to-end (hidden-service) circuits

Full statement (kept visible; only the per-node parts below are proved — `e2e_path_partial`):
  for a downloader circuit with hop keys a₁…a_p (a_p = rendezvous point, downloader side), a seeder circuit with hop keys
  b₁…b_q (b_q = rendezvous point, seeder side) and e2e key h: data sent by the downloader is delivered unchanged to the
  seeder and vice versa; the bodies on the links are  enc a_i..a_p F (enc h B m)  before the rendezvous point and
  enc b_j..b_q B (enc h B m)  after it (F/B swapped for the e2e layer in the other direction), so every link carries the
  e2e layer plus at least one hop layer and no two links carry the same bytes.
What is missing: the composition of the per-node steps along the whole e2e path (an `E2EChain` predicate and the
induction over it, as done for `FwdChain`/`BwdChain`).  The per-node steps are proved below; the composed behaviour is
checked against the real code by the e2e scenario of the correspondence run (3 links, both directions). -/

/-- **The rendezvous point never sees below its own layer.**  It strips the downloader-side hop layer, adds the
    seeder-side one (backward direction) and passes the content on untouched; when that content is an e2e ciphertext,
    what it emits is still two layers away from the payload and differs from what it received. -/
theorem rendezvous_never_plain (L : A.Laws) (nd : Node A) (cid cid' nxt nxt' e e' n n' : Nat) (kD kS hk : A.Key)
    (dS dh : Dir) (m : Bytes)
    (h1 : List.lookup cid nd.relays = some ⟨cid', kD, .fwd, true, nxt, e⟩)
    (h2 : List.lookup cid' nd.relays = some ⟨cid, kS, dS, true, nxt', e'⟩) :
    (processCell nd ⟨cid, false, false, A.enc kD .fwd n (A.enc hk dh n' m)⟩).2 =
      .forward nxt ⟨cid', false, false, A.enc kS .bwd nd.ctr (A.enc hk dh n' m)⟩ ∧
    (A.enc kS .bwd nd.ctr (A.enc hk dh n' m)).length = m.length + 2 * L.ovh ∧
    A.enc kS .bwd nd.ctr (A.enc hk dh n' m) ≠ A.enc kD .fwd n (A.enc hk dh n' m) ∧
    A.enc kS .bwd nd.ctr (A.enc hk dh n' m) ≠ m := by
  refine ⟨rendezvous_step L nd cid cid' nxt nxt' e e' n kD kS dS false _ h1 h2 (by simp), ?_, ?_, ?_⟩
  · rw [L.len_enc, L.len_enc]; omega
  · intro h; exact absurd (L.sep _ _ _ _ _ _ _ _ h).2.1 (by decide)
  · intro h
    have := congrArg List.length h
    rw [L.len_enc, L.len_enc] at this
    have := L.ovh_pos
    omega

/-- the owner of an e2e circuit wraps the message in the end-to-end layer and then in every hop layer -/
theorem e2e_sender_wraps (nd : Node A) (c : Cell) (ce : CircuitE A) (hk : A.Key) (hp : c.plaintext = false)
    (hc : List.lookup c.cid nd.circuits = some ce) (hs : ce.hs = some hk) (hne : ce.hops ≠ []) :
    outgoingCrypto nd c = some { c with msg := encLayers A .fwd (withNonces A nd.ctr ce.hops)
                                                  (A.enc hk (hsDirOut ce.ctype) (nd.ctr + ce.hops.length) c.msg) } :=
  e2e_outgoing nd c ce hk hp hc hs hne

/-- what the owner of an e2e circuit delivers is the content of a genuine e2e ciphertext inside genuine hop layers -/
theorem e2e_delivers_only_genuine (L : A.Laws) (nd : Node A) (c c' : Cell) (ce : CircuitE A) (hk : A.Key)
    (hr : List.lookup c.cid nd.relays = none) (hx : List.lookup c.cid nd.exits = none)
    (hc : List.lookup c.cid nd.circuits = some ce) (hs : ce.hs = some hk) (hp : c.plaintext = false)
    (h : (processCell nd c).2 = .deliver c') :
    c'.cid = c.cid ∧ ∃ (kn : List (A.Key × Nat)) (n : Nat), kn.map Prod.fst = ce.hops ∧
      c.msg = encLayers A .bwd kn (A.enc hk (hsDirIn ce.ctype) n c'.msg) :=
  e2e_deliver_inv L nd c c' ce hk hr hx hc hs hp h

/-- the two ends use matching directions for the e2e layer, and an end never accepts an e2e ciphertext it made itself
    (a cell reflected by the rendezvous point is refused) -/
theorem e2e_path_partial (L : A.Laws) (hk : A.Key) (n : Nat) (m : Bytes) :
    hsDirOut .rpDownloader = hsDirIn .rpSeeder ∧ hsDirOut .rpSeeder = hsDirIn .rpDownloader ∧
    A.dec hk (hsDirIn .rpDownloader) (A.enc hk (hsDirOut .rpDownloader) n m) = none ∧
    A.dec hk (hsDirIn .rpSeeder) (A.enc hk (hsDirOut .rpSeeder) n m) = none :=
  ⟨hsDir_match.1, hsDir_match.2.1,
   dec_other_none L n m (Or.inr hsDir_match.2.2.1), dec_other_none L n m (Or.inr hsDir_match.2.2.2)⟩

/-- a rendezvous node over the toy AEAD: circuit 20 (downloader side, key 3) ↔ circuit 21 (seeder side, key 4) -/
example : (processCell (A := toy)
      { addr := 5, circuits := [], exits := [], maxEarly := 8, ctr := 2,
        relays := [(20, ⟨21, (3 : UInt8), .fwd, true, 6, 1⟩), (21, ⟨20, (4 : UInt8), .fwd, true, 7, 1⟩)] }
      ⟨20, false, false, toyEnc 3 .fwd 0 (toyEnc 9 .bwd 0 Ex.msg)⟩).2
    = .forward 6 ⟨21, false, false, toyEnc 4 .bwd 2 (toyEnc 9 .bwd 0 Ex.msg)⟩ := by decide

/-! ### the last step: from the decrypted DATA message to the application (`on_data`) -/

/-- **Every payload of an end-to-end circuit reaches `on_raw_data`**, whatever it looks like (IPv8-looking, BitTorrent-
    looking, empty, …), on the downloader's and on the seeder's circuit alike: the circuit *type* decides. -/
theorem e2e_data_reaches_raw (ct : CType) (h : isE2EType ct = true) (pfx data : Bytes) (tunnelEp destZero : Bool)
    (exitIds : List UInt8) :
    onDataSink (some ct) true true true pfx tunnelEp destZero data exitIds = .raw := by
  simp [onDataSink, h]

/-- on every other own circuit exactly the IPv8-looking payloads are diverted: a packet with the tunnel community's own
    prefix is re-dispatched only when its message id is registered to arrive through an exit (`exit_msg_ids`) and is
    refused otherwise; other prefixes go to the other communities (or nowhere without a TunnelEndpoint); everything that
    is not IPv8-looking reaches `on_raw_data` -/
theorem plain_data_sink (ct : CType) (h : isE2EType ct = false) (pfx data : Bytes) (tunnelEp destZero : Bool)
    (exitIds : List UInt8) :
    onDataSink (some ct) true true true pfx tunnelEp destZero data exitIds =
      (if couldBeIpv8 data then
         (if data.take 22 == pfx then ownPrefixSink exitIds data
          else if tunnelEp then .otherCommunity else .droppedNoTunnelEndpoint)
       else .raw) := by
  simp [onDataSink, h]

/-- in the base TunnelCommunity (no message registered to arrive through an exit) no payload of a DATA cell is ever
    re-dispatched as a cell message -/
theorem nothing_redispatched_without_registration (own : Option CType) (o f si t z : Bool) (pfx data : Bytes) :
    onDataSink own o f si pfx t z data (genBaseExitIds.map UInt8.ofNat) ≠ .ownPacket := by
  have h0 : ownPrefixSink (genBaseExitIds.map UInt8.ofNat) data ≠ .ownPacket := by
    unfold ownPrefixSink; split <;> simp [genBaseExitIds]
  unfold onDataSink
  cases own <;> simp <;> (repeat' split) <;> simp [h0]

example : onDataSink (some .rpSeeder) true true true [0, 2] false true
    ([0, 2] ++ List.replicate 30 (7 : UInt8)) = .raw := by decide
example : onDataSink (some .data) true true true ([0, 2] ++ List.replicate 20 (7 : UInt8)) false true
    ([0, 2] ++ List.replicate 30 (7 : UInt8)) [7] = .ownPacket := by decide
example : onDataSink (some .data) true true true ([0, 2] ++ List.replicate 20 (7 : UInt8)) false true
    ([0, 2] ++ List.replicate 30 (7 : UInt8)) [13, 14] = .droppedNestedData := by decide

/-- **Data from a foreign address is never taken for circuit data.**  `on_data` treats a DATA message as data of an own
    circuit only if the FULL address (ip and port) of the peer that delivered it equals the circuit's first hop; this also
    holds for DATA messages nested in a tunnel-community packet that came back through the exit (their "delivering
    peer" is the Internet origin).  From any other address the message takes the exit branch, never a local sink. -/
theorem foreign_source_never_local (ct : CType) (src hop : Nat × Nat) (h : src ≠ hop) (pfx data : Bytes)
    (tunnelEp destZero originSet : Bool) :
    onDataSink (some ct) originSet (fromFirstHop src hop) (sameIp src hop) pfx tunnelEp destZero data [] =
      (if destZero then .droppedZeroDest else .exitSocket) := by
  have hf : fromFirstHop src hop = false := by
    obtain ⟨a, b⟩ := src; obtain ⟨c, d⟩ := hop
    simp only [fromFirstHop]
    by_cases h1 : a = c
    · have : b ≠ d := fun h2 => h (by rw [h1, h2])
      simp [h1, this]
    · simp [h1]
  simp [onDataSink, hf]

example : fromFirstHop (167772161, 5000) (167772161, 6000) = false := by decide   -- same IP, other port

/-! ### the exit's outside socket -/

/-- Full statement wanted: for EVERY schedule in which at most 10 datagrams wait in the queue at any one time, nothing
    handed to `sendto` is lost or duplicated.  Proved part (`_partial`): schedules in which the datagrams already waiting
    plus ALL datagrams handed over in the schedule number at most 10 (a stronger bound than "at most 10 waiting at a
    time": a ready socket forwarding an 11th datagram is outside this theorem).  Also outside the model `XSock`: a failed
    or cancelled resolution (the code loses that datagram), resolutions completing out of order, the policy check, the
    null-address filter, the separate readiness of the v4 and v6 transports, anything after `close()`.
    Within that: for every interleaving of `sendto` calls (literal addresses and host names, any number of them for the same
    host), resolutions completing and the transports becoming ready, every datagram is, exactly as often as it was handed
    over, either emitted, queued or awaiting its resolution. -/
theorem exit_socket_conserves_partial (dns : Nat → Nat) (evs : List XEv) (s : XSock)
    (h : s.queue.length + s.pending.length + (evs.flatMap XEv.sentId).length ≤ 10) (x : Nat) :
    (s.run dns evs).held.count x = s.held.count x + (evs.flatMap XEv.sentId).count x :=
  XSock.run_held dns evs s h x

/-- three datagrams for one host name, two different ports, while the transports are still being created: all three leave,
    once each, each to the resolved host and ITS OWN port -/
example : ((XSock.run (fun h => h + 100) {}
      [.send 1 (.name 7 80), .send 2 (.name 7 6881), .send 3 (.name 7 80), .resolved, .transportsReady, .resolved, .resolved]).out
    = [(1, (107, 80)), (2, (107, 6881)), (3, (107, 80))]) := by decide

/-- **Every datagram leaves for the address it was handed over with.**  Whatever the schedule (no bound needed): each item the
    exit socket has emitted or still queues is a pair (datagram, address) with address = the literal destination, or the
    resolved host together with the port of THAT datagram's destination; pending resolutions will yield such a pair. -/
theorem exit_socket_addresses (dns : Nat → Nat) (evs : List XEv) :
    ∀ x ∈ ((XSock.run dns {} evs).out ++ (XSock.run dns {} evs).queue), x ∈ evs.flatMap (XEv.expected dns) := by
  have h := XSock.run_faithful dns evs [] {} ⟨by simp, by simp⟩
  simpa using h.1

/-- **Nothing leaves `send_cell` in clear.**  For every node, whatever its tables contain (circuit being built, ready,
    closing, exit socket retired or not, entries half removed): a cell that is not flagged plaintext is either not sent
    at all, or its body is an AEAD ciphertext at least one overhead longer than the message — in particular not the
    message.  (Mirrors the guard added to `outgoing_crypto` by fix bea4e39; before it a circuit id without any table
    entry made the cell leave unencrypted, which happened to return traffic while `remove_exit_socket` was closing the
    socket.)  No assumption about the order in which tables and sockets are torn down is needed. -/
theorem sent_cell_never_clear (L : A.Laws) (nd : Node A) (target t : Nat) (c c' : Cell) (hp : c.plaintext = false)
    (h : (sendCell nd target c).2 = some (t, c')) :
    c'.plaintext = false ∧ c'.cid = c.cid ∧ (∃ (k : A.Key) (d : Dir) (n : Nat) (inner : Bytes), c'.msg = A.enc k d n inner) ∧
      c.msg.length + L.ovh ≤ c'.msg.length ∧ c'.msg ≠ c.msg := by
  obtain ⟨e1, e2, e3⟩ := earlyStep_cell nd c
  unfold sendCell at h
  split at h
  · cases h
  · rename_i c2 ho
    simp only [Option.some.injEq, Prod.mk.injEq] at h
    obtain ⟨_, rfl⟩ := h
    obtain ⟨a1, a2, a3, a4⟩ := outgoing_wraps L _ _ c2 (by rw [e1, hp]) ho
    rw [e2] at a4
    refine ⟨a1, by rw [a2, e3], a3, a4, ?_⟩
    intro he
    rw [he] at a4
    have := L.ovh_pos
    omega

/-- a cell for a circuit id that no table knows, or for an own circuit without hops, is not sent at all -/
theorem no_key_nothing_sent (nd : Node A) (target : Nat) (c : Cell) (h : noKeyToSend nd c = true) :
    (sendCell nd target c).2 = none := by
  have h' := earlyStep_noKey nd c
  rw [h] at h'
  simp [sendCell, outgoingCrypto, h']

example : (sendCell Ex.x 1 ⟨999, false, false, Ex.msg⟩).2 = none := by decide

/-- **Symbolic secrecy of the payload on a link.**  In the Dolev–Yao reading (`Opens`: the only way into a ciphertext is
    its key) an observer who lacks the key of at least one of the hops that still follow can open the body on that link
    only down to layered ciphertexts of the payload, never to the payload itself.  This is a theorem about the attacker
    MODEL; that the real AEAD admits no other way in is the (unproved, computational) confidentiality assumption. -/
theorem payload_needs_all_later_hop_keys (L : A.Laws) (K : A.Key → Prop) (d : Dir) (kn : List (A.Key × Nat)) (m y : Bytes)
    (hmiss : ∃ p ∈ kn, ¬ K p.1) (h : Opens A K (encLayers A d kn m) y) :
    ∃ suf, suf ≠ [] ∧ y = encLayers A d suf m ∧ m.length < y.length := by
  obtain ⟨p, hp, hnk⟩ := hmiss
  rcases opens_layers L K d kn m y h with ⟨pre, suf, hsplit, hy, hpre⟩ | ⟨hall, _⟩
  · refine ⟨suf, ?_, hy, ?_⟩
    · intro h0; subst h0
      exact hnk (hpre p (by simpa [hsplit] using hp))
    · have hne : suf ≠ [] := by
        intro h0; subst h0
        exact hnk (hpre p (by simpa [hsplit] using hp))
      obtain ⟨q, suf', rfl⟩ := List.exists_cons_of_ne_nil hne
      rw [hy, encLayers_length L]
      have := L.ovh_pos
      simp only [List.length_cons, Nat.mul_add, Nat.mul_one]; omega
  · exact absurd (hall p hp) hnk

/-- **IPv8-shaped return traffic reaches exactly the anonymized overlay it is addressed to.**  Overlay `i` is in the delivery
    set of a packet handed over by the tunnel iff its prefix is the packet's and it is anonymized; a non-anonymized overlay
    is never in it.  (A specification of `TunnelEndpoint.notify_listeners(..., from_tunnel=True)`; its tie to the code is
    the `tdeliver` correspondence of the tunnel-endpoint scenario.) -/
theorem tunnel_delivery_spec (overlays : List (Bytes × Bool)) (packet : Bytes) (i : Nat) :
    i ∈ tunnelDelivery overlays packet ↔
      ∃ o, overlays[i]? = some o ∧ o.1 = packet.take 22 ∧ o.2 = true := by
  simp only [tunnelDelivery, List.mem_map, List.mem_filter, List.mem_zipIdx_iff_getElem?, Bool.and_eq_true, beq_iff_eq]
  constructor
  · rintro ⟨⟨o, j⟩, ⟨hj, h1, h2⟩, rfl⟩
    exact ⟨o, by simpa using hj, h1, h2⟩
  · rintro ⟨o, ho, h1, h2⟩
    exact ⟨(o, i), ⟨by simpa using ho, h1, h2⟩, rfl⟩

example : tunnelDelivery [(List.replicate 22 1, true), (List.replicate 22 2, false), (List.replicate 22 1, false)]
    (List.replicate 22 1 ++ [9, 9]) = [0] := by decide

/-! ### data entering a circuit through the anonymizing endpoint -/

/-- Full statement wanted: nothing handed to `TunnelEndpoint.send` for an anonymized overlay is lost, duplicated or sent to
    another packet's destination as long as at most 100 packets wait.  Proved (`_partial`): for every history of sends with
    and without a ready circuit in which the packets already waiting plus all packets of the history number at most 100,
    every (destination, packet) pair is — exactly as often as it was handed over — either passed to `send_data` with that
    destination or still queued.  (The model also fixes the ORDER: the current packet first, then the queued ones.) -/
theorem tunnel_endpoint_send_conserves_partial (evs : List (Bool × (Nat × Nat))) (s : TEp)
    (h : s.queue.length + evs.length ≤ 100) (y : Nat × Nat) :
    ((s.run evs).out ++ (s.run evs).queue).count y = (s.out ++ s.queue).count y + (evs.map Prod.snd).count y :=
  TEp.run_count evs s h y

/-- two packets queued while the circuit is being built, a third sent once it is ready: all three leave, each to its own
    destination, the current one first -/
example : ((TEp.run {} [(false, (1, 10)), (false, (2, 20)), (true, (3, 30))]).out = [(3, 30), (1, 10), (2, 20)]) := by decide

/-! ### exit policy at the protocol's minimum sizes; independence of exit sockets -/

/-- the shortest UDP-tracker datagram (8 bytes: action 0..3 + transaction id) counts as BitTorrent traffic, so a BT exit lets it
    out and lets it back in (`is_allowed` is applied in both directions) -/
theorem tracker_min_size_allowed (pfx d : Bytes) (ipv8 : Bool) (h8 : d.length = 8) (ha : actionAt d 0 = true) :
    exitAllows true ipv8 pfx d = true := by
  simp [exitAllows, couldBeBt, couldBeTracker, h8, ha]

example : exitAllows true false [] [0, 0, 0, 3, 9, 9, 9, 9] = true := by decide
example : exitAllows true false [] [0, 0, 0, 3, 9, 9, 9] = false := by decide

/-- an event at the exit socket of one circuit leaves the exit sockets of all other circuits (queue, pending resolutions,
    transports, emitted datagrams) untouched -/
theorem exit_sockets_independent (dns : Nat → Nat) (ms : XMulti) (cid other : Nat) (ev : XEv) (h : other ≠ cid) (x : XSock)
    (hx : (other, x) ∈ ms) : (other, x) ∈ XMulti.step dns ms cid ev := by
  simp only [XMulti.step, List.mem_map]
  refine ⟨(other, x), hx, ?_⟩
  have : (other == cid) = false := by simpa using h
  simp [this]

/-! ### what the model ASSUMES about the shape of the code, as obligations on the generated file

The hand-written model fixes the order in which `outgoing_crypto` / `incoming_crypto` consult the tables, the order in which
`encrypt_cell` / `decrypt_cell` walk the hops (so that hop 0's layer is outermost and is removed first), the plaintext short-cut of
both, the cell header and which messages may be plaintext.  GenCrypto.lean states what the source says today; if it says something
else this theorem stops compiling. -/
theorem generated_structure :
    genOutOrder = [.circuit, .exit, .relay] ∧ genInOrder = [.exit, .circuit] ∧
    genEncryptOutermostIsFirstHop = true ∧ genDecryptStartsAtFirstHop = true ∧
    genEncryptSkipsPlaintext = true ∧ genDecryptSkipsPlaintext = true ∧
    genCellMsgId = 0 ∧ genNoCryptoIds = [2, 3] ∧ genKdfUsesWholeSecret = true ∧
    (∀ i ∈ [1, 6, 7, 19, 20], i ∉ genBaseExitIds ∧ i ∉ genHiddenExitIds) := by decide

/-- the generated directions: forward traffic is made and removed with the FORWARD keys, return traffic with the BACKWARD keys, the
    rendezvous point swaps a forward layer for a backward one, and the two ends of an e2e circuit use opposite directions -/
theorem generated_directions :
    genDirOutCircuit = .fwd ∧ genDirInExit = .fwd ∧ genDirOutExit = .bwd ∧ genDirInCircuit = .bwd ∧ genDirOutRdv = .bwd ∧
    genDirRdvDec = .fwd ∧ genDirRdvEnc = .bwd ∧ genRelayOp .fwd = .dec ∧ genRelayOp .bwd = .enc ∧
    genDirOutHs .rpDownloader = genDirInHs .rpSeeder ∧ genDirOutHs .rpSeeder = genDirInHs .rpDownloader ∧
    genDirOutHs .rpDownloader ≠ genDirInHs .rpDownloader ∧ genDirOutHs .rpSeeder ≠ genDirInHs .rpSeeder := by decide

/-- **A packet of an anonymized overlay never leaves the node in clear**, whether or not a tunnel community is attached, whether or
    not a circuit is ready: it is sent into a circuit, queued, or not sent at all — never handed to the node's own socket.
    (The first test of `TunnelEndpoint.send` is generated from the source.) -/
theorem anonymized_never_direct (s : TEp) (attached ready : Bool) (x : Nat × Nat) :
    (s.sendAny true attached ready x).direct = s.direct := by
  unfold TEp.sendAny
  have h : genTepDirect true attached = false := by cases attached <;> simp
  rw [h]
  cases attached <;> cases ready <;> simp [TEp.send]

example : ((({} : TEp).sendAny true false false (1, 10)).direct = []) := by decide

/-- **A CREATE naming a circuit id that this node already uses is refused** — for an own circuit in ANY state (being built, ready,
    closing: membership in the table is what counts), a relay entry or an exit socket.  (Guard generated from `on_create`.) -/
theorem create_under_known_id_refused (c r x : Bool) :
    genCreateInUse true r x = true ∧ genCreateInUse c true x = true ∧ genCreateInUse c r true = true := by
  cases c <;> cases r <;> cases x <;> simp

end Ipv8.C04
