/-
  C04 model — onion layering of tunnel cells (core Lean only, executable).

  Mirrors ipv8/messaging/anonymization/crypto.py (PythonCryptoEndpoint):
    encrypt_cell / decrypt_cell      → `encryptCell` / `decryptCell`  (`encLayers` / `decLayers`)
    outgoing_crypto / incoming_crypto → `outgoingCrypto` / `incomingCrypto`
    send_cell                        → `sendCell`      (relay_early bookkeeping of the originator included)
    relay_cell                       → `relayCell`     (one layer peeled forward / added backward, rendezvous swap)
    process_cell                     → `processCell`   (relay dispatch, relay_early rule, plaintext rule)
  and community.py `on_cell`'s repeated plaintext rule (`onCellAccepts`).

  The AEAD (`ipv8_rust_tunnels.SessionKeys.encrypt_str/decrypt_str`, ChaCha20-Poly1305 with an explicit counter) is
  an abstract interface `Aead`; its laws are the structure `Aead.Laws` and are only ever *hypotheses* of theorems.
  `toy` is a concrete instance (24 bytes of overhead like the real one) used by the driver and to show that the
  hypothesis bundle is satisfiable.

  Not modelled: hops without keys ("Missing keys" CryptoException — not reachable for hops of a ready circuit),
  `ValueError` from encrypt_str, byte counters and heart beats (statistics), an *empty* decrypted message (the Python
  code raises IndexError or hands an empty cell on, depending on the flags — here: dropped with `emptyMsg`).
-/
import Ipv8.C04.GenCrypto

namespace Ipv8.C04

/-- abstract authenticated encryption with per-direction keys; `n` is the explicit nonce/counter -/
structure Aead where
  Key : Type
  enc : Key → Dir → Nat → Bytes → Bytes
  dec : Key → Dir → Bytes → Option Bytes

/-- Hamming distance of two byte strings; strings of different length are "far" apart -/
def hdist : Bytes → Bytes → Nat
  | [], [] => 0
  | a :: l, b :: r => (if a = b then 0 else 1) + hdist l r
  | _, _ => 1000

/-- the assumed laws (idealised AEAD): hypotheses of the theorems, never axioms -/
structure Aead.Laws (A : Aead) where
  ovh : Nat
  ovh_pos : 0 < ovh
  len_enc : ∀ k d n m, (A.enc k d n m).length = m.length + ovh
  /-- correctness (←) and ciphertext integrity (→): exactly the genuine ciphertexts decrypt -/
  dec_iff : ∀ k d c m, A.dec k d c = some m ↔ ∃ n, c = A.enc k d n m
  /-- key and direction separation, and injectivity in the message -/
  sep : ∀ k d n m k' d' n' m', A.enc k d n m = A.enc k' d' n' m' → k = k' ∧ d = d' ∧ m = m'
  /-- INTEGRITY against alteration in flight: a genuine ciphertext with exactly one byte changed (same length, Hamming
      distance 1) does not decrypt under the same key and direction.  (For ChaCha20-Poly1305 this holds except with
      negligible probability; it is an idealisation like `dec_iff`, but unlike `dec_iff` it is NOT a tautology: an
      instance has to carry a real check — the toy instance carries a checksum byte.) -/
  tamper1 : ∀ k d n m c, hdist c (A.enc k d n m) = 1 → A.dec k d c = none

/-! ### cells -/

structure Cell where
  cid : Nat
  plaintext : Bool
  relayEarly : Bool
  msg : Bytes
  deriving DecidableEq, Repr

section
variable (A : Aead)

/-- `encrypt_cell` body: `for hop in reversed(hops): msg = enc(hop, msg)` — hops[0] ends up outermost.
    Every hop comes with the nonce its key uses for this encryption. -/
def encLayers (d : Dir) : List (A.Key × Nat) → Bytes → Bytes
  | [], m => m
  | (k, n) :: ks, m => A.enc k d n (encLayers d ks m)

/-- `decrypt_cell` body: `for hop in hops: msg = dec(hop, msg)`; the first failure aborts (CryptoException) -/
def decLayers (d : Dir) : List A.Key → Bytes → Option Bytes
  | [], m => some m
  | k :: ks, m =>
    match A.dec k d m with
    | none => none
    | some m' => decLayers d ks m'

/-- nonces used by one `encrypt_cell` call of a node whose counter is `ctr` -/
def withNonces (ctr : Nat) : List A.Key → List (A.Key × Nat)
  | [] => []
  | k :: ks => (k, ctr) :: withNonces (ctr + 1) ks

def encryptCell (d : Dir) (ctr : Nat) (hops : List A.Key) (c : Cell) : Cell :=
  if c.plaintext then c else { c with msg := encLayers A d (withNonces A ctr hops) c.msg }

def decryptCell (d : Dir) (hops : List A.Key) (c : Cell) : Option Cell :=
  if c.plaintext then some c
  else match decLayers A d hops c.msg with
    | none => none
    | some m => some { c with msg := m }

/-! ### routing/key tables of one node (`CryptoEndpoint.circuits / relays / exit_sockets`) -/

structure CircuitE where
  hops : List A.Key          -- keys of circuit.hops, first = adjacent hop
  firstHop : Nat             -- address of circuit.hop
  hs : Option A.Key          -- hs_session_keys
  ctype : CType
  early : Nat                -- relay_early_count

structure RelayE where
  toCid : Nat                -- RelayRoute.circuit_id (the id used on the other side)
  key : A.Key                -- RelayRoute.hop.keys
  dir : Dir
  rendezvous : Bool
  next : Nat                 -- RelayRoute.hop.address
  early : Nat

structure ExitE where
  key : A.Key
  prev : Nat

structure Node where
  addr : Nat
  circuits : List (Nat × CircuitE A)
  relays : List (Nat × RelayE A)
  exits : List (Nat × ExitE A)
  maxEarly : Nat
  ctr : Nat                  -- nonce counter (stands for the per-key explicit salts)

variable {A}

def setEntry {β : Type} (cid : Nat) (v : β) : List (Nat × β) → List (Nat × β)
  | [] => []
  | (c, e) :: t => if c == cid then (c, v) :: t else (c, e) :: setEntry cid v t

/-- direction of the extra end-to-end layer when sending / receiving on an e2e circuit -/
def hsDirOut (ct : CType) : Dir := genDirOutHs ct     -- GENERATED from outgoing_crypto
def hsDirIn (ct : CType) : Dir := genDirInHs ct       -- GENERATED from incoming_crypto

inductive Reason
  | unknownCircuit | noKeys | decryptFail | notEncrypted | tooManyEarly | earlyFlag | plaintextRule | emptyMsg | noOther
  | noRoute | fuel
  deriving DecidableEq, Repr

inductive Action
  | drop (r : Reason)
  | forward (target : Nat) (c : Cell)
  | deliver (c : Cell)
  deriving DecidableEq, Repr

def Action.isDrop : Action → Bool
  | .drop _ => true
  | _ => false

/-- the guard at the top of `outgoing_crypto` (fix bea4e39): a cell that is not flagged plaintext is only sent when some
    key will be applied — own circuit with at least one hop, or an exit socket / relay entry for the circuit id -/
def noKeyToSend (nd : Node A) (c : Cell) : Bool :=
  genNoKeyToSend c.plaintext (List.lookup c.cid nd.circuits).isSome
    (match List.lookup c.cid nd.circuits with
     | some ce => !ce.hops.isEmpty
     | none => false)
    (List.lookup c.cid nd.exits).isSome (List.lookup c.cid nd.relays).isSome      -- GENERATED guard of outgoing_crypto

/-- `outgoing_crypto`; `none` = nothing is sent (the CryptoException of the guard above, caught inside; or the KeyError of
    `self.relays[relay.circuit_id]`, which in the code escapes to the caller of `send_cell`) -/
def outgoingCrypto (nd : Node A) (c : Cell) : Option Cell :=
  if noKeyToSend nd c then none else
  match List.lookup c.cid nd.circuits with
  | some ce =>
    let c1 := match ce.hs with
      | some hk => encryptCell A (hsDirOut ce.ctype) (nd.ctr + ce.hops.length) [hk] c
      | none => c
    some (encryptCell A genDirOutCircuit nd.ctr ce.hops c1)
  | none =>
    match List.lookup c.cid nd.exits with
    | some xe => some (encryptCell A genDirOutExit nd.ctr [xe.key] c)
    | none =>
      match List.lookup c.cid nd.relays with
      | some re =>
        if re.rendezvous then some (encryptCell A genDirOutRdv nd.ctr [re.key] c)
        else match List.lookup re.toCid nd.relays with
          | some other => some (encryptCell A other.dir nd.ctr [other.key] c)
          | none => none
      | none => some c

/-- first byte of the message as a number (`cell.message[0]`; 256 stands for the IndexError of an empty message) -/
def msg0 (m : Bytes) : Nat :=
  match m.head? with
  | some b => b.toNat
  | none => 256

/-- the value `send_cell` assigns to `cell.relay_early` on an own circuit (GENERATED expression) -/
def sendEarly (m : Bytes) (early maxEarly : Nat) : Bool := genSendEarly (msg0 m) early maxEarly

/-- the relay_early bookkeeping at the top of `send_cell` (own circuits only) -/
def earlyStep (nd : Node A) (c : Cell) : Node A × Cell :=
  match List.lookup c.cid nd.circuits with
  | some ce =>
    let early := sendEarly c.msg ce.early nd.maxEarly
    let ce' := if early then { ce with early := ce.early + 1 } else ce
    ({ nd with circuits := setEntry c.cid ce' nd.circuits }, { c with relayEarly := early })
  | none => (nd, c)

/-- `send_cell`: relay_early bookkeeping for own circuits, then `outgoing_crypto`, then the datagram -/
def sendCell (nd : Node A) (target : Nat) (c : Cell) : Node A × Option (Nat × Cell) :=
  match outgoingCrypto (earlyStep nd c).1 (earlyStep nd c).2 with
  | none => ((earlyStep nd c).1, none)
  | some c2 => ({ (earlyStep nd c).1 with ctr := (earlyStep nd c).1.ctr + 8 }, some (target, c2))

/-- own circuit that has no hop (hence no key) yet: still waiting for the created message -/
def noKeysYet (ci : Option (CircuitE A)) (xe : Option (ExitE A)) : Bool :=
  match ci, xe with
  | some ce, none => ce.hops.isEmpty
  | _, _ => false

/-- `incoming_crypto`, exit-socket branch -/
def exitIncoming (k : A.Key) (c : Cell) : Except Reason Cell :=
  match decryptCell A genDirInExit [k] c with
  | none => .error .decryptFail
  | some c1 => .ok c1

/-- `incoming_crypto`, own-circuit branch: all hop layers in hop order, then the end-to-end layer if there is one -/
def ownIncoming (ce : CircuitE A) (c : Cell) : Except Reason Cell :=
  match decryptCell A genDirInCircuit ce.hops c with
  | none => .error .decryptFail
  | some c1 =>
    match ce.hs with
    | some hk =>
      match decryptCell A (hsDirIn ce.ctype) [hk] c1 with
      | none => .error .decryptFail
      | some c2 => .ok c2
    | none => .ok c1

/-- `incoming_crypto` -/
def incomingCrypto (nd : Node A) (c : Cell) : Except Reason Cell :=
  let ci := List.lookup c.cid nd.circuits
  let xe := List.lookup c.cid nd.exits
  let hopsNonEmpty := match ci with
    | some ce => !ce.hops.isEmpty
    | none => false
  if genUnknownCircuit c.plaintext ci.isSome xe.isSome then .error .unknownCircuit          -- GENERATED guards of incoming_crypto
  else if genNoKeysYet c.plaintext ci.isSome hopsNonEmpty xe.isSome then .error .noKeys
  else match xe with
    | some x => exitIncoming x.key c
    | none =>
      match ci with
      | some ce => ownIncoming ce c
      | none => .ok c

/-- the crypto part of `relay_cell` (inside its `try`) -/
def relayCrypto (nd : Node A) (nr : RelayE A) (c : Cell) : Except Reason Cell :=
  if nr.rendezvous then
    match decryptCell A genDirRdvDec [nr.key] c with
    | none => .error .decryptFail
    | some c1 =>
      match List.lookup nr.toCid nd.relays with
      | none => .error .noOther
      | some tr =>
        let c2 := encryptCell A genDirRdvEnc nd.ctr [tr.key] c1
        .ok (if genRdvClearsEarly then { c2 with relayEarly := false } else c2)
  else
    match genRelayOp nr.dir with          -- GENERATED: what a plain relay does per direction
    | .dec =>
      match decryptCell A nr.dir [nr.key] c with
      | none => .error .decryptFail
      | some c1 => .ok c1
    | .enc => .ok (encryptCell A nr.dir nd.ctr [nr.key] c)
    | .nothing => .ok c

/-- `relay_cell` -/
def relayCell (nd : Node A) (c : Cell) : Node A × Action :=
  if genRelayPlaintextDrop c.plaintext then (nd, .drop .notEncrypted)        -- GENERATED guards of relay_cell
  else match List.lookup c.cid nd.relays with
    | none => (nd, .drop .unknownCircuit)
    | some nr =>
      if genRelayEarlyDrop c.relayEarly nr.early nd.maxEarly then (nd, .drop .tooManyEarly)
      else match relayCrypto nd nr c with
        | .error r => (nd, .drop r)
        | .ok c2 =>
          ({ nd with relays := setEntry c.cid { nr with early := nr.early + 1 } nd.relays, ctr := nd.ctr + 1 },
           .forward nr.next { c2 with cid := nr.toCid })

/-- the checks of `process_cell` after `incoming_crypto` (and `on_cell`'s repetition of the plaintext rule) -/
def endpointAccepts (maxEarly : Nat) (c : Cell) : Except Reason Cell :=
  match c.msg.head? with
  | none => .error .emptyMsg
  | some b =>
    if genEndpointEarlyDrop c.relayEarly b.toNat maxEarly then .error .earlyFlag          -- GENERATED guards of process_cell
    else if genEndpointPlaintextDrop c.plaintext b.toNat then .error .plaintextRule
    else .ok c

/-- `process_cell`: what a node does with a cell that arrives from the network -/
def processCell (nd : Node A) (c : Cell) : Node A × Action :=
  match List.lookup c.cid nd.relays with
  | some _ => relayCell nd c
  | none =>
    match incomingCrypto nd c with
    | .error r => (nd, .drop r)
    | .ok c1 =>
      match endpointAccepts nd.maxEarly c1 with
      | .error r => (nd, .drop r)
      | .ok c2 => (nd, .deliver c2)

/-! ### a cell's passage along a list of nodes (theorem level) -/

structure Ev where
  src : Nat
  dst : Nat
  cell : Cell
  deriving DecidableEq, Repr

inductive Final
  | delivered (node : Nat) (c : Cell)
  | dropped (node : Nat) (r : Reason)
  | misrouted (node : Nat)
  deriving DecidableEq, Repr

/-- a cell `c` arrives at the first node of the list; every forward must go to the next node of the list.
    Returns the datagrams put on the wire by the nodes of the list and what finally happened. -/
def walk : List (Node A) → Cell → List Ev × Final
  | [], _ => ([], .misrouted 0)
  | nd :: rest, c =>
    match (processCell nd c).2 with
    | .drop r => ([], .dropped nd.addr r)
    | .deliver c' => ([], .delivered nd.addr c')
    | .forward tgt c' =>
      match rest with
      | [] => ([⟨nd.addr, tgt, c'⟩], .misrouted nd.addr)
      | nx :: _ =>
        if nx.addr = tgt then
          let r := walk rest c'
          (⟨nd.addr, tgt, c'⟩ :: r.1, r.2)
        else ([⟨nd.addr, tgt, c'⟩], .misrouted nd.addr)

/-! ### a whole network (driver level): nodes found by address, bounded number of hops -/

def findNode (net : List (Node A)) (a : Nat) : Option (Node A) := net.find? (fun n => n.addr == a)

def putNode (net : List (Node A)) (nd : Node A) : List (Node A) :=
  net.map (fun n => if n.addr == nd.addr then nd else n)

def run : Nat → List (Node A) → Nat → Nat → Cell → List (Node A) × List Ev × Final
  | 0, net, dst, _, _ => (net, [], .dropped dst .fuel)
  | fuel + 1, net, dst, _src, c =>
    match findNode net dst with
    | none => (net, [], .dropped dst .noRoute)
    | some nd =>
      let (nd', act) := processCell nd c
      let net' := putNode net nd'
      match act with
      | .drop r => (net', [], .dropped dst r)
      | .deliver c' => (net', [], .delivered dst c')
      | .forward tgt c' =>
        let (net'', evs, fin) := run fuel net' tgt dst c'
        (net'', ⟨dst, tgt, c'⟩ :: evs, fin)

/-- a node originates a cell (`TunnelCommunity.send_cell` → `crypto_endpoint.send_cell`) and it travels -/
def originate (fuel : Nat) (net : List (Node A)) (from_ target : Nat) (c : Cell) : List (Node A) × List Ev × Final :=
  match findNode net from_ with
  | none => (net, [], .dropped from_ .noRoute)
  | some nd =>
    match sendCell nd target c with
    | (nd', none) => (putNode net nd', [], .dropped from_ .noOther)
    | (nd', some (tgt, c')) =>
      let (net', evs, fin) := run fuel (putNode net nd') tgt from_ c'
      (net', ⟨from_, tgt, c'⟩ :: evs, fin)

/-! ### where `TunnelCommunity.on_data` hands a decrypted DATA payload (community.py `on_data`)

The decision "is this end-to-end data" is taken from the **circuit type** (`circuit.ctype ∈ {RP_DOWNLOADER, RP_SEEDER}`),
not from the `circuit.e2e` flag (which only the downloader side ever sets). -/

/-- `DataChecker.could_be_ipv8` -/
def couldBeIpv8 (d : Bytes) : Bool :=
  decide (23 ≤ d.length) && (d.head? == some 0) && (d[1]? == some 1 || d[1]? == some 2)

def isE2EType (ct : CType) : Bool := genE2ETypes.contains ct     -- GENERATED from on_data

inductive Sink
  | raw                 -- on_raw_data(circuit, origin, data)
  | ownPacket           -- on_packet_from_circuit(origin, data, circuit_id): IPv8 packet of the tunnel community itself
  | otherCommunity      -- endpoint.notify_listeners((origin, data), from_tunnel=True)
  | droppedNoTunnelEndpoint
  | droppedNestedData   -- a cell message inside a returned tunnel-community packet whose id is not registered to arrive
                        -- through an exit (`exit_msg_ids`, repo fixes 93232d0 / 85766ae): refused
  | exitSocket          -- exit_data(...)
  | droppedZeroDest
  deriving DecidableEq, Repr

/-- a returned packet that carries the tunnel community's own prefix: re-dispatched as a cell message only when its message
    id is registered to arrive through an exit -/
def ownPrefixSink (exitIds : List UInt8) (data : Bytes) : Sink :=
  match data[22]? with
  | some b => if genRedispatch (exitIds.contains b) then .ownPacket else .droppedNestedData     -- GENERATED guard
  | none => .droppedNestedData

/-- `own` = type of the receiving node's own circuit with that id (if any); `originSet` = truthiness of the origin
    address; `fromFirstHop` = `sock_addr == circuit.hop.address`, `sameIp` = `sock_addr[0] == circuit.hop.address[0]` (both are in
    the vocabulary of the generated guard); `pfx` = the community prefix;
    `tunnelEp` = the endpoint is a `TunnelEndpoint`; `destZero` = destination is 0.0.0.0:0;
    `exitIds` = `TunnelCommunity.exit_msg_ids` (empty in the base community; 13, 14, 17, 18 in HiddenTunnelCommunity) -/
def onDataSink (own : Option CType) (originSet fromFirstHop sameIp : Bool) (pfx : Bytes) (tunnelEp destZero : Bool)
    (data : Bytes) (exitIds : List UInt8 := []) : Sink :=
  let exitBranch : Sink := if destZero then .droppedZeroDest else .exitSocket
  match own with
  | some ct =>
    if genOwnCircuitData true originSet fromFirstHop sameIp then          -- GENERATED guards of on_data
      if genDivert (couldBeIpv8 data) (isE2EType ct) then
        if data.take 22 == pfx then ownPrefixSink exitIds data
        else if tunnelEp then .otherCommunity else .droppedNoTunnelEndpoint
      else .raw
    else exitBranch
  | none => exitBranch

/-- `sock_addr == circuit.hop.address`: the FULL (ip, port) address of the delivering peer must equal the first hop's -/
def fromFirstHop (src hop : Nat × Nat) : Bool := src.1 == hop.1 && src.2 == hop.2

/-- equality of the IP part only -/
def sameIp (src hop : Nat × Nat) : Bool := src.1 == hop.1

/-! ### the exit socket's outside half (exit_socket.py `enable` / `sendto`): a datagram handed to `sendto` goes to the
    transport, or waits in the queue until the transports exist, or waits for its host name to be resolved — every
    resolution is its own anonymous task, so several datagrams for one host can be pending at the same time.
    Datagrams are represented by an id (their bytes are passed through untouched). -/

inductive XDest
  | ip (a : Nat) (port : Nat)       -- literal address
  | name (h : Nat) (port : Nat)     -- DomainAddress: host name and port
  deriving DecidableEq, Repr

/-- a datagram with the address it is (to be) sent to: (datagram id, (ip or host, port)) -/
abbrev XItem := Nat × (Nat × Nat)

structure XSock where
  ready : Bool := false        -- transports created
  queue : List XItem := []     -- (datagram, (ip, port)) waiting for the transports; deque(maxlen=10)
  pending : List XItem := []   -- (datagram, (host, port)) resolutions in flight
  out : List XItem := []       -- handed to the transport: (datagram, (ip, port))
  deriving Repr

def pushCap (x : XItem) (q : List XItem) : List XItem :=
  if 10 ≤ q.length then q.drop 1 ++ [x] else q ++ [x]

/-- the tail of `sendto` for a literal address (the null-address filter of `sendto` is not part of this model) -/
def XSock.sendIp (s : XSock) (i : Nat) (a : Nat × Nat) : XSock :=
  if s.ready then { s with out := s.out ++ [(i, a)] }
  else { s with queue := pushCap (i, a) s.queue }

inductive XEv
  | send (i : Nat) (d : XDest)
  | resolved                      -- the oldest pending resolution completes
  | transportsReady
  deriving Repr

/-- `resolve` keeps the PORT of the destination it was asked for and replaces only the host by its address -/
def XSock.step (dns : Nat → Nat) (s : XSock) : XEv → XSock
  | .send i (.ip a p) => s.sendIp i (a, p)
  | .send i (.name h p) => { s with pending := s.pending ++ [(i, (h, p))] }
  | .resolved =>
    match s.pending with
    | [] => s
    | (i, (h, p)) :: r => ({ s with pending := r }).sendIp i (dns h, p)
  | .transportsReady => { s with ready := true, out := s.out ++ s.queue, queue := [] }   -- `while self.queue: sendto(...)`

def XSock.run (dns : Nat → Nat) (s : XSock) (evs : List XEv) : XSock := evs.foldl (XSock.step dns) s

/-- where a datagram handed to `sendto` has to go -/
def XEv.expected (dns : Nat → Nat) : XEv → List XItem
  | .send i (.ip a p) => [(i, (a, p))]
  | .send i (.name h p) => [(i, (dns h, p))]
  | _ => []

/-- every datagram the socket still holds or has emitted -/
def XSock.held (s : XSock) : List Nat := (s.out ++ s.queue ++ s.pending).map Prod.fst

def XEv.sentId : XEv → List Nat
  | .send i _ => [i]
  | _ => []

/-- `TunnelEndpoint.notify_listeners(packet, from_tunnel=True)` as it is meant (the `otherCommunity` sink of `onDataSink`):
    of the overlays loaded on the endpoint — each with its 22-byte prefix and its `anonymize` flag — exactly those that
    are registered for the packet's prefix AND are anonymized get the packet; overlays that are not anonymized never get
    anything out of a tunnel.  Result: indices into `overlays`. -/
def tunnelDelivery (overlays : List (Bytes × Bool)) (packet : Bytes) : List Nat :=
  (overlays.zipIdx.filter (fun (o : (Bytes × Bool) × Nat) => o.1.1 == packet.take 22 && o.1.2)).map (·.2)

/-! ### the anonymizing endpoint's send path (endpoint.py `TunnelEndpoint.send`): a packet of an anonymized overlay is sent
    into the ready circuit — followed by whatever was queued while no circuit was ready — or queued (deque(maxlen=100)).
    A packet is a pair (destination, packet id). -/

def pushCap100 (x : Nat × Nat) (q : List (Nat × Nat)) : List (Nat × Nat) :=
  if 100 ≤ q.length then q.drop 1 ++ [x] else q ++ [x]

structure TEp where
  queue : List (Nat × Nat) := []
  out : List (Nat × Nat) := []      -- `tunnel_community.send_data(...)` calls, in order
  direct : List (Nat × Nat) := []   -- handed to the node's own socket: leaves the node as it is, to the real destination
  deriving Repr

/-- one `send(address, packet)`; `ready` = a ready circuit with the wanted exit exists -/
def TEp.send (s : TEp) (ready : Bool) (x : Nat × Nat) : TEp :=
  if ready then { s with queue := [], out := s.out ++ x :: s.queue }
  else { s with queue := pushCap100 x s.queue }

/-- `TunnelEndpoint.send` as a whole: `anonymized` = the packet's prefix is set to be anonymized, `attached` = a tunnel community
    is attached.  The first test is GENERATED from the source; a packet of an anonymized overlay that cannot go through a
    tunnel (nothing attached) is not sent at all. -/
def TEp.sendAny (s : TEp) (anonymized attached ready : Bool) (x : Nat × Nat) : TEp :=
  if genTepDirect anonymized attached then { s with direct := s.direct ++ [x] }
  else if !attached then s
  else s.send ready x

def TEp.run (s : TEp) (evs : List (Bool × (Nat × Nat))) : TEp := evs.foldl (fun acc e => acc.send e.1 e.2) s

/-! ### what an exit lets through (exit_socket.py `DataChecker`, `TunnelExitSocket.is_allowed`), applied to outgoing AND to
    returned datagrams; the size bounds are the documented minimum sizes of the protocols (BEP 29 header 20 bytes, BEP 15
    shortest response 8 bytes = action + transaction id, a bencoded dictionary at least "de") -/

def be32At (d : Bytes) (o : Nat) : Option Nat :=
  if o + 4 ≤ d.length then some (((d.drop o).take 4).foldl (fun a b => a * 256 + b.toNat) 0) else none

def actionAt (d : Bytes) (o : Nat) : Bool :=
  match be32At d o with
  | some v => decide (v ≤ 3)
  | none => false

def couldBeTracker (d : Bytes) : Bool :=
  (decide (8 ≤ d.length) && actionAt d 0) || (decide (12 ≤ d.length) && actionAt d 8)

def couldBeUtp (d : Bytes) : Bool :=
  match d with
  | b0 :: b1 :: _ => decide (20 ≤ d.length) && decide (b0.toNat / 16 ≤ 4) && decide (b0.toNat % 16 = 1) && decide (b1.toNat ≤ 3)
  | _ => false

def couldBeDht (d : Bytes) : Bool :=
  decide (1 < d.length) && (d.head? == some 100) && (d.getLast? == some 101)

def couldBeBt (d : Bytes) : Bool := couldBeUtp d || couldBeTracker d || couldBeDht d

/-- `is_allowed`: `bt` / `ipv8` = the exit's PEER_FLAG_EXIT_BT / PEER_FLAG_EXIT_IPV8, `pfx` = the tunnel community's prefix -/
def exitAllows (bt ipv8 : Bool) (pfx d : Bytes) : Bool :=
  (couldBeBt d && bt) || (couldBeIpv8 d && ipv8) || (couldBeIpv8 d && d.take 22 == pfx)

/-! ### several exit sockets on one node: each has its own queue, transports and pending resolutions -/

abbrev XMulti := List (Nat × XSock)

/-- an event for the exit socket of circuit `cid` -/
def XMulti.step (dns : Nat → Nat) (ms : XMulti) (cid : Nat) (ev : XEv) : XMulti :=
  ms.map (fun (p : Nat × XSock) => if p.1 == cid then (p.1, p.2.step dns ev) else p)

end

/-! ### the toy AEAD: 1 nonce byte, key byte, direction byte, 1 checksum byte, 20 zero bytes, then the message in clear.
    It satisfies `Aead.Laws` (the laws are about which byte strings decrypt, not about secrecy). -/

def dirByte : Dir → UInt8
  | .fwd => 0
  | .bwd => 1

def toyPad : Bytes := List.replicate 20 0

/-- the toy's authentication tag: sum of the nonce byte and all message bytes, modulo 256 -/
def cks (l : Bytes) : UInt8 := UInt8.ofNat ((l.map UInt8.toNat).sum % 256)

def toyEnc (k : UInt8) (d : Dir) (n : Nat) (m : Bytes) : Bytes :=
  UInt8.ofNat n :: k :: dirByte d :: cks (UInt8.ofNat n :: m) :: (toyPad ++ m)

def toyDec (k : UInt8) (d : Dir) (c : Bytes) : Option Bytes :=
  match c with
  | b0 :: k' :: d' :: t :: rest =>
    if k' = k ∧ d' = dirByte d ∧ rest.take 20 = toyPad ∧ 20 ≤ rest.length ∧ t = cks (b0 :: rest.drop 20)
    then some (rest.drop 20) else none
  | _ => none

@[reducible] def toy : Aead := { Key := UInt8, enc := toyEnc, dec := toyDec }

end Ipv8.C04
