/-
  C04: the small types shared by the GENERATED decision logic (GenCrypto.lean) and the hand-written model (Model.lean).
-/
import Ipv8.Base.Proto

namespace Ipv8.C04

/-- `FORWARD` (0) / `BACKWARD` (1) of tunnel.py: which of the two key sets of a SessionKeys object is used -/
inductive Dir | fwd | bwd
  deriving DecidableEq, Repr

/-- `CIRCUIT_TYPE_*` of tunnel.py -/
inductive CType | data | ipSeeder | rpSeeder | rpDownloader
  deriving DecidableEq, Repr

/-- the three routing/key tables of a CryptoEndpoint, in the order a function consults them -/
inductive Table | circuit | exit | relay
  deriving DecidableEq, Repr

/-- what a plain relay does with a cell of a given direction -/
inductive RelayOp | dec | enc | nothing
  deriving DecidableEq, Repr

end Ipv8.C04
