/-
  C08 — symbolic cryptography used by the handshake model (core Lean only).

  * `Key`   : a symbolic X25519 key.  Index `i` stands for secret `i` *and* for the curve point it generates.
  * `dh`    : symbolic Diffie–Hellman, commutative BY CONSTRUCTION (`dh a b` = unordered pair {a, b}).
  * `Wire`  : the 32 bytes of a public key as they travel in a payload: the point they decode to plus an encoding
              tag (`enc = 0` is the canonical encoding; X25519 ignores bit 255 and accepts non-reduced
              u-coordinates, so several byte strings decode to one point.  DH sees only `pt`, the MAC sees all bytes).
  * `Secret`: a concatenation of 32-byte DH outputs; Python's `shared_secret[:32]` is `first32` (= first block).
  * `Crypto`: MAC (`crypto_auth`), KDF (`generate_session_keys`, HKDF) and the AEAD used for the candidate list
              (`SessionKeys.encrypt_str/decrypt_str`) as an ABSTRACT interface.  `crypto_auth_verify t k m` is
              "recompute and compare" (HMAC verification), i.e. `t = mac k m`.
  * `Laws`  : the hypotheses theorems may use (collision-freeness of MAC and KDF, AEAD correctness); they are
              theorem arguments, never axioms.  `Free` is an executable instance (term algebra) that satisfies
              them; the driver runs the model over `Free`.
-/
namespace Ipv8.C08

abbrev Key := Nat

structure DH where
  lo : Nat
  hi : Nat
  deriving DecidableEq, Repr

def dh (a b : Key) : DH := if a ≤ b then ⟨a, b⟩ else ⟨b, a⟩

abbrev Secret := List DH

structure Wire where
  pt : Key
  enc : Nat
  deriving DecidableEq, Repr

/-- `key.diffie_hellman(received_bytes)` : one 32-byte block -/
def dhOf (a : Key) (w : Wire) : Secret := [dh a w.pt]

/-- `key.get_crypt_pk()` : canonical encoding of the own public key -/
def pubOf (a : Key) : Wire := ⟨a, 0⟩

/-- `secret[:32]` -/
def first32 (s : Secret) : Secret := s.take 1

structure Crypto (Tag Sess Blob : Type) where
  mac : Secret → Wire → Tag
  kdf : Secret → Sess
  enc : Sess → List Key → Blob
  dec : Sess → Blob → Option (List Key)

structure Laws {Tag Sess Blob : Type} (C : Crypto Tag Sess Blob) : Prop where
  mac_inj : ∀ k k' m m', C.mac k m = C.mac k' m' → k = k' ∧ m = m'
  kdf_inj : ∀ s s', C.kdf s = C.kdf s' → s = s'
  dec_enc : ∀ k l, C.dec k (C.enc k l) = some l

/-- what a party that knows the secrets in `K` can compute: a DH value needs one of its two secrets -/
def KnowsDH (K : Key → Prop) (d : DH) : Prop := K d.lo ∨ K d.hi

/-- a shared secret is derivable from `K` iff every block is -/
def Derivable (K : Key → Prop) (s : Secret) : Prop := ∀ d ∈ s, KnowsDH K d

/-! ### the free (term-algebra) instance -/

inductive FTag where
  | mac (k : Secret) (m : Wire)
  | junk (n : Nat)
  deriving DecidableEq, Repr

inductive FBlob where
  | enc (k : Secret) (l : List Key)
  | junk (n : Nat)
  deriving DecidableEq, Repr

def Free : Crypto FTag Secret FBlob where
  mac := FTag.mac
  kdf := id
  enc := FBlob.enc
  dec := fun k b => match b with
    | .enc k' l => if k = k' then some l else none
    | .junk _ => none

end Ipv8.C08
