/-
  C08 — specification-level definitions and helper lemmas for Props.lean.
-/
import Ipv8.C08.Model

namespace Ipv8.C08

variable {Tag Sess Blob : Type}

/-! ### definitions used by the property statements -/

/-- the event (re)creates circuit `cid` from scratch -/
def Ev.createsCircuit (cid : Nat) : Ev Tag Blob → Prop
  | .createCircuit cid' _ _ _ _ => cid' = cid
  | _ => False

/-- what the honest holder of static key `b` answers to a CREATE carrying `X`, with fresh ephemeral `y` and the
    candidate list `offered` (join_circuit): (key, auth, candidates_enc) and the session keys it stores -/
def genuineAnswer (C : Crypto Tag Sess Blob) (b y : Key) (X : Wire) (offered : List Key) :
    Wire × Tag × Blob × Sess :=
  let (secret, pk, auth) := genSharedSecret C y b X
  (pk, auth, C.enc (C.kdf secret) offered, C.kdf secret)

/-- deliver to the originator the genuine answer of the peer it currently has outstanding on circuit `cid`
    (through any number of honest relays: `relay_pairing_transparent` shows they hand it on unchanged).
    Returns the new node and, if an attempt was outstanding, (selected peer, keys stored by that peer). -/
def deliverGenuine [DecidableEq Tag] (C : Crypto Tag Sess Blob) (n : Node Sess) (cid : Nat)
    (y : Key) (offered : List Key) (env : Env) : Node Sess × Option (Hop Sess) :=
  match n.circuits cid with
  | none => (n, none)
  | some c =>
    match c.unverified, c.retry with
    | some (b, x), some r =>
      let (pk, auth, blob, keys) := genuineAnswer C b y (pubOf x) offered
      ((onExtended C n cid r.ident (some pk) auth blob env).1, some ⟨b, keys⟩)
    | _, _ => (n, none)

/-- an undisturbed build: genuine answers only; collects (selected peer, responder-side keys) in order -/
def honestRun [DecidableEq Tag] (C : Crypto Tag Sess Blob) (cid : Nat) :
    Node Sess → List (Key × List Key × Env) → Node Sess × List (Hop Sess)
  | n, [] => (n, [])
  | n, (y, offered, env) :: rest =>
    let (n1, h) := deliverGenuine C n cid y offered env
    let (n2, hs) := honestRun C cid n1 rest
    (n2, h.toList ++ hs)

/-- hops of circuit `cid` ([] if there is no such circuit) -/
def hopsOf (n : Node Sess) (cid : Nat) : List (Hop Sess) :=
  match n.circuits cid with
  | some c => c.hops
  | none => []

/-- every verified hop is keyed with KDF(DH(x, received) ++ DH(x, static key of that hop's peer)) for an ephemeral
    `x` of the originator taken from `X`; every outstanding attempt uses an ephemeral from `X` -/
def KeyedWithSelected (C : Crypto Tag Sess Blob) (X : List Key) (n : Node Sess) : Prop :=
  ∀ cid c, n.circuits cid = some c →
    (∀ h ∈ c.hops, ∃ x w, x ∈ X ∧ h.keys = C.kdf [dh x w, dh x h.peer]) ∧
    (∀ b x, c.unverified = some (b, x) → x ∈ X)

/-! ### helper lemmas -/

/-- OBLIGATION on the translated source: the relay branch is entered iff a pending extend with that number exists
    and the CREATED names the circuit id reserved for it -/
theorem genCreatedPairs_spec (a b : Bool) : genCreatedPairs a b = (a && b) := by
  cases a <;> cases b <;> rfl

/-- OBLIGATION on the translated source: on_created hands an answer to `_ours_on_created_extended` iff it is not
    claimed by the relay branch, a retry cache exists for the circuit AND its packet identifier equals the answer's -/
theorem genCreatedAccepts_spec (a b c d : Bool) : genCreatedAccepts a b c d = (!(a && b) && (c && d)) := by
  cases a <;> cases b <;> cases c <;> cases d <;> rfl

/-- OBLIGATION on the translated source: on_extended accepts iff a retry cache exists AND the identifiers are equal -/
theorem genExtendedAccepts_spec (c d : Bool) : genExtendedAccepts c d = (c && d) := by
  cases c <;> cases d <;> rfl

theorem originAnswerG_eq [DecidableEq Tag] (g : Bool → Bool → Bool) (hg : ∀ c d, g c d = (c && d)) (C : Crypto Tag Sess Blob)
    (n : Node Sess) (cid ident : Nat) (key : Option Wire) (auth : Tag) (cands : Blob) (env : Env) :
    originAnswerG g C n cid ident key auth cands env = originAnswer C n cid ident key auth cands env := by
  unfold originAnswerG originAnswer
  cases n.circuits cid with
  | none => rfl
  | some c =>
    simp only [hg]
    cases hr : c.retry with
    | none => simp
    | some r =>
      by_cases hi : r.ident = ident
      · simp [hi]
      · simp [hi]

theorem onExtendedG_eq [DecidableEq Tag] (C : Crypto Tag Sess Blob) (n : Node Sess) (cid ident : Nat) (key : Option Wire)
    (auth : Tag) (cands : Blob) (env : Env) :
    onExtendedG C n cid ident key auth cands env = onExtended C n cid ident key auth cands env := by
  unfold onExtendedG onExtended
  exact originAnswerG_eq _ genExtendedAccepts_spec C n cid ident key auth cands env

theorem onCreatedG_eq [DecidableEq Tag] (C : Crypto Tag Sess Blob) (n : Node Sess) (cid ident : Nat) (key : Option Wire)
    (auth : Tag) (cands : Blob) (env : Env) :
    onCreatedG C n cid ident key auth cands env = onCreated C n cid ident key auth cands env := by
  unfold onCreatedG onCreated pairing?
  simp only [genCreatedPairs_spec]
  cases hc : n.creates ident with
  | none =>
    simp only [Option.isSome_none, Bool.false_and, Bool.false_eq_true, if_false]
    exact originAnswerG_eq _ (fun c d => by simp [genCreatedAccepts_spec]) C n cid ident key auth cands env
  | some req =>
    by_cases ht : req.toCid = cid
    · simp [ht, relayPairing]
    · simp only [Option.isSome_some, Bool.true_and, beq_iff_eq, ht, if_false]
      exact originAnswerG_eq _ (fun c d => by simp [genCreatedAccepts_spec, ht]) C n cid ident key auth cands env

theorem step_extended_eq [DecidableEq Tag] (C : Crypto Tag Sess Blob) (n : Node Sess) (cid ident : Nat)
    (key : Option Wire) (auth : Tag) (cands : Blob) (env : Env) :
    step C n (.extended cid ident key auth cands env) = originAnswer C n cid ident key auth cands env := by
  simp only [step, onExtendedG_eq, onExtended]

theorem step_created_eq [DecidableEq Tag] (C : Crypto Tag Sess Blob) (n : Node Sess) (cid ident : Nat)
    (key : Option Wire) (auth : Tag) (cands : Blob) (env : Env) :
    step C n (.created cid ident key auth cands env) = onCreated C n cid ident key auth cands env := by
  simp only [step, onCreatedG_eq]


theorem dh_comm (a b : Key) : dh a b = dh b a := by
  unfold dh
  by_cases h1 : a ≤ b <;> by_cases h2 : b ≤ a <;> simp [h1, h2]
  · exact ⟨Nat.le_antisymm h1 h2, Nat.le_antisymm h2 h1⟩
  · exact absurd (Nat.le_of_lt (Nat.lt_of_not_le h1)) h2

theorem dh_left_inj {a a' b : Key} (h : dh a b = dh a' b) : a = a' := by
  unfold dh at h
  by_cases h1 : a ≤ b <;> by_cases h2 : a' ≤ b <;> simp [h1, h2] at h
  · exact h
  · obtain ⟨e1, e2⟩ := h
    subst e1
    exact absurd (e2 ▸ h1) (by intro _; exact h2 (e2 ▸ Nat.le_refl _))
  · obtain ⟨e1, e2⟩ := h
    subst e2
    exact absurd (Nat.le_refl _) h1
  · exact h

theorem upd_same {α : Type} (f : Nat → Option α) (k : Nat) (v : Option α) : upd f k v k = v := by
  simp [upd]

theorem upd_other {α : Type} (f : Nat → Option α) {k i : Nat} (v : Option α) (h : i ≠ k) : upd f k v i = f i := by
  simp [upd, h]

/-- the GENERATED verify function accepts exactly the MAC of the received bytes under DH(x, received point), and
    then returns DH(x, received) ++ DH(x, b) -/
theorem genVerify_eq [DecidableEq Tag] (C : Crypto Tag Sess Blob) (x : Key) (w : Wire) (auth : Tag) (b : Wire) :
    genVerify C x w auth b = if auth = C.mac [dh x w.pt] w then some [dh x w.pt, dh x b.pt] else none := by
  by_cases h : auth = C.mac [dh x w.pt] w <;> simp [genVerify, dhOf, first32, h]

/-- the GENERATED responder function -/
theorem genSharedSecret_eq (C : Crypto Tag Sess Blob) (y b : Key) (X : Wire) :
    genSharedSecret C y b X = ([dh y X.pt, dh b X.pt], pubOf y, C.mac [dh y X.pt] (pubOf y)) := by
  simp [genSharedSecret, dhOf, first32]

/-- outcome of a (re)send: circuit dropped, or same hops and either nothing sent (retry cache gone) or a new
    attempt with the ephemeral and identifier of `env` -/
def Resent (c : Circ Sess) (env : Env) (res : Option (Circ Sess)) : Prop :=
  res = none ∨ ∃ c', res = some c' ∧ c'.hops = c.hops ∧ c'.goal = c.goal ∧
    ((c'.unverified = c.unverified ∧ c'.retry = none) ∨
      ∃ t r, c'.unverified = some (t, env.x) ∧ c'.retry = some r ∧ r.ident = env.ident)

theorem sendInitialCreate_resent (me cid : Nat) (c : Circ Sess) (cands : List Key) (tries : Int) (env : Env) :
    Resent c env (sendInitialCreate (Tag := Tag) (Blob := Blob) me cid c cands tries env).1 := by
  cases cands with
  | nil => exact Or.inr ⟨_, rfl, rfl, rfl, Or.inl ⟨rfl, rfl⟩⟩
  | cons f rest => exact Or.inr ⟨_, rfl, rfl, rfl, Or.inr ⟨f, _, rfl, rfl, rfl⟩⟩

theorem sendExtend_spec (me cid : Nat) (c : Circ Sess) (cands : List Key) (tries : Int) (env : Env) :
    (sendExtend (Tag := Tag) (Blob := Blob) me cid c cands tries env).1 = none ∨
    ∃ c' t r, (sendExtend (Tag := Tag) (Blob := Blob) me cid c cands tries env).1 = some c' ∧
      c'.hops = c.hops ∧ c'.goal = c.goal ∧ c'.unverified = some (t, env.x) ∧ c'.retry = some r ∧
      r.ident = env.ident := by
  unfold sendExtend
  simp only
  generalize chooseTarget me c cands env = ch
  cases h : ch.1 with
  | none => exact Or.inl rfl
  | some t => exact Or.inr ⟨_, t, _, rfl, rfl, rfl, rfl, rfl, rfl⟩

theorem sendExtend_resent (me cid : Nat) (c : Circ Sess) (cands : List Key) (tries : Int) (env : Env) :
    Resent c env (sendExtend (Tag := Tag) (Blob := Blob) me cid c cands tries env).1 := by
  rcases sendExtend_spec (Tag := Tag) (Blob := Blob) me cid c cands tries env with h | ⟨c', t, r, h1, h2, h3, h4, h5, h6⟩
  · exact Or.inl h
  · exact Or.inr ⟨c', h1, h2, h3, Or.inr ⟨t, r, h4, h5, h6⟩⟩

theorem onTimeout_resent (me cid : Nat) (c : Circ Sess) (env : Env) :
    Resent c env (onTimeout (Tag := Tag) (Blob := Blob) me cid c env).1 := by
  unfold onTimeout
  cases hr : c.retry with
  | none => exact Or.inr ⟨c, rfl, rfl, rfl, Or.inl ⟨rfl, hr⟩⟩
  | some r =>
    simp only
    split
    · exact Or.inl rfl
    · cases r.kind with
      | create =>
        have := sendInitialCreate_resent (Tag := Tag) (Blob := Blob) me cid { c with retry := none } r.cands r.tries env
        exact this
      | extend =>
        have := sendExtend_resent (Tag := Tag) (Blob := Blob) me cid { c with retry := none } r.cands r.tries env
        exact this

/-- the EXTENDING continuation: circuit dropped, or same hops and either nothing sent (send_extend raised: unverified
    hop untouched, no retry cache) or a new EXTEND attempt with the ephemeral and identifier of `env` -/
theorem extendAfterAccept_spec (me cid : Nat) (c1 : Circ Sess) (cl : List Key) (env : Env) :
    (extendAfterAccept (Tag := Tag) (Blob := Blob) me cid c1 cl env).1 = none ∨
    ∃ c', (extendAfterAccept (Tag := Tag) (Blob := Blob) me cid c1 cl env).1 = some c' ∧ c'.hops = c1.hops ∧
      c'.goal = c1.goal ∧
      ((c'.unverified = c1.unverified ∧ c'.retry = none) ∨
        ∃ t r, c'.unverified = some (t, env.x) ∧ c'.retry = some r ∧ r.ident = env.ident ∧ r.kind = Kind.extend) := by
  unfold extendAfterAccept
  simp only
  generalize (if (c1.goal == c1.hops.length + 1) = true then (splitCands cl).2
      else if (splitCands cl).1.isEmpty = true then (splitCands cl).2 else (splitCands cl).1) = chosen
  generalize (match c1.retry with | some r => r.tries | none => (1 : Int)) = tries
  by_cases hr : extendRaises me { c1 with retry := none } chosen = true
  · simp only [hr, if_true]
    exact Or.inr ⟨_, rfl, rfl, rfl, Or.inl ⟨rfl, rfl⟩⟩
  · simp only [hr]
    unfold sendExtend
    simp only
    generalize chooseTarget me { c1 with retry := none } chosen env = ch
    cases ht : ch.1 with
    | none => exact Or.inl rfl
    | some t => exact Or.inr ⟨_, rfl, rfl, rfl, Or.inr ⟨t, _, rfl, rfl, rfl, rfl⟩⟩

/-- what the circuit looks like after an answer was accepted -/
def AcceptedShape (C : Crypto Tag Sess Blob) (c : Circ Sess) (b x : Key) (w : Wire) (env : Env)
    (res : Option (Circ Sess)) : Prop :=
  res = none ∨ ∃ c', res = some c' ∧ c'.hops = c.hops ++ [⟨b, C.kdf [dh x w.pt, dh x b]⟩] ∧ c'.goal = c.goal ∧
    ((c'.unverified = none ∧ c'.retry = none) ∨
      ∃ t r, c'.unverified = some (t, env.x) ∧ c'.retry = some r ∧ r.ident = env.ident)

/-- the three outcomes of `_ours_on_created_extended`: nothing changed; ValueError (malformed key) → circuit removed;
    accepted — which REQUIRES the MAC — with the hop of the selected peer appended -/
theorem ours_spec [DecidableEq Tag] (C : Crypto Tag Sess Blob) (me cid : Nat) (c : Circ Sess)
    (key : Option Wire) (auth : Tag) (cands : Blob) (env : Env) :
    ours C me cid c key auth cands env = (some c, []) ∨
    (ours C me cid c key auth cands env = (none, []) ∧ key = none ∧ c.unverified.isSome) ∨
    ∃ b x w, c.unverified = some (b, x) ∧ key = some w ∧ auth = C.mac [dh x w.pt] w ∧
      AcceptedShape C c b x w env (ours C me cid c key auth cands env).1 := by
  unfold ours
  cases hu : c.unverified with
  | none => exact Or.inl rfl
  | some bx =>
    obtain ⟨b, x⟩ := bx
    cases key with
    | none => exact Or.inr (Or.inl ⟨rfl, rfl, rfl⟩)
    | some w =>
      simp only [genVerify_eq, pubOf]
      by_cases ha : auth = C.mac [dh x w.pt] w
      · right; right
        refine ⟨b, x, w, rfl, rfl, ha, ?_⟩
        simp only [ha, if_true]
        unfold AcceptedShape
        split
        · split
          · exact Or.inl rfl
          · next cl hdec =>
            rcases extendAfterAccept_spec (Tag := Tag) (Blob := Blob) me cid
              { c with unverified := none, hops := c.hops ++ [{ peer := b, keys := C.kdf [dh x w.pt, dh x b] }] }
              cl env with h | ⟨c', h1, h2, h3, ⟨h4, h5⟩ | ⟨t, r, h4, h5, h6, _⟩⟩
            · exact Or.inl h
            · exact Or.inr ⟨c', h1, h2, h3, Or.inl ⟨h4, h5⟩⟩
            · exact Or.inr ⟨c', h1, h2, h3, Or.inr ⟨t, r, h4, h5, h6⟩⟩
        · exact Or.inr ⟨_, rfl, rfl, rfl, Or.inl ⟨rfl, rfl⟩⟩
      · left
        simp [ha]

theorem setCirc_circ (n : Node Sess) (cid : Nat) (r : Option (Circ Sess) × List (Out Tag Blob)) (i : Nat) :
    (n.setCirc cid r).1.circuits i = if i = cid then r.1 else n.circuits i := by
  simp [Node.setCirc, upd]

/-- the originator branch: either the node's circuit `cid` is as before, or the answer was for `cid`, matched the
    outstanding identifier, and the circuit is what `ours` returns -/
theorem originAnswer_circ [DecidableEq Tag] (C : Crypto Tag Sess Blob) (n : Node Sess) (cid' ident : Nat)
    (key : Option Wire) (auth : Tag) (cands : Blob) (env : Env) (cid : Nat) (c : Circ Sess)
    (h0 : n.circuits cid = some c) :
    (originAnswer C n cid' ident key auth cands env).1.circuits cid = some c ∨
    (cid' = cid ∧ ∃ r, c.retry = some r ∧ r.ident = ident ∧
      (originAnswer C n cid' ident key auth cands env).1.circuits cid = (ours C n.me cid c key auth cands env).1) := by
  unfold originAnswer
  by_cases hc : cid' = cid
  · subst hc
    rw [h0]
    simp only
    cases hr : c.retry with
    | none => exact Or.inl h0
    | some r =>
      simp only
      by_cases hi : r.ident = ident
      · right
        refine ⟨trivial, r, rfl, hi, ?_⟩
        simp [hi, setCirc_circ]
      · left; simp [hi, h0]
  · left
    cases h1 : n.circuits cid' with
    | none => simpa using h0
    | some c1 =>
      simp only
      cases c1.retry with
      | none => simpa using h0
      | some r =>
        simp only
        split
        · rw [setCirc_circ]; simp [Ne.symm hc, h0]
        · exact h0

/-- the only way `originAnswer` does anything -/
theorem originAnswer_noop [DecidableEq Tag] (C : Crypto Tag Sess Blob) (n : Node Sess) (cid ident : Nat)
    (key : Option Wire) (auth : Tag) (cands : Blob) (env : Env)
    (h : n.circuits cid = none ∨ ∃ c, n.circuits cid = some c ∧ (c.retry = none ∨ ∃ r, c.retry = some r ∧ r.ident ≠ ident)) :
    originAnswer C n cid ident key auth cands env = (n, []) := by
  unfold originAnswer
  rcases h with h | ⟨c, h, hr | ⟨r, hr, hi⟩⟩
  · simp [h]
  · simp [h, hr]
  · simp [h, hr, hi]

theorem pairing_some {n : Node Sess} {cid ident : Nat} {req : CreateReq} (h : pairing? n cid ident = some req) :
    n.creates ident = some req ∧ req.toCid = cid := by
  unfold pairing? at h
  cases hc : n.creates ident with
  | none => rw [hc] at h; cases h
  | some r =>
    rw [hc] at h
    by_cases ht : r.toCid = cid
    · simp [ht] at h; subst h; exact ⟨rfl, ht⟩
    · simp [ht] at h

theorem pairing_none_of_creates {n : Node Sess} {cid ident : Nat} (h : n.creates ident = none) :
    pairing? n cid ident = none := by
  simp [pairing?, h]

/-- one step seen from one existing circuit: unchanged / gone / re-sent with the event's ephemeral / accepted -/
theorem step_circ_cases [DecidableEq Tag] (C : Crypto Tag Sess Blob) (n : Node Sess) (e : Ev Tag Blob) (cid : Nat)
    (c : Circ Sess) (h0 : n.circuits cid = some c) (hnew : ¬ e.createsCircuit cid) :
    (step C n e).1.circuits cid = some c ∨ (step C n e).1.circuits cid = none ∨
    (∃ env, e.envX = some env.x ∧ Resent c env ((step C n e).1.circuits cid)) ∨
    (∃ ident key auth cands env b x r w,
      (e = .created cid ident key auth cands env ∨ e = .extended cid ident key auth cands env) ∧
      e.envX = some env.x ∧
      c.unverified = some (b, x) ∧ c.retry = some r ∧ r.ident = ident ∧ key = some w ∧
      auth = C.mac [dh x w.pt] w ∧ AcceptedShape C c b x w env ((step C n e).1.circuits cid)) := by
  have answer : ∀ cid' ident key auth cands env,
      (e = .created cid' ident key auth cands env ∨ e = .extended cid' ident key auth cands env) →
      (step C n e).1 = (originAnswer C n cid' ident key auth cands env).1 →
      (step C n e).1.circuits cid = some c ∨ (step C n e).1.circuits cid = none ∨
      (∃ env, e.envX = some env.x ∧ Resent c env ((step C n e).1.circuits cid)) ∨
      (∃ ident key auth cands env b x r w,
        (e = .created cid ident key auth cands env ∨ e = .extended cid ident key auth cands env) ∧
        e.envX = some env.x ∧
        c.unverified = some (b, x) ∧ c.retry = some r ∧ r.ident = ident ∧ key = some w ∧
        auth = C.mac [dh x w.pt] w ∧ AcceptedShape C c b x w env ((step C n e).1.circuits cid)) := by
    intro cid' ident key auth cands env he hs
    rw [hs]
    rcases originAnswer_circ C n cid' ident key auth cands env cid c h0 with h | ⟨hc, r, hr, hi, h⟩
    · exact Or.inl h
    · subst hc
      rw [h]
      rcases ours_spec C n.me cid' c key auth cands env with h1 | ⟨h1, _, _⟩ | ⟨b, x, w, hu, hk, ha, hs'⟩
      · left; rw [h1]
      · right; left; rw [h1]
      · right; right; right
        refine ⟨ident, key, auth, cands, env, b, x, r, w, he, ?_, hu, hr, hi, hk, ha, hs'⟩
        rcases he with he | he <;> rw [he] <;> rfl
  cases e with
  | createCircuit cid' goal re fh env =>
    have hc : cid ≠ cid' := fun h => hnew (by simp [Ev.createsCircuit, h])
    left
    simp only [step, onCreatedG_eq, onExtendedG_eq, createCircuit, setCirc_circ, hc, if_false, h0]
  | created cid' ident key auth cands env =>
    cases hcr : pairing? n cid' ident with
    | some req =>
      left
      simp only [step, onCreatedG_eq, onExtendedG_eq, onCreated, hcr]
      split
      · exact h0
      · split
        · exact h0
        · split <;> exact h0
    | none =>
      exact answer cid' ident key auth cands env (Or.inl rfl) (by simp [step, onCreatedG_eq, onExtendedG_eq, onCreated, hcr])
  | extended cid' ident key auth cands env =>
    exact answer cid' ident key auth cands env (Or.inr rfl) (by simp [step, onCreatedG_eq, onExtendedG_eq, onExtended])
  | retryTimeout cid' env =>
    by_cases hc : cid = cid'
    · subst hc
      right; right; left
      refine ⟨env, rfl, ?_⟩
      simp only [step, onCreatedG_eq, onExtendedG_eq, retryTimeout, h0, setCirc_circ, if_true]
      exact onTimeout_resent _ _ _ _
    · left
      simp only [step, onCreatedG_eq, onExtendedG_eq, retryTimeout]
      split
      · exact h0
      · simp [setCirc_circ, hc, h0]
  | sendExtend cid' cands tries env =>
    by_cases hc : cid = cid'
    · subst hc
      right; right; left
      refine ⟨env, rfl, ?_⟩
      simp only [step, onCreatedG_eq, onExtendedG_eq, h0, setCirc_circ, if_true]
      exact sendExtend_resent _ _ _ _ _ _
    · left
      simp only [step]
      split
      · exact h0
      · simp [setCirc_circ, hc, h0]
  | sendInitialCreate cid' cands tries env =>
    by_cases hc : cid = cid'
    · subst hc
      right; right; left
      refine ⟨env, rfl, ?_⟩
      simp only [step, onCreatedG_eq, onExtendedG_eq, h0, setCirc_circ, if_true]
      exact sendInitialCreate_resent _ _ _ _ _ _
    · left
      simp only [step]
      split
      · exact h0
      · simp [setCirc_circ, hc, h0]
  | removeCircuit cid' =>
    by_cases hc : cid = cid'
    · right; left; simp [step, onCreatedG_eq, onExtendedG_eq, upd, hc]
    · left; simp [step, onCreatedG_eq, onExtendedG_eq, upd, hc, h0]
  | create cid' ident nodePk key y offered =>
    left
    simp only [step, onCreatedG_eq, onExtendedG_eq, onCreate]
    split
    · exact h0
    · split
      · exact h0
      · split
        · exact h0
        · split <;> exact h0
  | join cid' ident nodePk key y offered =>
    left
    simp only [step, onCreatedG_eq, onExtendedG_eq, joinCircuit]
    split
    · exact h0
    · split
      · exact h0
      · split <;> exact h0
  | extend cid' ident nodePk key ag toCid number =>
    left
    simp only [step, onCreatedG_eq, onExtendedG_eq, onExtend]
    split
    · exact h0
    · split
      · exact h0
      · split
        · exact h0
        · split <;> exact h0
  | createdExpire cid' => left; exact h0
  | createExpire number => left; exact h0

/-- a circuit id that is not in use stays unused unless a circuit is created under it -/
theorem step_absent [DecidableEq Tag] (C : Crypto Tag Sess Blob) (n : Node Sess) (e : Ev Tag Blob) (cid : Nat)
    (h0 : n.circuits cid = none) (hnew : ¬ e.createsCircuit cid) :
    (step C n e).1.circuits cid = none := by
  cases e with
  | createCircuit cid' goal re fh env =>
    have hc : cid ≠ cid' := fun h => hnew (by simp [Ev.createsCircuit, h])
    simp only [step, onCreatedG_eq, onExtendedG_eq, createCircuit, setCirc_circ, hc, if_false, h0]
  | created cid' ident key auth cands env =>
    cases hcr : pairing? n cid' ident with
    | some req =>
      simp only [step, onCreatedG_eq, onExtendedG_eq, onCreated, hcr]
      split
      · exact h0
      · split
        · exact h0
        · split <;> exact h0
    | none =>
      simp only [step, onCreatedG_eq, onExtendedG_eq, onCreated, hcr]
      by_cases hc : cid' = cid
      · subst hc; rw [originAnswer_noop C n cid' ident key auth cands env (Or.inl h0)]; exact h0
      · unfold originAnswer
        split
        · exact h0
        · split
          · exact h0
          · split
            · simp [setCirc_circ, Ne.symm hc, h0]
            · exact h0
  | extended cid' ident key auth cands env =>
    simp only [step, onCreatedG_eq, onExtendedG_eq, onExtended]
    by_cases hc : cid' = cid
    · subst hc; rw [originAnswer_noop C n cid' ident key auth cands env (Or.inl h0)]; exact h0
    · unfold originAnswer
      split
      · exact h0
      · split
        · exact h0
        · split
          · simp [setCirc_circ, Ne.symm hc, h0]
          · exact h0
  | retryTimeout cid' env =>
    simp only [step, onCreatedG_eq, onExtendedG_eq, retryTimeout]
    split
    · exact h0
    · next c1 h1 =>
      have hc : cid ≠ cid' := fun h => by subst h; rw [h0] at h1; exact absurd h1 (by simp)
      simp [setCirc_circ, hc, h0]
  | sendExtend cid' cands tries env =>
    simp only [step]
    split
    · exact h0
    · next c1 h1 =>
      have hc : cid ≠ cid' := fun h => by subst h; rw [h0] at h1; exact absurd h1 (by simp)
      simp [setCirc_circ, hc, h0]
  | sendInitialCreate cid' cands tries env =>
    simp only [step]
    split
    · exact h0
    · next c1 h1 =>
      have hc : cid ≠ cid' := fun h => by subst h; rw [h0] at h1; exact absurd h1 (by simp)
      simp [setCirc_circ, hc, h0]
  | removeCircuit cid' =>
    by_cases hc : cid = cid'
    · simp [step, onCreatedG_eq, onExtendedG_eq, upd, hc]
    · simp [step, onCreatedG_eq, onExtendedG_eq, upd, hc, h0]
  | create cid' ident nodePk key y offered =>
    simp only [step, onCreatedG_eq, onExtendedG_eq, onCreate]
    split
    · exact h0
    · split
      · exact h0
      · split
        · exact h0
        · split <;> exact h0
  | join cid' ident nodePk key y offered =>
    simp only [step, onCreatedG_eq, onExtendedG_eq, joinCircuit]
    split
    · exact h0
    · split
      · exact h0
      · split <;> exact h0
  | extend cid' ident nodePk key ag toCid number =>
    simp only [step, onCreatedG_eq, onExtendedG_eq, onExtend]
    split
    · exact h0
    · split
      · exact h0
      · split
        · exact h0
        · split <;> exact h0
  | createdExpire cid' => exact h0
  | createExpire number => exact h0


theorem setCirc_same (n : Node Sess) (cid : Nat) (c : Circ Sess) (outs : List (Out Tag Blob))
    (h : n.circuits cid = some c) : n.setCirc cid (some c, outs) = (n, outs) := by
  have : upd n.circuits cid (some c) = n.circuits := by
    funext i
    by_cases hi : i = cid <;> simp [upd, hi, h]
  simp [Node.setCirc, this]

theorem ours_bad_auth [DecidableEq Tag] (C : Crypto Tag Sess Blob) (me cid : Nat) (c : Circ Sess) (b x : Key)
    (w : Wire) (auth : Tag) (cands : Blob) (env : Env) (hu : c.unverified = some (b, x))
    (hbad : auth ≠ C.mac [dh x w.pt] w) : ours C me cid c (some w) auth cands env = (some c, []) := by
  unfold ours
  simp [hu, genVerify_eq, hbad]

theorem ours_no_unverified [DecidableEq Tag] (C : Crypto Tag Sess Blob) (me cid : Nat) (c : Circ Sess)
    (key : Option Wire) (auth : Tag) (cands : Blob) (env : Env) (hu : c.unverified = none) :
    ours C me cid c key auth cands env = (some c, []) := by
  unfold ours
  simp [hu]

/-- every way the originator branch rejects an answer without touching the node -/
theorem origin_reject [DecidableEq Tag] (C : Crypto Tag Sess Blob) (m : Node Sess) (cid ident : Nat)
    (key : Option Wire) (auth : Tag) (cands : Blob) (env : Env)
    (h : m.circuits cid = none ∨ ∃ c1, m.circuits cid = some c1 ∧
      (c1.retry = none ∨ (∃ r, c1.retry = some r ∧ r.ident ≠ ident) ∨ c1.unverified = none ∨
       (∃ b x w, c1.unverified = some (b, x) ∧ key = some w ∧ auth ≠ C.mac [dh x w.pt] w))) :
    originAnswer C m cid ident key auth cands env = (m, []) := by
  rcases h with h | ⟨c1, h, hr | ⟨r, hr, hi⟩ | hu | ⟨b, x, w, hu, hk, hbad⟩⟩
  · exact originAnswer_noop C m cid ident key auth cands env (Or.inl h)
  · exact originAnswer_noop C m cid ident key auth cands env (Or.inr ⟨c1, h, Or.inl hr⟩)
  · exact originAnswer_noop C m cid ident key auth cands env (Or.inr ⟨c1, h, Or.inr ⟨r, hr, hi⟩⟩)
  · unfold originAnswer
    rw [h]
    simp only
    cases c1.retry with
    | none => rfl
    | some r =>
      simp only
      split
      · rw [ours_no_unverified C m.me cid c1 key auth cands env hu]; exact setCirc_same m cid c1 [] h
      · rfl
  · unfold originAnswer
    rw [h]
    simp only
    cases c1.retry with
    | none => rfl
    | some r =>
      simp only
      split
      · subst hk
        rw [ours_bad_auth C m.me cid c1 b x w auth cands env hu hbad]; exact setCirc_same m cid c1 [] h
      · rfl

theorem originAnswer_other [DecidableEq Tag] (C : Crypto Tag Sess Blob) (n : Node Sess) (cid ident : Nat)
    (key : Option Wire) (auth : Tag) (cands : Blob) (env : Env) (cid' : Nat) (hc : cid' ≠ cid) :
    (originAnswer C n cid ident key auth cands env).1.circuits cid' = n.circuits cid' := by
  unfold originAnswer
  split
  · rfl
  · split
    · rfl
    · split
      · simp [setCirc_circ, hc]
      · rfl

/-- a MAC made for another ephemeral is not the MAC this attempt expects -/
theorem mac_other_ephemeral (C : Crypto Tag Sess Blob) (L : Laws C) (x x' : Key) (w w' : Wire) (hx : x' ≠ x) :
    C.mac [dh x' w'.pt] w' ≠ C.mac [dh x w.pt] w := by
  intro h
  obtain ⟨h1, h2⟩ := L.mac_inj _ _ _ _ h
  subst h2
  simp at h1
  exact hx (dh_left_inj h1)

/-- an answer seen from the circuit it names: unchanged / gone / accepted -/
theorem originAnswer_cases [DecidableEq Tag] (C : Crypto Tag Sess Blob) (n : Node Sess) (cid ident : Nat)
    (key : Option Wire) (auth : Tag) (cands : Blob) (env : Env) (c : Circ Sess) (h0 : n.circuits cid = some c) :
    ((originAnswer C n cid ident key auth cands env).1.circuits cid = some c ∧
       (originAnswer C n cid ident key auth cands env).1 = n) ∨
    (originAnswer C n cid ident key auth cands env).1.circuits cid = none ∨
    (∃ b x r w, c.unverified = some (b, x) ∧ c.retry = some r ∧ r.ident = ident ∧ key = some w ∧
      auth = C.mac [dh x w.pt] w ∧
      AcceptedShape C c b x w env ((originAnswer C n cid ident key auth cands env).1.circuits cid)) := by
  cases hr : c.retry with
  | none =>
    left
    rw [originAnswer_noop C n cid ident key auth cands env (Or.inr ⟨c, h0, Or.inl hr⟩)]
    exact ⟨h0, rfl⟩
  | some r =>
    by_cases hi : r.ident = ident
    · have heq : originAnswer C n cid ident key auth cands env = n.setCirc cid (ours C n.me cid c key auth cands env) := by
        unfold originAnswer
        simp [h0, hr, hi]
      rw [heq]
      rcases ours_spec C n.me cid c key auth cands env with h1 | ⟨h1, _, _⟩ | ⟨b, x, w, hu, hk, ha, hs'⟩
      · left
        rw [h1, setCirc_same n cid c [] h0]
        exact ⟨h0, rfl⟩
      · right; left
        rw [h1]; simp [setCirc_circ]
      · right; right
        refine ⟨b, x, r, w, hu, rfl, hi, hk, ha, ?_⟩
        simpa [setCirc_circ] using hs'
    · left
      rw [originAnswer_noop C n cid ident key auth cands env (Or.inr ⟨c, h0, Or.inr ⟨r, hr, hi⟩⟩)]
      exact ⟨h0, rfl⟩

/-- if an answer left the circuit it names exactly as it was, it was rejected for a reason that does not depend on
    the environment (no retry cache / other identifier / no unverified hop / wrong MAC) -/
theorem unchanged_reason [DecidableEq Tag] (C : Crypto Tag Sess Blob) (n : Node Sess) (cid ident : Nat)
    (key : Option Wire) (auth : Tag) (cands : Blob) (env : Env) (c : Circ Sess) (h0 : n.circuits cid = some c)
    (hsame : (originAnswer C n cid ident key auth cands env).1.circuits cid = some c) :
    c.retry = none ∨ (∃ r, c.retry = some r ∧ r.ident ≠ ident) ∨ c.unverified = none ∨
      (∃ b x w, c.unverified = some (b, x) ∧ key = some w ∧ auth ≠ C.mac [dh x w.pt] w) := by
  cases hr : c.retry with
  | none => exact Or.inl rfl
  | some r =>
    by_cases hi : r.ident = ident
    · right; right
      cases hu : c.unverified with
      | none => exact Or.inl rfl
      | some bx =>
        obtain ⟨b, x⟩ := bx
        right
        have heq : originAnswer C n cid ident key auth cands env = n.setCirc cid (ours C n.me cid c key auth cands env) := by
          unfold originAnswer
          simp [h0, hr, hi]
        rw [heq] at hsame
        simp only [setCirc_circ, if_true] at hsame
        cases key with
        | none =>
          exfalso
          have : ours C n.me cid c none auth cands env = (none, []) := by unfold ours; simp [hu]
          rw [this] at hsame; cases hsame
        | some w =>
          by_cases hm : auth = C.mac [dh x w.pt] w
          · exfalso
            rcases ours_spec C n.me cid c (some w) auth cands env with h3 | ⟨h3, hk3, _⟩ | ⟨b3, x3, w3, hu3, hk3, ha3, hs3⟩
            · have : (ours C n.me cid c (some w) auth cands env).1 ≠ some c := by
                unfold ours
                simp only [hu, genVerify_eq, pubOf, hm, if_true]
                split
                · split
                  · intro hh; cases hh
                  · intro hh
                    rcases extendAfterAccept_spec (Tag := Tag) (Blob := Blob) n.me cid _ _ env with
                      h5 | ⟨c5, h5, h6, _⟩
                    · rw [h5] at hh; cases hh
                    · rw [h5] at hh; injection hh with hh; rw [hh] at h6; simp at h6
                · intro hh; injection hh with hh; have := congrArg Circ.hops hh; simp at this
              exact this hsame
            · cases hk3
            · rcases hs3 with h4 | ⟨c4, h4, hh4, _⟩
              · rw [h4] at hsame; cases hsame
              · rw [h4] at hsame; injection hsame with hsame; rw [hsame] at hh4; simp at hh4
          · exact ⟨b, x, w, rfl, rfl, hm⟩
    · exact Or.inr (Or.inl ⟨r, rfl, hi⟩)


theorem keyed_mono (C : Crypto Tag Sess Blob) (X Y : List Key) (n : Node Sess) (h : KeyedWithSelected C X n)
    (hsub : ∀ x ∈ X, x ∈ Y) : KeyedWithSelected C Y n := by
  intro cid c hc
  obtain ⟨h1, h2⟩ := h cid c hc
  refine ⟨fun hp hh => ?_, fun b x hu => hsub x (h2 b x hu)⟩
  obtain ⟨x, w, hx, hk⟩ := h1 hp hh
  exact ⟨x, w, hsub x hx, hk⟩

/-- one step preserves the invariant, with the event's ephemeral added to the set -/
theorem keyed_step [DecidableEq Tag] (C : Crypto Tag Sess Blob) (X : List Key) (n : Node Sess) (e : Ev Tag Blob)
    (h : KeyedWithSelected C X n) : KeyedWithSelected C (X ++ e.envX.toList) (step C n e).1 := by
  intro cid c' hc'
  by_cases hnew : e.createsCircuit cid
  · -- a brand-new circuit: no hops, unverified uses env.x
    cases e with
    | createCircuit cid' goal re fh env =>
      have : cid' = cid := hnew
      subst this
      simp only [step, onCreatedG_eq, onExtendedG_eq, createCircuit, setCirc_circ, if_true] at hc'
      rcases sendInitialCreate_resent (Tag := Tag) (Blob := Blob) n.me cid'
        { goal := goal, hops := [], unverified := none, retry := none, requiredExit := re } fh genInitialTries env
        with h1 | ⟨c1, h1, hh, _, ⟨hu, _⟩ | ⟨t, r, hu, _, _⟩⟩
      · rw [h1] at hc'; cases hc'
      · rw [h1] at hc'; cases hc'
        refine ⟨fun hp hpm => (by rw [hh] at hpm; cases hpm), fun b x hbx => ?_⟩
        rw [hu] at hbx; cases hbx
      · rw [h1] at hc'; cases hc'
        refine ⟨fun hp hpm => (by rw [hh] at hpm; cases hpm), fun b x hbx => ?_⟩
        rw [hu] at hbx; cases hbx
        simp [Ev.envX]
    | _ => exact absurd hnew (by simp [Ev.createsCircuit])
  · cases h0 : n.circuits cid with
    | none => rw [step_absent C n e cid h0 hnew] at hc'; cases hc'
    | some c =>
      obtain ⟨hk, hu⟩ := h cid c h0
      have hk' : ∀ hp ∈ c.hops, ∃ x w, x ∈ X ++ e.envX.toList ∧ hp.keys = C.kdf [dh x w, dh x hp.peer] := by
        intro hp hpm
        obtain ⟨x, w, hx, hkk⟩ := hk hp hpm
        exact ⟨x, w, by simp [hx], hkk⟩
      rcases step_circ_cases C n e cid c h0 hnew with h1 | h1 | ⟨env, he, h1⟩ |
        ⟨ident, key, auth, cands, env, b, x, r, w, he, hex, hub, hr, hi, hkey, ha, hs⟩
      · rw [hc'] at h1; cases h1
        exact ⟨hk', fun b x hbx => by simp [hu b x hbx]⟩
      · rw [hc'] at h1; cases h1
      · rcases h1 with h1 | ⟨c1, h1, hh, _, ⟨hu1, _⟩ | ⟨t, r, hu1, _, _⟩⟩
        · rw [hc'] at h1; cases h1
        · rw [hc'] at h1; cases h1
          refine ⟨fun hp hpm => hk' hp (by rw [hh] at hpm; exact hpm), fun b x hbx => ?_⟩
          rw [hu1] at hbx; simp [hu b x hbx]
        · rw [hc'] at h1; cases h1
          refine ⟨fun hp hpm => hk' hp (by rw [hh] at hpm; exact hpm), fun b x hbx => ?_⟩
          rw [hu1] at hbx; cases hbx
          simp [he]
      · rcases hs with h1 | ⟨c1, h1, hh, _, ⟨hu1, _⟩ | ⟨t, r1, hu1, _, _⟩⟩
        · rw [hc'] at h1; cases h1
        · rw [hc'] at h1; cases h1
          refine ⟨fun hp hpm => ?_, fun b' x' hbx => by rw [hu1] at hbx; cases hbx⟩
          rw [hh] at hpm
          rcases List.mem_append.mp hpm with hpm | hpm
          · exact hk' hp hpm
          · simp at hpm; subst hpm
            exact ⟨x, w.pt, by simp [hu b x hub], rfl⟩
        · rw [hc'] at h1; cases h1
          refine ⟨fun hp hpm => ?_, fun b' x' hbx => ?_⟩
          · rw [hh] at hpm
            rcases List.mem_append.mp hpm with hpm | hpm
            · exact hk' hp hpm
            · simp at hpm; subst hpm
              exact ⟨x, w.pt, by simp [hu b x hub], rfl⟩
          · rw [hu1] at hbx; cases hbx
            simp [hex]

theorem keyed_run [DecidableEq Tag] (C : Crypto Tag Sess Blob) (evs : List (Ev Tag Blob)) (X : List Key)
    (n : Node Sess) (h : KeyedWithSelected C X n) :
    KeyedWithSelected C (X ++ evs.filterMap Ev.envX) (run C n evs) := by
  induction evs generalizing X n with
  | nil => simpa [run] using h
  | cons e es ih =>
    simp only [run]
    have h1 := ih (X ++ e.envX.toList) (step C n e).1 (keyed_step C X n e h)
    refine keyed_mono C _ _ _ h1 ?_
    intro x hx
    cases hex : e.envX with
    | none => simpa [hex, List.filterMap_cons] using hx
    | some v => simpa [hex, List.filterMap_cons] using hx

theorem genuineAnswer_eq (C : Crypto Tag Sess Blob) (b y : Key) (X : Wire) (offered : List Key) :
    genuineAnswer C b y X offered =
      (pubOf y, C.mac [dh y X.pt] (pubOf y), C.enc (C.kdf [dh y X.pt, dh b X.pt]) offered,
       C.kdf [dh y X.pt, dh b X.pt]) := by
  simp [genuineAnswer, genSharedSecret_eq]

theorem deliverGenuine_eq [DecidableEq Tag] (C : Crypto Tag Sess Blob) (n : Node Sess) (cid : Nat) (c : Circ Sess) (b x : Key)
    (r : Retry) (y : Key) (offered : List Key) (env : Env)
    (h0 : n.circuits cid = some c) (hu : c.unverified = some (b, x)) (hr : c.retry = some r) :
    deliverGenuine C n cid y offered env =
      ((originAnswer C n cid r.ident (some (pubOf y)) (C.mac [dh y x] (pubOf y))
          (C.enc (C.kdf [dh y x, dh b x]) offered) env).1,
       some ⟨b, C.kdf [dh y x, dh b x]⟩) := by
  simp [deliverGenuine, h0, hu, hr, genuineAnswer_eq, onExtended, pubOf]

theorem deliverGenuine_absent [DecidableEq Tag] (C : Crypto Tag Sess Blob) (n : Node Sess) (cid : Nat) (y : Key)
    (offered : List Key) (env : Env) (h0 : n.circuits cid = none) :
    deliverGenuine C n cid y offered env = (n, none) := by
  simp [deliverGenuine, h0]

theorem honestRun_absent [DecidableEq Tag] (C : Crypto Tag Sess Blob) (cid : Nat) (steps : List (Key × List Key × Env))
    (n : Node Sess) (h0 : n.circuits cid = none) : (honestRun C cid n steps).1.circuits cid = none := by
  induction steps generalizing n with
  | nil => exact h0
  | cons s rest ih =>
    obtain ⟨y, offered, env⟩ := s
    simp only [honestRun, deliverGenuine_absent C n cid y offered env h0]
    exact ih n h0


theorem free_laws : Laws Free where
  mac_inj := by
    intro k k' m m' h
    cases h
    exact ⟨rfl, rfl⟩
  kdf_inj := by
    intro s s' h
    exact h
  dec_enc := by
    intro k l
    simp [Free]

/-- session keys a node holds for circuit id `cid` as a joined party (exit socket first, else relay route) -/
def entryKeys (n : Node Sess) (cid : Nat) : Option Sess :=
  match n.exits cid with
  | some h => some h.keys
  | none => (n.relays cid).map (·.keys)

/-- no circuit id is both an exit socket and a relay route -/
def Disjoint (n : Node Sess) : Prop := ∀ cid, n.exits cid = none ∨ n.relays cid = none

/-- side condition for a RESUMED join (`.join`, only reachable with an overridden, suspending should_join_circuit):
    if the created cache for that id is not (or no longer) there, the id is not in use at the node — i.e. the policy
    did not suspend the join for longer than `unstable_timeout` after a competing join of the same id completed -/
def JoinTimely (n : Node Sess) : Ev Tag Blob → Prop
  | .join cid _ _ _ _ _ =>
    n.created cid = none → n.exits cid = none ∧ n.relays cid = none ∧ n.circuits cid = none
  | _ => True

/-- exits / relays after one step: only on_create (adds an exit socket under an unused id) and the relay branch of
    on_created (moves an exit socket to a pair of relay routes with the same keys) touch them -/
theorem step_joined [DecidableEq Tag] (C : Crypto Tag Sess Blob) (n : Node Sess) (e : Ev Tag Blob) :
    ((step C n e).1.exits = n.exits ∧ (step C n e).1.relays = n.relays) ∨
    (∃ cid h, n.exits cid = none ∧ n.relays cid = none ∧ n.circuits cid = none ∧
      (step C n e).1.exits = upd n.exits cid (some h) ∧ (step C n e).1.relays = n.relays) ∨
    (∃ cid' ident key auth cands env req ex, e = .created cid' ident key auth cands env ∧
      n.creates ident = some req ∧ n.exits req.fromCid = some ex ∧
      n.circuits req.toCid = none ∧ n.relays req.toCid = none ∧ n.exits req.toCid = none ∧
      (step C n e).1.exits = upd n.exits req.fromCid none ∧
      (step C n e).1.relays = upd (upd n.relays req.toCid (some ⟨req.fromCid, req.peer, ex.keys, false⟩))
        req.fromCid (some ⟨req.toCid, req.toPeer, ex.keys, true⟩)) := by
  have origin : ∀ cid ident key auth cands env,
      (originAnswer C n cid ident key auth cands env).1.exits = n.exits ∧
      (originAnswer C n cid ident key auth cands env).1.relays = n.relays := by
    intro cid ident key auth cands env
    unfold originAnswer
    split
    · exact ⟨rfl, rfl⟩
    · split
      · exact ⟨rfl, rfl⟩
      · split
        · exact ⟨rfl, rfl⟩
        · exact ⟨rfl, rfl⟩
  cases e with
  | createCircuit cid goal re fh env => left; exact ⟨rfl, rfl⟩
  | created cid ident key auth cands env =>
    cases hcr : pairing? n cid ident with
    | none => left; simp only [step, onCreatedG_eq, onExtendedG_eq, onCreated, hcr]; exact origin cid ident key auth cands env
    | some req =>
      have hcreq := (pairing_some hcr).1
      cases hex : n.exits req.fromCid with
      | none => left; simp [step, onCreatedG_eq, onExtendedG_eq, onCreated, hcr, hex]
      | some ex =>
        by_cases hpeer : (ex.peer != req.peer) = true
        · left; simp [step, onCreatedG_eq, onExtendedG_eq, onCreated, hcr, hex, hpeer]
        by_cases hused : ((n.circuits req.toCid).isSome || (n.relays req.toCid).isSome ||
            (n.exits req.toCid).isSome) = true
        · left; simp [step, onCreatedG_eq, onExtendedG_eq, onCreated, hcr, hex, hpeer, hused]
        · right; right
          have hu := hused
          simp only [Bool.or_eq_true, not_or, Option.isSome_iff_ne_none, ne_eq, Classical.not_not] at hu
          refine ⟨cid, ident, key, auth, cands, env, req, ex, rfl, hcreq, hex, hu.1.1, hu.1.2, hu.2, ?_, ?_⟩ <;>
            simp [step, onCreatedG_eq, onExtendedG_eq, onCreated, hcr, hex, hpeer, hused]
  | extended cid ident key auth cands env => left; rw [step_extended_eq]; exact origin cid ident key auth cands env
  | retryTimeout cid env =>
    left; simp only [step, onCreatedG_eq, onExtendedG_eq, retryTimeout]; split <;> exact ⟨rfl, rfl⟩
  | sendExtend cid cands tries env => left; simp only [step]; split <;> exact ⟨rfl, rfl⟩
  | sendInitialCreate cid cands tries env => left; simp only [step]; split <;> exact ⟨rfl, rfl⟩
  | removeCircuit cid => left; exact ⟨rfl, rfl⟩
  | create cid ident nodePk key y offered =>
    simp only [step, onCreatedG_eq, onExtendedG_eq, onCreate]
    split
    · left; exact ⟨rfl, rfl⟩
    · split
      · left; exact ⟨rfl, rfl⟩
      · split
        · left; exact ⟨rfl, rfl⟩
        · next hused =>
          split
          · left; exact ⟨rfl, rfl⟩
          · right; left
            simp only [Bool.or_eq_true, not_or, Option.isSome_iff_ne_none, ne_eq, Classical.not_not] at hused
            exact ⟨cid, _, hused.2, hused.1.2, hused.1.1, rfl, rfl⟩
  | join cid ident nodePk key y offered =>
    simp only [step, onCreatedG_eq, onExtendedG_eq, joinCircuit]
    split
    · left; exact ⟨rfl, rfl⟩
    · split
      · left; exact ⟨rfl, rfl⟩
      · split
        · left; exact ⟨rfl, rfl⟩
        · next hused =>
          right; left
          simp only [Bool.or_eq_true, not_or, Option.isSome_iff_ne_none, ne_eq, Classical.not_not] at hused
          exact ⟨cid, _, hused.2, hused.1.2, hused.1.1, rfl, rfl⟩
  | extend cid ident nodePk key ag toCid number =>
    left
    simp only [step, onCreatedG_eq, onExtendedG_eq, onExtend]
    split
    · exact ⟨rfl, rfl⟩
    · split
      · exact ⟨rfl, rfl⟩
      · split
        · exact ⟨rfl, rfl⟩
        · split <;> exact ⟨rfl, rfl⟩
  | createdExpire cid => left; exact ⟨rfl, rfl⟩
  | createExpire number => left; exact ⟨rfl, rfl⟩

theorem originAnswer_creates [DecidableEq Tag] (C : Crypto Tag Sess Blob) (n : Node Sess) (cid ident : Nat)
    (key : Option Wire) (auth : Tag) (cands : Blob) (env : Env) :
    (originAnswer C n cid ident key auth cands env).1.creates = n.creates := by
  unfold originAnswer
  split
  · rfl
  · split
    · rfl
    · split <;> rfl

theorem created_eq_extended [DecidableEq Tag] (C : Crypto Tag Sess Blob) (n : Node Sess) (cid ident : Nat)
    (key : Option Wire) (auth : Tag) (cands : Blob) (env : Env) (hrel : n.creates ident = none) :
    step C n (.created cid ident key auth cands env) = step C n (.extended cid ident key auth cands env) := by
  simp [step, onCreatedG_eq, onExtendedG_eq, onCreated, onExtended, pairing_none_of_creates hrel]

theorem resend_creates [DecidableEq Tag] (C : Crypto Tag Sess Blob) (n : Node Sess) (cid : Nat) (env : Env) (targets : List Key)
    (tries : Int) :
    (step C n (.retryTimeout cid env)).1.creates = n.creates ∧
    (step C n (.sendExtend cid targets tries env)).1.creates = n.creates ∧
    (step C n (.sendInitialCreate cid targets tries env)).1.creates = n.creates := by
  refine ⟨?_, ?_, ?_⟩
  · simp only [step, onCreatedG_eq, onExtendedG_eq, retryTimeout]; split <;> rfl
  · simp only [step]; split <;> rfl
  · simp only [step]; split <;> rfl


/-- every resumed join of a trace is timely -/
def RunTimely [DecidableEq Tag] (C : Crypto Tag Sess Blob) : Node Sess → List (Ev Tag Blob) → Prop
  | _, [] => True
  | n, e :: es => JoinTimely n e ∧ RunTimely C (step C n e).1 es

/-- the event is not a resumed join (the only event that needs an overridden, suspending should_join_circuit) -/
def NoResumedJoin : Ev Tag Blob → Prop
  | .join _ _ _ _ _ _ => False
  | _ => True

/-- no circuit that already has a verified hop carries a retry cache that would re-send a first-hop CREATE -/
def NoCreateRetryAfterHop (n : Node Sess) : Prop :=
  ∀ cid c, n.circuits cid = some c → c.hops ≠ [] → ∀ r, c.retry = some r → r.kind = Kind.extend

/-- the public API is used as the test-suite uses it: send_initial_create only on circuits without a verified hop -/
def ApiOnFreshCircuit (n : Node Sess) : Ev Tag Blob → Prop
  | .sendInitialCreate cid _ _ _ => ∀ c, n.circuits cid = some c → c.hops = []
  | _ => True

theorem sendExtend_kind (me cid : Nat) (c : Circ Sess) (cands : List Key) (tries : Int) (env : Env)
    (c' : Circ Sess) (h : (sendExtend (Tag := Tag) (Blob := Blob) me cid c cands tries env).1 = some c') :
    c'.hops = c.hops ∧ ∀ r, c'.retry = some r → r.kind = Kind.extend := by
  unfold sendExtend at h
  simp only at h
  generalize chooseTarget me c cands env = ch at h
  cases ht : ch.1 with
  | none => rw [ht] at h; cases h
  | some t =>
    rw [ht] at h
    simp only [Option.some.injEq] at h
    subst h
    exact ⟨rfl, fun r hr => by simp at hr; rw [← hr]⟩

theorem sendInitialCreate_keeps (me cid : Nat) (c : Circ Sess) (cands : List Key) (tries : Int) (env : Env)
    (c' : Circ Sess) (h : (sendInitialCreate (Tag := Tag) (Blob := Blob) me cid c cands tries env).1 = some c') :
    c'.hops = c.hops := by
  cases cands with
  | nil => simp [sendInitialCreate] at h; rw [← h]
  | cons f rest => simp [sendInitialCreate] at h; rw [← h]

theorem onTimeout_kind (me cid : Nat) (c : Circ Sess) (env : Env) (c' : Circ Sess)
    (hinv : c.hops ≠ [] → ∀ r, c.retry = some r → r.kind = Kind.extend)
    (h : (onTimeout (Tag := Tag) (Blob := Blob) me cid c env).1 = some c') :
    c'.hops ≠ [] → ∀ r, c'.retry = some r → r.kind = Kind.extend := by
  unfold onTimeout at h
  cases hr : c.retry with
  | none => rw [hr] at h; simp at h; subst h; exact hinv
  | some r =>
    rw [hr] at h
    simp only at h
    split at h
    · cases h
    · cases hk : r.kind with
      | create =>
        rw [hk] at h
        have hh := sendInitialCreate_keeps (Tag := Tag) (Blob := Blob) me cid _ _ _ _ c' h
        intro hne
        have : c.hops ≠ [] := by simpa [hh] using hne
        have := hinv this r hr
        rw [hk] at this; cases this
      | extend =>
        rw [hk] at h
        exact fun _ => (sendExtend_kind (Tag := Tag) (Blob := Blob) me cid _ _ _ _ c' h).2

theorem ours_kind [DecidableEq Tag] (C : Crypto Tag Sess Blob) (me cid : Nat) (c : Circ Sess)
    (key : Option Wire) (auth : Tag) (cands : Blob) (env : Env) (c' : Circ Sess)
    (h : (ours C me cid c key auth cands env).1 = some c') :
    c' = c ∨ ∀ r, c'.retry = some r → r.kind = Kind.extend := by
  rcases ours_spec C me cid c key auth cands env with h1 | ⟨h1, _, _⟩ | ⟨b, x, w, hu, hk, ha, hs⟩
  · rw [h1] at h; simp at h; exact Or.inl h.symm
  · rw [h1] at h; cases h
  · right
    subst hk ha
    unfold ours at h
    simp only [hu, genVerify_eq, pubOf, if_true] at h
    split at h
    · split at h
      · cases h
      · rcases extendAfterAccept_spec (Tag := Tag) (Blob := Blob) me cid _ _ env with
          h5 | ⟨c5, h5, _, _, ⟨_, h7⟩ | ⟨t, r5, _, h7, _, h8⟩⟩
        · rw [h5] at h; cases h
        · rw [h5] at h; cases h; intro r hr; rw [h7] at hr; cases hr
        · rw [h5] at h; cases h; intro r hr; rw [h7] at hr; cases hr; exact h8
    · simp at h; subst h; intro r hr; simp at hr


theorem step_circ_kind [DecidableEq Tag] (C : Crypto Tag Sess Blob) (n : Node Sess) (e : Ev Tag Blob) (cid : Nat) (c c' : Circ Sess)
    (h0 : n.circuits cid = some c) (hnew : ¬ e.createsCircuit cid) (hapi : ApiOnFreshCircuit n e)
    (hinv : c.hops ≠ [] → ∀ r, c.retry = some r → r.kind = Kind.extend)
    (h1 : (step C n e).1.circuits cid = some c') :
    c'.hops ≠ [] → ∀ r, c'.retry = some r → r.kind = Kind.extend := by
  have origin : ∀ cid' ident key auth cands env,
      (originAnswer C n cid' ident key auth cands env).1.circuits cid = some c' →
      (c'.hops ≠ [] → ∀ r, c'.retry = some r → r.kind = Kind.extend) := by
    intro cid' ident key auth cands env h
    rcases originAnswer_circ C n cid' ident key auth cands env cid c h0 with h' | ⟨_, r, _, _, h'⟩
    · rw [h] at h'; cases h'; exact hinv
    · rw [h] at h'
      rcases ours_kind C n.me cid c key auth cands env c' h'.symm with hc | hk
      · subst hc; exact hinv
      · exact fun _ => hk
  cases e with
  | createCircuit cid' goal re fh env =>
    have hc : cid ≠ cid' := fun h => hnew (by simp [Ev.createsCircuit, h])
    simp only [step, onCreatedG_eq, onExtendedG_eq, createCircuit, setCirc_circ, hc, if_false] at h1
    rw [h0] at h1; cases h1; exact hinv
  | created cid' ident key auth cands env =>
    cases hcr : pairing? n cid' ident with
    | some req =>
      have : (step C n (.created cid' ident key auth cands env)).1.circuits cid = n.circuits cid := by
        simp only [step, onCreatedG_eq, onExtendedG_eq, onCreated, hcr]
        split
        · rfl
        · split
          · rfl
          · split <;> rfl
      rw [this, h0] at h1; cases h1; exact hinv
    | none =>
      simp only [step, onCreatedG_eq, onExtendedG_eq, onCreated, hcr] at h1
      exact origin cid' ident key auth cands env h1
  | extended cid' ident key auth cands env =>
    simp only [step, onCreatedG_eq, onExtendedG_eq, onExtended] at h1
    exact origin cid' ident key auth cands env h1
  | retryTimeout cid' env =>
    by_cases hc : cid = cid'
    · subst hc
      simp only [step, onCreatedG_eq, onExtendedG_eq, retryTimeout, h0, setCirc_circ, if_true] at h1
      exact onTimeout_kind _ _ _ _ _ hinv h1
    · have : (step C n (.retryTimeout cid' env)).1.circuits cid = n.circuits cid := by
        simp only [step, onCreatedG_eq, onExtendedG_eq, retryTimeout]
        split
        · rfl
        · simp [setCirc_circ, hc]
      rw [this, h0] at h1; cases h1; exact hinv
  | sendExtend cid' cands tries env =>
    by_cases hc : cid = cid'
    · subst hc
      simp only [step, onCreatedG_eq, onExtendedG_eq, h0, setCirc_circ, if_true] at h1
      exact fun _ => (sendExtend_kind _ _ _ _ _ _ c' h1).2
    · have : (step C n (.sendExtend cid' cands tries env)).1.circuits cid = n.circuits cid := by
        simp only [step]
        split
        · rfl
        · simp [setCirc_circ, hc]
      rw [this, h0] at h1; cases h1; exact hinv
  | sendInitialCreate cid' cands tries env =>
    by_cases hc : cid = cid'
    · subst hc
      simp only [step, onCreatedG_eq, onExtendedG_eq, h0, setCirc_circ, if_true] at h1
      have hh := sendInitialCreate_keeps _ _ _ _ _ _ c' h1
      have hfresh : c.hops = [] := hapi c h0
      intro hne
      rw [hh, hfresh] at hne
      exact absurd rfl hne
    · have : (step C n (.sendInitialCreate cid' cands tries env)).1.circuits cid = n.circuits cid := by
        simp only [step]
        split
        · rfl
        · simp [setCirc_circ, hc]
      rw [this, h0] at h1; cases h1; exact hinv
  | removeCircuit cid' =>
    by_cases hc : cid = cid'
    · simp [step, onCreatedG_eq, onExtendedG_eq, upd, hc] at h1
    · simp [step, onCreatedG_eq, onExtendedG_eq, upd, hc, h0] at h1; subst h1; exact hinv
  | create cid' ident nodePk key y offered =>
    have : (step C n (.create cid' ident nodePk key y offered)).1.circuits cid = n.circuits cid := by
      simp only [step, onCreatedG_eq, onExtendedG_eq, onCreate]
      split
      · rfl
      · split
        · rfl
        · split
          · rfl
          · split <;> rfl
    rw [this, h0] at h1; cases h1; exact hinv
  | join cid' ident nodePk key y offered =>
    have : (step C n (.join cid' ident nodePk key y offered)).1.circuits cid = n.circuits cid := by
      simp only [step, onCreatedG_eq, onExtendedG_eq, joinCircuit]
      split
      · rfl
      · split
        · rfl
        · split <;> rfl
    rw [this, h0] at h1; cases h1; exact hinv
  | extend cid' ident nodePk key ag toCid number =>
    have : (step C n (.extend cid' ident nodePk key ag toCid number)).1.circuits cid = n.circuits cid := by
      simp only [step, onCreatedG_eq, onExtendedG_eq, onExtend]
      split
      · rfl
      · split
        · rfl
        · split
          · rfl
          · split <;> rfl
    rw [this, h0] at h1; cases h1; exact hinv
  | createdExpire cid' => rw [show (step C n (.createdExpire cid')).1.circuits cid = n.circuits cid from rfl, h0] at h1; cases h1; exact hinv
  | createExpire number => rw [show (step C n (.createExpire number)).1.circuits cid = n.circuits cid from rfl, h0] at h1; cases h1; exact hinv

/-- one step keeps the invariant -/
theorem no_create_retry_step [DecidableEq Tag] (C : Crypto Tag Sess Blob) (n : Node Sess) (e : Ev Tag Blob)
    (hinv : NoCreateRetryAfterHop n) (hapi : ApiOnFreshCircuit n e) : NoCreateRetryAfterHop (step C n e).1 := by
  intro cid c' h1
  by_cases hnew : e.createsCircuit cid
  · cases e with
    | createCircuit cid' goal re fh env =>
      have : cid' = cid := hnew
      subst this
      simp only [step, onCreatedG_eq, onExtendedG_eq, createCircuit, setCirc_circ, if_true] at h1
      have hh := sendInitialCreate_keeps _ _ _ _ _ _ c' h1
      intro hne; rw [hh] at hne; exact absurd rfl hne
    | _ => exact absurd hnew (by simp [Ev.createsCircuit])
  · cases h0 : n.circuits cid with
    | none => rw [step_absent C n e cid h0 hnew] at h1; cases h1
    | some c => exact step_circ_kind C n e cid c c' h0 hnew hapi (hinv cid c h0) h1

/-- every API use in a trace is on a fresh circuit -/
def RunApiFresh [DecidableEq Tag] (C : Crypto Tag Sess Blob) : Node Sess → List (Ev Tag Blob) → Prop
  | _, [] => True
  | n, e :: es => ApiOnFreshCircuit n e ∧ RunApiFresh C (step C n e).1 es

end Ipv8.C08
