/-
  C08 model — the create/extend handshake of ipv8/messaging/anonymization/community.py (core Lean only).

  Mirrors (quirks included):
    TunnelCommunity.create_circuit (from the point where the first-hop list is known), send_initial_create,
    send_extend, on_created (relay branch and originator branch), on_extended, _ours_on_created_extended,
    RetryRequestCache.on_timeout, on_create/join_circuit, on_extend, CreateRequestCache / CreatedRequestCache;
    TunnelCrypto.generate_diffie_shared_secret / verify_and_generate_shared_secret come from the GENERATED GenCrypto.lean.

  Environment inputs (`Env`): everything the code draws at random or from the network is an argument — the fresh
  ephemeral secret, the 16-bit packet identifier, the fallback exit peer, the relay's fresh circuit id / cache number.

  Quirks kept on purpose:
    * a wrong MAC raises CryptoException, which `except ValueError` does NOT catch: the handler aborts, state unchanged;
      a malformed key (wrong length / low-order point) raises ValueError: the circuit is removed;
    * the hop is appended BEFORE the candidate list is decrypted; an undecodable list removes the circuit (fix 2f0e945);
      if send_extend raises (unparseable candidate key) the handler aborts with the hop appended, no unverified hop
      and — since fix 4ca5f25 — no retry cache (the circuit then waits for the sweep);
    * the relay pairs a CREATED with its pending extend by the identifier and (since fix cc86df2) the reserved outgoing
      circuit id; the sender is ignored;
      since fix 172d874 it refuses to pair when the outgoing circuit id it reserved is meanwhile in use at this node.
-/
import Ipv8.C08.GenCrypto

namespace Ipv8.C08

variable {Tag Sess Blob : Type}

inductive Kind where
  | create
  | extend
  deriving DecidableEq, Repr

/-- RetryRequestCache: packet_identifier, candidates, max_tries, retry_func -/
structure Retry where
  ident : Nat
  cands : List Key
  tries : Int
  kind : Kind
  deriving DecidableEq, Repr

structure Hop (Sess : Type) where
  peer : Key
  keys : Sess

/-- Circuit: goal_hops, _hops, unverified_hop (peer, dh_secret), required_exit, plus its RetryRequestCache -/
structure Circ (Sess : Type) where
  goal : Nat
  hops : List (Hop Sess)
  unverified : Option (Key × Key)
  retry : Option Retry
  requiredExit : Option Key

structure Env where
  x : Key
  ident : Nat
  fallback : Option Key

inductive Msg (Tag Blob : Type) where
  | create (cid ident : Nat) (nodePk : Key) (key : Option Wire)
  | created (cid ident : Nat) (key : Option Wire) (auth : Tag) (cands : Blob)
  | extend (cid ident : Nat) (nodePk : Key) (key : Option Wire) (addrGiven : Bool)
  | extended (cid ident : Nat) (key : Option Wire) (auth : Tag) (cands : Blob)

structure Out (Tag Blob : Type) where
  to : Key
  msg : Msg Tag Blob

/-! ### originator -/

/-- send_initial_create(circuit, candidate_peers, max_tries) -/
def sendInitialCreate (me : Key) (cid : Nat) (c : Circ Sess) (cands : List Key) (tries : Int) (env : Env) :
    Option (Circ Sess) × List (Out Tag Blob) :=
  match cands with
  | [] => (some { c with retry := none }, [])            -- IndexError after the cache was popped
  | first :: _ =>
    let alts := cands.filter (fun k => k != first)
    (some { c with unverified := some (first, env.x),
                   retry := some ⟨env.ident, alts, tries - 1, .create⟩ },
     [⟨first, .create cid env.ident me (some (pubOf env.x))⟩])

/-- the peer the first cell goes to: circuit.hop (first verified hop, else the unverified hop) -/
def firstHopPeer (c : Circ Sess) : Key :=
  match c.hops with
  | h :: _ => h.peer
  | [] => match c.unverified with
    | some (p, _) => p
    | none => 0

/-- the choice made at the top of send_extend: (peer to extend to, candidate list kept for retries, address given) -/
def chooseTarget (me : Key) (c : Circ Sess) (cands : List Key) (env : Env) : Option Key × List Key × Bool :=
  let becomeExit := c.goal == c.hops.length + 1
  match becomeExit, c.requiredExit with
  | true, some e => (some e, ([] : List Key), true)
  | _, _ =>
    let exclude := c.hops.map Hop.peer ++ [me] ++ c.requiredExit.toList
    let cands' := cands.filter (fun k => !exclude.contains k)
    match cands' with
    | t :: _ => (some t, cands', false)
    | [] =>
      match env.fallback with
      | some f => if exclude.contains f then (none, cands', false) else (some f, cands', true)
      | none => (none, cands', false)

/-- a candidate key that cannot be parsed (the harness maps every such byte string to this symbol) -/
def badKey : Key := 0

/-- send_extend raises before writing anything: outside the required-exit branch it parses every non-excluded candidate -/
def extendRaises (me : Key) (c : Circ Sess) (cands : List Key) : Bool :=
  let becomeExit := c.goal == c.hops.length + 1
  let exclude := c.hops.map Hop.peer ++ [me] ++ c.requiredExit.toList
  !(becomeExit && c.requiredExit.isSome) && (cands.filter (fun k => !exclude.contains k)).contains badKey

/-- send_extend(circuit, candidates, max_tries) ; `none` = remove_circuit("no candidates to extend").
    Callers other than `ours` pass lists that were parsed before (retry caches keep the filtered list; the API is
    assumed to be given parseable keys), so the raising case is modelled at the one call site that takes a list
    straight from the network. -/
def sendExtend (me : Key) (cid : Nat) (c : Circ Sess) (cands : List Key) (tries : Int) (env : Env) :
    Option (Circ Sess) × List (Out Tag Blob) :=
  let ch := chooseTarget me c cands env
  match ch.1 with
  | none => (none, [])
  | some t =>
    (some { c with unverified := some (t, env.x),
                   retry := some ⟨env.ident, ch.2.1.filter (fun k => k != t), tries - 1, .extend⟩ },
     [⟨firstHopPeer c, .extend cid env.ident t (some (pubOf env.x)) ch.2.2⟩])

/-- the relay/exit split of the candidate list in `_ours_on_created_extended`:
    the first exit is listed twice; everything before the repetition are relays, everything after it exits -/
def splitCandsAux : List Key → List Key → Option (List Key × List Key)
  | _, [] => none
  | _, [_] => none
  | pre, a :: b :: rest =>
    if a == b then some (pre.reverse, b :: rest) else splitCandsAux (a :: pre) (b :: rest)

def splitCands (l : List Key) : List Key × List Key :=
  match splitCandsAux [] l with
  | some r => r
  | none => (l, [])

/-- the EXTENDING branch of `_ours_on_created_extended` once the candidate list `cl` has been decrypted: split it,
    choose the sub-list, call send_extend with the tries of the (already popped) retry cache -/
def extendAfterAccept (me : Key) (cid : Nat) (c1 : Circ Sess) (cl : List Key) (env : Env) :
    Option (Circ Sess) × List (Out Tag Blob) :=
  let (relayC, exitC) := splitCands cl
  let becomeExit := c1.goal == c1.hops.length + 1
  let chosen := if becomeExit then exitC else (if relayC.isEmpty then exitC else relayC)
  let tries : Int := match c1.retry with
    | some r => r.tries
    | none => 1
  -- send_extend parses every candidate it does not exclude (`key_from_public_bin`) before choosing: one
  -- unparseable key (`badKey`) makes it raise; the hop stays appended, nothing else is written
  if extendRaises me { c1 with retry := none } chosen then (some { c1 with retry := none }, [])
  else sendExtend me cid { c1 with retry := none } chosen tries env

/-- `_ours_on_created_extended(circuit_id, payload)` ; `none` = circuit removed -/
def ours [DecidableEq Tag] (C : Crypto Tag Sess Blob) (me : Key) (cid : Nat) (c : Circ Sess)
    (key : Option Wire) (auth : Tag) (cands : Blob) (env : Env) : Option (Circ Sess) × List (Out Tag Blob) :=
  match c.unverified with
  | none => (some c, [])
  | some (b, x) =>
    match key with
    | none => (none, [])                                   -- ValueError → remove_circuit
    | some w =>
      match genVerify C x w auth (pubOf b) with
      | none => (some c, [])                               -- CryptoException propagates, nothing changed
      | some secret =>
        let keys := C.kdf secret
        let c1 : Circ Sess := { c with unverified := none, hops := c.hops ++ [⟨b, keys⟩] }
        if c1.hops.length < c1.goal then                   -- CIRCUIT_STATE_EXTENDING
          match C.dec keys cands with
          | none => (none, [])      -- decrypt/unpack raises after the hop was appended: since fix 4ca5f25 the retry
                                    -- cache of the completed attempt has been popped before (it used to survive and
                                    -- fire), and since fix 2f0e945 (property C09) the circuit is removed
          | some cl => extendAfterAccept me cid c1 cl env
        else (some { c1 with retry := none }, [])          -- CIRCUIT_STATE_READY: pop the retry cache

/-- RetryRequestCache timing out (the cache has been removed by the RequestCache before on_timeout runs) -/
def onTimeout (me : Key) (cid : Nat) (c : Circ Sess) (env : Env) : Option (Circ Sess) × List (Out Tag Blob) :=
  match c.retry with
  | none => (some c, [])
  | some r =>
    let c0 : Circ Sess := { c with retry := none }
    if r.cands.isEmpty || r.tries < 1 then (none, [])
    else match r.kind with
      | .create => sendInitialCreate me cid c0 r.cands r.tries env
      | .extend => sendExtend me cid c0 r.cands r.tries env

/-! ### node = originator part + relay/responder part -/

/-- CreateRequestCache (keyed by its random number) -/
structure CreateReq where
  extendIdent : Nat
  toCid : Nat
  fromCid : Nat
  peer : Key
  toPeer : Key
  deriving DecidableEq, Repr

/-- RelayRoute: circuit id the cell is rewritten to, hop (peer, keys), direction -/
structure Relay (Sess : Type) where
  target : Nat
  peer : Key
  keys : Sess
  forward : Bool

structure Node (Sess : Type) where
  me : Key
  canJoin : Bool                          -- settings.peer_flags non-empty
  canRelay : Bool                         -- PEER_FLAG_RELAY in settings.peer_flags
  circuits : Nat → Option (Circ Sess)
  created : Nat → Option (List Key)       -- CreatedRequestCache: circuit id ↦ keys of the offered candidates
  creates : Nat → Option CreateReq        -- CreateRequestCache: number ↦ pending extend
  exits : Nat → Option (Hop Sess)         -- exit_sockets
  relays : Nat → Option (Relay Sess)      -- relay_from_to

def upd {α : Type} (f : Nat → Option α) (k : Nat) (v : Option α) : Nat → Option α :=
  fun i => if i = k then v else f i

def Node.init (me : Key) (canJoin canRelay : Bool) : Node Sess :=
  { me := me, canJoin := canJoin, canRelay := canRelay, circuits := fun _ => none, created := fun _ => none,
    creates := fun _ => none, exits := fun _ => none, relays := fun _ => none }

def Node.setCirc (n : Node Sess) (cid : Nat) (r : Option (Circ Sess) × List (Out Tag Blob)) :
    Node Sess × List (Out Tag Blob) :=
  ({ n with circuits := upd n.circuits cid r.1 }, r.2)

/-- create_circuit once the list of possible first hops is known -/
def createCircuit (n : Node Sess) (cid goal : Nat) (reqExit : Option Key) (firstHops : List Key) (env : Env) :
    Node Sess × List (Out Tag Blob) :=
  let c : Circ Sess := { goal := goal, hops := [], unverified := none, retry := none, requiredExit := reqExit }
  n.setCirc cid (sendInitialCreate n.me cid c firstHops genInitialTries env)

/-- the originator branch shared by on_created and on_extended: the answer must match the outstanding
    RetryRequestCache of that circuit and its packet identifier -/
def originAnswer [DecidableEq Tag] (C : Crypto Tag Sess Blob) (n : Node Sess) (cid ident : Nat)
    (key : Option Wire) (auth : Tag) (cands : Blob) (env : Env) : Node Sess × List (Out Tag Blob) :=
  match n.circuits cid with
  | none => (n, [])
  | some c =>
    match c.retry with
    | none => (n, [])
    | some r =>
      if r.ident = ident then n.setCirc cid (ours C n.me cid c key auth cands env) else (n, [])

/-- the pending extend a CREATED completes: the CreateRequestCache with that number, and (since fix cc86df2) only if
    the CREATED names the outgoing circuit id reserved by that request; otherwise the cache is left alone -/
def pairing? (n : Node Sess) (cid ident : Nat) : Option CreateReq :=
  match n.creates ident with
  | some req => if req.toCid = cid then some req else none
  | none => none

/-- the relay branch of on_created once the pending extend `req` is known (same text as inside `onCreated`) -/
def relayPairing (C : Crypto Tag Sess Blob) (n : Node Sess) (ident : Nat) (req : CreateReq)
    (key : Option Wire) (auth : Tag) (cands : Blob) : Node Sess × List (Out Tag Blob) :=
  let n1 : Node Sess := { n with creates := upd n.creates ident none }
  match n1.exits req.fromCid with
  | none => (n1, [])
  | some ex =>
    if ex.peer != req.peer then (n1, [])
    else if (n1.circuits req.toCid).isSome || (n1.relays req.toCid).isSome || (n1.exits req.toCid).isSome then (n1, [])
    else
    ({ n1 with exits := upd n1.exits req.fromCid none,
               relays := upd (upd n1.relays req.toCid (some ⟨req.fromCid, req.peer, ex.keys, false⟩))
                             req.fromCid (some ⟨req.toCid, req.toPeer, ex.keys, true⟩) },
     [⟨req.peer, .extended req.fromCid req.extendIdent key auth cands⟩])

/-- on_created -/
def onCreated [DecidableEq Tag] (C : Crypto Tag Sess Blob) (n : Node Sess) (cid ident : Nat)
    (key : Option Wire) (auth : Tag) (cands : Blob) (env : Env) : Node Sess × List (Out Tag Blob) :=
  match pairing? n cid ident with
  | some req =>
    let n1 : Node Sess := { n with creates := upd n.creates ident none }
    match n1.exits req.fromCid with
    | none => (n1, [])
    | some ex =>
      -- the exit socket must still belong to the peer the extend came from (C05 fix: id handed to another peer)
      if ex.peer != req.peer then (n1, [])
      -- the id reserved for the next hop was taken in the meantime (it travels in a plaintext CREATE): do not pair
      else if (n1.circuits req.toCid).isSome || (n1.relays req.toCid).isSome || (n1.exits req.toCid).isSome then (n1, [])
      else
      ({ n1 with exits := upd n1.exits req.fromCid none,
                 relays := upd (upd n1.relays req.toCid (some ⟨req.fromCid, req.peer, ex.keys, false⟩))
                               req.fromCid (some ⟨req.toCid, req.toPeer, ex.keys, true⟩) },
       [⟨req.peer, .extended req.fromCid req.extendIdent key auth cands⟩])
  | none => originAnswer C n cid ident key auth cands env

/-- on_extended -/
def onExtended [DecidableEq Tag] (C : Crypto Tag Sess Blob) (n : Node Sess) (cid ident : Nat)
    (key : Option Wire) (auth : Tag) (cands : Blob) (env : Env) : Node Sess × List (Out Tag Blob) :=
  originAnswer C n cid ident key auth cands env

/-! ### the handlers as `step` runs them: acceptance guards taken from the GENERATED definitions

`onCreated` / `onExtended` / `originAnswer` above are the hand-written reference; `onCreatedG` / `onExtendedG` below are
what `step` (and the driver) execute.  They ask the translated guards of GenCrypto.lean (`genCreatedPairs`,
`genCreatedAccepts`, `genExtendedAccepts`) whether to pair / to call `_ours_on_created_extended`, so a change of the
identifier check in community.py changes these definitions; `Lemmas.lean` proves them equal to the reference (that
proof is what breaks). -/

/-- originator branch with an arbitrary guard over (a retry cache exists for the circuit, its identifier equals the
    answer's): `cache = request_cache.get(RetryRequestCache, circuit_id)`; calling `_ours_on_created_extended` for a
    circuit id that is not in `circuits` raises KeyError (nothing changes) -/
def originAnswerG [DecidableEq Tag] (guard : Bool → Bool → Bool) (C : Crypto Tag Sess Blob) (n : Node Sess)
    (cid ident : Nat) (key : Option Wire) (auth : Tag) (cands : Blob) (env : Env) : Node Sess × List (Out Tag Blob) :=
  match n.circuits cid with
  | none => (n, [])
  | some c =>
    let hasCache := c.retry.isSome
    let identEq := match c.retry with
      | some r => r.ident == ident
      | none => false
    if guard hasCache identEq then n.setCirc cid (ours C n.me cid c key auth cands env) else (n, [])

/-- on_created with the translated guards -/
def onCreatedG [DecidableEq Tag] (C : Crypto Tag Sess Blob) (n : Node Sess) (cid ident : Nat)
    (key : Option Wire) (auth : Tag) (cands : Blob) (env : Env) : Node Sess × List (Out Tag Blob) :=
  let hasRequest := (n.creates ident).isSome
  let toCidEq := match n.creates ident with
    | some r => r.toCid == cid
    | none => false
  if genCreatedPairs hasRequest toCidEq then
    match n.creates ident with
    | some req => relayPairing C n ident req key auth cands
    | none => (n, [])
  else originAnswerG (genCreatedAccepts hasRequest toCidEq) C n cid ident key auth cands env

/-- on_extended with the translated guard -/
def onExtendedG [DecidableEq Tag] (C : Crypto Tag Sess Blob) (n : Node Sess) (cid ident : Nat)
    (key : Option Wire) (auth : Tag) (cands : Blob) (env : Env) : Node Sess × List (Out Tag Blob) :=
  originAnswerG genExtendedAccepts C n cid ident key auth cands env

/-- the retry cache of circuit `cid` times out -/
def retryTimeout (n : Node Sess) (cid : Nat) (env : Env) : Node Sess × List (Out Tag Blob) :=
  match n.circuits cid with
  | none => (n, [])
  | some c => n.setCirc cid (onTimeout n.me cid c env)

/-- on_create + join_circuit; `y` is the fresh ephemeral, `offered` the candidate keys put in the CREATED -/
def onCreate (C : Crypto Tag Sess Blob) (n : Node Sess) (cid ident : Nat) (nodePk : Key) (key : Option Wire)
    (y : Key) (offered : List Key) : Node Sess × List (Out Tag Blob) :=
  if !n.canJoin then (n, [])
  else if (n.created cid).isSome then (n, [])
  else if (n.circuits cid).isSome || (n.relays cid).isSome || (n.exits cid).isSome then (n, [])   -- id in use
  else match key with
    | none => (n, [])                                       -- diffie_hellman raises inside the task
    | some w =>
      let (secret, pk, auth) := genSharedSecret C y n.me w
      let keys := C.kdf secret
      ({ n with created := upd n.created cid (some offered),
                exits := upd n.exits cid (some ⟨nodePk, keys⟩) },
       [⟨nodePk, .created cid ident (some pk) auth (C.enc keys offered)⟩])

/-- join_circuit on its own — what runs when an on_create that was SUSPENDED in an overridden, really awaiting
    `should_join_circuit` resumes.  Since fix 82c67e3 on_create repeats its in-use guards after the await (created
    cache, circuits, relay routes, exit sockets) before it calls join_circuit; before that fix only the
    CreatedRequestCache constructor (RuntimeError for an id that is being joined already) stood in the way. -/
def joinCircuit (C : Crypto Tag Sess Blob) (n : Node Sess) (cid ident : Nat) (nodePk : Key) (key : Option Wire)
    (y : Key) (offered : List Key) : Node Sess × List (Out Tag Blob) :=
  match key with
  | none => (n, [])
  | some w =>
    if (n.created cid).isSome then (n, [])
    else if (n.circuits cid).isSome || (n.relays cid).isSome || (n.exits cid).isSome then (n, [])   -- re-check, fix 82c67e3
    else
      let (secret, pk, auth) := genSharedSecret C y n.me w
      let keys := C.kdf secret
      ({ n with created := upd n.created cid (some offered),
                exits := upd n.exits cid (some ⟨nodePk, keys⟩) },
       [⟨nodePk, .created cid ident (some pk) auth (C.enc keys offered)⟩])

/-- the previous hop a relay answers to: circuits, then exit_sockets, then relay_from_to -/
def prevPeer (n : Node Sess) (cid : Nat) : Option Key :=
  match n.circuits cid with
  | some c => some (firstHopPeer c)
  | none => match n.exits cid with
    | some h => some h.peer
    | none => match n.relays cid with
      | some r => some r.peer
      | none => none

/-- on_extend; `toCid`/`number` are the relay's fresh circuit id and cache number -/
def onExtend (n : Node Sess) (cid ident : Nat) (nodePk : Key) (key : Option Wire) (addrGiven : Bool)
    (toCid number : Nat) : Node Sess × List (Out Tag Blob) :=
  if !n.canRelay then (n, [])
  else match n.created cid with
    | none => (n, [])
    | some cands =>
      if !addrGiven && !cands.contains nodePk then (n, [])
      else match prevPeer n cid with
        | none => (n, [])
        | some prev =>
          ({ n with creates := upd n.creates number (some ⟨ident, toCid, cid, prev, nodePk⟩) },
           [⟨nodePk, .create toCid number n.me key⟩])

/-! ### events and traces -/

inductive Ev (Tag Blob : Type) where
  | createCircuit (cid goal : Nat) (reqExit : Option Key) (firstHops : List Key) (env : Env)
  | created (cid ident : Nat) (key : Option Wire) (auth : Tag) (cands : Blob) (env : Env)
  | extended (cid ident : Nat) (key : Option Wire) (auth : Tag) (cands : Blob) (env : Env)
  | retryTimeout (cid : Nat) (env : Env)
  | sendExtend (cid : Nat) (cands : List Key) (tries : Int) (env : Env)      -- public API, used by retries
  | sendInitialCreate (cid : Nat) (cands : List Key) (tries : Int) (env : Env)
  | removeCircuit (cid : Nat)
  | create (cid ident : Nat) (nodePk : Key) (key : Option Wire) (y : Key) (offered : List Key)
  | join (cid ident : Nat) (nodePk : Key) (key : Option Wire) (y : Key) (offered : List Key)   -- resumed join_circuit
  | extend (cid ident : Nat) (nodePk : Key) (key : Option Wire) (addrGiven : Bool) (toCid number : Nat)
  | createdExpire (cid : Nat)
  | createExpire (number : Nat)

def step [DecidableEq Tag] (C : Crypto Tag Sess Blob) (n : Node Sess) : Ev Tag Blob → Node Sess × List (Out Tag Blob)
  | .createCircuit cid goal re fh env => createCircuit n cid goal re fh env
  | .created cid ident key auth cands env => onCreatedG C n cid ident key auth cands env
  | .extended cid ident key auth cands env => onExtendedG C n cid ident key auth cands env
  | .retryTimeout cid env => retryTimeout n cid env
  | .sendExtend cid cands tries env =>
    match n.circuits cid with
    | none => (n, [])
    | some c => n.setCirc cid (sendExtend n.me cid c cands tries env)
  | .sendInitialCreate cid cands tries env =>
    match n.circuits cid with
    | none => (n, [])
    | some c => n.setCirc cid (sendInitialCreate n.me cid c cands tries env)
  | .removeCircuit cid => ({ n with circuits := upd n.circuits cid none }, [])
  | .create cid ident nodePk key y offered => onCreate C n cid ident nodePk key y offered
  | .join cid ident nodePk key y offered => joinCircuit C n cid ident nodePk key y offered
  | .extend cid ident nodePk key ag toCid number => onExtend n cid ident nodePk key ag toCid number
  | .createdExpire cid => ({ n with created := upd n.created cid none }, [])
  | .createExpire number => ({ n with creates := upd n.creates number none }, [])

/-! ### the cell layer in front of the handlers

Every tunnel message arrives in a cell.  `PythonCryptoEndpoint.process_cell` (the listener for ALL interfaces of the
node's endpoint) hands a cell to the community only if it is a plaintext cell whose message id is in
`NO_CRYPTO_PACKETS`, or if it decrypted under the session keys of the circuit it names (`authentic`).  The onion
layering itself is property C04; here only its consequence for the handshake handlers is modelled. -/

/-- message id of the handler an event enters (0 for events that are not cells) -/
def Ev.msgId : Ev Tag Blob → Nat
  | .create .. => genMsgIdCreate
  | .created .. => genMsgIdCreated
  | .extend .. => genMsgIdExtend
  | .extended .. => genMsgIdExtended
  | _ => 0

/-- the event is the arrival of a cell from the network -/
def Ev.isCell (e : Ev Tag Blob) : Bool := e.msgId != 0

/-- a cell reaches its handler only if it may be plaintext or is authentic; everything else is dropped before any
    handler runs -/
def deliverCell [DecidableEq Tag] (C : Crypto Tag Sess Blob) (n : Node Sess) (authentic : Bool) (e : Ev Tag Blob) :
    Node Sess × List (Out Tag Blob) :=
  if e.isCell && !authentic && !genNoCryptoPackets.contains e.msgId then (n, []) else step C n e

def run [DecidableEq Tag] (C : Crypto Tag Sess Blob) (n : Node Sess) : List (Ev Tag Blob) → Node Sess
  | [] => n
  | e :: es => run C (step C n e).1 es

/-- the ephemeral secret an event hands to the originator (if it makes it send) -/
def Ev.envX : Ev Tag Blob → Option Key
  | .createCircuit _ _ _ _ env => some env.x
  | .created _ _ _ _ _ env => some env.x
  | .extended _ _ _ _ _ env => some env.x
  | .retryTimeout _ env => some env.x
  | .sendExtend _ _ _ env => some env.x
  | .sendInitialCreate _ _ _ env => some env.x
  | _ => none

end Ipv8.C08
