/-
  C08 — circuit hops are only keyed with the peer the originator chose: property theorems.
  Every `theorem` in this file is an obligation of the check; helper lemmas live in Lemmas.lean.

  All theorems are about the model of Model.lean (+ the GENERATED key agreement of GenCrypto.lean), for EVERY node
  state, event, trace length, number of hops and number of circuits.  `C` is an arbitrary MAC/KDF/AEAD; where a
  cryptographic law is needed it is the explicit hypothesis `Laws C` (satisfiable: `free_laws`).  DH is symbolic
  (commutative by construction); "who can compute a key" is `Derivable K` (a DH value needs one of its two secrets).

  Property text → theorems
    "after every honest create/extend exchange both ends hold identical session keys and the hop list names exactly
     the peers it selected, in order"      → responder_answer, relay_pairing_transparent, honest_exchange_agrees,
                                              honest_agreement (any number of hops), honest_last_exchange_ready,
                                              honest_extend_end_to_end (three node states, messages chained)
    "wrong identifier / other circuit / replayed from an earlier attempt / altered key material never gives anyone
     other than the holder of the selected peer's private key session keys that the originator accepts"
                                            → accept_requires, accepted_keys_need_selected_key, wrong_identifier_rejected,
                                              no_outstanding_request_rejected, bad_auth_rejected, replay_rejected,
                                              duplicate_rejected, late_answer_rejected, resend_rejects_previous_answer,
                                              first_hop_duplicate_late_resend_rejected,
                                              every_hop_keyed_with_selected,
                                              no_outsider_holds_hop_keys (all histories)
    "the hop list names exactly the peers it selected, in order" (as a path) → no_first_hop_retry_after_first_hop,
                                              timeout_after_first_hop_sends_no_create, extend_goes_to_named_key
    (mechanism) only cells that decrypted under the circuit's keys reach on_extend / on_extended
                                            → unauthenticated_extend_ignored, delivered_cell_is_step
    "never changes an already established hop" → step_hops_append_only, hops_append_only, answer_touches_one_circuit
                                              (originator side); joined_ids_disjoint, joined_keys_stable,
                                              relay_route_stable, joined_state_stable, resumed_join_on_used_id_refused,
                                              pairing_under_used_id_refused (responder / relay side)
-/
import Ipv8.C08.Lemmas

namespace Ipv8.C08

variable {Tag Sess Blob : Type} [DecidableEq Tag]

/-! ### concrete states used by the non-vacuity examples (free crypto instance) -/

/-- originator 1 with circuit 77 (goal 2 hops), first-hop candidates [2, 3], ephemeral 10, identifier 555 -/
def exNode : Node Secret :=
  (step Free (Node.init 1 false false) (.createCircuit 77 2 none [2, 3] ⟨10, 555, none⟩)).1

/-- the genuine CREATED of peer 2 (ephemeral 20), offering candidates [3, 4, 4]; follow-up env: ephemeral 11, id 556 -/
def exAnswer : Ev FTag FBlob :=
  .created 77 555 (some ⟨20, 0⟩) (.mac [dh 10 20] ⟨20, 0⟩) (.enc [dh 10 20, dh 2 10] [3, 4, 4]) ⟨11, 556, none⟩

/-- the hypothesis bundle `Laws` is satisfiable -/
example : Laws Free := free_laws

example : (exNode.circuits 77).map (fun c => (c.unverified, c.retry.map (·.ident), c.hops.length))
    = some (some (2, 10), some 555, 0) := by decide

/-! ## 0. the acceptance guards are the translated ones

`step` runs `onCreatedG` / `onExtendedG`, which ask the guards GENERATED from community.py on every run
(GenCrypto.lean: `genCreatedPairs`, `genCreatedAccepts`, `genExtendedAccepts` — path conditions of the call of
`_ours_on_created_extended` and the test of the relay branch).  These three theorems are the obligations on the source:
if the identifier comparison, the retry-cache lookup or the circuit-id test of the relay branch is dropped or altered in
the code, they stop compiling — and with them everything below, which is proved through them. -/

/-- on_created enters the relay branch iff a pending extend carries that number AND the CREATED names its reserved id -/
theorem source_pairs_on_number_and_reserved_id (a b : Bool) : genCreatedPairs a b = (a && b) :=
  genCreatedPairs_spec a b

/-- on_created accepts an answer iff it is not the relay's, a retry cache exists AND the identifiers are equal -/
theorem source_created_checks_identifier (a b c d : Bool) :
    genCreatedAccepts a b c d = (!(a && b) && (c && d)) := genCreatedAccepts_spec a b c d

/-- on_extended accepts an answer iff a retry cache exists AND the identifiers are equal -/
theorem source_extended_checks_identifier (c d : Bool) : genExtendedAccepts c d = (c && d) :=
  genExtendedAccepts_spec c d

/-- what `step` executes is the reference semantics the remaining theorems talk about -/
theorem step_runs_translated_guards (C : Crypto Tag Sess Blob) (n : Node Sess) (cid ident : Nat)
    (key : Option Wire) (auth : Tag) (cands : Blob) (env : Env) :
    step C n (.created cid ident key auth cands env) = onCreated C n cid ident key auth cands env ∧
    step C n (.extended cid ident key auth cands env) = originAnswer C n cid ident key auth cands env :=
  ⟨step_created_eq C n cid ident key auth cands env, step_extended_eq C n cid ident key auth cands env⟩

example : genExtendedAccepts true false = false ∧ genCreatedAccepts false false true true = true := by decide

/-! ## 1. what acceptance requires -/

/-- A hop list changes ONLY by a created/extended answer for that very circuit whose identifier equals the
    outstanding retry cache's identifier and whose auth is the MAC, under DH(x, received key) for the ephemeral `x`
    of THIS attempt, of the received key bytes; the appended hop names the selected peer `b` and is keyed with
    KDF(DH(x, received) ++ DH(x, b)). -/
theorem accept_requires (C : Crypto Tag Sess Blob) (n : Node Sess) (e : Ev Tag Blob) (cid : Nat)
    (c c' : Circ Sess) (h0 : n.circuits cid = some c) (h1 : (step C n e).1.circuits cid = some c')
    (hnew : ¬ e.createsCircuit cid) (hne : c'.hops ≠ c.hops) :
    ∃ ident key auth cands env b x r w,
      (e = .created cid ident key auth cands env ∨ e = .extended cid ident key auth cands env) ∧
      c.unverified = some (b, x) ∧ c.retry = some r ∧ r.ident = ident ∧ key = some w ∧
      auth = C.mac [dh x w.pt] w ∧
      c'.hops = c.hops ++ [⟨b, C.kdf [dh x w.pt, dh x b]⟩] := by
  rcases step_circ_cases C n e cid c h0 hnew with h | h | ⟨env, _, h⟩ | ⟨ident, key, auth, cands, env, b, x, r, w, he, _, hu, hr, hi, hk, ha, hs⟩
  · rw [h1] at h; cases h; exact absurd rfl hne
  · rw [h1] at h; cases h
  · rcases h with h | ⟨c2, h, hh, _⟩
    · rw [h1] at h; cases h
    · rw [h1] at h; cases h; exact absurd hh hne
  · refine ⟨ident, key, auth, cands, env, b, x, r, w, he, hu, hr, hi, hk, ha, ?_⟩
    rcases hs with h | ⟨c2, h, hh, _⟩
    · rw [h1] at h; cases h
    · rw [h1] at h; cases h; exact hh

/-- non-vacuity: the genuine answer is accepted (hop 2 appended, extend to peer 4 with the fresh ephemeral 11) -/
example : ((step Free exNode exAnswer).1.circuits 77).map (fun c => (c.hops.map Hop.peer, c.unverified))
    = some ([2], some (4, 11)) := by decide

/-- ... so, if the KDF is collision-free, nobody who lacks both the originator's ephemeral `x` and the selected
    peer's static secret `b` can derive the session keys the originator accepted. -/
theorem accepted_keys_need_selected_key (C : Crypto Tag Sess Blob) (L : Laws C) (K : Key → Prop)
    (x b : Key) (w : Key) (hx : ¬ K x) (hb : ¬ K b) (s : Secret) (hs : Derivable K s) :
    C.kdf s ≠ C.kdf [dh x w, dh x b] := by
  intro h
  have := L.kdf_inj _ _ h
  subst this
  have hk := hs (dh x b) (by simp)
  unfold KnowsDH dh at hk
  by_cases hle : x ≤ b <;> simp [hle] at hk <;> rcases hk with hk | hk <;> first | exact hx hk | exact hb hk

/-- non-vacuity: an attacker knowing only its own secrets 30, 31 satisfies the hypotheses; e.g. what it can derive
    after substituting its ephemeral 30: DH(30, 10) twice -/
example : Derivable (fun k => k = 30 ∨ k = 31) [dh 30 10, dh 31 10] := by
  intro d hd
  simp at hd
  rcases hd with rfl | rfl <;> simp [KnowsDH, dh]

/-! ## 2. established hops never change -/

/-- one step: an existing circuit's hop list only ever grows at the end, by at most one hop -/
theorem step_hops_append_only (C : Crypto Tag Sess Blob) (n : Node Sess) (e : Ev Tag Blob) (cid : Nat)
    (c c' : Circ Sess) (h0 : n.circuits cid = some c) (h1 : (step C n e).1.circuits cid = some c')
    (hnew : ¬ e.createsCircuit cid) :
    c'.hops = c.hops ∨ ∃ h, c'.hops = c.hops ++ [h] := by
  rcases step_circ_cases C n e cid c h0 hnew with h | h | ⟨env, _, h⟩ | ⟨ident, key, auth, cands, env, b, x, r, w, he, _, hu, hr, hi, hk, ha, hs⟩
  · rw [h1] at h; cases h; exact Or.inl rfl
  · rw [h1] at h; cases h
  · rcases h with h | ⟨c2, h, hh, _⟩
    · rw [h1] at h; cases h
    · rw [h1] at h; cases h; exact Or.inl hh
  · rcases hs with h | ⟨c2, h, hh, _⟩
    · rw [h1] at h; cases h
    · rw [h1] at h; cases h; exact Or.inr ⟨_, hh⟩

/-- any history: as long as the circuit id is not re-used for a brand-new circuit, every established hop
    (peer and keys) is still there, at the same position -/
theorem hops_append_only (C : Crypto Tag Sess Blob) (evs : List (Ev Tag Blob)) (n : Node Sess) (cid : Nat)
    (c c' : Circ Sess) (h0 : n.circuits cid = some c) (h1 : (run C n evs).circuits cid = some c')
    (hnew : ∀ e ∈ evs, ¬ e.createsCircuit cid) :
    ∃ more, c'.hops = c.hops ++ more := by
  induction evs generalizing n c with
  | nil => simp only [run] at h1; rw [h0] at h1; cases h1; exact ⟨[], by simp⟩
  | cons e es ih =>
    simp only [run] at h1
    have hne := hnew e (by simp)
    have hrest : ∀ e' ∈ es, ¬ e'.createsCircuit cid := fun e' he' => hnew e' (by simp [he'])
    cases hmid : (step C n e).1.circuits cid with
    | none =>
      have : ∀ (es : List (Ev Tag Blob)) (m : Node Sess), m.circuits cid = none →
          (∀ e' ∈ es, ¬ e'.createsCircuit cid) → (run C m es).circuits cid = none := by
        intro es
        induction es with
        | nil => intro m hm _; exact hm
        | cons e2 es2 ih2 =>
          intro m hm hall
          simp only [run]
          exact ih2 _ (step_absent C m e2 cid hm (hall e2 (by simp))) (fun e' he' => hall e' (by simp [he']))
      rw [this es _ hmid hrest] at h1; cases h1
    | some cm =>
      obtain ⟨more, hm⟩ := ih (step C n e).1 cm hmid h1 hrest
      rcases step_hops_append_only C n e cid c cm h0 hmid hne with h | ⟨h, hh⟩
      · exact ⟨more, by rw [hm, h]⟩
      · exact ⟨h :: more, by rw [hm, hh]; simp⟩

/-- non-vacuity: a history with a forged, a genuine, a duplicated answer and a forged extended keeps hop 2 in place -/
example : ((run Free exNode [.created 77 555 (some ⟨30, 0⟩) (.junk 1) (.junk 2) ⟨12, 1, none⟩, exAnswer, exAnswer,
      .extended 77 556 (some ⟨31, 0⟩) (.mac [dh 31 10] ⟨31, 0⟩) (.junk 3) ⟨13, 557, some 5⟩]).circuits 77).map
    (fun c => c.hops.map Hop.peer) = some [2] := by decide

/-- an answer addressed to circuit `cid` leaves every other circuit untouched -/
theorem answer_touches_one_circuit (C : Crypto Tag Sess Blob) (n : Node Sess) (cid ident : Nat)
    (key : Option Wire) (auth : Tag) (cands : Blob) (env : Env) (cid' : Nat) (hc : cid' ≠ cid) :
    (step C n (.created cid ident key auth cands env)).1.circuits cid' = n.circuits cid' ∧
    (step C n (.extended cid ident key auth cands env)).1.circuits cid' = n.circuits cid' := by
  constructor
  · simp only [step, onCreatedG_eq, onExtendedG_eq, onCreated]
    split
    · split
      · rfl
      · split
        · rfl
        · split <;> rfl
    · exact originAnswer_other C n cid ident key auth cands env cid' hc
  · rw [step_extended_eq]; exact originAnswer_other C n cid ident key auth cands env cid' hc

/-! ## 3. rejected answers leave the node unchanged -/

/-- wrong identifier (created needs the relay-side cache not to claim the identifier) -/
theorem wrong_identifier_rejected (C : Crypto Tag Sess Blob) (n : Node Sess) (cid ident : Nat)
    (key : Option Wire) (auth : Tag) (cands : Blob) (env : Env) (c : Circ Sess) (r : Retry)
    (h0 : n.circuits cid = some c) (hr : c.retry = some r) (hid : r.ident ≠ ident)
    (hrel : n.creates ident = none) :
    step C n (.created cid ident key auth cands env) = (n, []) ∧
    step C n (.extended cid ident key auth cands env) = (n, []) := by
  have h := origin_reject C n cid ident key auth cands env (Or.inr ⟨c, h0, Or.inr (Or.inl ⟨r, hr, hid⟩)⟩)
  exact ⟨by simp only [step, onCreatedG_eq, onExtendedG_eq, onCreated, pairing_none_of_creates hrel]; exact h, by simp only [step, onCreatedG_eq, onExtendedG_eq, onExtended]; exact h⟩

example : ((step Free exNode (.created 77 556 (some ⟨20, 0⟩) (.mac [dh 10 20] ⟨20, 0⟩) (.junk 0) ⟨11, 556, none⟩)).1.circuits
    77).map (fun c => c.hops.length) = some 0 := by decide

/-- no outstanding request for that circuit: unknown circuit id, circuit already READY, duplicate of the final
    answer, answer arriving between a timeout and the retry -/
theorem no_outstanding_request_rejected (C : Crypto Tag Sess Blob) (n : Node Sess) (cid ident : Nat)
    (key : Option Wire) (auth : Tag) (cands : Blob) (env : Env)
    (h : n.circuits cid = none ∨ ∃ c, n.circuits cid = some c ∧ c.retry = none)
    (hrel : n.creates ident = none) :
    step C n (.created cid ident key auth cands env) = (n, []) ∧
    step C n (.extended cid ident key auth cands env) = (n, []) := by
  have h' := origin_reject C n cid ident key auth cands env
    (h.elim Or.inl (fun ⟨c, hc, hr⟩ => Or.inr ⟨c, hc, Or.inl hr⟩))
  exact ⟨by simp only [step, onCreatedG_eq, onExtendedG_eq, onCreated, pairing_none_of_creates hrel]; exact h', by simp only [step, onCreatedG_eq, onExtendedG_eq, onExtended]; exact h'⟩

example : exNode.circuits 78 = none ∧ exNode.creates 555 = none := by decide

/-- altered key material: any auth that is not exactly MAC(DH(x, received), received) is rejected, whatever the
    identifier — in particular a re-encoding of the same curve point (`enc ≠ 0`: DH unchanged, MAC input changed) -/
theorem bad_auth_rejected (C : Crypto Tag Sess Blob) (n : Node Sess) (cid ident : Nat)
    (w : Wire) (auth : Tag) (cands : Blob) (env : Env) (c : Circ Sess) (b x : Key)
    (h0 : n.circuits cid = some c) (hu : c.unverified = some (b, x))
    (hbad : auth ≠ C.mac [dh x w.pt] w) (hrel : n.creates ident = none) :
    step C n (.created cid ident (some w) auth cands env) = (n, []) ∧
    step C n (.extended cid ident (some w) auth cands env) = (n, []) := by
  have h := origin_reject C n cid ident (some w) auth cands env
    (Or.inr ⟨c, h0, Or.inr (Or.inr (Or.inr ⟨b, x, w, hu, rfl, hbad⟩))⟩)
  exact ⟨by simp only [step, onCreatedG_eq, onExtendedG_eq, onCreated, pairing_none_of_creates hrel]; exact h, by simp only [step, onCreatedG_eq, onExtendedG_eq, onExtended]; exact h⟩

/-- non-vacuity: outstanding attempt (2, 10); the genuine MAC but over a RE-ENCODED key (same point, enc 1) is rejected -/
example : ((step Free exNode (.created 77 555 (some ⟨20, 1⟩) (.mac [dh 10 20] ⟨20, 0⟩) (.junk 0) ⟨11, 556, none⟩)).1.circuits
    77).map (fun c => (c.hops.length, c.unverified)) = some (0, some (2, 10)) := by decide
example : (FTag.mac [dh 10 20] ⟨20, 0⟩ : FTag) ≠ Free.mac [dh 10 (⟨20, 1⟩ : Wire).pt] ⟨20, 1⟩ := by decide

/-- replay from an earlier attempt / from another circuit: an auth made for another ephemeral `x' ≠ x` is rejected
    (MAC collision-freeness), even when the 16-bit identifier happens to collide -/
theorem replay_rejected (C : Crypto Tag Sess Blob) (L : Laws C) (n : Node Sess) (cid ident : Nat)
    (w w' : Wire) (cands : Blob) (env : Env) (c : Circ Sess) (b x x' : Key)
    (h0 : n.circuits cid = some c) (hu : c.unverified = some (b, x)) (hx : x' ≠ x)
    (hrel : n.creates ident = none) :
    step C n (.created cid ident (some w) (C.mac [dh x' w'.pt] w') cands env) = (n, []) ∧
    step C n (.extended cid ident (some w) (C.mac [dh x' w'.pt] w') cands env) = (n, []) :=
  bad_auth_rejected C n cid ident w _ cands env c b x h0 hu (mac_other_ephemeral C L x x' w w' hx) hrel

/-- duplicated answer: delivering the same answer a second time changes nothing, provided the ephemeral drawn for
    a follow-up extend is fresh -/
theorem duplicate_rejected (C : Crypto Tag Sess Blob) (L : Laws C) (n : Node Sess) (cid ident : Nat)
    (key : Option Wire) (auth : Tag) (cands : Blob) (env env' : Env)
    (hfresh : ∀ c b x, n.circuits cid = some c → c.unverified = some (b, x) → env.x ≠ x) :
    let n' := (step C n (.extended cid ident key auth cands env)).1
    step C n' (.extended cid ident key auth cands env') = (n', []) := by
  intro n'
  have hn' : n' = (originAnswer C n cid ident key auth cands env).1 := by simp only [n', step_extended_eq]
  simp only [step, onCreatedG_eq, onExtendedG_eq, onExtended]
  cases h0 : n.circuits cid with
  | none =>
    have : n' = n := by
      rw [hn', originAnswer_noop C n cid ident key auth cands env (Or.inl h0)]
    rw [this]
    exact originAnswer_noop C n cid ident key auth cands env' (Or.inl h0)
  | some c =>
    apply origin_reject
    rcases originAnswer_cases C n cid ident key auth cands env c h0 with ⟨h1, h⟩ | h | ⟨b, x, r, w, hu, hr, hi, hk, ha, hs⟩
    · right
      refine ⟨c, by rw [hn']; exact h1, unchanged_reason C n cid ident key auth cands env c h0 h1⟩
    · left; rw [hn']; exact h
    · rcases hs with h | ⟨c1, h1, _, _, ⟨hu1, _⟩ | ⟨t, r1, hu1, hr1, hi1⟩⟩
      · left; rw [hn']; exact h
      · right; exact ⟨c1, by rw [hn']; exact h1, Or.inr (Or.inr (Or.inl hu1))⟩
      · right
        refine ⟨c1, by rw [hn']; exact h1, Or.inr (Or.inr (Or.inr ⟨t, env.x, w, hu1, hk, ?_⟩))⟩
        rw [ha]
        exact mac_other_ephemeral C L env.x x w w (Ne.symm (hfresh c b x h0 hu))

example : ((run Free exNode [exAnswer, exAnswer]).circuits 77).map (fun c => c.hops.length) = some 1 := by decide

/-- late answer: after the retry cache timed out (and a retry with a fresh ephemeral was sent, or the circuit was
    dropped), an answer made for the OLD ephemeral `x` changes nothing -/
theorem late_answer_rejected (C : Crypto Tag Sess Blob) (L : Laws C) (n : Node Sess) (cid ident : Nat)
    (w : Wire) (cands : Blob) (env env' : Env) (c : Circ Sess) (x : Key)
    (h0 : n.circuits cid = some c) (hfresh : env.x ≠ x) :
    let n' := (step C n (.retryTimeout cid env)).1
    step C n' (.extended cid ident (some w) (C.mac [dh x w.pt] w) cands env') = (n', []) := by
  intro n'
  have hc : n'.circuits cid = (onTimeout (Tag := Tag) (Blob := Blob) n.me cid c env).1 := by
    simp only [n', step, onCreatedG_eq, onExtendedG_eq, retryTimeout, h0, setCirc_circ, if_true]
  simp only [step, onCreatedG_eq, onExtendedG_eq, onExtended]
  apply origin_reject
  rcases onTimeout_resent (Tag := Tag) (Blob := Blob) n.me cid c env with h | ⟨c1, h1, _, _, ⟨_, hr1⟩ | ⟨t, r1, hu1, _, _⟩⟩
  · left; rw [hc]; exact h
  · right; exact ⟨c1, by rw [hc]; exact h1, Or.inl hr1⟩
  · right
    refine ⟨c1, by rw [hc]; exact h1, Or.inr (Or.inr (Or.inr ⟨t, env.x, w, hu1, rfl, ?_⟩))⟩
    exact mac_other_ephemeral C L env.x x w w (Ne.symm hfresh)

example : ((run Free exNode [.retryTimeout 77 ⟨13, 557, none⟩, exAnswer]).circuits 77).map
    (fun c => (c.hops.length, c.unverified)) = some (0, some (3, 13)) := by decide

/-- re-targeted attempt (public API, the "reuse a partial circuit" path): after the application re-sends the pending
    create / extend — to the same or to another candidate — with a fresh ephemeral, an answer made for the ephemeral
    `x` of the PREVIOUS attempt changes nothing, even if the identifier were carried over -/
theorem resend_rejects_previous_answer (C : Crypto Tag Sess Blob) (L : Laws C) (n : Node Sess) (cid ident : Nat)
    (w : Wire) (cands : Blob) (env env' : Env) (c : Circ Sess) (x : Key) (targets : List Key) (tries : Int)
    (h0 : n.circuits cid = some c) (hfresh : env.x ≠ x) :
    (let n' := (step C n (.sendExtend cid targets tries env)).1
     step C n' (.extended cid ident (some w) (C.mac [dh x w.pt] w) cands env') = (n', [])) ∧
    (let n' := (step C n (.sendInitialCreate cid targets tries env)).1
     step C n' (.extended cid ident (some w) (C.mac [dh x w.pt] w) cands env') = (n', [])) := by
  have key : ∀ res : Option (Circ Sess) × List (Out Tag Blob), Resent c env res.1 →
      step C (n.setCirc cid res).1 (.extended cid ident (some w) (C.mac [dh x w.pt] w) cands env')
        = ((n.setCirc cid res).1, []) := by
    intro res hres
    simp only [step, onCreatedG_eq, onExtendedG_eq, onExtended]
    apply origin_reject
    have hc : (n.setCirc cid res).1.circuits cid = res.1 := by simp [setCirc_circ]
    rcases hres with h | ⟨c1, h1, _, _, ⟨_, hr1⟩ | ⟨t, r1, hu1, _, _⟩⟩
    · left; rw [hc]; exact h
    · right; exact ⟨c1, by rw [hc]; exact h1, Or.inl hr1⟩
    · right
      refine ⟨c1, by rw [hc]; exact h1, Or.inr (Or.inr (Or.inr ⟨t, env.x, w, hu1, rfl, ?_⟩))⟩
      exact mac_other_ephemeral C L env.x x w w (Ne.symm hfresh)
  constructor
  · intro n'
    have : n' = (n.setCirc cid (sendExtend (Tag := Tag) (Blob := Blob) n.me cid c targets tries env)).1 := by
      simp only [n', step, onCreatedG_eq, onExtendedG_eq, h0]
    rw [this]
    exact key _ (sendExtend_resent _ _ _ _ _ _)
  · intro n'
    have : n' = (n.setCirc cid (sendInitialCreate (Tag := Tag) (Blob := Blob) n.me cid c targets tries env)).1 := by
      simp only [n', step, onCreatedG_eq, onExtendedG_eq, h0]
    rw [this]
    exact key _ (sendInitialCreate_resent _ _ _ _ _ _)

/-- non-vacuity: hop 2 answered slowly; the application re-targets the first hop to peer 3 (fresh ephemeral 14); the
    late answer of peer 2 — even with the new identifier 558 — is not accepted -/
example : ((run Free exNode [.sendInitialCreate 77 [3] 2 ⟨14, 558, none⟩,
      .created 77 558 (some ⟨20, 0⟩) (.mac [dh 10 20] ⟨20, 0⟩) (.junk 0) ⟨15, 559, none⟩]).circuits 77).map
    (fun c => (c.hops.length, c.unverified)) = some (0, some (3, 14)) := by decide

/-- first-hop versions (the answer is a CREATED; the node's relay-side cache must not claim the identifier) -/
theorem first_hop_duplicate_late_resend_rejected (C : Crypto Tag Sess Blob) (L : Laws C) (n : Node Sess)
    (cid ident : Nat) (key : Option Wire) (auth : Tag) (w : Wire) (cands : Blob) (env env' : Env) (c : Circ Sess)
    (x : Key) (targets : List Key) (tries : Int)
    (h0 : n.circuits cid = some c) (hrel : n.creates ident = none)
    (hdup : ∀ b x', c.unverified = some (b, x') → env.x ≠ x') (hfresh : env.x ≠ x) :
    (let n' := (step C n (.created cid ident key auth cands env)).1
     step C n' (.created cid ident key auth cands env') = (n', [])) ∧
    (let n' := (step C n (.retryTimeout cid env)).1
     step C n' (.created cid ident (some w) (C.mac [dh x w.pt] w) cands env') = (n', [])) ∧
    (let n' := (step C n (.sendInitialCreate cid targets tries env)).1
     step C n' (.created cid ident (some w) (C.mac [dh x w.pt] w) cands env') = (n', [])) ∧
    (let n' := (step C n (.sendExtend cid targets tries env)).1
     step C n' (.created cid ident (some w) (C.mac [dh x w.pt] w) cands env') = (n', [])) := by
  obtain ⟨hc1, hc2, hc3⟩ := resend_creates C n cid env targets tries
  refine ⟨?_, ?_, ?_, ?_⟩
  · intro n'
    have hn : n' = (step C n (.extended cid ident key auth cands env)).1 := by
      simp only [n', created_eq_extended C n cid ident key auth cands env hrel]
    have hcr : n'.creates ident = none := by
      rw [hn]; simp only [step, onCreatedG_eq, onExtendedG_eq, onExtended, originAnswer_creates]; exact hrel
    rw [created_eq_extended C n' cid ident key auth cands env' hcr, hn]
    exact duplicate_rejected C L n cid ident key auth cands env env'
      (fun c' b x' hc hu => by rw [h0] at hc; cases hc; exact hdup b x' hu)
  · intro n'
    have hcr : n'.creates ident = none := by simp only [n', hc1]; exact hrel
    rw [created_eq_extended C n' cid ident _ _ cands env' hcr]
    exact late_answer_rejected C L n cid ident w cands env env' c x h0 hfresh
  · intro n'
    have hcr : n'.creates ident = none := by simp only [n', hc3]; exact hrel
    rw [created_eq_extended C n' cid ident _ _ cands env' hcr]
    exact (resend_rejects_previous_answer C L n cid ident w cands env env' c x targets tries h0 hfresh).2
  · intro n'
    have hcr : n'.creates ident = none := by simp only [n', hc2]; exact hrel
    rw [created_eq_extended C n' cid ident _ _ cands env' hcr]
    exact (resend_rejects_previous_answer C L n cid ident w cands env env' c x targets tries h0 hfresh).1

/-- non-vacuity: first-hop answer delivered twice; hop 2 appended once -/
example : ((run Free exNode [exAnswer, exAnswer]).circuits 77).map (fun c => c.hops.map Hop.peer) = some [2] ∧
    exNode.creates 555 = none := by decide

/-! ## 4. every history: hops are keyed with the selected peer's static key -/

/-- invariant over ALL traces (any interleaving of answers, forged or genuine, timeouts, retries, relay duties):
    every verified hop `h` of every circuit is keyed with KDF(DH(x, ·) ++ DH(x, h.peer)) for an ephemeral `x` the
    originator drew itself -/
theorem every_hop_keyed_with_selected (C : Crypto Tag Sess Blob) (evs : List (Ev Tag Blob))
    (me : Key) (cj cr : Bool) :
    KeyedWithSelected C (evs.filterMap Ev.envX) (run C (Node.init me cj cr) evs) := by
  have h0 : KeyedWithSelected C [] (Node.init (Sess := Sess) me cj cr) := by
    intro cid c hc
    simp [Node.init] at hc
  simpa using keyed_run C evs [] _ h0

/-- ... hence in every reachable state nobody who lacks the originator's ephemerals and the hop peer's static
    secret can derive the keys of that hop -/
theorem no_outsider_holds_hop_keys (C : Crypto Tag Sess Blob) (L : Laws C) (evs : List (Ev Tag Blob))
    (me : Key) (cj cr : Bool) (K : Key → Prop) (hK : ∀ x ∈ evs.filterMap Ev.envX, ¬ K x)
    (cid : Nat) (c : Circ Sess) (hc : (run C (Node.init me cj cr) evs).circuits cid = some c)
    (h : Hop Sess) (hh : h ∈ c.hops) (hp : ¬ K h.peer) (s : Secret) (hs : Derivable K s) :
    C.kdf s ≠ h.keys := by
  obtain ⟨hk, _⟩ := every_hop_keyed_with_selected C evs me cj cr cid c hc
  obtain ⟨x, w, hx, hkeys⟩ := hk h hh
  rw [hkeys]
  intro heq
  have := L.kdf_inj _ _ heq
  subst this
  have hkn := hs (dh x h.peer) (by simp)
  unfold KnowsDH dh at hkn
  by_cases hle : x ≤ h.peer <;> simp [hle] at hkn <;> rcases hkn with hkn | hkn <;>
    first | exact hK x hx hkn | exact hp hkn

/-- non-vacuity: after an ephemeral-key substitution with a recomputed MAC (attacker ephemeral 30) the originator DOES
    accept — and the accepted keys are KDF(DH(10,30) ++ DH(10,2)), which need secret 10 or the static secret 2 -/
example : ((step Free exNode (.created 77 555 (some ⟨30, 0⟩) (.mac [dh 30 10] ⟨30, 0⟩) (.enc [dh 10 30, dh 2 10] [0, 0])
    ⟨11, 556, none⟩)).1.circuits
    77).map (fun c => c.hops.map (fun h => (h.peer, h.keys))) = some [(2, [dh 10 30, dh 2 10])] := by decide

/-! ## 5. honest exchanges agree -/

/-- responder: on_create/join_circuit (for a circuit id that is not in use at this node) answers with exactly
    `genuineAnswer` (identifier echoed) and stores those session keys for the circuit -/
theorem responder_answer (C : Crypto Tag Sess Blob) (q : Node Sess) (cid ident nodePk y : Key) (X : Wire)
    (offered : List Key) (hj : q.canJoin = true) (hfree : q.created cid = none)
    (hunused : q.circuits cid = none ∧ q.relays cid = none ∧ q.exits cid = none) :
    let a := genuineAnswer C q.me y X offered
    onCreate C q cid ident nodePk (some X) y offered =
      ({ q with created := upd q.created cid (some offered), exits := upd q.exits cid (some ⟨nodePk, a.2.2.2⟩) },
       [⟨nodePk, .created cid ident (some a.1) a.2.1 a.2.2.1⟩]) := by
  simp [onCreate, hj, hfree, hunused.1, hunused.2.1, hunused.2.2, genuineAnswer, genSharedSecret_eq]

/-- non-vacuity: a fresh node 4 satisfies the hypotheses and answers a CREATE for id 88 -/
example :
    let q : Node Secret := Node.init 4 true true
    q.canJoin = true ∧ q.created 88 = none ∧ q.exits 88 = none ∧
      (onCreate Free q 88 999 2 (some (pubOf 11)) 21 [5, 5]).2.length = 1 := by decide

/-- relay: on_extend forwards the originator's key bytes unchanged in a CREATE carrying the cache number, and the
    CREATED that carries that number AND names the reserved outgoing circuit id comes back as an EXTENDED for the original circuit with the ORIGINAL identifier
    and the key, auth and candidate bytes unchanged; the relay keeps its own session keys -/
theorem relay_pairing_transparent (C : Crypto Tag Sess Blob) (r : Node Sess) (cid ident b : Key)
    (X key : Option Wire) (auth : Tag) (cands : Blob) (ag : Bool) (toCid number : Nat) (env : Env)
    (offeredBefore : List Key) (prev : Hop Sess)
    (hr : r.canRelay = true) (hc : r.created cid = some offeredBefore) (hb : ag = true ∨ b ∈ offeredBefore)
    (hnc : r.circuits cid = none) (hex : r.exits cid = some prev)
    (hfree : r.circuits toCid = none ∧ r.relays toCid = none ∧ r.exits toCid = none) :
    let s1 : Node Sess × List (Out Tag Blob) := onExtend r cid ident b X ag toCid number
    let s2 := onCreated C s1.1 toCid number key auth cands env
    s1.2 = [⟨b, .create toCid number r.me X⟩] ∧
    s2.2 = [⟨prev.peer, .extended cid ident key auth cands⟩] ∧
    (∃ rl, s2.1.relays cid = some rl ∧ rl.keys = prev.keys ∧ rl.target = toCid ∧ rl.peer = b) := by
  have hguard : (!ag && !offeredBefore.contains b) = false := by
    rcases hb with hb | hb
    · simp [hb]
    · simp [hb]
  have hs1 : onExtend (Tag := Tag) (Blob := Blob) r cid ident b X ag toCid number =
      ({ r with creates := upd r.creates number (some ⟨ident, toCid, cid, prev.peer, b⟩) },
       [⟨b, .create toCid number r.me X⟩]) := by
    have hg2 : ag = false → b ∈ offeredBefore := by
      intro hf; rcases hb with hb | hb
      · rw [hf] at hb; cases hb
      · exact hb
    simp [onExtend, hr, hc, prevPeer, hnc, hex]
    exact hg2
  intro s1 s2
  have e1 : s1 = ({ r with creates := upd r.creates number (some ⟨ident, toCid, cid, prev.peer, b⟩) },
       [⟨b, .create toCid number r.me X⟩]) := hs1
  refine ⟨by rw [e1], ?_, ?_⟩
  · simp [s2, e1, onCreated, pairing?, upd_same, hex, hfree.1, hfree.2.1, hfree.2.2]
  · simp [s2, e1, onCreated, pairing?, upd_same, hex, hfree.1, hfree.2.1, hfree.2.2]

/-- non-vacuity: a relay (node 2) that joined circuit 77 pairs the extend to peer 4 with the CREATED numbered 999 -/
example :
    let r := (step Free (Node.init 2 true true) (.create 77 555 1 (some ⟨10, 0⟩) 20 [3, 4, 4])).1
    let r1 := (step Free r (.extend 77 556 4 (some ⟨11, 0⟩) false 88 999)).1
    ((step Free r1 (.created 88 999 (some ⟨21, 0⟩) (.junk 5) (.junk 6) ⟨0, 0, none⟩)).1.relays 77).map
      (fun rl => (rl.target, rl.peer)) = some (88, 4) := by decide

/-- one undisturbed exchange: the originator appends exactly the selected peer, with exactly the keys that peer
    stored (DH commutes) -/
theorem honest_exchange_agrees (C : Crypto Tag Sess Blob) (n : Node Sess) (cid : Nat)
    (c : Circ Sess) (b x : Key) (r : Retry) (y : Key) (offered : List Key) (env : Env)
    (h0 : n.circuits cid = some c) (hu : c.unverified = some (b, x)) (hr : c.retry = some r) :
    let res := deliverGenuine C n cid y offered env
    res.2 = some ⟨b, (genuineAnswer C b y (pubOf x) offered).2.2.2⟩ ∧
    (∀ c', res.1.circuits cid = some c' → c'.hops = c.hops ++ [⟨b, (genuineAnswer C b y (pubOf x) offered).2.2.2⟩]) := by
  intro res
  have hres : res = _ := deliverGenuine_eq C n cid c b x r y offered env h0 hu hr
  rw [hres]
  simp only [genuineAnswer_eq, pubOf]
  refine ⟨trivial, ?_⟩
  intro c' hc'
  rcases originAnswer_cases C n cid r.ident (some (pubOf y)) (C.mac [dh y x] (pubOf y))
      (C.enc (C.kdf [dh y x, dh b x]) offered) env c h0 with ⟨h1, _⟩ | h1 | ⟨b1, x1, r1, w1, hu1, _, _, hk1, _, hs⟩
  · exfalso
    rcases unchanged_reason C n cid r.ident _ _ _ env c h0 h1 with h | ⟨r2, h, hi⟩ | h | ⟨b2, x2, w2, h, hk, hbad⟩
    · rw [hr] at h; cases h
    · rw [hr] at h; cases h; exact hi rfl
    · rw [hu] at h; cases h
    · rw [hu] at h; cases h; cases hk
      exact hbad (by simp [pubOf, dh_comm])
  · simp only [pubOf] at h1; rw [hc'] at h1; cases h1
  · rw [hu] at hu1; cases hu1; cases hk1
    rcases hs with h | ⟨c1, h, hh, _⟩
    · simp only [pubOf] at h; rw [hc'] at h; cases h
    · simp only [pubOf] at h; rw [hc'] at h; cases h
      rw [hh]; simp [pubOf, dh_comm]

/-- non-vacuity: the outstanding attempt of `exNode` is (peer 2, ephemeral 10, id 555) -/
example : (deliverGenuine Free exNode 77 20 [3, 4, 4] ⟨11, 556, none⟩).2.map (fun h => (h.peer, h.keys))
    = some (2, [dh 10 20, dh 2 10]) := by decide

/-- any number of hops: after an undisturbed build the hop list is the initial one followed by exactly the selected
    peers, in order, each with the keys that peer holds -/
theorem honest_agreement (C : Crypto Tag Sess Blob) (cid : Nat)
    (steps : List (Key × List Key × Env)) (n : Node Sess) (c c' : Circ Sess)
    (h0 : n.circuits cid = some c) (h1 : (honestRun C cid n steps).1.circuits cid = some c') :
    c'.hops = c.hops ++ (honestRun C cid n steps).2 := by
  induction steps generalizing n c with
  | nil => simp only [honestRun] at h1 ⊢; rw [h0] at h1; cases h1; simp
  | cons s rest ih =>
    obtain ⟨y, offered, env⟩ := s
    cases hu : c.unverified with
    | none =>
      have hd : deliverGenuine C n cid y offered env = (n, none) := by simp [deliverGenuine, h0, hu]
      simp only [honestRun, hd] at h1 ⊢
      simpa using ih n c h0 h1
    | some bx =>
      obtain ⟨b, x⟩ := bx
      cases hr : c.retry with
      | none =>
        have hd : deliverGenuine C n cid y offered env = (n, none) := by simp [deliverGenuine, h0, hu, hr]
        simp only [honestRun, hd] at h1 ⊢
        simpa using ih n c h0 h1
      | some r =>
        have hd := deliverGenuine_eq C n cid c b x r y offered env h0 hu hr
        obtain ⟨_, hag⟩ := honest_exchange_agrees C n cid c b x r y offered env h0 hu hr
        simp only [genuineAnswer_eq, pubOf] at hag
        rw [hd] at hag
        simp only [honestRun, hd] at h1 ⊢
        cases hmid : (originAnswer C n cid r.ident (some (pubOf y)) (C.mac [dh y x] (pubOf y))
            (C.enc (C.kdf [dh y x, dh b x]) offered) env).1.circuits cid with
        | none => rw [honestRun_absent C cid rest _ hmid] at h1; cases h1
        | some c1 =>
          have hh := hag c1 hmid
          have := ih _ c1 hmid h1
          rw [this, hh]; simp

/-- non-vacuity: a 2-hop build — peers 2 then 4 selected, both hops keyed as the responders are -/
example : (honestRun Free 77 exNode [(20, [3, 4, 4], ⟨11, 556, none⟩), (21, [], ⟨12, 557, none⟩)]).2.map Hop.peer
    = [2, 4] := by decide
example : ((honestRun Free 77 exNode [(20, [3, 4, 4], ⟨11, 556, none⟩), (21, [], ⟨12, 557, none⟩)]).1.circuits 77).map
    (fun c => (c.hops.map Hop.peer, c.unverified, c.retry)) = some ([2, 4], none, none) := by decide

/-- the last honest exchange completes the build: with `goal = hops + 1` the circuit is READY afterwards
    (goal many hops, no unverified hop, retry cache popped) -/
theorem honest_last_exchange_ready (C : Crypto Tag Sess Blob) (n : Node Sess) (cid : Nat)
    (c : Circ Sess) (b x : Key) (r : Retry) (y : Key) (offered : List Key) (env : Env)
    (h0 : n.circuits cid = some c) (hu : c.unverified = some (b, x)) (hr : c.retry = some r)
    (hgoal : c.goal = c.hops.length + 1) :
    ∃ c', (deliverGenuine C n cid y offered env).1.circuits cid = some c' ∧
      c'.hops.length = c'.goal ∧ c'.unverified = none ∧ c'.retry = none ∧
      c'.hops = c.hops ++ [⟨b, (genuineAnswer C b y (pubOf x) offered).2.2.2⟩] := by
  rw [deliverGenuine_eq C n cid c b x r y offered env h0 hu hr]
  have heq : originAnswer C n cid r.ident (some (pubOf y)) (C.mac [dh y x] (pubOf y))
      (C.enc (C.kdf [dh y x, dh b x]) offered) env =
      n.setCirc cid (ours C n.me cid c (some (pubOf y)) (C.mac [dh y x] (pubOf y))
        (C.enc (C.kdf [dh y x, dh b x]) offered) env) := by
    unfold originAnswer
    simp [h0, hr]
  rw [heq]
  simp only [setCirc_circ, if_true]
  have hmac : C.mac [dh y x] (pubOf y) = C.mac [dh x (pubOf y).pt] (pubOf y) := by simp [pubOf, dh_comm]
  unfold ours
  simp only [hu, genVerify_eq, hmac, if_true]
  have hlen : ¬ (c.hops ++ [(⟨b, C.kdf [dh x (pubOf y).pt, dh x (pubOf b).pt]⟩ : Hop Sess)]).length < c.goal := by
    simp [hgoal]
  simp only [hlen, if_false]
  refine ⟨_, rfl, ?_, rfl, rfl, ?_⟩
  · simp [hgoal]
  · simp [genuineAnswer_eq, pubOf, dh_comm]

/-- non-vacuity: 1-hop circuit 78 to peer 5 becomes READY on the genuine answer -/
example :
    let n := (step Free (Node.init 1 false false) (.createCircuit 78 1 (some 5) [5] ⟨10, 555, none⟩)).1
    ((deliverGenuine Free n 78 20 [] ⟨11, 556, none⟩).1.circuits 78).map
      (fun c => (c.hops.map Hop.peer, c.goal, c.unverified, c.retry)) = some ([5], 1, none, none) := by decide

/-- one honest extension across THREE node states — originator `n`, the relay `r` at the end of the circuit, the
    selected peer `q` (`q.me = b`) — with every message taken from the previous node's output:
    EXTEND → r.on_extend → CREATE → q.on_create → CREATED → r.on_created → EXTENDED → n.on_extended.
    The selected peer stores for the new circuit id exactly the keys the originator appends for hop `b`, the relay
    routes the circuit to `b` under that id, and the originator's hop list grows by exactly ⟨b, those keys⟩. -/
theorem honest_extend_end_to_end (C : Crypto Tag Sess Blob)
    (n r q : Node Sess) (ocid linkCid toCid number : Nat) (c : Circ Sess) (b x y : Key) (rt : Retry)
    (ag : Bool) (offeredBefore offered : List Key) (prev : Hop Sess) (env0 env : Env)
    -- originator: attempt (b, x) outstanding with identifier rt.ident
    (h0 : n.circuits ocid = some c) (hu : c.unverified = some (b, x)) (hrt : c.retry = some rt)
    -- relay: joined linkCid, offered b (or got an address), outgoing id free
    (hr : r.canRelay = true) (hc : r.created linkCid = some offeredBefore) (hb : ag = true ∨ b ∈ offeredBefore)
    (hnc : r.circuits linkCid = none) (hex : r.exits linkCid = some prev)
    (hfree : r.circuits toCid = none ∧ r.relays toCid = none ∧ r.exits toCid = none)
    -- selected peer: it IS b, willing to join, id unused
    (hq : q.me = b) (hj : q.canJoin = true) (hqc : q.created toCid = none)
    (hqu : q.circuits toCid = none ∧ q.relays toCid = none ∧ q.exits toCid = none) :
    let a := genuineAnswer C b y (pubOf x) offered
    let s1 : Node Sess × List (Out Tag Blob) := onExtend r linkCid rt.ident b (some (pubOf x)) ag toCid number
    let s2 := onCreate C q toCid number r.me (some (pubOf x)) y offered
    let s3 := onCreated C s1.1 toCid number (some a.1) a.2.1 a.2.2.1 env0
    let s4 := onExtended C n ocid rt.ident (some a.1) a.2.1 a.2.2.1 env
    s1.2 = [⟨b, .create toCid number r.me (some (pubOf x))⟩] ∧
    s2.2 = [⟨r.me, .created toCid number (some a.1) a.2.1 a.2.2.1⟩] ∧
    s3.2 = [⟨prev.peer, .extended linkCid rt.ident (some a.1) a.2.1 a.2.2.1⟩] ∧
    (s2.1.exits toCid).map Hop.keys = some a.2.2.2 ∧
    (∃ rl, s3.1.relays linkCid = some rl ∧ rl.target = toCid ∧ rl.peer = b ∧ rl.keys = prev.keys) ∧
    (∀ c', s4.1.circuits ocid = some c' → c'.hops = c.hops ++ [⟨b, a.2.2.2⟩]) := by
  intro a s1 s2 s3 s4
  obtain ⟨p1, p2, rl, p3, p4, p5, p6⟩ := relay_pairing_transparent C r linkCid rt.ident b (some (pubOf x)) (some a.1)
    a.2.1 a.2.2.1 ag toCid number env0 offeredBefore prev hr hc hb hnc hex hfree
  have hresp := responder_answer C q toCid number r.me y (pubOf x) offered hj hqc hqu
  simp only [hq] at hresp
  obtain ⟨_, hag⟩ := honest_exchange_agrees C n ocid c b x rt y offered env h0 hu hrt
  have hs4 : s4.1 = (deliverGenuine C n ocid y offered env).1 := by
    rw [deliverGenuine_eq C n ocid c b x rt y offered env h0 hu hrt]
    simp only [s4, a, onExtended, genuineAnswer_eq, pubOf]
  refine ⟨p1, ?_, p2, ?_, ⟨rl, p3, p5, p6, p4⟩, ?_⟩
  · simp only [s2, hresp, a]
  · simp only [s2, hresp, a, upd_same, Option.map]
  · intro c' hc'
    rw [hs4] at hc'
    exact hag c' hc'

/-- non-vacuity: originator 1 (circuit 77, first hop 2 established, extending to 4 with ephemeral 11, id 556),
    relay 2 (joined 77), selected peer 4: the hypotheses hold and peer 4 ends up with the originator's keys -/
example :
    let n := (step Free exNode exAnswer).1
    let r := (step Free (Node.init 2 true true) (.create 77 555 1 (some ⟨10, 0⟩) 20 [3, 4, 4])).1
    let q : Node Secret := Node.init 4 true true
    ((n.circuits 77).map (fun c => (c.unverified, c.retry.map (·.ident))) = some (some (4, 11), some 556)) ∧
    r.created 77 = some [3, 4, 4] ∧ (r.exits 77).isSome ∧ r.circuits 77 = none ∧
    ((onCreate Free q 88 999 2 (some (pubOf 11)) 21 []).1.exits 88).map Hop.keys = some [dh 11 21, dh 4 11] ∧
    ((onExtended Free n 77 556 (some (pubOf 21)) (.mac [dh 21 11] (pubOf 21)) (.enc [dh 11 21, dh 4 11] [])
        ⟨12, 557, none⟩).1.circuits 77).map (fun c => c.hops.map (fun h => (h.peer, h.keys))) =
      some [(2, [dh 10 20, dh 2 10]), (4, [dh 11 21, dh 4 11])] := by decide

/-! ## 6. the joined side: keys and routes of established hops never change

History of this section: the joined-side theorems first carried `FreshTo` (attacker-falsifiable → defect, fix
172d874), then — for the `.join` event only — `JoinTimely` (again attacker-falsifiable by squatting on the reserved id
across a suspension; inert on the Python endpoint).  Since /repo fix 82c67e3 (property C05) on_create repeats its
in-use guards after awaiting should_join_circuit, `joinCircuit` mirrors that, and the theorems hold for every event
with no side condition (`resumed_join_on_used_id_refused`).
For everything else no side condition is left: since fix 172d874 the relay branch of on_created refuses to pair when the outgoing circuit
id it reserved is meanwhile in use at the node (that id travels in a plaintext CREATE, so the next hop or the network
could — and on the unrepaired tree did — make it collide on purpose; see `pairing_under_used_id_refused`).
The events are the twelve of `Ev`; explicit removals (destroy from the neighbour, inactivity sweep, unload) are not
events of this model (properties C05/C09/C11): after such a removal the id is free again by design. -/

/-- a circuit id is never an exit socket and a relay route at the same time (on_create refuses ids in use; the relay
    branch of on_created removes the exit socket it converts and refuses outgoing ids in use) -/
theorem joined_ids_disjoint (C : Crypto Tag Sess Blob) (n : Node Sess) (e : Ev Tag Blob)
    (hd : Disjoint n) : Disjoint (step C n e).1 := by
  intro cid
  rcases step_joined C n e with ⟨h1, h2⟩ | ⟨c1, h, he, hr, _, h1, h2⟩ |
    ⟨cid', ident, key, auth, cands, env, req, ex, rfl, hcr, hex, _, hfr, hfe, h1, h2⟩
  · rw [h1, h2]; exact hd cid
  · rw [h1, h2]
    by_cases hc : cid = c1
    · subst hc; exact Or.inr hr
    · rw [upd_other _ _ hc]; exact hd cid
  · rw [h1, h2]
    by_cases hc : cid = req.fromCid
    · left; rw [hc, upd_same]
    · rw [upd_other _ _ hc, upd_other _ _ hc]
      by_cases ht : cid = req.toCid
      · left; rw [ht]; exact hfe
      · rw [upd_other _ _ ht]; exact hd cid

/-- non-vacuity: every fresh node satisfies `Disjoint` -/
example : Disjoint (Node.init 2 true true : Node Secret) := fun _ => Or.inl rfl

/-- responder / relay side of an established hop: whatever event follows (replayed CREATE after the created-cache
    expired, replayed EXTEND, late or forged CREATED, a CREATE squatting on a reserved outgoing id, timeouts …) the
    session keys held for circuit id `cid` stay the same -/
theorem joined_keys_stable (C : Crypto Tag Sess Blob) (n : Node Sess) (e : Ev Tag Blob) (cid : Nat) (k : Sess)
    (hk : entryKeys n cid = some k) : entryKeys (step C n e).1 cid = some k := by
  unfold entryKeys at hk ⊢
  rcases step_joined C n e with ⟨h1, h2⟩ | ⟨c1, h, he, hr, _, h1, h2⟩ |
    ⟨cid', ident, key, auth, cands, env, req, ex, rfl, hcr, hex, _, hfr, hfe, h1, h2⟩
  · rw [h1, h2]; exact hk
  · rw [h1, h2]
    by_cases hc : cid = c1
    · subst hc; rw [he, hr] at hk; cases hk
    · rw [upd_other _ _ hc]; exact hk
  · rw [h1, h2]
    by_cases hc : cid = req.fromCid
    · subst hc
      rw [hex] at hk
      simp only [upd_same]
      simpa using hk
    · rw [upd_other _ _ hc, upd_other _ _ hc]
      by_cases ht : cid = req.toCid
      · exfalso; rw [ht, hfe, hfr] at hk; cases hk
      · rw [upd_other _ _ ht]; exact hk

/-- a relay route (target circuit id, next peer, keys, direction) of an established hop is never re-pointed — not by
    the late CREATED of an earlier extend attempt, not by a second pairing under the same outgoing id -/
theorem relay_route_stable (C : Crypto Tag Sess Blob) (n : Node Sess) (e : Ev Tag Blob) (cid : Nat)
    (rl : Relay Sess) (hd : Disjoint n) (hr : n.relays cid = some rl) :
    (step C n e).1.relays cid = some rl := by
  rcases step_joined C n e with ⟨_, h2⟩ | ⟨c1, h, _, _, _, _, h2⟩ |
    ⟨cid', ident, key, auth, cands, env, req, ex, rfl, hcr, hex, _, hfr, _, _, h2⟩
  · rw [h2]; exact hr
  · rw [h2]; exact hr
  · rw [h2]
    have hc : cid ≠ req.fromCid := by
      intro hc
      rcases hd cid with h | h
      · rw [hc, hex] at h; cases h
      · rw [hr] at h; cases h
    rw [upd_other _ _ hc]
    have ht : cid ≠ req.toCid := by
      intro ht
      rw [← ht, hr] at hfr; cases hfr
    rw [upd_other _ _ ht]; exact hr

/-- all histories, from any state in which no id is exit socket and relay route at once (in particular `Node.init`) -/
theorem joined_state_stable (C : Crypto Tag Sess Blob) (evs : List (Ev Tag Blob)) (n : Node Sess)
    (hd : Disjoint n) :
    Disjoint (run C n evs) ∧
    (∀ cid k, entryKeys n cid = some k → entryKeys (run C n evs) cid = some k) ∧
    (∀ cid rl, n.relays cid = some rl → (run C n evs).relays cid = some rl) := by
  induction evs generalizing n with
  | nil => exact ⟨hd, fun _ _ h => h, fun _ _ h => h⟩
  | cons e es ih =>
    obtain ⟨i1, i2, i3⟩ := ih (step C n e).1 (joined_ids_disjoint C n e hd)
    exact ⟨i1, fun cid k h => i2 cid k (joined_keys_stable C n e cid k h),
      fun cid rl h => i3 cid rl (relay_route_stable C n e cid rl hd h)⟩

/-- a join that resumes (after a suspending should_join_circuit) on an id that was taken in the meantime — by a
    competing join, or by the pairing of a CREATED under an id the next hop squatted on — writes nothing (fix 82c67e3) -/
theorem resumed_join_on_used_id_refused (C : Crypto Tag Sess Blob) (n : Node Sess) (cid ident nodePk : Nat)
    (key : Option Wire) (y : Key) (offered : List Key)
    (hused : (n.created cid).isSome ∨ (n.circuits cid).isSome ∨ (n.relays cid).isSome ∨ (n.exits cid).isSome) :
    step C n (.join cid ident nodePk key y offered) = (n, []) := by
  cases key with
  | none => simp [step, joinCircuit]
  | some w =>
    rcases hused with h | h | h | h <;> simp [step, joinCircuit, h]

/-- a second join of an id that is being joined already (a duplicated CREATE that passed the guards of on_create
    while the first one was still suspended in should_join_circuit) writes nothing and answers nothing: the
    CreatedRequestCache constructor refuses BEFORE the exit socket is installed -/
theorem second_join_refused (C : Crypto Tag Sess Blob) (n : Node Sess) (cid ident nodePk : Nat)
    (key : Option Wire) (y : Key) (offered : List Key) (hc : (n.created cid).isSome) :
    step C n (.join cid ident nodePk key y offered) = (n, []) := by
  cases key with
  | none => simp [step, onCreatedG_eq, onExtendedG_eq, joinCircuit]
  | some w => simp [step, onCreatedG_eq, onExtendedG_eq, joinCircuit, hc]

/-- on_create with the default (non-suspending) policy is "guards, then join_circuit" -/
theorem on_create_is_guarded_join (C : Crypto Tag Sess Blob) (n : Node Sess) (cid ident nodePk : Nat)
    (key : Option Wire) (y : Key) (offered : List Key) :
    step C n (.create cid ident nodePk key y offered) =
      if n.canJoin && !(n.created cid).isSome &&
          !((n.circuits cid).isSome || (n.relays cid).isSome || (n.exits cid).isSome)
      then step C n (.join cid ident nodePk key y offered) else (n, []) := by
  cases hj : n.canJoin <;> cases hc : (n.created cid).isSome <;>
    cases hu : ((n.circuits cid).isSome || (n.relays cid).isSome || (n.exits cid).isSome) <;>
    cases key <;> simp [step, onCreatedG_eq, onExtendedG_eq, onCreate, joinCircuit, hj, hc, hu]

/-- non-vacuity: two copies of a CREATE passed the guards while suspended; the first join installs keys for
    ephemeral 20, the second (ephemeral 21) changes nothing -/
example :
    let q := (step Free (Node.init 2 true true) (.join 77 555 1 (some ⟨10, 0⟩) 20 [3, 4, 4])).1
    entryKeys (step Free q (.join 77 555 1 (some ⟨10, 0⟩) 21 [3, 4, 4])).1 77 = some [dh 10 20, dh 2 10] ∧
      (q.created 77).isSome := by decide

/-- the repaired guard: a CREATED that would be paired under an outgoing circuit id which is meanwhile in use at the
    relay (circuit, relay route or exit socket) only consumes the pending request -/
theorem pairing_under_used_id_refused (C : Crypto Tag Sess Blob) (n : Node Sess) (cid ident : Nat)
    (key : Option Wire) (auth : Tag) (cands : Blob) (env : Env) (req : CreateReq)
    (hreq : n.creates ident = some req) (hcid : req.toCid = cid)
    (hused : (n.circuits req.toCid).isSome ∨ (n.relays req.toCid).isSome ∨ (n.exits req.toCid).isSome) :
    let r := step C n (.created cid ident key auth cands env)
    r.2 = [] ∧ r.1.exits = n.exits ∧ r.1.relays = n.relays ∧ r.1.circuits = n.circuits ∧
      r.1.creates = upd n.creates ident none := by
  have hb : ((n.circuits req.toCid).isSome || (n.relays req.toCid).isSome || (n.exits req.toCid).isSome) = true := by
    rcases hused with h | h | h <;> simp [h]
  have hp : pairing? n cid ident = some req := by simp [pairing?, hreq, hcid]
  cases hex : n.exits req.fromCid with
  | none => simp [step, onCreatedG_eq, onExtendedG_eq, onCreated, hp, hex]
  | some ex =>
    by_cases hpeer : (ex.peer != req.peer) = true
    · simp [step, onCreatedG_eq, onExtendedG_eq, onCreated, hp, hex, hpeer]
    · simp [step, onCreatedG_eq, onExtendedG_eq, onCreated, hp, hex, hpeer, hb]

/-- non-vacuity (the attack found by review, on the model of the repaired code): relay 2 reserved id 88 for the
    victim's extension; the next hop squats on 88 with a circuit of its own and extends it (id 90); the victim's
    CREATED is then NOT paired, and the attacker's pairing leaves every entry of circuit 77 as it was -/
example :
    let r := (run Free (Node.init 2 true true) [.create 77 555 1 (some ⟨10, 0⟩) 20 [3, 4, 4],
      .extend 77 556 4 (some ⟨11, 0⟩) false 88 999,
      .create 88 7 4 (some ⟨30, 0⟩) 21 [], .extend 88 8 6 (some ⟨31, 0⟩) true 90 1000,
      .created 88 999 (some ⟨22, 0⟩) (.junk 1) (.junk 2) ⟨0, 0, none⟩,
      .created 90 1000 (some ⟨23, 0⟩) (.junk 3) (.junk 4) ⟨0, 0, none⟩])
    (entryKeys r 77, (r.relays 88).map (fun rl => (rl.target, rl.peer, rl.forward))) =
      (some [dh 10 20, dh 2 10], some (90, 6, true)) := by decide

/-- non-vacuity: exit node 2 joined circuit 77; a replayed CREATE (other ephemeral 40, after the created cache expired)
    leaves the stored keys as they were -/
example :
    let q := (step Free (Node.init 2 true true) (.create 77 555 1 (some ⟨10, 0⟩) 20 [3, 4, 4])).1
    entryKeys (run Free q [.createdExpire 77, .create 77 556 1 (some ⟨40, 0⟩) 21 []]) 77 = entryKeys q 77 ∧
      entryKeys q 77 = some [dh 10 20, dh 2 10] := by decide

/-- non-vacuity: relay 2 routed circuit 77 to peer 4 (id 88); the late CREATED of an earlier attempt (number 998, to peer 3)
    does not re-point the route -/
example :
    let r := (step Free (Node.init 2 true true) (.create 77 555 1 (some ⟨10, 0⟩) 20 [3, 4, 4])).1
    let r1 := (run Free r [.extend 77 556 3 (some ⟨11, 0⟩) false 87 998, .extend 77 557 4 (some ⟨12, 0⟩) false 88 999,
      .created 88 999 (some ⟨21, 0⟩) (.junk 5) (.junk 6) ⟨0, 0, none⟩])
    ((step Free r1 (.created 87 998 (some ⟨22, 0⟩) (.junk 7) (.junk 8) ⟨0, 0, none⟩)).1.relays 77).map
      (fun rl => (rl.target, rl.peer)) = some (88, 4) := by decide

/-! ## 7. the hop list names a path: hop k > 1 is only ever requested THROUGH hop k-1

(added after seeded change m10 and the defect it pointed to on the unchanged tree, fixed in 4ca5f25: the retry cache of
a completed first hop used to survive a failing candidate list, fire, and make the originator send a first-hop CREATE
straight to an alternative first hop, whose answer was then recorded as hop 2) -/

/-- over ALL traces from `Node.init` in which the public API `send_initial_create` is used as the test-suite uses it
    (only on circuits without a verified hop): a circuit that has a verified hop never carries a retry cache of the
    first-hop kind — whatever answers, forgeries, undecryptable candidate lists, timeouts and retries came before -/
theorem no_first_hop_retry_after_first_hop (C : Crypto Tag Sess Blob) (evs : List (Ev Tag Blob)) (n : Node Sess)
    (hinv : NoCreateRetryAfterHop n) (hapi : RunApiFresh C n evs) :
    NoCreateRetryAfterHop (run C n evs) := by
  induction evs generalizing n with
  | nil => exact hinv
  | cons e es ih => exact ih _ (no_create_retry_step C n e hinv hapi.1) hapi.2

/-- ... so a retry-cache timeout on a circuit with a verified hop never emits a first-hop CREATE: it extends through
    the existing hops or drops the circuit -/
theorem timeout_after_first_hop_sends_no_create (C : Crypto Tag Sess Blob) (n : Node Sess) (cid : Nat)
    (c : Circ Sess) (env : Env) (hinv : NoCreateRetryAfterHop n) (h0 : n.circuits cid = some c)
    (hne : c.hops ≠ []) :
    ∀ o ∈ (step C n (.retryTimeout cid env)).2, ∀ i k p w, o.msg ≠ Msg.create i k p w := by
  simp only [step, onCreatedG_eq, onExtendedG_eq, retryTimeout, h0, Node.setCirc]
  unfold onTimeout
  cases hr : c.retry with
  | none => intro o ho; simp at ho
  | some r =>
    have hk := hinv cid c h0 hne r hr
    simp only [hk]
    split
    · intro o ho; simp at ho
    · unfold sendExtend
      simp only
      generalize chooseTarget n.me { c with retry := none } r.cands env = ch
      cases ch.1 with
      | none => intro o ho; simp at ho
      | some t =>
        intro o ho i k p w
        simp at ho
        subst ho
        simp

/-- non-vacuity: `Node.init` satisfies the invariant; and the scenario of the defect on the model of the repaired code:
    hop 2 accepted, its (decodable) candidate list holds only unparseable keys so send_extend raises → no retry cache is
    left, the timeout does nothing (an undecodable list removes the circuit altogether since fix 2f0e945) -/
example : NoCreateRetryAfterHop (Node.init 1 false false : Node Secret) := by
  intro cid c h; simp [Node.init] at h

example :
    let n := (step Free exNode (.created 77 555 (some ⟨20, 0⟩) (.mac [dh 10 20] ⟨20, 0⟩)
      (.enc [dh 10 20, dh 2 10] [badKey, badKey]) ⟨11, 556, none⟩)).1
    ((n.circuits 77).map (fun c => (c.hops.map Hop.peer, c.retry)) = some ([2], none)) ∧
      (step Free n (.retryTimeout 77 ⟨12, 557, none⟩)).2.length = 0 := by decide

/-- relay: whatever happened on this node before (other circuit owners' extends included), an accepted EXTEND makes
    the relay send exactly one CREATE, addressed to the owner of the key the EXTEND names, carrying the originator's
    key bytes unchanged -/
theorem extend_goes_to_named_key (n : Node Sess) (cid ident : Nat) (nodePk : Key) (key : Option Wire) (ag : Bool)
    (toCid number : Nat) :
    ∀ o ∈ (onExtend (Tag := Tag) (Blob := Blob) n cid ident nodePk key ag toCid number).2,
      o.to = nodePk ∧ o.msg = Msg.create toCid number n.me key := by
  unfold onExtend
  split
  · intro o ho; simp at ho
  · split
    · intro o ho; simp at ho
    · split
      · intro o ho; simp at ho
      · split
        · intro o ho; simp at ho
        · intro o ho; simp at ho; subst ho; exact ⟨rfl, rfl⟩

/-! ## 8. only authentic cells extend a circuit

(added after seeded change m13: with a multi-interface endpoint the crypto layer was attached to one interface only, so
an unencrypted EXTEND sent to the other interface was executed).  `genNoCryptoPackets` and the message ids are GENERATED
from payload.py: if EXTEND or EXTENDED were ever allowed as plaintext these theorems stop compiling. -/

/-- an EXTEND or EXTENDED that did not decrypt under the keys of the circuit it names — whatever interface it arrived
    on, whatever it contains — changes nothing and is answered by nothing -/
theorem unauthenticated_extend_ignored (C : Crypto Tag Sess Blob) (n : Node Sess) (cid ident : Nat) (nodePk : Key)
    (key : Option Wire) (ag : Bool) (toCid number : Nat) (auth : Tag) (cands : Blob) (env : Env) :
    deliverCell C n false (.extend cid ident nodePk key ag toCid number) = (n, []) ∧
    deliverCell C n false (.extended cid ident key auth cands env) = (n, []) := by
  constructor <;> simp [deliverCell, Ev.isCell, Ev.msgId, genNoCryptoPackets, genMsgIdExtend, genMsgIdExtended]

/-- authentic cells, and CREATE / CREATED (plaintext by design, protected by the handshake itself), reach the handlers:
    everything proved about `step` applies to them -/
theorem delivered_cell_is_step (C : Crypto Tag Sess Blob) (n : Node Sess) (e : Ev Tag Blob) (authentic : Bool)
    (h : authentic = true ∨ genNoCryptoPackets.contains e.msgId = true ∨ e.isCell = false) :
    deliverCell C n authentic e = step C n e := by
  unfold deliverCell
  rcases h with h | h | h
  · simp [h]
  · rw [h]; simp
  · simp [h]

/-- non-vacuity: relay 2 joined circuit 77; a raw EXTEND naming peer 6 (address given) would be executed by `step`
    (a CREATE goes out) but is dropped by the cell layer -/
example :
    let r := (step Free (Node.init 2 true true) (.create 77 555 1 (some ⟨10, 0⟩) 20 [3, 4, 4])).1
    (step Free r (.extend 77 9 6 (some ⟨30, 0⟩) true 88 999)).2.length = 1 ∧
      (deliverCell Free r false (.extend 77 9 6 (some ⟨30, 0⟩) true 88 999)).2.length = 0 := by decide

end Ipv8.C08
