/-
  C06 — property theorems.  Every `theorem` in this file is an obligation of the check; helpers are in Lemmas.lean.

  `Gen.*` (GenPolicy.lean) is regenerated from exit_socket.py on every run, so the first group is re-proved against the
  classifier / policy predicate the code has NOW; `Spec.*` (Model.lean) is the fixed reading of the property text.
  The second group is about the state machine of Model.lean: the bodies of sendto / datagram_received / exit_data / on_data are
  the decision trees of GenPaths.lean (regenerated on every run) interpreted by Model.lean; queue flush, DNS re-entry and
  transport opening are hand-written; `Gen.is_allowed` is the gate; all statements hold for EVERY state, flag set,
  prefix, payload, destination and event history (no bounds).
-/
import Ipv8.C06.Lemmas

namespace Ipv8.C06
open Ipv8 Py

/-! ## 1. the code's classifier and policy predicate are the specified ones, and never raise -/

/-- `DataChecker.could_be_utp` = BEP 29 header test, for every byte string -/
theorem could_be_utp_spec (d : Bytes) : Gen.could_be_utp d = some (Spec.isUtp d) := utp_spec d

/-- `DataChecker.could_be_udp_tracker` = action code 0..3 at offset 0 (len ≥ 8) or 8 (len ≥ 12) -/
theorem could_be_udp_tracker_spec (d : Bytes) : Gen.could_be_udp_tracker d = some (Spec.isTracker d) := tracker_spec d

/-- `DataChecker.could_be_dht` = at least two bytes, 'd' … 'e' -/
theorem could_be_dht_spec (d : Bytes) : Gen.could_be_dht d = some (Spec.isDht d) := dht_spec d

theorem could_be_bt_spec (d : Bytes) : Gen.could_be_bt d = some (Spec.isBT d) := bt_spec d

/-- `DataChecker.could_be_ipv8` = at least 23 bytes, 0x00, version 1 or 2 -/
theorem could_be_ipv8_spec (d : Bytes) : Gen.could_be_ipv8 d = some (Spec.isIPv8 d) := ipv8_spec d

/-- `TunnelExitSocket.is_allowed` is exactly the exit policy of the property text, for all flag sets, prefixes, packets -/
theorem is_allowed_spec (fl : List Nat) (pfx d : Bytes) :
    Gen.is_allowed fl pfx d
      = some (Spec.allowed (fl.contains Gen.PEER_FLAG_EXIT_BT) (fl.contains Gen.PEER_FLAG_EXIT_IPV8) pfx d) :=
  allowed_spec fl pfx d

example : Gen.is_allowed [Gen.PEER_FLAG_EXIT_BT] [0, 2] [100, 49, 58, 97, 101] = some true := by decide
example : Gen.is_allowed [Gen.PEER_FLAG_RELAY, Gen.PEER_FLAG_EXIT_IPV8] [0, 2] [100, 49, 58, 97, 101] = some false := by
  decide

/-- RELAY (or any flag other than the two exit flags) never changes the decision -/
theorem other_flags_irrelevant (f : Nat) (fl : List Nat) (pfx d : Bytes)
    (h1 : f ≠ Gen.PEER_FLAG_EXIT_BT) (h2 : f ≠ Gen.PEER_FLAG_EXIT_IPV8) :
    Gen.is_allowed (f :: fl) pfx d = Gen.is_allowed fl pfx d := by
  rw [is_allowed_spec, is_allowed_spec]
  have e1 : (f :: fl).contains Gen.PEER_FLAG_EXIT_BT = fl.contains Gen.PEER_FLAG_EXIT_BT := by
    simp [Ne.symm h1]
  have e2 : (f :: fl).contains Gen.PEER_FLAG_EXIT_IPV8 = fl.contains Gen.PEER_FLAG_EXIT_IPV8 := by
    simp [Ne.symm h2]
  rw [e1, e2]

example : Gen.PEER_FLAG_RELAY ≠ Gen.PEER_FLAG_EXIT_BT ∧ Gen.PEER_FLAG_RELAY ≠ Gen.PEER_FLAG_EXIT_IPV8 := by decide

/-- the model's gate opens exactly for allowed packets -/
theorem gate_iff (fl : List Nat) (pfx d : Bytes) :
    gate fl pfx d = true ↔
      Spec.allowed (fl.contains Gen.PEER_FLAG_EXIT_BT) (fl.contains Gen.PEER_FLAG_EXIT_IPV8) pfx d = true := by
  unfold gate; rw [is_allowed_spec]; simp

/-! ## 2. the emission paths -/

/-! ### 2a. the translated method bodies pass the syntactic safety checks

  `Gen.sendto_prog`, `Gen.datagram_received_prog`, `Gen.exit_data_prog`, `Gen.on_data_prog` (GenPaths.lean) are the bodies of
  TunnelExitSocket.sendto / datagram_received and TunnelCommunity.exit_data / on_data as decision trees, regenerated from
  the source on every run.  The checks are decided by kernel evaluation on whatever the code says now; their soundness is
  proved once, for ALL programs (next group), so a re-ordering of independent tests or an extracted alias keeps this green
  while a dropped or weakened test turns it red. -/

/-- in `sendto`, every path to `transport.sendto` has tested is_allowed, the null address and the transport; every path to
    a DNS lookup or to the queue has tested is_allowed -/
theorem sendto_prog_safe : safeSock false false false Gen.sendto_prog = true := sendto_prog_safe'
/-- in `datagram_received`, every path to `tunnel_data` has tested is_allowed -/
theorem datagram_received_prog_safe : safeSock false false false Gen.datagram_received_prog = true :=
  datagram_received_prog_safe'
/-- in `exit_data`, every path to `enable()` has tested that the source IP is the hop's IP, and every path to
    `sendto` has tested `enabled` or comes after `enable()` -/
theorem exit_data_prog_safe : safeExit false false Gen.exit_data_prog = true := exit_data_prog_safe'
/-- in `on_data`, every path to `exit_data` has tested that the destination is not ("0.0.0.0", 0) and that the cell is not
    taken as a cell of an own circuit; every path to the re-dispatch `on_packet_from_circuit` (which runs a cell handler with
    the sender-chosen origin as source address) has tested that the message type is registered to arrive through an exit
    (fixes 93232d0, 85766ae) -/
theorem on_data_prog_safe : safeOnData false false false Gen.on_data_prog = true := on_data_prog_safe'

/-- none of the message types declared `from_exit=True` in the source is DataPayload: the re-dispatch of an exit message can
    never lead back into `on_data` (and from there to `exit_data`) -/
theorem data_is_not_an_exit_message : Gen.EXIT_MSG_IDS_DECLARED.contains Gen.DATA_MSG_ID = false := by decide

/-- the model's `on_data` hands a payload to `on_packet_from_circuit` (output `loc _ 0`) only if its message id is one of
    the node's exit message ids — for EVERY state, cell and payload: a ping / create / created / extend / … nested in a DATA
    cell is never dispatched to its handler, whatever origin address the sender wrote into the cell -/
theorem redispatch_only_exit_messages (st : St) (ip : Bytes) (sp c : Nat) (d : Dest) (p : Bytes) (c' : Nat)
    (h : Out.loc c' 0 ∈ (step st (.data ip sp c d p)).2) :
    ∃ b, p[22]? = some b ∧ st.exitIds.contains b.toNat = true :=
  redispatch_guard st ip sp c d p c' h

/-- `no_reentry`: in every history of a node whose exit message ids do not contain DataPayload's id, the re-dispatch never
    hands a DATA cell back to `on_data` (no `reenter` output).  This is the hypothesis under which the opening theorems
    (`enabled_flip_cause`, `enable_only_from_prev_hop`, …) speak about everything that can reach `exit_data`: with DataPayload's
    id among the exit ids the model emits `reenter` and does NOT follow the re-entry (see the example below).  For the shipped
    classes the hypothesis is `data_is_not_an_exit_message` plus the run-time comparison of `overlay.exit_msg_ids` of BOTH
    TunnelCommunity and HiddenTunnelCommunity with `Gen.EXIT_MSG_IDS_DECLARED` in the harness. -/
theorem no_reentry (st : St) (evs : List Ev) (hx : st.exitIds.contains Gen.DATA_MSG_ID = false) (fl : List Nat) (c : Nat) :
    (fl, Out.reenter c) ∉ (run st evs).2 := by
  induction evs generalizing st with
  | nil => simp [run]
  | cons ev evs ih =>
    intro h
    simp only [run, List.mem_append, List.mem_map] at h
    rcases h with ⟨o, ho, heq⟩ | h
    · cases heq
      have := step_reenter st ev c ho
      rw [hx] at this; cases this
    · exact ih (step st ev).1 (by rw [step_exitIds]; exact hx) h

/-- the checks are not vacuous: dropping the gate, the null test or the hop test is rejected -/
example : safeSock false false false (.ite .hasTransport (.act .transportSend .done) (.act .queueAppend .done)) = false := by
  decide
example : safeSock false false false
    (.ite .allowed (.ite .hasTransport (.act .transportSend .done) (.act .queueAppend .done)) .done) = false := by decide
example : safeExit false false (.ite .knownCircuit (.act .enable (.act .sendto .done)) .done) = false := by decide
example : safeOnData false false false (.act .exitData .done) = false := by decide
/-- the gate moved below the domain block (DNS lookups for forbidden packets) is rejected -/
example : safeSock false false false
    (.ite .isDomain (.act .startResolve .done)
      (.ite .allowed (.ite .destIsNull .done (.ite .hasTransport (.act .transportSend .done) (.act .queueAppend .done))) .done))
    = false := by decide
/-- `exit_data` without the `return` in the foreign-IP branch (foreign cells queued on a closed socket) is rejected -/
example : safeExit false false
    (.ite .knownCircuit (.ite .sockEnabled (.act .sendto .done)
      (.ite .srcIpIsHopIp (.act .enable (.act .sendto .done)) (.act .sendto .done))) .done) = false := by decide
/-- `on_data` as it was before the fixes (re-dispatch of every own-overlay payload) is rejected -/
example : safeOnData false false false
    (.ite .ownCircuit (.ite .ownPrefix (.act .deliverOwn .done) (.act .deliverRaw .done))
      (.ite .destIsNull .done (.act .exitData .done))) = false := by decide
/-- … and so is a re-dispatch in the branch where the message type is NOT an exit message -/
example : safeOnData false false false
    (.ite .ownCircuit (.ite .ownPrefix (.ite .exitMessage .done (.act .deliverOwn .done)) (.act .deliverRaw .done))
      (.ite .destIsNull .done (.act .exitData .done))) = false := by decide
/-- `on_data` whose own-circuit branch falls through into the exit part is rejected -/
example : safeOnData false false false
    (.ite .ownCircuit (.act .deliverRaw (.ite .destIsNull .done (.act .exitData .done)))
      (.ite .destIsNull .done (.act .exitData .done))) = false := by decide
/-- … and an equivalent re-ordering of sendto's independent tests is accepted -/
example : safeSock false false false
    (.ite .destIsNull .done (.ite .isDomain (.ite .allowed (.act .startResolve .done) .done)
      (.ite .hasTransport (.ite .allowed (.act .transportSend .done) .done) (.ite .allowed (.act .queueAppend .done) .done))))
    = true := by decide

/-! ### 2b. soundness of the checks, for every program -/

/-- ANY socket-level program that passes `safeSock` only outputs resolutions, emissions that passed the gate and the
    null test through an open transport, and tunnelled datagrams that passed the gate -/
theorem safeSock_sound (e : Env) (p : Prog) (s : Sock) (h : safeSock false false false p = true) :
    ∀ o ∈ (interpSock e p s).2, SockOut e.fl e.pfx s o :=
  interpSock_out e p s false false false (by simp) (by simp) (by simp) h

/-- ANY exit_data program that passes `safeExit` enables a socket only when the cell's source IP is the socket's hop IP,
    keeps its identity and transports, and only outputs what `sendto` outputs -/
theorem safeExit_sound (e : XEnv) (p : Prog) (x : Sock) (h : safeExit false false p = true) :
    ∃ x', (interpExit e p (some x)).1 = some x' ∧ ExitSpec e x x' (interpExit e p (some x)).2 :=
  interpExit_some e p x false false (by simp) (by simp) h

/-! ### 2c. the property over all histories -/

/-- one step, ANY state (reachable or not): whatever reaches `transport.sendto` or is sent back into the tunnel is
    allowed by the configured flags, and no emission goes to 0.0.0.0:0.  Covers the direct path, packets flushed from
    the queue and packets re-entering `sendto` after DNS resolution. -/
theorem step_policy (st : St) (ev : Ev) : ∀ o ∈ (step st ev).2, OutOK st.flags st.pfx o := by
  intro o hmem
  rcases step_weak st ev o hmem with (⟨c, k, rfl⟩ | ⟨c, rfl⟩) | ⟨s', hso⟩
  · trivial
  · trivial
  · rcases hso with (⟨h, p, dta, rfl, hg⟩ | ⟨v, data, dest, rfl, hg, hn, _⟩) | ⟨payload, src, rfl, hg⟩
    · exact (gate_iff _ _ _).mp hg
    · exact ⟨(gate_iff _ _ _).mp hg, hn⟩
    · exact (gate_iff _ _ _).mp hg

/-- `emit_policy`: in every history from every state, each packet handed to `transport.sendto` is BitTorrent-shaped with
    EXIT_BT configured, or IPv8-shaped with EXIT_IPV8 configured or carrying the tunnel overlay's own prefix — judged by the
    flags configured at the moment of emission -/
theorem emit_policy (st : St) (evs : List Ev) (fl : List Nat) (c : Nat) (v : Bool) (data : Bytes) (dest : Dest)
    (h : (fl, Out.emit c v data dest) ∈ (run st evs).2) :
    (Spec.isBT data = true ∧ fl.contains Gen.PEER_FLAG_EXIT_BT = true) ∨
    (Spec.isIPv8 data = true ∧ (fl.contains Gen.PEER_FLAG_EXIT_IPV8 = true ∨ data.take 22 = st.pfx)) := by
  induction evs generalizing st with
  | nil => simp [run] at h
  | cons ev evs ih =>
    simp only [run, List.mem_append, List.mem_map] at h
    rcases h with ⟨o, ho, heq⟩ | h
    · cases heq
      have := (step_policy st ev _ ho).1
      simpa [Spec.allowed] using this
    · have := ih (step st ev).1 h
      rwa [step_pfx] at this

/-- `inbound_policy`: the same filter for what comes back from outside (`send_data` caused by an outside datagram) -/
theorem inbound_policy (st : St) (evs : List Ev) (fl : List Nat) (c : Nat) (ip : Bytes) (port : Nat) (data : Bytes)
    (src : Dest) (h : (fl, Out.tunnel c ip port data src) ∈ (run st evs).2) :
    (Spec.isBT data = true ∧ fl.contains Gen.PEER_FLAG_EXIT_BT = true) ∨
    (Spec.isIPv8 data = true ∧ (fl.contains Gen.PEER_FLAG_EXIT_IPV8 = true ∨ data.take 22 = st.pfx)) := by
  induction evs generalizing st with
  | nil => simp [run] at h
  | cons ev evs ih =>
    simp only [run, List.mem_append, List.mem_map] at h
    rcases h with ⟨o, ho, heq⟩ | h
    · cases heq
      have := step_policy st ev _ ho
      simpa [OutOK, Spec.allowed] using this
    · have := ih (step st ev).1 h
      rwa [step_pfx] at this

/-- `no_null_dest`: nothing is ever emitted towards ("0.0.0.0", 0) — also not when a domain destination resolves to it
    (no hypothesis on the resolver; this is the behaviour after fix 42b2dfd) -/
theorem no_null_dest (st : St) (evs : List Ev) (fl : List Nat) (c : Nat) (v : Bool) (data : Bytes) (dest : Dest)
    (h : (fl, Out.emit c v data dest) ∈ (run st evs).2) : ¬ (dest.host = zeroHost ∧ dest.port = 0) := by
  induction evs generalizing st with
  | nil => simp [run] at h
  | cons ev evs ih =>
    simp only [run, List.mem_append, List.mem_map] at h
    rcases h with ⟨o, ho, heq⟩ | h
    · cases heq
      have := (step_policy st ev _ ho).2
      intro ⟨h1, h2⟩
      simp [Dest.isNull, h1, h2] at this
    · exact ih (step st ev).1 h

/-- `resolve_policy`: a DNS lookup for a tunnel-supplied host name is started only for a packet the flags allow (a lookup
    is outside-world traffic caused by tunnelled data) -/
theorem resolve_policy (st : St) (evs : List Ev) (fl : List Nat) (c : Nat) (host : Bytes) (port : Nat) (data : Bytes)
    (h : (fl, Out.resolve c host port data) ∈ (run st evs).2) :
    (Spec.isBT data = true ∧ fl.contains Gen.PEER_FLAG_EXIT_BT = true) ∨
    (Spec.isIPv8 data = true ∧ (fl.contains Gen.PEER_FLAG_EXIT_IPV8 = true ∨ data.take 22 = st.pfx)) := by
  induction evs generalizing st with
  | nil => simp [run] at h
  | cons ev evs ih =>
    simp only [run, List.mem_append, List.mem_map] at h
    rcases h with ⟨o, ho, heq⟩ | h
    · cases heq
      have := step_policy st ev _ ho
      simpa [OutOK, Spec.allowed] using this
    · have := ih (step st ev).1 h
      rwa [step_pfx] at this

/-- `enabled_flip_cause` — the step-level form of "opened only by data from the previous hop", for ANY state (no `Closed`
    hypothesis): if a socket is enabled after a step, then it was enabled before the step, or the step IS a DATA cell that
    names this socket's circuit, whose source IP is the socket's hop IP, whose destination is not ("0.0.0.0", 0), and
    which was not consumed by the own-circuit branch of on_data -/
theorem enabled_flip_cause (st : St) (ev : Ev) (s' : Sock) (hs' : s' ∈ (step st ev).1.socks) (hen : s'.enabled = true) :
    (∃ s ∈ st.socks, s.cid = s'.cid ∧ s.hopIp = s'.hopIp ∧ s.enabled = true) ∨
    (∃ sp d p, ev = .data s'.hopIp sp s'.cid d p ∧ d.isNull = false ∧
      condOnData ⟨s'.hopIp, sp, s'.cid, d, p⟩ st .ownCircuit = false) := by
  cases ev with
  | setFlags f => exact Or.inl ⟨s', hs', rfl, rfl, hen⟩
  | data ip sp c d p =>
    rcases interpOnData_why ⟨ip, sp, c, d, p⟩ st Gen.on_data_prog st false false false rfl (by simp) (by simp)
      on_data_prog_safe' s' hs' hen with h | ⟨h1, h2, h3, h4⟩
    · exact Or.inl h
    · simp only at h1 h2 h3 h4
      subst h1 h2
      exact Or.inr ⟨sp, d, p, rfl, h3, h4⟩
  | open4 c => exact Or.inl (viaSock_why st c _ s' hs' hen)
  | open6 c => exact Or.inl (viaSock_why st c _ s' hs' hen)
  | resolved c idx infos => exact Or.inl (viaSock_why st c _ s' hs' hen)
  | outside c v6 host port payload => exact Or.inl (viaSock_why st c _ s' hs' hen)
  | join ip sp c =>
    rcases mem_joinStep hs' with h | h
    · exact Or.inl ⟨s', h, rfl, rfl, hen⟩
    · subst h; simp at hen

/-- `unopened_socket_untouched`: an `exit_data` call after which the named socket is still closed (a first cell from a
    foreign IP) has produced no output — nothing sent, no DNS lookup — and every still-closed socket of the table is an
    unchanged socket of the old table (nothing was queued on it) -/
theorem unopened_socket_untouched (st : St) (srcIp : Bytes) (cid : Nat) (dest : Dest) (payload : Bytes)
    (h : ∀ s' ∈ (exitData st srcIp cid dest payload).1.socks, s'.cid = cid → s'.enabled = false) :
    (exitData st srcIp cid dest payload).2 = [] ∧
    ∀ s' ∈ (exitData st srcIp cid dest payload).1.socks, s'.enabled = false → s' ∈ st.socks :=
  ⟨exitData_idle st srcIp cid dest payload h, fun s' hs' => (exitData_why st srcIp cid dest payload s' hs').2⟩

/-- `queued_rechecked`: packets flushed from the queue when the transports open pass the gate AGAIN, under the flags
    configured at flush time (not those under which they were queued) -/
theorem queued_rechecked (st : St) (cid c : Nat) (v : Bool) (data : Bytes) (dest : Dest)
    (h : Out.emit c v data dest ∈ (step st (.open6 cid)).2) : gate st.flags st.pfx data = true :=
  (gate_iff _ _ _).mpr (step_policy st _ _ h).1

/-- `hop_is_create_source`: after any history, the hop address of every exit socket is the hop address of a socket of the
    initial state with that circuit id, or the SOURCE ADDRESS of a CREATE of the history for that circuit id
    (`join_circuit` sets `hop = Peer(node_public_key, previous_node_address)`; nothing else ever changes it) -/
theorem hop_is_create_source (st0 : St) (evs : List Ev) (s : Sock) (hs : s ∈ (run st0 evs).1.socks) :
    (∃ s0 ∈ st0.socks, s0.cid = s.cid ∧ s0.hopIp = s.hopIp) ∨ ∃ sp, Ev.join s.hopIp sp s.cid ∈ evs := by
  -- the identity part of the invariant does not need `Closed`: use the trivial history invariant on identities only
  have key : ∀ (evs : List Ev) (st : St) (base : List (Nat × Bytes)), JoinsIn base evs →
      (∀ x ∈ st.socks, (x.cid, x.hopIp) ∈ base) → ∀ x ∈ (run st evs).1.socks, (x.cid, x.hopIp) ∈ base := by
    intro evs
    induction evs with
    | nil => intro st base _ h; simpa [run] using h
    | cons ev evs ih =>
      intro st base hj h
      simp only [run]
      refine ih (step st ev).1 base hj.tail ?_
      exact step_ids st ev base hj.head h
  exact baseOf_mem (key evs st0 (baseOf st0 evs) (joinsIn_baseOf st0 evs)
    (fun x hx => List.mem_append_left _ (List.mem_map.mpr ⟨x, hx, rfl⟩)) s hs)

/-- `enable_only_from_prev_hop`: after any history (with CREATEs) from a state with closed sockets, a socket is enabled (its
    outside transports are being / have been opened) only if the history contains a DATA cell for its circuit, with a
    non-null destination, whose source IP is the socket's hop IP — by `hop_is_create_source` the IP the CREATE came from -/
theorem enable_only_from_prev_hop (st0 : St) (evs : List Ev) (h0 : Closed st0) (s : Sock)
    (hs : s ∈ (run st0 evs).1.socks) (hen : s.enabled = true ∨ s.t4 = true ∨ s.t6 = true) :
    ∃ sp d p, Ev.data s.hopIp sp s.cid d p ∈ evs ∧ d.isNull = false := by
  have hinv0 : Inv (baseOf st0 evs) [] st0 := by
    intro x hx
    obtain ⟨e, t4, t6⟩ := h0 x hx
    exact ⟨List.mem_append_left _ (List.mem_map.mpr ⟨x, hx, rfl⟩), by simp [t6], by simp [t4], by simp [e]⟩
  have hi := (run_inv _ evs [] st0 (joinsIn_baseOf st0 evs) hinv0 s hs).2
  have : s.enabled = true := by
    rcases hen with h | h | h
    · exact h
    · exact hi.2.1 h
    · exact hi.2.1 (hi.1 h)
  obtain ⟨sp, d, p, hm, hn⟩ := hi.2.2 this
  exact ⟨sp, d, p, by simpa using hm, hn⟩

/-- … and therefore every history with an emission contains (somewhere — `run` does not record positions; the step-level
    `enabled_flip_cause` is the statement about order) such a cell from an IP that is the hop IP of an initial
    socket with that circuit id or the source IP of a CREATE of the history for that circuit id -/
theorem emit_requires_prev_hop_data (st0 : St) (evs : List Ev) (h0 : Closed st0) (fl : List Nat) (c : Nat) (v : Bool)
    (data : Bytes) (dest : Dest) (h : (fl, Out.emit c v data dest) ∈ (run st0 evs).2) :
    ∃ ip, ((∃ s0 ∈ st0.socks, s0.cid = c ∧ s0.hopIp = ip) ∨ ∃ sp, Ev.join ip sp c ∈ evs) ∧
      ∃ sp d p, Ev.data ip sp c d p ∈ evs ∧ d.isNull = false := by
  have hinv0 : Inv (baseOf st0 evs) [] st0 := by
    intro x hx
    obtain ⟨e, t4, t6⟩ := h0 x hx
    exact ⟨List.mem_append_left _ (List.mem_map.mpr ⟨x, hx, rfl⟩), by simp [t6], by simp [t4], by simp [e]⟩
  obtain ⟨ip, hb, sp, d, p, hm, hn⟩ := run_emit _ evs [] st0 (joinsIn_baseOf st0 evs) hinv0 fl c v data dest h
  exact ⟨ip, baseOf_mem hb, sp, d, p, by simpa using hm, hn⟩

/-- `create_cannot_repoint_hop`: a CREATE for a circuit id that already has an exit socket changes nothing — in particular it
    cannot replace the socket (and with it the hop address the opening test compares against) -/
theorem create_cannot_repoint_hop (st : St) (ip : Bytes) (port cid : Nat) (s : Sock) (hs : s ∈ st.socks) (hc : s.cid = cid) :
    step st (.join ip port cid) = (st, []) := by
  have : st.socks.any (fun x => x.cid == cid) = true := List.any_eq_true.mpr ⟨s, hs, by simp [hc]⟩
  simp [step, joinStep, this]

/-- `queue_bounded`: the waiting queue of every exit socket stays within the `deque(maxlen=…)` bound of the code -/
theorem queue_bounded (st : St) (ev : Ev) (h : ∀ s ∈ st.socks, s.queue.length ≤ Gen.QUEUE_MAXLEN) :
    ∀ s ∈ (step st ev).1.socks, s.queue.length ≤ Gen.QUEUE_MAXLEN := step_queue st ev h

/-! ## non-vacuity: concrete histories on which the hypotheses hold and the conclusions are exercised -/

example : Closed exSt := by
  intro s hs
  simp [exSt] at hs
  subst hs
  exact ⟨rfl, rfl, rfl⟩

/-- queued while the transports open, emitted by the flush: an emission exists, so the theorems above are not vacuous -/
example : (run exSt [.data exSock.hopIp 999 7 exDest exDht, .open4 7, .open6 7]).2
    = [([Gen.PEER_FLAG_RELAY, Gen.PEER_FLAG_EXIT_BT], .emit 7 false exDht exDest)] := by decide

/-- same packet, but the flags are restricted before the flush: the queued packet is re-checked and dropped -/
example : (run exSt [.data exSock.hopIp 999 7 exDest exDht, .open4 7, .setFlags [Gen.PEER_FLAG_RELAY], .open6 7]).2 = [] := by
  decide

/-- a cell from a foreign IP does not open the socket -/
example : ((run exSt [.data [57, 46, 57, 46, 57, 46, 57] 999 7 exDest exDht]).1.socks.map (·.enabled)) = [false] := by
  decide

/-- a socket created by a CREATE from 10.0.0.1 is born closed; a cell from another IP leaves it closed, a cell from
    10.0.0.1 opens it -/
example : ((run { exSt with socks := [] } [.join exSock.hopIp 5000 9, .data [57, 46, 57] 5000 9 exDest exDht]).1.socks.map
    (fun s => (s.cid, s.enabled, s.t4))) = [(9, false, false)] := by decide
example : ((run { exSt with socks := [] } [.join exSock.hopIp 5000 9, .data exSock.hopIp 4000 9 exDest exDht]).1.socks.map
    (fun s => (s.cid, s.hopIp == exSock.hopIp, s.enabled))) = [(9, true, true)] := by decide

/-- a domain destination resolving to 0.0.0.0 with port 0 is dropped after resolution -/
example : (run exSt [.data exSock.hopIp 999 7 ⟨.dom, [48], 0⟩ exDht, .open4 7, .open6 7,
    .resolved 7 0 [(false, zeroHost)]]).2 = [([Gen.PEER_FLAG_RELAY, Gen.PEER_FLAG_EXIT_BT], .resolve 7 [48] 0 exDht)] := by decide

/-- a DATA cell on an own circuit whose payload is a DATA cell (id 1) or a ping (id 6) of this overlay is dropped (fixes
    93232d0, 85766ae); a message type registered to arrive through an exit (here id 18) is handed to its handler; none of
    them touches the exit socket -/
example : (step { exSt with pfx := 0 :: 2 :: List.replicate 20 7, circs := [⟨555, [57], 4000, 0⟩], exitIds := [17, 18] }
    (.data [57] 4000 555 ⟨.v4, zeroHost, 0⟩ ((0 :: 2 :: List.replicate 20 7) ++ [1, 0, 0, 0, 7, 1, 2]))).2 = [] := by decide
example : (step { exSt with pfx := 0 :: 2 :: List.replicate 20 7, circs := [⟨555, [57], 4000, 0⟩], exitIds := [17, 18] }
    (.data [57] 4000 555 ⟨.v4, zeroHost, 0⟩ ((0 :: 2 :: List.replicate 20 7) ++ [6, 0, 0, 0, 7, 1, 2]))).2 = [] := by decide
example : (step { exSt with pfx := 0 :: 2 :: List.replicate 20 7, circs := [⟨555, [57], 4000, 0⟩], exitIds := [17, 18] }
    (.data [57] 4000 555 ⟨.v4, zeroHost, 0⟩ ((0 :: 2 :: List.replicate 20 7) ++ [18, 0, 0, 0, 7, 1, 2]))).2 = [.loc 555 0] := by
  decide

/-- the same holds on an introduction circuit of a hidden seeder (ctype IP_SEEDER = 1): the circuit type does not matter -/
example : (step { exSt with pfx := 0 :: 2 :: List.replicate 20 7, circs := [⟨555, [57], 4000, 1⟩], exitIds := [17, 18] }
    (.data [57] 4000 555 ⟨.v4, zeroHost, 0⟩ ((0 :: 2 :: List.replicate 20 7) ++ [1, 0, 0, 0, 7, 1, 2]))).2 = [] := by decide

/-- with DataPayload's id wrongly among the exit ids the model reports the re-entry instead of silently treating it as a local delivery -/
example : (step { exSt with pfx := 0 :: 2 :: List.replicate 20 7, circs := [⟨555, [57], 4000, 0⟩], exitIds := [1, 18] }
    (.data [57] 4000 555 ⟨.v4, zeroHost, 0⟩ ((0 :: 2 :: List.replicate 20 7) ++ [1, 0, 0, 0, 7, 1, 2]))).2 = [.reenter 555] := by
  decide

/-- an allowed outside datagram is tunnelled back, a forbidden one is not -/
example : (step { exSt with socks := [{ exSock with enabled := true, t4 := true, t6 := true }] }
    (.outside 7 false [56, 46, 56, 46, 56, 46, 56] 53 exDht)).2
    = [.tunnel 7 exSock.hopIp 5000 exDht ⟨.v4, [56, 46, 56, 46, 56, 46, 56], 53⟩] := by decide
example : (step { exSt with socks := [{ exSock with enabled := true, t4 := true, t6 := true }] }
    (.outside 7 false [56, 46, 56, 46, 56, 46, 56] 53 [1, 2, 3])).2 = [] := by decide

end Ipv8.C06
