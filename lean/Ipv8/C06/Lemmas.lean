/-
  C06 — helper lemmas (core Lean only; nothing here is an obligation by itself).
  Part 1: simp set for the translated Python vocabulary, slices, unpack_from; the generated classifier equals the fixed Spec.
  Part 2: what sendto / flush / sockStep / step can output and which socket fields they can change.
-/
import Ipv8.C06.Model

namespace Ipv8.C06
open Ipv8 Py

section simpset
variable {α β : Type}
@[simp] theorem vIf_some (c : Bool) (t e : V α) : vIf (some c) t e = if c then t else e := by cases c <;> rfl
@[simp] theorem vAnd_some_some (a b : Bool) : vAnd (some a) (some b) = some (a && b) := by cases a <;> rfl
theorem vAnd_some (a : Bool) (b : V Bool) : vAnd (some a) b = if a then b else some false := by cases a <;> rfl
@[simp] theorem vOr_some_some (a b : Bool) : vOr (some a) (some b) = some (a || b) := by cases a <;> rfl
theorem vOr_some (a : Bool) (b : V Bool) : vOr (some a) b = if a then some true else b := by cases a <;> rfl
@[simp] theorem vNot_some (a : Bool) : vNot (some a) = some (!a) := rfl
@[simp] theorem vLe_some (a b : Nat) : vLe (some a) (some b) = some (decide (a ≤ b)) := rfl
@[simp] theorem vLt_some (a b : Nat) : vLt (some a) (some b) = some (decide (a < b)) := rfl
@[simp] theorem vGe_some (a b : Nat) : vGe (some a) (some b) = some (decide (a ≥ b)) := rfl
@[simp] theorem vGt_some (a b : Nat) : vGt (some a) (some b) = some (decide (a > b)) := rfl
@[simp] theorem vEqN_some (a b : Nat) : vEqN (some a) (some b) = some (a == b) := rfl
@[simp] theorem vNeN_some (a b : Nat) : vNeN (some a) (some b) = some (a != b) := rfl
@[simp] theorem vEqB_some (a b : Bytes) : vEqB (some a) (some b) = some (a == b) := rfl
@[simp] theorem vNeB_some (a b : Bytes) : vNeB (some a) (some b) = some (a != b) := rfl
@[simp] theorem vInB_some (a : Bytes) (l : List Bytes) : vInB (some a) l = some (l.contains a) := rfl
@[simp] theorem vInN_some (a : Nat) (l : List Nat) : vInN (some a) l = some (l.contains a) := rfl
@[simp] theorem vLen_some (d : Bytes) : vLen (some d) = some d.length := rfl
@[simp] theorem vSlice_some (d : Bytes) (lo hi : Option Int) : vSlice (some d) lo hi = some (pySlice d lo hi) := rfl
@[simp] theorem vShr_some (a b : Nat) : vShr (some a) (some b) = some (a >>> b) := rfl
@[simp] theorem vShl_some (a b : Nat) : vShl (some a) (some b) = some (a <<< b) := rfl
@[simp] theorem vBand_some (a b : Nat) : vBand (some a) (some b) = some (a &&& b) := rfl
@[simp] theorem vBor_some (a b : Nat) : vBor (some a) (some b) = some (a ||| b) := rfl
@[simp] theorem vAdd_some (a b : Nat) : vAdd (some a) (some b) = some (a + b) := rfl
@[simp] theorem vLet1_some (a : α) (k : α → V β) : vLet1 (some a) k = k a := rfl
@[simp] theorem vLet2_some (a b : Nat) (k : Nat → Nat → V α) : vLet2 (some [a, b]) k = k a b := rfl
@[simp] theorem vIdx_some (l : List Nat) (i : Nat) : vIdx (some l) i = l[i]? := rfl
end simpset

set_option maxRecDepth 8000 in
theorem nibble : ∀ n : Fin 256,
    (decide (n.val >>> 4 ≤ 4) && (n.val &&& 15 == 1)) = (decide (n.val / 16 ≤ 4) && decide (n.val % 16 = 1)) := by
  decide

theorem nibble' (a : UInt8) :
    (decide (a.toNat >>> 4 ≤ 4) && (a.toNat &&& 15 == 1)) = (decide (a.toNat / 16 ≤ 4) && decide (a.toNat % 16 = 1)) :=
  nibble ⟨a.toNat, a.toNat_lt⟩

theorem utp_spec (d : Bytes) : Gen.could_be_utp d = some (Spec.isUtp d) := by
  unfold Gen.could_be_utp Spec.isUtp
  match d with
  | [] => simp
  | [a] => simp
  | a :: b :: rest =>
    have hu : vUnpack [1, 1] (some (a :: b :: rest)) 0 = some [a.toNat, b.toNat] := by
      simp [vUnpack, unpackFields, beNat]
    simp only [hu, vLen_some, vLt_some, vIf_some, vLet2_some, vShr_some, vLe_some, vBand_some, vEqN_some,
      vAnd_some_some, vNot_some]
    have hn := nibble' a
    by_cases h : (a :: b :: rest).length < 20
    · have h2 : ¬ 18 ≤ rest.length := by simp at h; omega
      simp at h
      simp [h, h2]
    · have h' : 20 ≤ (a :: b :: rest).length := by omega
      simp only [h, h', decide_true, decide_false, Bool.true_and, Nat.zero_le]
      rw [hn]
      cases (decide (a.toNat / 16 ≤ 4)) <;> cases (decide (a.toNat % 16 = 1)) <;> simp

theorem u8_eq_zero (a : UInt8) : (a == 0) = decide (a.toNat = 0) := by
  rw [Bool.eq_iff_iff]; simp [← UInt8.toNat_inj]

theorem action_lemma (d : Bytes) (off : Nat) (h : off + 4 ≤ d.length) :
    vAnd (vLe (some 0) (vIdx (vUnpack [4] (some d) off) 0)) (vLe (vIdx (vUnpack [4] (some d) off) 0) (some 3))
      = some (Spec.actionAt d off) := by
  have hlen : 4 ≤ (d.drop off).length := by simp; omega
  unfold Spec.actionAt
  simp only [vUnpack, show off ≤ d.length by omega, if_true]
  match hr : d.drop off, hlen with
  | a :: b :: c :: e :: t, _ =>
    simp [unpackFields, beNat, u8_eq_zero]
    rw [Bool.eq_iff_iff]; simp only [Bool.and_eq_true, decide_eq_true_eq]
    omega

theorem tracker_spec (d : Bytes) : Gen.could_be_udp_tracker d = some (Spec.isTracker d) := by
  unfold Gen.could_be_udp_tracker Spec.isTracker
  simp only [vLen_some, vGe_some]
  by_cases h8 : 8 ≤ d.length
  · rw [action_lemma d 0 (by omega)]
    by_cases h12 : 12 ≤ d.length
    · rw [action_lemma d 8 (by omega)]; simp [h8, h12]
    · simp [h8, h12, vAnd_some, vOr_some]
      cases Spec.actionAt d 0 <;> rfl
  · have h12 : ¬ 12 ≤ d.length := by omega
    simp [h8, h12, vAnd_some, vOr_some]

theorem slice_0_1 (d : Bytes) : pySlice d (some 0) (some 1) = d.take 1 := by
  cases d <;> simp [pySlice, normIdx]

theorem slice_1_2 (d : Bytes) : pySlice d (some 1) (some 2) = (d.drop 1).take 1 := by
  match d with
  | [] => simp [pySlice, normIdx]
  | [a] => simp [pySlice, normIdx]
  | a :: b :: t => simp [pySlice, normIdx]

theorem slice_to (d : Bytes) (n : Nat) : pySlice d none (some (n : Int)) = d.take n := by
  have h : ¬ ((n : Int) < 0) := by omega
  simp [pySlice, normIdx, h]

theorem slice_last (d : Bytes) : pySlice d (some (-1)) none = d.drop (d.length - 1) := by
  simp only [pySlice, normIdx]
  have e : ((d.length : Int) + -1).toNat = d.length - 1 := by omega
  simp only [show ((-1 : Int) < 0) by omega, if_true, Int.ofNat_eq_natCast, e]
  apply List.take_of_length_le; simp

theorem take1_eq (d : Bytes) (x : UInt8) : (d.take 1 == [x]) = (d.head? == some x) := by
  cases d <;> simp

theorem last_eq (d : Bytes) (x : UInt8) : (d.drop (d.length - 1) == [x]) = (d.getLast? == some x) := by
  by_cases h : d = []
  · subst h; simp
  · obtain ⟨l, y, rfl⟩ : ∃ l y, d = l ++ [y] := ⟨d.dropLast, d.getLast h, (List.dropLast_concat_getLast h).symm⟩
    simp

theorem dht_spec (d : Bytes) : Gen.could_be_dht d = some (Spec.isDht d) := by
  unfold Gen.could_be_dht Spec.isDht
  simp only [vLen_some, vGt_some, vSlice_some, vEqB_some, vAnd_some_some, vIf_some, slice_0_1, slice_last,
    take1_eq, last_eq]
  have : (decide (d.length > 1)) = decide (2 ≤ d.length) := by simp; omega
  rw [this, Bool.and_assoc]
  cases (decide (2 ≤ d.length) && (d.head? == some 100 && d.getLast? == some 101)) <;> rfl

theorem bt_spec (d : Bytes) : Gen.could_be_bt d = some (Spec.isBT d) := by
  unfold Gen.could_be_bt Spec.isBT
  rw [utp_spec, tracker_spec, dht_spec]; simp [Bool.or_assoc]

theorem ipv8_spec (d : Bytes) : Gen.could_be_ipv8 d = some (Spec.isIPv8 d) := by
  unfold Gen.could_be_ipv8 Spec.isIPv8
  simp only [vLen_some, vGe_some, vSlice_some, vEqB_some, vInB_some, vAnd_some_some, slice_0_1, slice_1_2]
  match d with
  | [] => simp
  | [a] => simp
  | a :: b :: t => simp [Bool.and_assoc]; rfl

theorem allowed_spec (fl : List Nat) (pfx d : Bytes) :
    Gen.is_allowed fl pfx d
      = some (Spec.allowed (fl.contains Gen.PEER_FLAG_EXIT_BT) (fl.contains Gen.PEER_FLAG_EXIT_IPV8) pfx d) := by
  unfold Gen.is_allowed Spec.allowed
  rw [bt_spec, ipv8_spec]
  simp only [vLet1_some, vInN_some, vAnd_some_some, vNot_some, vSlice_some, vEqB_some, vIf_some]
  have hc : (pfx == d.take 22) = (d.take 22 == pfx) := BEq.comm
  rw [show pySlice d none (some (22 : Int)) = d.take 22 from slice_to d 22, hc]
  cases Spec.isBT d <;> cases Spec.isIPv8 d <;> cases (fl.contains Gen.PEER_FLAG_EXIT_BT) <;>
    cases (fl.contains Gen.PEER_FLAG_EXIT_IPV8) <;> cases (d.take 22 == pfx) <;> rfl

/-! ## Part 2: the state machine -/

/-- the socket fields an output-producing helper never touches -/
def SameCore (s s' : Sock) : Prop :=
  s'.cid = s.cid ∧ s'.hopIp = s.hopIp ∧ s'.hopPort = s.hopPort ∧ s'.enabled = s.enabled ∧ s'.t4 = s.t4 ∧ s'.t6 = s.t6

theorem SameCore.refl (s : Sock) : SameCore s s := ⟨rfl, rfl, rfl, rfl, rfl, rfl⟩
theorem SameCore.trans {a b c : Sock} (h1 : SameCore a b) (h2 : SameCore b c) : SameCore a c := by
  obtain ⟨a1, a2, a3, a4, a5, a6⟩ := h1
  obtain ⟨b1, b2, b3, b4, b5, b6⟩ := h2
  exact ⟨b1.trans a1, b2.trans a2, b3.trans a3, b4.trans a4, b5.trans a5, b6.trans a6⟩

/-- an output of `sendto`: a started resolution, or an emission that passed the gate and the null check through an
    open transport -/
def SendOut (fl : List Nat) (pfx : Bytes) (s : Sock) (o : Out) : Prop :=
  (∃ h p, o = .resolve s.cid h p) ∨
  (∃ v data dest, o = .emit s.cid v data dest ∧ gate fl pfx data = true ∧ dest.isNull = false ∧
      (s.t4 = true ∨ s.t6 = true))

theorem sendto_core (fl : List Nat) (pfx : Bytes) (s : Sock) (data : Bytes) (dest : Dest) :
    SameCore s (sendto fl pfx s data dest).1 := by
  unfold sendto
  by_cases hg : gate fl pfx data <;> by_cases hd : dest.kind = .dom <;> by_cases hn : dest.isNull
    <;> by_cases ho : (if dest.kind = .v6 then s.t6 else s.t4) <;> simp [hg, hd, hn, ho, SameCore]

theorem sendto_out (fl : List Nat) (pfx : Bytes) (s : Sock) (data : Bytes) (dest : Dest) :
    ∀ o ∈ (sendto fl pfx s data dest).2, SendOut fl pfx s o := by
  intro o hmem
  unfold sendto at hmem
  split at hmem
  · simp at hmem
  · rename_i hg
    split at hmem
    · simp at hmem; exact Or.inl ⟨_, _, hmem⟩
    · split at hmem
      · simp at hmem
      · rename_i hn
        by_cases h6 : dest.kind = .v6
        · by_cases ht : s.t6 = true
          · simp [h6, ht] at hmem
            subst hmem
            exact Or.inr ⟨_, _, _, rfl, by simpa using hg, by simpa using hn, Or.inr ht⟩
          · simp [h6, ht] at hmem
        · by_cases ht : s.t4 = true
          · simp [h6, ht] at hmem
            subst hmem
            exact Or.inr ⟨_, _, _, rfl, by simpa using hg, by simpa using hn, Or.inl ht⟩
          · simp [h6, ht] at hmem

theorem SendOut.of_core {fl : List Nat} {pfx : Bytes} {s s' : Sock} {o : Out} (hc : SameCore s s')
    (h : SendOut fl pfx s o) : SendOut fl pfx s' o := by
  obtain ⟨c1, _, _, _, c5, c6⟩ := hc
  rcases h with ⟨h, p, rfl⟩ | ⟨v, data, dest, rfl, hg, hn, ht⟩
  · exact Or.inl ⟨h, p, by rw [c1]⟩
  · exact Or.inr ⟨v, data, dest, by rw [c1], hg, hn, by rw [c5, c6]; exact ht⟩

theorem SameCore.symm {a b : Sock} (h : SameCore a b) : SameCore b a := by
  obtain ⟨a1, a2, a3, a4, a5, a6⟩ := h
  exact ⟨a1.symm, a2.symm, a3.symm, a4.symm, a5.symm, a6.symm⟩

theorem flush_core (fl : List Nat) (pfx : Bytes) : ∀ (q : List (Bytes × Dest)) (s : Sock),
    SameCore s (flush fl pfx s q).1
  | [], s => SameCore.refl s
  | (d, dst) :: rest, s => by
    simp only [flush]
    exact (sendto_core fl pfx s d dst).trans (flush_core fl pfx rest _)

theorem flush_out (fl : List Nat) (pfx : Bytes) : ∀ (q : List (Bytes × Dest)) (s : Sock),
    ∀ o ∈ (flush fl pfx s q).2, SendOut fl pfx s o
  | [], s => by simp [flush]
  | (d, dst) :: rest, s => by
    intro o hmem
    simp only [flush, List.mem_append] at hmem
    rcases hmem with h | h
    · exact sendto_out fl pfx s d dst o h
    · exact (flush_out fl pfx rest _ o h).of_core (sendto_core fl pfx s d dst).symm

/-- what one event may make an exit socket output -/
def SockOut (fl : List Nat) (pfx : Bytes) (s : Sock) (o : Out) : Prop :=
  SendOut fl pfx s o ∨ ∃ payload src, o = .tunnel s.cid s.hopIp s.hopPort payload src ∧ gate fl pfx payload = true

theorem sockStep_out (fl : List Nat) (pfx : Bytes) (s : Sock) (ev : Ev) :
    ∀ o ∈ (sockStep fl pfx s ev).2, SockOut fl pfx (sockStep fl pfx s ev).1 o := by
  intro o hmem
  cases ev with
  | setFlags f => simp [sockStep] at hmem
  | data ip sp c d p =>
    simp only [sockStep] at hmem ⊢
    split at hmem
    · split at hmem
      · rename_i h1 h2
        simp only [h1, h2, if_true]
        exact Or.inl ((sendto_out _ _ _ _ _ o hmem).of_core (sendto_core _ _ _ _ _))
      · simp at hmem
    · rename_i h1
      simp only [h1]
      exact Or.inl ((sendto_out _ _ _ _ _ o hmem).of_core (sendto_core _ _ _ _ _))
  | open4 c =>
    simp only [sockStep] at hmem
    split at hmem <;> simp at hmem
  | open6 c =>
    simp only [sockStep] at hmem ⊢
    split at hmem
    · rename_i h1
      simp only [h1, if_true]
      exact Or.inl ((flush_out _ _ _ _ o hmem).of_core (flush_core _ _ _ _))
    · simp at hmem
  | resolved c idx infos =>
    simp only [sockStep] at hmem ⊢
    split at hmem
    · simp at hmem
    · rename_i data dest h1
      split at hmem
      · simp at hmem
      · rename_i a h2
        exact Or.inl ((sendto_out _ _ _ _ _ o hmem).of_core (sendto_core _ _ _ _ _))
  | outside c v6 host port payload =>
    simp only [sockStep] at hmem ⊢
    split at hmem
    · simp at hmem
    · split at hmem
      · rename_i h1 h2
        simp only [h1, h2, if_true]
        simp at hmem
        exact Or.inr ⟨_, _, hmem, h2⟩
      · simp at hmem

/-! ### which socket opened, and why -/

/-- the history `P` contains a DATA cell for this socket's circuit, with a non-null destination, that came from the
    IP address of the socket's previous hop -/
def Opened (P : List Ev) (s : Sock) : Prop :=
  ∃ sp d p, Ev.data s.hopIp sp s.cid d p ∈ P ∧ d.isNull = false

def sockInv (P : List Ev) (s : Sock) : Prop :=
  (s.t6 = true → s.t4 = true) ∧ (s.t4 = true → s.enabled = true) ∧ (s.enabled = true → Opened P s)

theorem Opened.mono {P : List Ev} {s : Sock} (e : Ev) (h : Opened P s) : Opened (e :: P) s := by
  obtain ⟨sp, d, p, hm, hn⟩ := h
  exact ⟨sp, d, p, List.mem_cons_of_mem _ hm, hn⟩

theorem Opened.of_core {P : List Ev} {s s' : Sock} (hc : SameCore s s') (h : Opened P s) : Opened P s' := by
  obtain ⟨c1, c2, _, _, _, _⟩ := hc
  obtain ⟨sp, d, p, hm, hn⟩ := h
  exact ⟨sp, d, p, by rw [c1, c2]; exact hm, hn⟩

theorem sockInv.mono {P : List Ev} {s : Sock} (e : Ev) (h : sockInv P s) : sockInv (e :: P) s :=
  ⟨h.1, h.2.1, fun he => (h.2.2 he).mono e⟩

theorem sockInv.of_core {P : List Ev} {s s' : Sock} (hc : SameCore s s') (h : sockInv P s) : sockInv P s' := by
  have hc' := hc
  obtain ⟨_, _, _, c4, c5, c6⟩ := hc
  refine ⟨?_, ?_, ?_⟩
  · rw [c5, c6]; exact h.1
  · rw [c4, c5]; exact h.2.1
  · rw [c4]; exact fun he => (h.2.2 he).of_core hc'

theorem sockStep_inv (fl : List Nat) (pfx : Bytes) (P : List Ev) (s : Sock) (ev : Ev) (hinv : sockInv P s)
    (hdata : ∀ ip sp c d p, ev = .data ip sp c d p → c = s.cid ∧ d.isNull = false) :
    sockInv (ev :: P) (sockStep fl pfx s ev).1 := by
  cases ev with
  | setFlags f => exact hinv.mono _
  | data ip sp c d p =>
    obtain ⟨hc, hd⟩ := hdata ip sp c d p rfl
    simp only [sockStep]
    split
    · rename_i hen
      split
      · rename_i hip
        have hip' : ip = s.hopIp := by simpa using hip
        refine sockInv.of_core (sendto_core _ _ _ _ _) ⟨?_, ?_, ?_⟩
        · exact hinv.1
        · intro _; rfl
        · intro _; exact ⟨sp, d, p, by subst hip' hc; exact List.mem_cons_self, hd⟩
      · exact hinv.mono _
    · exact (hinv.mono _).of_core (sendto_core _ _ _ _ _)
  | open4 c =>
    simp only [sockStep]
    split
    · rename_i h
      have h' : s.enabled = true ∧ s.t4 = false := by simpa using h
      refine ⟨fun _ => rfl, fun _ => h'.1, fun he => (hinv.2.2 he).mono _⟩
    · exact hinv.mono _
  | open6 c =>
    simp only [sockStep]
    split
    · rename_i h
      have h' : s.t4 = true ∧ s.t6 = false := by simpa using h
      refine sockInv.of_core (flush_core _ _ _ _) ⟨fun _ => h'.1, hinv.2.1, fun he => (hinv.2.2 he).mono _⟩
    · exact hinv.mono _
  | resolved c idx infos =>
    simp only [sockStep]
    split
    · exact hinv.mono _
    · split
      · exact ⟨hinv.1, hinv.2.1, fun he => (hinv.2.2 he).mono _⟩
      · exact sockInv.of_core (sendto_core _ _ _ _ _) ⟨hinv.1, hinv.2.1, fun he => (hinv.2.2 he).mono _⟩
  | outside c v6 host port payload =>
    simp only [sockStep]
    split
    · exact hinv.mono _
    · split <;> exact hinv.mono _

theorem sockStep_ids (fl : List Nat) (pfx : Bytes) (s : Sock) (ev : Ev) :
    (sockStep fl pfx s ev).1.cid = s.cid ∧ (sockStep fl pfx s ev).1.hopIp = s.hopIp := by
  cases ev with
  | setFlags f => exact ⟨rfl, rfl⟩
  | data ip sp c d p =>
    simp only [sockStep]
    split
    · split
      · exact ⟨(sendto_core _ _ _ _ _).1, (sendto_core _ _ _ _ _).2.1⟩
      · exact ⟨rfl, rfl⟩
    · exact ⟨(sendto_core _ _ _ _ _).1, (sendto_core _ _ _ _ _).2.1⟩
  | open4 c => simp only [sockStep]; split <;> exact ⟨rfl, rfl⟩
  | open6 c =>
    simp only [sockStep]
    split
    · exact ⟨(flush_core _ _ _ _).1, (flush_core _ _ _ _).2.1⟩
    · exact ⟨rfl, rfl⟩
  | resolved c idx infos =>
    simp only [sockStep]
    split
    · exact ⟨rfl, rfl⟩
    · split
      · exact ⟨rfl, rfl⟩
      · exact ⟨(sendto_core _ _ _ _ _).1, (sendto_core _ _ _ _ _).2.1⟩
  | outside c v6 host port payload =>
    simp only [sockStep]
    split
    · exact ⟨rfl, rfl⟩
    · split <;> exact ⟨rfl, rfl⟩

theorem mem_setSock {l : List Sock} {r x : Sock} (h : x ∈ setSock l r) : x ∈ l ∨ x = r := by
  induction l with
  | nil => simp [setSock] at h
  | cons a t ih =>
    simp only [setSock] at h
    split at h
    · rcases List.mem_cons.mp h with h | h
      · exact Or.inr h
      · exact Or.inl (List.mem_cons_of_mem _ h)
    · rcases List.mem_cons.mp h with h | h
      · exact Or.inl (h ▸ List.mem_cons_self)
      · rcases ih h with h | h
        · exact Or.inl (List.mem_cons_of_mem _ h)
        · exact Or.inr h

theorem mem_setSock_self {l : List Sock} {r : Sock} (h : ∃ x ∈ l, x.cid = r.cid) : r ∈ setSock l r := by
  induction l with
  | nil => simp at h
  | cons a t ih =>
    simp only [setSock]
    split
    · exact List.mem_cons_self
    · rename_i hne
      obtain ⟨x, hx, hc⟩ := h
      rcases List.mem_cons.mp hx with hx | hx
      · subst hx; simp [hc] at hne
      · exact List.mem_cons_of_mem _ (ih ⟨x, hx, hc⟩)

theorem find_cid {l : List Sock} {cid : Nat} {s : Sock} (h : l.find? (fun s => s.cid == cid) = some s) :
    s ∈ l ∧ s.cid = cid := by
  refine ⟨List.mem_of_find?_eq_some h, ?_⟩
  have := List.find?_some h
  simpa using this

/-- `base`: the (circuit id, previous hop IP) pairs of the exit sockets; `P`: the events so far -/
def Inv (base : List (Nat × Bytes)) (P : List Ev) (st : St) : Prop :=
  ∀ s ∈ st.socks, (s.cid, s.hopIp) ∈ base ∧ sockInv P s

theorem viaSock_out (st : St) (cid : Nat) (ev : Ev) :
    ∀ o ∈ (viaSock st cid ev).2, ∃ s' ∈ (viaSock st cid ev).1.socks, SockOut st.flags st.pfx s' o := by
  intro o hmem
  unfold viaSock at hmem ⊢
  split at hmem
  · simp at hmem
  · rename_i s hf
    obtain ⟨hs, hc⟩ := find_cid hf
    simp only at hmem ⊢
    refine ⟨(sockStep st.flags st.pfx s ev).1, ?_, sockStep_out _ _ _ _ o hmem⟩
    exact mem_setSock_self ⟨s, hs, (sockStep_ids _ _ _ _).1.symm⟩

theorem viaSock_flags (st : St) (cid : Nat) (ev : Ev) :
    (viaSock st cid ev).1.flags = st.flags ∧ (viaSock st cid ev).1.pfx = st.pfx := by
  unfold viaSock; split <;> exact ⟨rfl, rfl⟩

theorem viaSock_inv (base : List (Nat × Bytes)) (P : List Ev) (st : St) (cid : Nat) (ev : Ev) (hinv : Inv base P st)
    (hdata : ∀ ip sp c d p, ev = .data ip sp c d p → c = cid ∧ d.isNull = false) :
    Inv base (ev :: P) (viaSock st cid ev).1 := by
  unfold viaSock
  split
  · exact fun s hs => ⟨(hinv s hs).1, (hinv s hs).2.mono _⟩
  · rename_i s hf
    obtain ⟨hs, hc⟩ := find_cid hf
    intro x hx
    rcases mem_setSock hx with hx | hx
    · exact ⟨(hinv x hx).1, (hinv x hx).2.mono _⟩
    · subst hx
      obtain ⟨i1, i2⟩ := sockStep_ids st.flags st.pfx s ev
      refine ⟨by rw [i1, i2]; exact (hinv s hs).1, sockStep_inv _ _ _ _ _ (hinv s hs).2 ?_⟩
      intro ip sp c d p he
      obtain ⟨h1, h2⟩ := hdata ip sp c d p he
      exact ⟨h1.trans hc.symm, h2⟩

/-- an output of one community step: a local delivery, or something an exit socket of the resulting state produced -/
def StepOut (st' : St) (fl : List Nat) (pfx : Bytes) (o : Out) : Prop :=
  (∃ c k, o = .loc c k) ∨ ∃ s' ∈ st'.socks, SockOut fl pfx s' o

theorem step_out (st : St) (ev : Ev) : ∀ o ∈ (step st ev).2, StepOut (step st ev).1 st.flags st.pfx o := by
  intro o hmem
  cases ev with
  | setFlags f => simp [step] at hmem
  | data ip sp c d p =>
    have hexit : ∀ o ∈ (exitBranch st c d (.data ip sp c d p)).2,
        StepOut (exitBranch st c d (.data ip sp c d p)).1 st.flags st.pfx o := by
      intro o hmem
      unfold exitBranch at hmem ⊢
      by_cases hn : d.isNull = true
      · simp [hn] at hmem
      · simp only [hn] at hmem ⊢
        exact Or.inr (viaSock_out _ _ _ o hmem)
    simp only [step] at hmem ⊢
    cases hfind : st.circs.find? (fun x => x.cid == c) with
    | none => simp only [hfind] at hmem ⊢; exact hexit o hmem
    | some ci =>
      simp only [hfind] at hmem ⊢
      by_cases h1 : (ci.hopIp == ip && ci.hopPort == sp) = true
      · simp only [h1, if_true] at hmem ⊢
        by_cases h2 : (localKind st.pfx ci p == 1 && !st.tunnelEp) = true
        · simp [h2] at hmem
        · simp only [h2] at hmem ⊢
          simp at hmem
          exact Or.inl ⟨_, _, hmem⟩
      · simp only [h1] at hmem ⊢; exact hexit o hmem
  | open4 c => exact Or.inr (viaSock_out _ _ _ o hmem)
  | open6 c => exact Or.inr (viaSock_out _ _ _ o hmem)
  | resolved c idx infos => exact Or.inr (viaSock_out _ _ _ o hmem)
  | outside c v6 host port payload => exact Or.inr (viaSock_out _ _ _ o hmem)

theorem step_inv (base : List (Nat × Bytes)) (P : List Ev) (st : St) (ev : Ev) (hinv : Inv base P st) :
    Inv base (ev :: P) (step st ev).1 := by
  have keep : Inv base (ev :: P) st := fun s hs => ⟨(hinv s hs).1, (hinv s hs).2.mono _⟩
  cases ev with
  | setFlags f => exact keep
  | data ip sp c d p =>
    have hexit : Inv base (Ev.data ip sp c d p :: P) (exitBranch st c d (Ev.data ip sp c d p)).1 := by
      unfold exitBranch
      split
      · exact keep
      · rename_i hn
        refine viaSock_inv base P st c _ hinv ?_
        intro ip' sp' c' d' p' he
        cases he
        exact ⟨rfl, by simpa using hn⟩
    simp only [step]
    split
    · split
      · split <;> exact keep
      · exact hexit
    · exact hexit
  | open4 c => exact viaSock_inv base P st c _ hinv (by intro _ _ _ _ _ he; cases he)
  | open6 c => exact viaSock_inv base P st c _ hinv (by intro _ _ _ _ _ he; cases he)
  | resolved c idx infos => exact viaSock_inv base P st c _ hinv (by intro _ _ _ _ _ he; cases he)
  | outside c v6 host port payload => exact viaSock_inv base P st c _ hinv (by intro _ _ _ _ _ he; cases he)


theorem step_pfx (st : St) (ev : Ev) : (step st ev).1.pfx = st.pfx := by
  cases ev with
  | setFlags f => rfl
  | data ip sp c d p =>
    have hexit : (exitBranch st c d (.data ip sp c d p)).1.pfx = st.pfx := by
      unfold exitBranch; split
      · rfl
      · exact (viaSock_flags _ _ _).2
    simp only [step]
    split
    · split
      · split <;> rfl
      · exact hexit
    · exact hexit
  | open4 c => exact (viaSock_flags _ _ _).2
  | open6 c => exact (viaSock_flags _ _ _).2
  | resolved c idx infos => exact (viaSock_flags _ _ _).2
  | outside c v6 host port payload => exact (viaSock_flags _ _ _).2

theorem run_pfx : ∀ (evs : List Ev) (st : St), (run st evs).1.pfx = st.pfx
  | [], _ => rfl
  | ev :: evs, st => by simp only [run]; rw [run_pfx evs, step_pfx]

theorem run_inv (base : List (Nat × Bytes)) : ∀ (evs P : List Ev) (st : St), Inv base P st →
    Inv base (evs.reverse ++ P) (run st evs).1
  | [], P, st, h => by simpa [run] using h
  | ev :: evs, P, st, h => by
    have := run_inv base evs (ev :: P) (step st ev).1 (step_inv base P st ev h)
    simpa [run, List.reverse_cons, List.append_assoc] using this

theorem step_emit_opened (base : List (Nat × Bytes)) (P : List Ev) (st : St) (ev : Ev) (hinv : Inv base P st)
    (c : Nat) (v : Bool) (data : Bytes) (dest : Dest) (hmem : Out.emit c v data dest ∈ (step st ev).2) :
    ∃ ip, (c, ip) ∈ base ∧ ∃ sp d p, Ev.data ip sp c d p ∈ ev :: P ∧ d.isNull = false := by
  rcases step_out st ev _ hmem with ⟨c', k, h⟩ | ⟨s', hs', hso⟩
  · cases h
  · have hi := step_inv base P st ev hinv s' hs'
    rcases hso with (⟨h, p, he⟩ | ⟨v', data', dest', he, _, _, ht⟩) | ⟨payload, src, he, _⟩
    · cases he
    · cases he
      have hen : s'.enabled = true := by
        rcases ht with ht | ht
        · exact hi.2.2.1 ht
        · exact hi.2.2.1 (hi.2.1 ht)
      obtain ⟨sp, d, p, hm, hn⟩ := hi.2.2.2 hen
      exact ⟨s'.hopIp, hi.1, sp, d, p, hm, hn⟩
    · cases he

theorem run_emit (base : List (Nat × Bytes)) : ∀ (evs P : List Ev) (st : St), Inv base P st →
    ∀ fl c v data dest, (fl, Out.emit c v data dest) ∈ (run st evs).2 →
      ∃ ip, (c, ip) ∈ base ∧ ∃ sp d p, Ev.data ip sp c d p ∈ evs.reverse ++ P ∧ d.isNull = false
  | [], P, st, _ => by intro fl c v data dest h; simp [run] at h
  | ev :: evs, P, st, hinv => by
    intro fl c v data dest h
    simp only [run, List.mem_append, List.mem_map] at h
    rcases h with ⟨o, ho, heq⟩ | h
    · cases heq
      obtain ⟨ip, hb, sp, d, p, hm, hn⟩ := step_emit_opened base P st ev hinv c v data dest ho
      refine ⟨ip, hb, sp, d, p, ?_, hn⟩
      simp only [List.reverse_cons, List.append_assoc, List.mem_append]
      exact Or.inr (by simpa using hm)
    · obtain ⟨ip, hb, sp, d, p, hm, hn⟩ :=
        run_emit base evs (ev :: P) (step st ev).1 (step_inv base P st ev hinv) fl c v data dest h
      exact ⟨ip, hb, sp, d, p, by simpa [List.reverse_cons, List.append_assoc] using hm, hn⟩

/-! ### the queue bound -/

theorem pushBounded_len (q : List (Bytes × Dest)) (x : Bytes × Dest) : (pushBounded q x).length ≤ Gen.QUEUE_MAXLEN := by
  simp [pushBounded]; omega

theorem sendto_queue (fl : List Nat) (pfx : Bytes) (s : Sock) (data : Bytes) (dest : Dest)
    (h : s.queue.length ≤ Gen.QUEUE_MAXLEN) : (sendto fl pfx s data dest).1.queue.length ≤ Gen.QUEUE_MAXLEN := by
  unfold sendto
  split
  · exact h
  · split
    · exact h
    · split
      · exact h
      · simp only
        split <;> (split <;> first | exact pushBounded_len _ _ | exact h)

theorem flush_queue (fl : List Nat) (pfx : Bytes) : ∀ (q : List (Bytes × Dest)) (s : Sock),
    s.queue.length ≤ Gen.QUEUE_MAXLEN → (flush fl pfx s q).1.queue.length ≤ Gen.QUEUE_MAXLEN
  | [], s, h => h
  | (d, dst) :: rest, s, h => by
    simp only [flush]
    exact flush_queue fl pfx rest _ (sendto_queue fl pfx s d dst h)

theorem sockStep_queue (fl : List Nat) (pfx : Bytes) (s : Sock) (ev : Ev) (h : s.queue.length ≤ Gen.QUEUE_MAXLEN) :
    (sockStep fl pfx s ev).1.queue.length ≤ Gen.QUEUE_MAXLEN := by
  cases ev with
  | setFlags f => exact h
  | data ip sp c d p =>
    simp only [sockStep]
    split
    · split
      · exact sendto_queue _ _ _ _ _ h
      · exact h
    · exact sendto_queue _ _ _ _ _ h
  | open4 c => simp only [sockStep]; split <;> exact h
  | open6 c =>
    simp only [sockStep]
    split
    · exact flush_queue _ _ _ _ (by simp)
    · exact h
  | resolved c idx infos =>
    simp only [sockStep]
    split
    · exact h
    · split
      · exact h
      · exact sendto_queue _ _ _ _ _ h
  | outside c v6 host port payload =>
    simp only [sockStep]
    split
    · exact h
    · split <;> exact h

theorem viaSock_queue (st : St) (cid : Nat) (ev : Ev) (h : ∀ s ∈ st.socks, s.queue.length ≤ Gen.QUEUE_MAXLEN) :
    ∀ s ∈ (viaSock st cid ev).1.socks, s.queue.length ≤ Gen.QUEUE_MAXLEN := by
  unfold viaSock
  split
  · exact h
  · rename_i s hf
    intro x hx
    rcases mem_setSock hx with hx | hx
    · exact h x hx
    · subst hx; exact sockStep_queue _ _ _ _ (h s (find_cid hf).1)

theorem step_queue (st : St) (ev : Ev) (h : ∀ s ∈ st.socks, s.queue.length ≤ Gen.QUEUE_MAXLEN) :
    ∀ s ∈ (step st ev).1.socks, s.queue.length ≤ Gen.QUEUE_MAXLEN := by
  cases ev with
  | setFlags f => exact h
  | data ip sp c d p =>
    have hexit : ∀ s ∈ (exitBranch st c d (.data ip sp c d p)).1.socks, s.queue.length ≤ Gen.QUEUE_MAXLEN := by
      unfold exitBranch; split
      · exact h
      · exact viaSock_queue _ _ _ h
    simp only [step]
    split
    · split
      · split <;> exact h
      · exact hexit
    · exact hexit
  | open4 c => exact viaSock_queue _ _ _ h
  | open6 c => exact viaSock_queue _ _ _ h
  | resolved c idx infos => exact viaSock_queue _ _ _ h
  | outside c v6 host port payload => exact viaSock_queue _ _ _ h

/-! ## definitions used by the statements in Props.lean -/

/-- what the property demands of one output, under the flags `fl` in force when it is produced -/
def OutOK (fl : List Nat) (pfx : Bytes) : Out → Prop
  | .emit _ _ data dest =>
      Spec.allowed (fl.contains Gen.PEER_FLAG_EXIT_BT) (fl.contains Gen.PEER_FLAG_EXIT_IPV8) pfx data = true
      ∧ dest.isNull = false
  | .tunnel _ _ _ data _ =>
      Spec.allowed (fl.contains Gen.PEER_FLAG_EXIT_BT) (fl.contains Gen.PEER_FLAG_EXIT_IPV8) pfx data = true
  | _ => True

/-- all exit sockets closed: not enabled, no transport -/
def Closed (st : St) : Prop := ∀ s ∈ st.socks, s.enabled = false ∧ s.t4 = false ∧ s.t6 = false

/-! concrete state for the non-vacuity examples -/
def exSock : Sock := { cid := 7, hopIp := [49, 48, 46, 48, 46, 48, 46, 49], hopPort := 5000 }
def exSt : St := { flags := [Gen.PEER_FLAG_RELAY, Gen.PEER_FLAG_EXIT_BT], pfx := [0, 2], socks := [exSock], circs := [] }
def exDht : Bytes := [100, 49, 58, 97, 101]
def exDest : Dest := ⟨.v4, [49, 46, 50, 46, 51, 46, 52], 80⟩

end Ipv8.C06
