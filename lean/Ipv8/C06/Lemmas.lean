/-
  C06 — helper lemmas (core Lean only; nothing here is an obligation by itself).
  Part 1: simp set for the translated Python vocabulary, slices, unpack_from; the generated classifier equals the fixed Spec.
  Part 2: what sendto / flush / sockStep / step can output and which socket fields they can change.
-/
import Ipv8.C06.Model

namespace Ipv8.C06
open Ipv8 Py

section simpset
variable {α β : Type}
@[simp] theorem vIf_some (c : Bool) (t e : V α) : vIf (some c) t e = if c then t else e := by cases c <;> rfl
@[simp] theorem vAnd_some_some (a b : Bool) : vAnd (some a) (some b) = some (a && b) := by cases a <;> rfl
theorem vAnd_some (a : Bool) (b : V Bool) : vAnd (some a) b = if a then b else some false := by cases a <;> rfl
@[simp] theorem vOr_some_some (a b : Bool) : vOr (some a) (some b) = some (a || b) := by cases a <;> rfl
theorem vOr_some (a : Bool) (b : V Bool) : vOr (some a) b = if a then some true else b := by cases a <;> rfl
@[simp] theorem vNot_some (a : Bool) : vNot (some a) = some (!a) := rfl
@[simp] theorem vLe_some (a b : Nat) : vLe (some a) (some b) = some (decide (a ≤ b)) := rfl
@[simp] theorem vLt_some (a b : Nat) : vLt (some a) (some b) = some (decide (a < b)) := rfl
@[simp] theorem vGe_some (a b : Nat) : vGe (some a) (some b) = some (decide (a ≥ b)) := rfl
@[simp] theorem vGt_some (a b : Nat) : vGt (some a) (some b) = some (decide (a > b)) := rfl
@[simp] theorem vEqN_some (a b : Nat) : vEqN (some a) (some b) = some (a == b) := rfl
@[simp] theorem vNeN_some (a b : Nat) : vNeN (some a) (some b) = some (a != b) := rfl
@[simp] theorem vEqB_some (a b : Bytes) : vEqB (some a) (some b) = some (a == b) := rfl
@[simp] theorem vNeB_some (a b : Bytes) : vNeB (some a) (some b) = some (a != b) := rfl
@[simp] theorem vInB_some (a : Bytes) (l : List Bytes) : vInB (some a) l = some (l.contains a) := rfl
@[simp] theorem vInN_some (a : Nat) (l : List Nat) : vInN (some a) l = some (l.contains a) := rfl
@[simp] theorem vLen_some (d : Bytes) : vLen (some d) = some d.length := rfl
@[simp] theorem vSlice_some (d : Bytes) (lo hi : Option Int) : vSlice (some d) lo hi = some (pySlice d lo hi) := rfl
@[simp] theorem vShr_some (a b : Nat) : vShr (some a) (some b) = some (a >>> b) := rfl
@[simp] theorem vShl_some (a b : Nat) : vShl (some a) (some b) = some (a <<< b) := rfl
@[simp] theorem vBand_some (a b : Nat) : vBand (some a) (some b) = some (a &&& b) := rfl
@[simp] theorem vBor_some (a b : Nat) : vBor (some a) (some b) = some (a ||| b) := rfl
@[simp] theorem vAdd_some (a b : Nat) : vAdd (some a) (some b) = some (a + b) := rfl
@[simp] theorem vLet1_some (a : α) (k : α → V β) : vLet1 (some a) k = k a := rfl
@[simp] theorem vLet2_some (a b : Nat) (k : Nat → Nat → V α) : vLet2 (some [a, b]) k = k a b := rfl
@[simp] theorem vIdx_some (l : List Nat) (i : Nat) : vIdx (some l) i = l[i]? := rfl
end simpset

/-- every `v… (some _)` reduction: the proofs below use the whole set so that they do not depend on which
    connectives a (re-written but equivalent) source happens to use -/
macro "py_simp" : tactic => `(tactic| simp only [vIf_some, vAnd_some_some, vOr_some_some, vNot_some, vLe_some, vLt_some, vGe_some,
  vGt_some, vEqN_some, vNeN_some, vEqB_some, vNeB_some, vInB_some, vInN_some, vLen_some, vSlice_some, vShr_some, vShl_some,
  vBand_some, vBor_some, vAdd_some, vLet1_some, vLet2_some, vIdx_some])


set_option maxRecDepth 8000 in
theorem nibble : ∀ n : Fin 256,
    (decide (n.val >>> 4 ≤ 4) && (n.val &&& 15 == 1)) = (decide (n.val / 16 ≤ 4) && decide (n.val % 16 = 1)) := by
  decide

theorem nibble' (a : UInt8) :
    (decide (a.toNat >>> 4 ≤ 4) && (a.toNat &&& 15 == 1)) = (decide (a.toNat / 16 ≤ 4) && decide (a.toNat % 16 = 1)) :=
  nibble ⟨a.toNat, a.toNat_lt⟩

theorem utp_spec (d : Bytes) : Gen.could_be_utp d = some (Spec.isUtp d) := by
  unfold Gen.could_be_utp Spec.isUtp
  match d with
  | [] => simp
  | [a] => simp
  | a :: b :: rest =>
    have hu : vUnpack [1, 1] (some (a :: b :: rest)) 0 = some [a.toNat, b.toNat] := by
      simp [vUnpack, unpackFields, beNat]
    simp only [hu, vLen_some, vLt_some, vIf_some, vLet2_some, vShr_some, vLe_some, vBand_some, vEqN_some,
      vAnd_some_some, vNot_some]
    have hn := nibble' a
    by_cases h : (a :: b :: rest).length < 20
    · have h2 : ¬ 18 ≤ rest.length := by simp at h; omega
      simp at h
      simp [h, h2]
    · have h' : 20 ≤ (a :: b :: rest).length := by omega
      simp only [h, h', decide_true, decide_false, Bool.true_and, Nat.zero_le]
      rw [hn]
      cases (decide (a.toNat / 16 ≤ 4)) <;> cases (decide (a.toNat % 16 = 1)) <;> simp

theorem u8_eq_zero (a : UInt8) : (a == 0) = decide (a.toNat = 0) := by
  rw [Bool.eq_iff_iff]; simp [← UInt8.toNat_inj]

theorem action_lemma (d : Bytes) (off : Nat) (h : off + 4 ≤ d.length) :
    vAnd (vLe (some 0) (vIdx (vUnpack [4] (some d) off) 0)) (vLe (vIdx (vUnpack [4] (some d) off) 0) (some 3))
      = some (Spec.actionAt d off) := by
  have hlen : 4 ≤ (d.drop off).length := by simp; omega
  unfold Spec.actionAt
  simp only [vUnpack, show off ≤ d.length by omega, if_true]
  match hr : d.drop off, hlen with
  | a :: b :: c :: e :: t, _ =>
    simp [unpackFields, beNat, u8_eq_zero]
    rw [Bool.eq_iff_iff]; simp only [Bool.and_eq_true, decide_eq_true_eq]
    omega

theorem tracker_spec (d : Bytes) : Gen.could_be_udp_tracker d = some (Spec.isTracker d) := by
  unfold Gen.could_be_udp_tracker Spec.isTracker
  simp only [vLen_some, vGe_some]
  by_cases h8 : 8 ≤ d.length
  · rw [action_lemma d 0 (by omega)]
    by_cases h12 : 12 ≤ d.length
    · rw [action_lemma d 8 (by omega)]; simp [h8, h12]
    · simp [h8, h12, vAnd_some, vOr_some]
      cases Spec.actionAt d 0 <;> rfl
  · have h12 : ¬ 12 ≤ d.length := by omega
    simp [h8, h12, vAnd_some, vOr_some]

theorem slice_0_1 (d : Bytes) : pySlice d (some 0) (some 1) = d.take 1 := by
  cases d <;> simp [pySlice, normIdx]

theorem slice_1_2 (d : Bytes) : pySlice d (some 1) (some 2) = (d.drop 1).take 1 := by
  match d with
  | [] => simp [pySlice, normIdx]
  | [a] => simp [pySlice, normIdx]
  | a :: b :: t => simp [pySlice, normIdx]

theorem slice_to (d : Bytes) (n : Nat) : pySlice d none (some (n : Int)) = d.take n := by
  have h : ¬ ((n : Int) < 0) := by omega
  simp [pySlice, normIdx, h]

theorem slice_last (d : Bytes) : pySlice d (some (-1)) none = d.drop (d.length - 1) := by
  simp only [pySlice, normIdx]
  have e : ((d.length : Int) + -1).toNat = d.length - 1 := by omega
  simp only [show ((-1 : Int) < 0) by omega, if_true, Int.ofNat_eq_natCast, e]
  apply List.take_of_length_le; simp

theorem take1_eq (d : Bytes) (x : UInt8) : (d.take 1 == [x]) = (d.head? == some x) := by
  cases d <;> simp

theorem last_eq (d : Bytes) (x : UInt8) : (d.drop (d.length - 1) == [x]) = (d.getLast? == some x) := by
  by_cases h : d = []
  · subst h; simp
  · obtain ⟨l, y, rfl⟩ : ∃ l y, d = l ++ [y] := ⟨d.dropLast, d.getLast h, (List.dropLast_concat_getLast h).symm⟩
    simp

theorem dht_spec (d : Bytes) : Gen.could_be_dht d = some (Spec.isDht d) := by
  unfold Gen.could_be_dht Spec.isDht
  py_simp
  simp only [slice_0_1, slice_last, take1_eq, last_eq]
  have h2 : (decide (d.length > 1)) = decide (2 ≤ d.length) := by simp; omega
  have h2' : (decide (1 < d.length)) = decide (2 ≤ d.length) := by simp; omega
  have h2'' : (decide (d.length ≥ 2)) = decide (2 ≤ d.length) := rfl
  simp only [h2, h2', h2'']
  cases decide (2 ≤ d.length) <;> cases (d.head? == some 100) <;> cases (d.getLast? == some 101) <;> simp

theorem bt_spec (d : Bytes) : Gen.could_be_bt d = some (Spec.isBT d) := by
  unfold Gen.could_be_bt Spec.isBT
  rw [utp_spec, tracker_spec, dht_spec]; simp [Bool.or_assoc]

theorem ipv8_spec (d : Bytes) : Gen.could_be_ipv8 d = some (Spec.isIPv8 d) := by
  unfold Gen.could_be_ipv8 Spec.isIPv8
  simp only [vLen_some, vGe_some, vSlice_some, vEqB_some, vInB_some, vAnd_some_some, slice_0_1, slice_1_2]
  match d with
  | [] => simp
  | [a] => simp
  | a :: b :: t => simp [Bool.and_assoc]; rfl

theorem allowed_spec (fl : List Nat) (pfx d : Bytes) :
    Gen.is_allowed fl pfx d
      = some (Spec.allowed (fl.contains Gen.PEER_FLAG_EXIT_BT) (fl.contains Gen.PEER_FLAG_EXIT_IPV8) pfx d) := by
  unfold Gen.is_allowed Spec.allowed
  rw [bt_spec, ipv8_spec]
  py_simp
  have h22 : pySlice d none (some (22 : Int)) = d.take 22 := slice_to d 22
  simp only [h22]
  -- whatever boolean combination of the five facts the source uses: decide it in all 32 cases
  by_cases hp : d.take 22 = pfx
  · cases Spec.isBT d <;> cases Spec.isIPv8 d <;> cases (fl.contains Gen.PEER_FLAG_EXIT_BT) <;>
      cases (fl.contains Gen.PEER_FLAG_EXIT_IPV8) <;> simp [hp]
  · have hp' : ¬ pfx = d.take 22 := fun h => hp h.symm
    cases Spec.isBT d <;> cases Spec.isIPv8 d <;> cases (fl.contains Gen.PEER_FLAG_EXIT_BT) <;>
      cases (fl.contains Gen.PEER_FLAG_EXIT_IPV8) <;> simp [hp, hp']

/-! ## Part 2: the state machine -/

/-- the socket fields an output-producing helper never touches -/
def SameCore (s s' : Sock) : Prop :=
  s'.cid = s.cid ∧ s'.hopIp = s.hopIp ∧ s'.hopPort = s.hopPort ∧ s'.enabled = s.enabled ∧ s'.t4 = s.t4 ∧ s'.t6 = s.t6

theorem SameCore.refl (s : Sock) : SameCore s s := ⟨rfl, rfl, rfl, rfl, rfl, rfl⟩
theorem SameCore.trans {a b c : Sock} (h1 : SameCore a b) (h2 : SameCore b c) : SameCore a c := by
  obtain ⟨a1, a2, a3, a4, a5, a6⟩ := h1
  obtain ⟨b1, b2, b3, b4, b5, b6⟩ := h2
  exact ⟨b1.trans a1, b2.trans a2, b3.trans a3, b4.trans a4, b5.trans a5, b6.trans a6⟩
theorem SameCore.symm {a b : Sock} (h : SameCore a b) : SameCore b a := by
  obtain ⟨a1, a2, a3, a4, a5, a6⟩ := h
  exact ⟨a1.symm, a2.symm, a3.symm, a4.symm, a5.symm, a6.symm⟩

/-- same identity and same transports (`enabled` may differ) -/
def SameNet (s s' : Sock) : Prop :=
  s'.cid = s.cid ∧ s'.hopIp = s.hopIp ∧ s'.hopPort = s.hopPort ∧ s'.t4 = s.t4 ∧ s'.t6 = s.t6

theorem SameCore.net {a b : Sock} (h : SameCore a b) : SameNet a b := ⟨h.1, h.2.1, h.2.2.1, h.2.2.2.2.1, h.2.2.2.2.2⟩
theorem SameNet.refl (s : Sock) : SameNet s s := ⟨rfl, rfl, rfl, rfl, rfl⟩
theorem SameNet.trans {a b c : Sock} (h1 : SameNet a b) (h2 : SameNet b c) : SameNet a c := by
  obtain ⟨a1, a2, a3, a4, a5⟩ := h1
  obtain ⟨b1, b2, b3, b4, b5⟩ := h2
  exact ⟨b1.trans a1, b2.trans a2, b3.trans a3, b4.trans a4, b5.trans a5⟩
theorem SameNet.symm {a b : Sock} (h : SameNet a b) : SameNet b a := by
  obtain ⟨a1, a2, a3, a4, a5⟩ := h
  exact ⟨a1.symm, a2.symm, a3.symm, a4.symm, a5.symm⟩

/-- an output of `sendto`: a resolution started for a packet that passed the gate, or an emission that passed the gate and the null check through an
    open transport -/
def SendOut (fl : List Nat) (pfx : Bytes) (s : Sock) (o : Out) : Prop :=
  (∃ h p data, o = .resolve s.cid h p data ∧ gate fl pfx data = true) ∨
  (∃ v data dest, o = .emit s.cid v data dest ∧ gate fl pfx data = true ∧ dest.isNull = false ∧
      (s.t4 = true ∨ s.t6 = true))

/-- what one event may make an exit socket output -/
def SockOut (fl : List Nat) (pfx : Bytes) (s : Sock) (o : Out) : Prop :=
  SendOut fl pfx s o ∨ ∃ payload src, o = .tunnel s.cid s.hopIp s.hopPort payload src ∧ gate fl pfx payload = true

theorem SendOut.of_net {fl : List Nat} {pfx : Bytes} {s s' : Sock} {o : Out} (hc : SameNet s s')
    (h : SendOut fl pfx s o) : SendOut fl pfx s' o := by
  obtain ⟨c1, _, _, c5, c6⟩ := hc
  rcases h with ⟨h, p, dta, rfl, hg⟩ | ⟨v, data, dest, rfl, hg, hn, ht⟩
  · exact Or.inl ⟨h, p, dta, by rw [c1], hg⟩
  · exact Or.inr ⟨v, data, dest, by rw [c1], hg, hn, by rw [c5, c6]; exact ht⟩

theorem SendOut.of_core {fl : List Nat} {pfx : Bytes} {s s' : Sock} {o : Out} (hc : SameCore s s')
    (h : SendOut fl pfx s o) : SendOut fl pfx s' o := h.of_net hc.net

theorem SockOut.of_net {fl : List Nat} {pfx : Bytes} {s s' : Sock} {o : Out} (hc : SameNet s s')
    (h : SockOut fl pfx s o) : SockOut fl pfx s' o := by
  rcases h with h | ⟨payload, src, rfl, hg⟩
  · exact Or.inl (h.of_net hc)
  · obtain ⟨c1, c2, c3, _, _⟩ := hc
    exact Or.inr ⟨payload, src, by rw [c1, c2, c3], hg⟩

theorem pushBounded_len (q : List (Bytes × Dest)) (x : Bytes × Dest) : (pushBounded q x).length ≤ Gen.QUEUE_MAXLEN := by
  simp [pushBounded]; omega

/-! ### level 1: ANY socket-level program that passes `safeSock` (sendto, datagram_received) -/

/-- syntactic safety of a socket-level program.  `al`/`nn`/`tr`: on the current path it is already known that the
    packet is allowed / the address is not null / the chosen transport exists.  A `transportSend` needs all three,
    a `tunnelData` needs `al`; a test of the corresponding atom establishes the fact in the branch where it holds. -/
def safeSock (al nn tr : Bool) : Prog → Bool
  | .done => true
  | .act a k => (a != .transportSend || (al && nn && tr)) && (a != .tunnelData || al) && (a != .startResolve || al)
      && (a != .queueAppend || al) && safeSock al nn tr k
  | .ite c t e =>
    safeSock (al || c == .allowed) nn (tr || c == .hasTransport) t && safeSock al (nn || c == .destIsNull) tr e

theorem actSock_core (e : Env) (s : Sock) (a : Act) : SameCore s (actSock e s a).1 := by
  cases a <;> exact ⟨rfl, rfl, rfl, rfl, rfl, rfl⟩

theorem actSock_queue (e : Env) (s : Sock) (a : Act) (h : s.queue.length ≤ Gen.QUEUE_MAXLEN) :
    (actSock e s a).1.queue.length ≤ Gen.QUEUE_MAXLEN := by
  cases a <;> first | exact h | exact pushBounded_len _ _

theorem interpSock_core (e : Env) : ∀ (p : Prog) (s : Sock), SameCore s (interpSock e p s).1
  | .done, s => SameCore.refl s
  | .act a k, s => by
    simp only [interpSock]
    exact (actSock_core e s a).trans (interpSock_core e k _)
  | .ite c t el, s => by
    simp only [interpSock]
    split
    · exact interpSock_core e t s
    · exact interpSock_core e el s

theorem interpSock_queue (e : Env) : ∀ (p : Prog) (s : Sock), s.queue.length ≤ Gen.QUEUE_MAXLEN →
    (interpSock e p s).1.queue.length ≤ Gen.QUEUE_MAXLEN
  | .done, _, h => h
  | .act a k, s, h => by
    simp only [interpSock]
    exact interpSock_queue e k _ (actSock_queue e s a h)
  | .ite c t el, s, h => by
    simp only [interpSock]
    split
    · exact interpSock_queue e t s h
    · exact interpSock_queue e el s h

/-- soundness of `safeSock`, for every program, socket state, packet and address -/
theorem interpSock_out (e : Env) : ∀ (p : Prog) (s : Sock) (al nn tr : Bool),
    (al = true → gate e.fl e.pfx e.data = true) → (nn = true → e.dest.isNull = false) →
    (tr = true → (s.t4 = true ∨ s.t6 = true)) → safeSock al nn tr p = true →
    ∀ o ∈ (interpSock e p s).2, SockOut e.fl e.pfx s o
  | .done, s, _, _, _, _, _, _, _ => by intro o h; simp [interpSock] at h
  | .act a k, s, al, nn, tr, hal, hnn, htr, hs => by
    intro o hmem
    simp only [safeSock, Bool.and_eq_true, Bool.or_eq_true] at hs
    obtain ⟨⟨⟨⟨h1, h2⟩, h4⟩, _⟩, h3⟩ := hs
    simp only [interpSock, List.mem_append] at hmem
    rcases hmem with hmem | hmem
    · cases a with
      | transportSend =>
        simp [actSock] at hmem
        have hh : (al = true ∧ nn = true) ∧ tr = true := by simpa using h1
        subst hmem
        exact Or.inl (Or.inr ⟨_, _, _, rfl, hal hh.1.1, hnn hh.1.2, htr hh.2⟩)
      | tunnelData =>
        simp [actSock] at hmem
        have hh : al = true := by simpa using h2
        subst hmem
        exact Or.inr ⟨_, _, rfl, hal hh⟩
      | startResolve =>
        simp [actSock] at hmem
        have hh : al = true := by simpa using h4
        subst hmem
        exact Or.inl (Or.inl ⟨_, _, _, rfl, hal hh⟩)
      | queueAppend => simp [actSock] at hmem
      | enable => simp [actSock] at hmem
      | sendto => simp [actSock] at hmem
      | exitData => simp [actSock] at hmem
      | deliverOwn => simp [actSock] at hmem
      | deliverOther => simp [actSock] at hmem
      | deliverRaw => simp [actSock] at hmem
    · have hc := actSock_core e s a
      have := interpSock_out e k (actSock e s a).1 al nn tr hal hnn
        (fun h => by rw [hc.2.2.2.2.1, hc.2.2.2.2.2]; exact htr h) h3 o hmem
      exact this.of_net hc.net.symm
  | .ite c t el, s, al, nn, tr, hal, hnn, htr, hs => by
    intro o hmem
    simp only [safeSock, Bool.and_eq_true] at hs
    simp only [interpSock] at hmem
    by_cases hc : condSock e s c = true
    · simp only [hc, if_true] at hmem
      refine interpSock_out e t s _ nn _ ?_ hnn ?_ hs.1 o hmem
      · intro h
        rcases (Bool.or_eq_true _ _).mp h with h | h
        · exact hal h
        · have : c = .allowed := by simpa using h
          subst this; simpa [condSock] using hc
      · intro h
        rcases (Bool.or_eq_true _ _).mp h with h | h
        · exact htr h
        · have : c = .hasTransport := by simpa using h
          subst this
          simp only [condSock] at hc
          by_cases h6 : e.dest.kind = .v6
          · simp [h6] at hc; exact Or.inr hc
          · simp [h6] at hc; exact Or.inl hc
    · simp only [hc] at hmem
      refine interpSock_out e el s al _ tr hal ?_ htr hs.2 o hmem
      intro h
      rcases (Bool.or_eq_true _ _).mp h with h | h
      · exact hnn h
      · have : c = .destIsNull := by simpa using h
        subst this
        simpa [condSock] using hc

/-- the generated programs pass the check (re-decided against the source on every run) -/
theorem sendto_prog_safe' : safeSock false false false Gen.sendto_prog = true := by decide
theorem datagram_received_prog_safe' : safeSock false false false Gen.datagram_received_prog = true := by decide

theorem sendto_core (fl : List Nat) (pfx : Bytes) (s : Sock) (data : Bytes) (dest : Dest) :
    SameCore s (sendto fl pfx s data dest).1 := interpSock_core _ _ _

theorem sendto_out (fl : List Nat) (pfx : Bytes) (s : Sock) (data : Bytes) (dest : Dest) :
    ∀ o ∈ (sendto fl pfx s data dest).2, SockOut fl pfx s o :=
  interpSock_out ⟨fl, pfx, data, dest⟩ Gen.sendto_prog s false false false (by simp) (by simp) (by simp) sendto_prog_safe'

theorem recv_core (fl : List Nat) (pfx : Bytes) (s : Sock) (data : Bytes) (src : Dest) :
    SameCore s (recvOutside fl pfx s data src).1 := interpSock_core _ _ _

theorem recv_out (fl : List Nat) (pfx : Bytes) (s : Sock) (data : Bytes) (src : Dest) :
    ∀ o ∈ (recvOutside fl pfx s data src).2, SockOut fl pfx s o :=
  interpSock_out ⟨fl, pfx, data, src⟩ Gen.datagram_received_prog s false false false (by simp) (by simp) (by simp)
    datagram_received_prog_safe'

theorem recv_queue (fl : List Nat) (pfx : Bytes) (s : Sock) (data : Bytes) (src : Dest)
    (h : s.queue.length ≤ Gen.QUEUE_MAXLEN) : (recvOutside fl pfx s data src).1.queue.length ≤ Gen.QUEUE_MAXLEN :=
  interpSock_queue _ _ _ h

theorem sendto_queue (fl : List Nat) (pfx : Bytes) (s : Sock) (data : Bytes) (dest : Dest)
    (h : s.queue.length ≤ Gen.QUEUE_MAXLEN) : (sendto fl pfx s data dest).1.queue.length ≤ Gen.QUEUE_MAXLEN :=
  interpSock_queue _ _ _ h


/-! ### the flush loop and the other socket events -/

theorem flush_core (fl : List Nat) (pfx : Bytes) : ∀ (q : List (Bytes × Dest)) (s : Sock),
    SameCore s (flush fl pfx s q).1
  | [], s => SameCore.refl s
  | (d, dst) :: rest, s => by
    simp only [flush]
    exact (sendto_core fl pfx s d dst).trans (flush_core fl pfx rest _)

theorem flush_out (fl : List Nat) (pfx : Bytes) : ∀ (q : List (Bytes × Dest)) (s : Sock),
    ∀ o ∈ (flush fl pfx s q).2, SockOut fl pfx s o
  | [], s => by simp [flush]
  | (d, dst) :: rest, s => by
    intro o hmem
    simp only [flush, List.mem_append] at hmem
    rcases hmem with h | h
    · exact sendto_out fl pfx s d dst o h
    · exact (flush_out fl pfx rest _ o h).of_net (sendto_core fl pfx s d dst).net.symm

theorem flush_queue (fl : List Nat) (pfx : Bytes) : ∀ (q : List (Bytes × Dest)) (s : Sock),
    s.queue.length ≤ Gen.QUEUE_MAXLEN → (flush fl pfx s q).1.queue.length ≤ Gen.QUEUE_MAXLEN
  | [], s, h => h
  | (d, dst) :: rest, s, h => by
    simp only [flush]
    exact flush_queue fl pfx rest _ (sendto_queue fl pfx s d dst h)

theorem sockStep_out (fl : List Nat) (pfx : Bytes) (s : Sock) (ev : Ev) :
    ∀ o ∈ (sockStep fl pfx s ev).2, SockOut fl pfx (sockStep fl pfx s ev).1 o := by
  intro o hmem
  cases ev with
  | setFlags f => simp [sockStep] at hmem
  | data ip sp c d p => simp [sockStep] at hmem
  | open4 c =>
    simp only [sockStep] at hmem
    split at hmem <;> simp at hmem
  | open6 c =>
    simp only [sockStep] at hmem ⊢
    split at hmem
    · rename_i h1
      simp only [h1, if_true]
      exact (flush_out _ _ _ _ o hmem).of_net (flush_core _ _ _ _).net
    · simp at hmem
  | resolved c idx infos =>
    simp only [sockStep] at hmem ⊢
    split at hmem
    · simp at hmem
    · split at hmem
      · simp at hmem
      · exact (sendto_out _ _ _ _ _ o hmem).of_net (sendto_core _ _ _ _ _).net
  | outside c v6 host port payload =>
    simp only [sockStep] at hmem ⊢
    split at hmem
    · simp at hmem
    · rename_i h1
      simp only [h1]
      exact (recv_out _ _ _ _ _ o hmem).of_net (recv_core _ _ _ _ _).net
  | join ip sp c => simp [sockStep] at hmem

/-! ### which socket opened, and why -/

/-- the history `P` contains a DATA cell for this socket's circuit, with a non-null destination, that came from the
    IP address of the socket's previous hop -/
def Opened (P : List Ev) (s : Sock) : Prop :=
  ∃ sp d p, Ev.data s.hopIp sp s.cid d p ∈ P ∧ d.isNull = false

def sockInv (P : List Ev) (s : Sock) : Prop :=
  (s.t6 = true → s.t4 = true) ∧ (s.t4 = true → s.enabled = true) ∧ (s.enabled = true → Opened P s)

theorem Opened.mono {P : List Ev} {s : Sock} (e : Ev) (h : Opened P s) : Opened (e :: P) s := by
  obtain ⟨sp, d, p, hm, hn⟩ := h
  exact ⟨sp, d, p, List.mem_cons_of_mem _ hm, hn⟩

theorem Opened.of_net {P : List Ev} {s s' : Sock} (hc : SameNet s s') (h : Opened P s) : Opened P s' := by
  obtain ⟨c1, c2, _, _, _⟩ := hc
  obtain ⟨sp, d, p, hm, hn⟩ := h
  exact ⟨sp, d, p, by rw [c1, c2]; exact hm, hn⟩

theorem sockInv.mono {P : List Ev} {s : Sock} (e : Ev) (h : sockInv P s) : sockInv (e :: P) s :=
  ⟨h.1, h.2.1, fun he => (h.2.2 he).mono e⟩

theorem sockInv.of_core {P : List Ev} {s s' : Sock} (hc : SameCore s s') (h : sockInv P s) : sockInv P s' := by
  have hn := hc.net
  obtain ⟨_, _, _, c4, c5, c6⟩ := hc
  refine ⟨?_, ?_, ?_⟩
  · rw [c5, c6]; exact h.1
  · rw [c4, c5]; exact h.2.1
  · rw [c4]; exact fun he => (h.2.2 he).of_net hn

theorem sockStep_inv (fl : List Nat) (pfx : Bytes) (P : List Ev) (s : Sock) (ev : Ev) (hinv : sockInv P s) :
    sockInv (ev :: P) (sockStep fl pfx s ev).1 := by
  cases ev with
  | setFlags f => exact hinv.mono _
  | data ip sp c d p => exact hinv.mono _
  | open4 c =>
    simp only [sockStep]
    split
    · rename_i h
      have h' : s.enabled = true ∧ s.t4 = false := by simpa using h
      refine ⟨fun _ => rfl, fun _ => h'.1, fun he => (hinv.2.2 he).mono _⟩
    · exact hinv.mono _
  | open6 c =>
    simp only [sockStep]
    split
    · rename_i h
      have h' : s.t4 = true ∧ s.t6 = false := by simpa using h
      refine sockInv.of_core (flush_core _ _ _ _) ⟨fun _ => h'.1, hinv.2.1, fun he => (hinv.2.2 he).mono _⟩
    · exact hinv.mono _
  | resolved c idx infos =>
    simp only [sockStep]
    split
    · exact hinv.mono _
    · split
      · exact ⟨hinv.1, hinv.2.1, fun he => (hinv.2.2 he).mono _⟩
      · exact sockInv.of_core (sendto_core _ _ _ _ _) ⟨hinv.1, hinv.2.1, fun he => (hinv.2.2 he).mono _⟩
  | outside c v6 host port payload =>
    simp only [sockStep]
    split
    · exact hinv.mono _
    · exact (hinv.mono _).of_core (recv_core _ _ _ _ _)
  | join ip sp c => exact hinv.mono _

theorem sockStep_ids (fl : List Nat) (pfx : Bytes) (s : Sock) (ev : Ev) :
    (sockStep fl pfx s ev).1.cid = s.cid ∧ (sockStep fl pfx s ev).1.hopIp = s.hopIp := by
  cases ev with
  | setFlags f => exact ⟨rfl, rfl⟩
  | data ip sp c d p => exact ⟨rfl, rfl⟩
  | open4 c => simp only [sockStep]; split <;> exact ⟨rfl, rfl⟩
  | open6 c =>
    simp only [sockStep]
    split
    · exact ⟨(flush_core _ _ _ _).1, (flush_core _ _ _ _).2.1⟩
    · exact ⟨rfl, rfl⟩
  | resolved c idx infos =>
    simp only [sockStep]
    split
    · exact ⟨rfl, rfl⟩
    · split
      · exact ⟨rfl, rfl⟩
      · exact ⟨(sendto_core _ _ _ _ _).1, (sendto_core _ _ _ _ _).2.1⟩
  | outside c v6 host port payload =>
    simp only [sockStep]
    split
    · exact ⟨rfl, rfl⟩
    · exact ⟨(recv_core _ _ _ _ _).1, (recv_core _ _ _ _ _).2.1⟩
  | join ip sp c => exact ⟨rfl, rfl⟩

theorem sockStep_queue (fl : List Nat) (pfx : Bytes) (s : Sock) (ev : Ev) (h : s.queue.length ≤ Gen.QUEUE_MAXLEN) :
    (sockStep fl pfx s ev).1.queue.length ≤ Gen.QUEUE_MAXLEN := by
  cases ev with
  | setFlags f => exact h
  | data ip sp c d p => exact h
  | open4 c => simp only [sockStep]; split <;> exact h
  | open6 c =>
    simp only [sockStep]
    split
    · exact flush_queue _ _ _ _ (by simp)
    · exact h
  | resolved c idx infos =>
    simp only [sockStep]
    split
    · exact h
    · split
      · exact h
      · exact sendto_queue _ _ _ _ _ h
  | outside c v6 host port payload =>
    simp only [sockStep]
    split
    · exact h
    · exact recv_queue _ _ _ _ _ h
  | join ip sp c => exact h

theorem mem_setSock {l : List Sock} {r x : Sock} (h : x ∈ setSock l r) : x ∈ l ∨ x = r := by
  induction l with
  | nil => simp [setSock] at h
  | cons a t ih =>
    simp only [setSock] at h
    split at h
    · rcases List.mem_cons.mp h with h | h
      · exact Or.inr h
      · exact Or.inl (List.mem_cons_of_mem _ h)
    · rcases List.mem_cons.mp h with h | h
      · exact Or.inl (h ▸ List.mem_cons_self)
      · rcases ih h with h | h
        · exact Or.inl (List.mem_cons_of_mem _ h)
        · exact Or.inr h

theorem mem_setSock_self {l : List Sock} {r : Sock} (h : ∃ x ∈ l, x.cid = r.cid) : r ∈ setSock l r := by
  induction l with
  | nil => simp at h
  | cons a t ih =>
    simp only [setSock]
    split
    · exact List.mem_cons_self
    · rename_i hne
      obtain ⟨x, hx, hc⟩ := h
      rcases List.mem_cons.mp hx with hx | hx
      · subst hx; simp [hc] at hne
      · exact List.mem_cons_of_mem _ (ih ⟨x, hx, hc⟩)

theorem find_cid {l : List Sock} {cid : Nat} {s : Sock} (h : l.find? (fun s => s.cid == cid) = some s) :
    s ∈ l ∧ s.cid = cid := by
  refine ⟨List.mem_of_find?_eq_some h, ?_⟩
  have := List.find?_some h
  simpa using this

/-- `base`: the (circuit id, previous hop IP) pairs of the exit sockets; `P`: the events so far -/
def Inv (base : List (Nat × Bytes)) (P : List Ev) (st : St) : Prop :=
  ∀ s ∈ st.socks, (s.cid, s.hopIp) ∈ base ∧ sockInv P s

theorem Inv.mono {base : List (Nat × Bytes)} {P : List Ev} {st : St} (e : Ev) (h : Inv base P st) : Inv base (e :: P) st :=
  fun s hs => ⟨(h s hs).1, (h s hs).2.mono e⟩

/-- a local hand-over (to a cell handler, another overlay's listeners, on_raw_data) or a re-entry marker -/
def IsLocal (o : Out) : Prop := (∃ c k, o = .loc c k) ∨ ∃ c, o = .reenter c

/-- an output that is a local delivery or satisfies the socket-level output predicate for some socket -/
def WeakOut (fl : List Nat) (pfx : Bytes) (o : Out) : Prop :=
  IsLocal o ∨ ∃ s', SockOut fl pfx s' o

/-- … for a socket that belongs to `base` and satisfies the opening invariant over the history `Q` -/
def StrongOut (base : List (Nat × Bytes)) (Q : List Ev) (fl : List Nat) (pfx : Bytes) (o : Out) : Prop :=
  IsLocal o ∨ ∃ s', (s'.cid, s'.hopIp) ∈ base ∧ sockInv Q s' ∧ SockOut fl pfx s' o

theorem viaSock_flags (st : St) (cid : Nat) (ev : Ev) :
    (viaSock st cid ev).1.flags = st.flags ∧ (viaSock st cid ev).1.pfx = st.pfx := by
  unfold viaSock; split <;> exact ⟨rfl, rfl⟩

theorem viaSock_weak (st : St) (cid : Nat) (ev : Ev) : ∀ o ∈ (viaSock st cid ev).2, WeakOut st.flags st.pfx o := by
  intro o hmem
  unfold viaSock at hmem
  split at hmem
  · simp at hmem
  · exact Or.inr ⟨_, sockStep_out _ _ _ _ o hmem⟩

theorem viaSock_inv (base : List (Nat × Bytes)) (P : List Ev) (st : St) (cid : Nat) (ev : Ev) (hinv : Inv base P st) :
    Inv base (ev :: P) (viaSock st cid ev).1 ∧ ∀ o ∈ (viaSock st cid ev).2, StrongOut base (ev :: P) st.flags st.pfx o := by
  unfold viaSock
  split
  · exact ⟨hinv.mono _, by simp⟩
  · rename_i s hf
    obtain ⟨hs, hc⟩ := find_cid hf
    obtain ⟨i1, i2⟩ := sockStep_ids st.flags st.pfx s ev
    have hnew : ((sockStep st.flags st.pfx s ev).1.cid, (sockStep st.flags st.pfx s ev).1.hopIp) ∈ base
        ∧ sockInv (ev :: P) (sockStep st.flags st.pfx s ev).1 :=
      ⟨by rw [i1, i2]; exact (hinv s hs).1, sockStep_inv _ _ _ _ _ (hinv s hs).2⟩
    refine ⟨?_, ?_⟩
    · intro x hx
      rcases mem_setSock hx with hx | hx
      · exact (hinv.mono _) x hx
      · subst hx; exact hnew
    · intro o hmem
      exact Or.inr ⟨_, hnew.1, hnew.2, sockStep_out _ _ _ _ o hmem⟩

theorem viaSock_queue (st : St) (cid : Nat) (ev : Ev) (h : ∀ s ∈ st.socks, s.queue.length ≤ Gen.QUEUE_MAXLEN) :
    ∀ s ∈ (viaSock st cid ev).1.socks, s.queue.length ≤ Gen.QUEUE_MAXLEN := by
  unfold viaSock
  split
  · exact h
  · rename_i s hf
    intro x hx
    rcases mem_setSock hx with hx | hx
    · exact h x hx
    · subst hx; exact sockStep_queue _ _ _ _ (h s (find_cid hf).1)

/-! ### level 2: ANY `exit_data` program that passes `safeExit` -/

/-- `hop`: on the current path it is known that the cell's source IP equals the socket's hop IP.  `en`: it is known that
    the socket is enabled.  An `enable` needs `hop`, a `sendto` needs `en`; the tests `srcIpIsHopIp` / `sockEnabled`
    establish the facts in their true-branches, an `enable` establishes `en` for what follows. -/
def safeExit (hop en : Bool) : Prog → Bool
  | .done => true
  | .act a k => (a != .enable || hop) && (a != .sendto || en) && safeExit hop (en || a == .enable) k
  | .ite c t e =>
    safeExit (hop || c == .srcIpIsHopIp) (en || c == .sockEnabled) t &&
    -- the else-branch of a test whose outcome is already known to be true on this path is dead code
    ((en && c == .sockEnabled) || (hop && c == .srcIpIsHopIp) || safeExit hop en e)

theorem interpExit_none (e : XEnv) : ∀ p : Prog, interpExit e p none = (none, [])
  | .done => rfl
  | .act _ _ => rfl
  | .ite c t el => by
    simp only [interpExit]
    split
    · exact interpExit_none e t
    · exact interpExit_none e el

/-- what running an exit_data program on a registered socket can do -/
structure ExitSpec (e : XEnv) (x x' : Sock) (outs : List Out) : Prop where
  net : SameNet x x'
  keep : x.enabled = true → x'.enabled = true
  why : x'.enabled = true → x.enabled = true ∨ (e.srcIp == x.hopIp) = true
  /-- a socket that is still closed afterwards has not been touched: nothing queued, no resolution started, no output -/
  idle : x'.enabled = false → x' = x ∧ outs = []
  queue : x.queue.length ≤ Gen.QUEUE_MAXLEN → x'.queue.length ≤ Gen.QUEUE_MAXLEN
  outs : ∀ o ∈ outs, SockOut e.fl e.pfx x' o

theorem actExit_spec (e : XEnv) (x : Sock) (a : Act) (hop en : Bool) (hh : hop = true → (e.srcIp == x.hopIp) = true)
    (he : en = true → x.enabled = true)
    (ha : (a != .enable || hop) = true) (hb : (a != .sendto || en) = true) :
    ExitSpec e x (actExit e x a).1 (actExit e x a).2 := by
  cases a with
  | enable =>
    have hop' : hop = true := by simpa using ha
    exact ⟨⟨rfl, rfl, rfl, rfl, rfl⟩, fun _ => rfl, fun _ => Or.inr (hh hop'), fun h => (by simp [actExit] at h),
      fun h => h, by simp [actExit]⟩
  | sendto =>
    have hc := sendto_core e.fl e.pfx x e.data e.dest
    have hen : x.enabled = true := he (by simpa using hb)
    have heq : (actExit e x .sendto).1.enabled = x.enabled := hc.2.2.2.1
    refine ⟨hc.net, fun h => (by rw [heq]; exact h), fun h => Or.inl (by rw [← heq]; exact h),
      fun h => (by rw [heq, hen] at h; cases h), fun h => sendto_queue _ _ _ _ _ h, ?_⟩
    intro o ho
    exact (sendto_out e.fl e.pfx x e.data e.dest o ho).of_net hc.net
  | queueAppend => exact ⟨SameNet.refl x, id, Or.inl, fun _ => ⟨rfl, rfl⟩, id, by simp [actExit]⟩
  | transportSend => exact ⟨SameNet.refl x, id, Or.inl, fun _ => ⟨rfl, rfl⟩, id, by simp [actExit]⟩
  | startResolve => exact ⟨SameNet.refl x, id, Or.inl, fun _ => ⟨rfl, rfl⟩, id, by simp [actExit]⟩
  | tunnelData => exact ⟨SameNet.refl x, id, Or.inl, fun _ => ⟨rfl, rfl⟩, id, by simp [actExit]⟩
  | exitData => exact ⟨SameNet.refl x, id, Or.inl, fun _ => ⟨rfl, rfl⟩, id, by simp [actExit]⟩
  | deliverOwn => exact ⟨SameNet.refl x, id, Or.inl, fun _ => ⟨rfl, rfl⟩, id, by simp [actExit]⟩
  | deliverOther => exact ⟨SameNet.refl x, id, Or.inl, fun _ => ⟨rfl, rfl⟩, id, by simp [actExit]⟩
  | deliverRaw => exact ⟨SameNet.refl x, id, Or.inl, fun _ => ⟨rfl, rfl⟩, id, by simp [actExit]⟩

/-- soundness of `safeExit`, for every program and socket -/
theorem interpExit_some (e : XEnv) : ∀ (p : Prog) (x : Sock) (hop en : Bool),
    (hop = true → (e.srcIp == x.hopIp) = true) → (en = true → x.enabled = true) → safeExit hop en p = true →
    ∃ x', (interpExit e p (some x)).1 = some x' ∧ ExitSpec e x x' (interpExit e p (some x)).2
  | .done, x, _, _, _, _, _ => ⟨x, rfl, SameNet.refl x, id, Or.inl, fun _ => ⟨rfl, rfl⟩, id, by simp [interpExit]⟩
  | .act a k, x, hop, en, hh, he, hs => by
    simp only [safeExit, Bool.and_eq_true] at hs
    have h1 := actExit_spec e x a hop en hh he hs.1.1 hs.1.2
    obtain ⟨x', hx', h2⟩ := interpExit_some e k (actExit e x a).1 hop (en || a == .enable)
      (fun h => by rw [h1.net.2.1]; exact hh h)
      (fun h => by
        rcases (Bool.or_eq_true _ _).mp h with h | h
        · exact h1.keep (he h)
        · have : a = .enable := by simpa using h
          subst this; rfl) hs.2
    refine ⟨x', by simp only [interpExit]; exact hx', ?_⟩
    refine ⟨h1.net.trans h2.net, fun h => h2.keep (h1.keep h), ?_, ?_, fun h => h2.queue (h1.queue h), ?_⟩
    · intro h
      rcases h2.why h with h | h
      · exact h1.why h
      · exact Or.inr (by rw [← h1.net.2.1]; exact h)
    · intro h
      obtain ⟨e2, o2⟩ := h2.idle h
      obtain ⟨e1, o1⟩ := h1.idle (by rw [← e2]; exact h)
      refine ⟨e2.trans e1, ?_⟩
      simp only [interpExit, o1, o2, List.append_nil]
    · intro o ho
      simp only [interpExit, List.mem_append] at ho
      rcases ho with ho | ho
      · exact (h1.outs o ho).of_net h2.net
      · exact h2.outs o ho
  | .ite c t el, x, hop, en, hh, he, hs => by
    simp only [safeExit, Bool.and_eq_true] at hs
    by_cases hc : condExit e (some x) c = true
    · have := interpExit_some e t x (hop || c == .srcIpIsHopIp) (en || c == .sockEnabled) (by
        intro h
        rcases (Bool.or_eq_true _ _).mp h with h | h
        · exact hh h
        · have : c = .srcIpIsHopIp := by simpa using h
          subst this; simpa [condExit] using hc) (by
        intro h
        rcases (Bool.or_eq_true _ _).mp h with h | h
        · exact he h
        · have : c = .sockEnabled := by simpa using h
          subst this; simpa [condExit] using hc) hs.1
      simpa only [interpExit, hc, if_true] using this
    · have hc' : condExit e (some x) c = false := by simpa using hc
      have hs2 : safeExit hop en el = true := by
        rcases (Bool.or_eq_true _ _).mp hs.2 with h | h
        · rcases (Bool.or_eq_true _ _).mp h with h | h
          · obtain ⟨h1, h2⟩ := (Bool.and_eq_true _ _).mp h
            have : c = .sockEnabled := by simpa using h2
            subst this
            have := he h1
            simp [condExit, this] at hc'
          · obtain ⟨h1, h2⟩ := (Bool.and_eq_true _ _).mp h
            have : c = .srcIpIsHopIp := by simpa using h2
            subst this
            have := hh h1
            simp [condExit, this] at hc'
        · exact h
      have := interpExit_some e el x hop en hh he hs2
      simpa only [interpExit, hc', Bool.false_eq_true, if_false] using this

theorem exit_data_prog_safe' : safeExit false false Gen.exit_data_prog = true := by decide

theorem exitData_flags (st : St) (srcIp : Bytes) (cid : Nat) (dest : Dest) (payload : Bytes) :
    (exitData st srcIp cid dest payload).1.flags = st.flags ∧ (exitData st srcIp cid dest payload).1.pfx = st.pfx ∧
    (exitData st srcIp cid dest payload).1.circs = st.circs ∧ (exitData st srcIp cid dest payload).1.tunnelEp = st.tunnelEp := by
  unfold exitData; simp only; split <;> exact ⟨rfl, rfl, rfl, rfl⟩

/-- everything the later proofs need about one `exit_data` call -/
theorem exitData_spec (st : St) (srcIp : Bytes) (cid : Nat) (dest : Dest) (payload : Bytes) :
    (∀ o ∈ (exitData st srcIp cid dest payload).2, WeakOut st.flags st.pfx o) ∧
    ((∀ s ∈ st.socks, s.queue.length ≤ Gen.QUEUE_MAXLEN) →
      ∀ s ∈ (exitData st srcIp cid dest payload).1.socks, s.queue.length ≤ Gen.QUEUE_MAXLEN) ∧
    (∀ base Q sp, Ev.data srcIp sp cid dest payload ∈ Q → dest.isNull = false → Inv base Q st →
      Inv base Q (exitData st srcIp cid dest payload).1 ∧
      ∀ o ∈ (exitData st srcIp cid dest payload).2, StrongOut base Q st.flags st.pfx o) := by
  unfold exitData
  cases hf : st.socks.find? (fun s => s.cid == cid) with
  | none =>
    simp only [interpExit_none]
    exact ⟨by simp, fun h => h, fun _ _ _ _ _ hinv => ⟨hinv, by simp⟩⟩
  | some x =>
    obtain ⟨hx, hc⟩ := find_cid hf
    obtain ⟨x', hx', sp⟩ := interpExit_some ⟨st.flags, st.pfx, srcIp, payload, dest⟩ Gen.exit_data_prog x false false
      (by simp) (by simp) exit_data_prog_safe'
    simp only [hx']
    refine ⟨fun o ho => Or.inr ⟨x', sp.outs o ho⟩, ?_, ?_⟩
    · intro h s hs
      rcases mem_setSock hs with hs | hs
      · exact h s hs
      · subst hs; exact sp.queue (h x hx)
    · intro base Q sp' hev hn hinv
      have hi := hinv x hx
      have hnew : (x'.cid, x'.hopIp) ∈ base ∧ sockInv Q x' := by
        refine ⟨by rw [sp.net.1, sp.net.2.1]; exact hi.1, ?_, ?_, ?_⟩
        · rw [sp.net.2.2.2.1, sp.net.2.2.2.2]; exact hi.2.1
        · rw [sp.net.2.2.2.1]; exact fun h => sp.keep (hi.2.2.1 h)
        · intro h
          rcases sp.why h with h | h
          · exact (hi.2.2.2 h).of_net sp.net
          · have hip : srcIp = x.hopIp := by simpa using h
            refine ⟨sp', dest, payload, ?_, hn⟩
            rw [sp.net.1, sp.net.2.1, hc, ← hip]; exact hev
      refine ⟨?_, fun o ho => Or.inr ⟨x', hnew.1, hnew.2, sp.outs o ho⟩⟩
      intro s hs
      rcases mem_setSock hs with hs | hs
      · exact hinv s hs
      · subst hs; exact hnew

/-- the socket table after an `exit_data` call: every enabled socket was enabled before, or is the socket of this
    circuit id and the cell's source IP is its hop IP; a socket that stays closed is untouched -/
theorem exitData_why (st : St) (srcIp : Bytes) (cid : Nat) (dest : Dest) (payload : Bytes) :
    ∀ s' ∈ (exitData st srcIp cid dest payload).1.socks,
      (s'.enabled = true → (∃ s ∈ st.socks, s.cid = s'.cid ∧ s.hopIp = s'.hopIp ∧ s.enabled = true)
        ∨ (srcIp = s'.hopIp ∧ cid = s'.cid)) ∧
      (s'.enabled = false → s' ∈ st.socks) := by
  unfold exitData
  cases hf : st.socks.find? (fun s => s.cid == cid) with
  | none =>
    simp only [interpExit_none]
    exact fun s' hs' => ⟨fun h => Or.inl ⟨s', hs', rfl, rfl, h⟩, fun _ => hs'⟩
  | some x =>
    obtain ⟨hx, hc⟩ := find_cid hf
    obtain ⟨x', hx', sp⟩ := interpExit_some ⟨st.flags, st.pfx, srcIp, payload, dest⟩ Gen.exit_data_prog x false false
      (by simp) (by simp) exit_data_prog_safe'
    simp only [hx']
    intro s' hs'
    rcases mem_setSock hs' with hs' | hs'
    · exact ⟨fun h => Or.inl ⟨s', hs', rfl, rfl, h⟩, fun _ => hs'⟩
    · subst hs'
      refine ⟨fun h => ?_, fun h => by rw [(sp.idle h).1]; exact hx⟩
      rcases sp.why h with h | h
      · exact Or.inl ⟨x, hx, sp.net.1.symm, sp.net.2.1.symm, h⟩
      · have hip : srcIp = x.hopIp := by simpa using h
        exact Or.inr ⟨by rw [sp.net.2.1]; exact hip, by rw [sp.net.1]; exact hc.symm⟩

/-- with `idle`: no output of an `exit_data` call unless the socket ends up enabled -/
theorem exitData_idle (st : St) (srcIp : Bytes) (cid : Nat) (dest : Dest) (payload : Bytes)
    (h : ∀ s' ∈ (exitData st srcIp cid dest payload).1.socks, s'.cid = cid → s'.enabled = false) :
    (exitData st srcIp cid dest payload).2 = [] := by
  unfold exitData at h ⊢
  cases hf : st.socks.find? (fun s => s.cid == cid) with
  | none => simp only [interpExit_none]
  | some x =>
    obtain ⟨hx, hc⟩ := find_cid hf
    obtain ⟨x', hx', sp⟩ := interpExit_some ⟨st.flags, st.pfx, srcIp, payload, dest⟩ Gen.exit_data_prog x false false
      (by simp) (by simp) exit_data_prog_safe'
    simp only [hf, hx'] at h ⊢
    have hmem : x' ∈ setSock st.socks x' := mem_setSock_self ⟨x, hx, sp.net.1.symm⟩
    exact (sp.idle (h x' hmem (by rw [sp.net.1]; exact hc))).2

/-! ### level 3: ANY `on_data` dispatch program that passes `safeOnData` -/

/-- facts known on the current path: `nn` the destination is not ("0.0.0.0", 0); `no` the cell is NOT taken as a cell of
    a circuit this node originated; `xm` the payload's message type is registered to arrive through an exit.
    `exitData` needs `nn` and `no`; `deliverOwn` (re-dispatch through on_packet_from_circuit, with the sender-chosen origin
    as source address) needs `xm`. -/
def safeOnData (nn no xm : Bool) : Prog → Bool
  | .done => true
  | .act a k => (a != .exitData || (nn && no)) && (a != .deliverOwn || xm) && safeOnData nn no xm k
  | .ite c t e =>
    safeOnData nn no (xm || c == .exitMessage) t && safeOnData (nn || c == .destIsNull) (no || c == .ownCircuit) xm e

theorem on_data_prog_safe' : safeOnData false false false Gen.on_data_prog = true := by decide

theorem actOnData_loc (e : DEnv) (st : St) (a : Act) (ha : a ≠ .exitData) :
    (actOnData e st a).1 = st ∧ ∀ o ∈ (actOnData e st a).2, IsLocal o := by
  cases a with
  | exitData => exact absurd rfl ha
  | deliverOwn =>
    simp only [actOnData]
    split
    · exact ⟨rfl, fun o ho => Or.inr ⟨_, by simpa using ho⟩⟩
    · exact ⟨rfl, fun o ho => Or.inl ⟨_, _, by simpa using ho⟩⟩
  | deliverOther => exact ⟨rfl, fun o ho => Or.inl ⟨_, _, by simpa [actOnData] using ho⟩⟩
  | deliverRaw => exact ⟨rfl, fun o ho => Or.inl ⟨_, _, by simpa [actOnData] using ho⟩⟩
  | queueAppend => exact ⟨rfl, by simp [actOnData]⟩
  | transportSend => exact ⟨rfl, by simp [actOnData]⟩
  | startResolve => exact ⟨rfl, by simp [actOnData]⟩
  | tunnelData => exact ⟨rfl, by simp [actOnData]⟩
  | enable => exact ⟨rfl, by simp [actOnData]⟩
  | sendto => exact ⟨rfl, by simp [actOnData]⟩

theorem actOnData_flags (e : DEnv) (st : St) (a : Act) :
    (actOnData e st a).1.flags = st.flags ∧ (actOnData e st a).1.pfx = st.pfx ∧ (actOnData e st a).1.circs = st.circs := by
  by_cases ha : a = .exitData
  · subst ha
    exact ⟨(exitData_flags _ _ _ _ _).1, (exitData_flags _ _ _ _ _).2.1, (exitData_flags _ _ _ _ _).2.2.1⟩
  · rw [(actOnData_loc e st a ha).1]; exact ⟨rfl, rfl, rfl⟩

theorem actOnData_weak (e : DEnv) (st : St) (a : Act) : ∀ o ∈ (actOnData e st a).2, WeakOut st.flags st.pfx o := by
  by_cases ha : a = .exitData
  · subst ha; exact (exitData_spec _ _ _ _ _).1
  · exact fun o ho => Or.inl ((actOnData_loc e st a ha).2 o ho)

theorem actOnData_queue (e : DEnv) (st : St) (a : Act) (h : ∀ s ∈ st.socks, s.queue.length ≤ Gen.QUEUE_MAXLEN) :
    ∀ s ∈ (actOnData e st a).1.socks, s.queue.length ≤ Gen.QUEUE_MAXLEN := by
  by_cases ha : a = .exitData
  · subst ha; exact (exitData_spec _ _ _ _ _).2.1 h
  · rw [(actOnData_loc e st a ha).1]; exact h

theorem actOnData_inv (e : DEnv) (base : List (Nat × Bytes)) (Q : List Ev) (sp : Nat)
    (hev : Ev.data e.srcIp sp e.cid e.dest e.payload ∈ Q) (st : St) (a : Act) (nn : Bool)
    (hnn : nn = true → e.dest.isNull = false) (ha : (a != .exitData || nn) = true) (hinv : Inv base Q st) :
    Inv base Q (actOnData e st a).1 ∧ ∀ o ∈ (actOnData e st a).2, StrongOut base Q st.flags st.pfx o := by
  by_cases hx : a = .exitData
  · subst hx
    have : nn = true := by simpa using ha
    exact (exitData_spec _ _ _ _ _).2.2 base Q sp hev (hnn this) hinv
  · rw [(actOnData_loc e st a hx).1]
    exact ⟨hinv, fun o ho => Or.inl ((actOnData_loc e st a hx).2 o ho)⟩

theorem interpOnData_flags (e : DEnv) : ∀ (p : Prog) (st : St),
    (interpOnData e p st).1.flags = st.flags ∧ (interpOnData e p st).1.pfx = st.pfx
  | .done, _ => ⟨rfl, rfl⟩
  | .act a k, st => by
    simp only [interpOnData]
    have h1 := actOnData_flags e st a
    have h2 := interpOnData_flags e k (actOnData e st a).1
    exact ⟨h2.1.trans h1.1, h2.2.trans h1.2.1⟩
  | .ite c t el, st => by
    simp only [interpOnData]
    split
    · exact interpOnData_flags e t st
    · exact interpOnData_flags e el st

theorem interpOnData_weak (e : DEnv) : ∀ (p : Prog) (st : St), ∀ o ∈ (interpOnData e p st).2, WeakOut st.flags st.pfx o
  | .done, _ => by simp [interpOnData]
  | .act a k, st => by
    intro o ho
    simp only [interpOnData, List.mem_append] at ho
    rcases ho with ho | ho
    · exact actOnData_weak e st a o ho
    · have := interpOnData_weak e k (actOnData e st a).1 o ho
      rwa [(actOnData_flags e st a).1, (actOnData_flags e st a).2.1] at this
  | .ite c t el, st => by
    simp only [interpOnData]
    split
    · exact interpOnData_weak e t st
    · exact interpOnData_weak e el st

theorem interpOnData_queue (e : DEnv) : ∀ (p : Prog) (st : St), (∀ s ∈ st.socks, s.queue.length ≤ Gen.QUEUE_MAXLEN) →
    ∀ s ∈ (interpOnData e p st).1.socks, s.queue.length ≤ Gen.QUEUE_MAXLEN
  | .done, _, h => h
  | .act a k, st, h => by
    simp only [interpOnData]
    exact interpOnData_queue e k _ (actOnData_queue e st a h)
  | .ite c t el, st, h => by
    simp only [interpOnData]
    split
    · exact interpOnData_queue e t st h
    · exact interpOnData_queue e el st h

/-- soundness of `safeOnData` for the opening invariant -/
theorem interpOnData_inv (e : DEnv) (base : List (Nat × Bytes)) (Q : List Ev) (sp : Nat)
    (hev : Ev.data e.srcIp sp e.cid e.dest e.payload ∈ Q) : ∀ (p : Prog) (st : St) (nn no nd : Bool),
    (nn = true → e.dest.isNull = false) → safeOnData nn no nd p = true → Inv base Q st →
    Inv base Q (interpOnData e p st).1 ∧ ∀ o ∈ (interpOnData e p st).2, StrongOut base Q st.flags st.pfx o
  | .done, st, _, _, _, _, _, hinv => ⟨hinv, by simp [interpOnData]⟩
  | .act a k, st, nn, no, nd, hnn, hs, hinv => by
    simp only [safeOnData, Bool.and_eq_true] at hs
    have ha : (a != .exitData || nn) = true := by
      have := hs.1.1
      rcases (Bool.or_eq_true _ _).mp this with h | h
      · simp [h]
      · have : nn = true := ((Bool.and_eq_true _ _).mp h).1
        simp [this]
    have h1 := actOnData_inv e base Q sp hev st a nn hnn ha hinv
    have h2 := interpOnData_inv e base Q sp hev k (actOnData e st a).1 nn no nd hnn hs.2 h1.1
    simp only [interpOnData]
    refine ⟨h2.1, ?_⟩
    intro o ho
    rcases List.mem_append.mp ho with ho | ho
    · exact h1.2 o ho
    · have := h2.2 o ho
      rwa [(actOnData_flags e st a).1, (actOnData_flags e st a).2.1] at this
  | .ite c t el, st, nn, no, nd, hnn, hs, hinv => by
    simp only [safeOnData, Bool.and_eq_true] at hs
    simp only [interpOnData]
    by_cases hc : condOnData e st c = true
    · simp only [hc, if_true]
      exact interpOnData_inv e base Q sp hev t st nn no _ hnn hs.1 hinv
    · have hc' : condOnData e st c = false := by simpa using hc
      simp only [hc', Bool.false_eq_true, if_false]
      refine interpOnData_inv e base Q sp hev el st _ _ _ ?_ hs.2 hinv
      intro h
      rcases (Bool.or_eq_true _ _).mp h with h | h
      · exact hnn h
      · have : c = .destIsNull := by simpa using h
        subst this
        simpa [condOnData] using hc'

/-- `ownCircuit` depends on the circuit table only -/
theorem condOwn_circs (e : DEnv) (st st' : St) (h : st'.circs = st.circs) :
    condOnData e st' .ownCircuit = condOnData e st .ownCircuit := by
  simp only [condOnData, h]

/-- soundness of `safeOnData` for "which event flipped `enabled`": after the dispatch of a DATA cell, an enabled socket was
    enabled before, or it is the socket named by the cell, the cell's source IP is its hop IP, the destination is not
    null and the cell was NOT taken as a cell of an own circuit -/
theorem interpOnData_why (e : DEnv) (st0 : St) : ∀ (p : Prog) (st : St) (nn no nd : Bool), st.circs = st0.circs →
    (nn = true → e.dest.isNull = false) → (no = true → condOnData e st0 .ownCircuit = false) →
    safeOnData nn no nd p = true →
    ∀ s' ∈ (interpOnData e p st).1.socks, s'.enabled = true →
      (∃ s ∈ st.socks, s.cid = s'.cid ∧ s.hopIp = s'.hopIp ∧ s.enabled = true) ∨
      (e.srcIp = s'.hopIp ∧ e.cid = s'.cid ∧ e.dest.isNull = false ∧ condOnData e st0 .ownCircuit = false)
  | .done, st, _, _, _, _, _, _, _ => fun s' hs' h => Or.inl ⟨s', hs', rfl, rfl, h⟩
  | .act a k, st, nn, no, nd, hc, hnn, hno, hs => by
    simp only [safeOnData, Bool.and_eq_true] at hs
    intro s' hs' hen
    simp only [interpOnData] at hs'
    have hc1 : (actOnData e st a).1.circs = st0.circs := (actOnData_flags e st a).2.2.trans hc
    rcases interpOnData_why e st0 k (actOnData e st a).1 nn no nd hc1 hnn hno hs.2 s' hs' hen with
      ⟨s1, hs1, i1, i2, en1⟩ | h
    · by_cases hx : a = .exitData
      · subst hx
        have hfacts : nn = true ∧ no = true := by simpa using hs.1.1
        rcases (exitData_why st e.srcIp e.cid e.dest e.payload s1 hs1).1 en1 with ⟨s, hs, j1, j2, en⟩ | ⟨j1, j2⟩
        · exact Or.inl ⟨s, hs, j1.trans i1, j2.trans i2, en⟩
        · exact Or.inr ⟨j1.trans i2, j2.trans i1, hnn hfacts.1, hno hfacts.2⟩
      · rw [(actOnData_loc e st a hx).1] at hs1
        exact Or.inl ⟨s1, hs1, i1, i2, en1⟩
    · exact Or.inr h
  | .ite c t el, st, nn, no, nd, hc, hnn, hno, hs => by
    simp only [safeOnData, Bool.and_eq_true] at hs
    simp only [interpOnData]
    by_cases hcc : condOnData e st c = true
    · simp only [hcc, if_true]
      exact interpOnData_why e st0 t st nn no _ hc hnn hno hs.1
    · have hc' : condOnData e st c = false := by simpa using hcc
      simp only [hc', Bool.false_eq_true, if_false]
      refine interpOnData_why e st0 el st _ _ _ hc ?_ ?_ hs.2
      · intro h
        rcases (Bool.or_eq_true _ _).mp h with h | h
        · exact hnn h
        · have : c = .destIsNull := by simpa using h
          subst this
          simpa [condOnData] using hc'
      · intro h
        rcases (Bool.or_eq_true _ _).mp h with h | h
        · exact hno h
        · have : c = .ownCircuit := by simpa using h
          subst this
          rw [← condOwn_circs e st0 st hc]; exact hc'

theorem sockStep_enabled (fl : List Nat) (pfx : Bytes) (s : Sock) (ev : Ev) :
    (sockStep fl pfx s ev).1.enabled = s.enabled := by
  cases ev with
  | setFlags f => rfl
  | data ip sp c d p => rfl
  | open4 c => simp only [sockStep]; split <;> rfl
  | open6 c =>
    simp only [sockStep]
    split
    · exact (flush_core _ _ _ _).2.2.2.1
    · rfl
  | resolved c idx infos =>
    simp only [sockStep]
    split
    · rfl
    · split
      · rfl
      · exact (sendto_core _ _ _ _ _).2.2.2.1
  | outside c v6 host port payload =>
    simp only [sockStep]
    split
    · rfl
    · exact (recv_core _ _ _ _ _).2.2.2.1
  | join ip sp c => rfl

theorem viaSock_why (st : St) (cid : Nat) (ev : Ev) : ∀ s' ∈ (viaSock st cid ev).1.socks, s'.enabled = true →
    ∃ s ∈ st.socks, s.cid = s'.cid ∧ s.hopIp = s'.hopIp ∧ s.enabled = true := by
  unfold viaSock
  split
  · exact fun s' hs' h => ⟨s', hs', rfl, rfl, h⟩
  · rename_i s hf
    intro s' hs' h
    rcases mem_setSock hs' with hs' | hs'
    · exact ⟨s', hs', rfl, rfl, h⟩
    · subst hs'
      obtain ⟨i1, i2⟩ := sockStep_ids st.flags st.pfx s ev
      exact ⟨s, (find_cid hf).1, i1.symm, i2.symm, by rw [← sockStep_enabled st.flags st.pfx s ev]; exact h⟩

theorem exitData_sockout (st : St) (srcIp : Bytes) (cid : Nat) (dest : Dest) (payload : Bytes) :
    ∀ o ∈ (exitData st srcIp cid dest payload).2, ∃ s', SockOut st.flags st.pfx s' o := by
  unfold exitData
  cases hf : st.socks.find? (fun s => s.cid == cid) with
  | none => simp only [interpExit_none]; simp
  | some x =>
    obtain ⟨x', hx', sp⟩ := interpExit_some ⟨st.flags, st.pfx, srcIp, payload, dest⟩ Gen.exit_data_prog x false false
      (by simp) (by simp) exit_data_prog_safe'
    simp only [hx']
    exact fun o ho => ⟨x', sp.outs o ho⟩

/-- soundness of the `xm` component of `safeOnData`: a `loc _ 0` output (hand-over to on_packet_from_circuit) only
    appears when the payload's message id is an exit message id -/
theorem interpOnData_redispatch (e : DEnv) (st0 : St) : ∀ (p : Prog) (st : St) (nn no xm : Bool), st.exitIds = st0.exitIds →
    (xm = true → condOnData e st0 .exitMessage = true) → safeOnData nn no xm p = true →
    ∀ c', Out.loc c' 0 ∈ (interpOnData e p st).2 → condOnData e st0 .exitMessage = true
  | .done, _, _, _, _, _, _, _ => by intro c' h; simp [interpOnData] at h
  | .act a k, st, nn, no, xm, hx, hxm, hs => by
    simp only [safeOnData, Bool.and_eq_true] at hs
    intro c' h
    simp only [interpOnData, List.mem_append] at h
    rcases h with h | h
    · cases a with
      | deliverOwn =>
        have : xm = true := by simpa using hs.1.2
        exact hxm this
      | exitData =>
        obtain ⟨s', hso⟩ := exitData_sockout st e.srcIp e.cid e.dest e.payload _ h
        rcases hso with (⟨_, _, _, he, _⟩ | ⟨_, _, _, he, _⟩) | ⟨_, _, he, _⟩ <;> cases he
      | deliverOther => simp [actOnData] at h
      | deliverRaw => simp [actOnData] at h
      | queueAppend => simp [actOnData] at h
      | transportSend => simp [actOnData] at h
      | startResolve => simp [actOnData] at h
      | tunnelData => simp [actOnData] at h
      | enable => simp [actOnData] at h
      | sendto => simp [actOnData] at h
    · refine interpOnData_redispatch e st0 k (actOnData e st a).1 nn no xm ?_ hxm hs.2 c' h
      by_cases ha : a = .exitData
      · subst ha; simp only [actOnData]; unfold exitData; simp only; split <;> exact hx
      · rw [(actOnData_loc e st a ha).1]; exact hx
  | .ite c t el, st, nn, no, xm, hx, hxm, hs => by
    simp only [safeOnData, Bool.and_eq_true] at hs
    intro c' h
    simp only [interpOnData] at h
    by_cases hcc : condOnData e st c = true
    · simp only [hcc, if_true] at h
      refine interpOnData_redispatch e st0 t st nn no _ hx ?_ hs.1 c' h
      intro hh
      rcases (Bool.or_eq_true _ _).mp hh with hh | hh
      · exact hxm hh
      · have : c = .exitMessage := by simpa using hh
        subst this
        simpa [condOnData, hx] using hcc
    · have hc' : condOnData e st c = false := by simpa using hcc
      simp only [hc', Bool.false_eq_true, if_false] at h
      exact interpOnData_redispatch e st0 el st _ _ xm hx hxm hs.2 c' h

theorem redispatch_guard (st : St) (ip : Bytes) (sp c : Nat) (d : Dest) (p : Bytes) (c' : Nat)
    (h : Out.loc c' 0 ∈ (step st (.data ip sp c d p)).2) :
    ∃ b, p[22]? = some b ∧ st.exitIds.contains b.toNat = true := by
  have := interpOnData_redispatch ⟨ip, sp, c, d, p⟩ st Gen.on_data_prog st false false false rfl (by simp)
    on_data_prog_safe' c' h
  simp only [condOnData] at this
  cases hb : p[22]? with
  | none => simp [hb] at this
  | some b => exact ⟨b, rfl, by simpa [hb] using this⟩

/-! ### one step of the community, and histories -/

theorem mem_joinSock {l : List Sock} {ip : Bytes} {port cid : Nat} {x : Sock} (h : x ∈ joinSock l ip port cid) :
    x ∈ l ∨ x = { cid := cid, hopIp := ip, hopPort := port } := by
  unfold joinSock at h
  rcases List.mem_append.mp h with h | h
  · exact Or.inl (List.mem_filter.mp h).1
  · exact Or.inr (by simpa using h)

theorem mem_joinStep {st : St} {ip : Bytes} {port cid : Nat} {x : Sock} (h : x ∈ (joinStep st ip port cid).socks) :
    x ∈ st.socks ∨ x = { cid := cid, hopIp := ip, hopPort := port } := by
  unfold joinStep at h
  split at h
  · exact Or.inl h
  · exact mem_joinSock h

theorem joinStep_frame (st : St) (ip : Bytes) (port cid : Nat) :
    (joinStep st ip port cid).pfx = st.pfx ∧ (joinStep st ip port cid).flags = st.flags ∧
    (joinStep st ip port cid).exitIds = st.exitIds := by
  unfold joinStep; split <;> exact ⟨rfl, rfl, rfl⟩

theorem step_weak (st : St) (ev : Ev) : ∀ o ∈ (step st ev).2, WeakOut st.flags st.pfx o := by
  cases ev with
  | setFlags f => simp [step]
  | data ip sp c d p => exact interpOnData_weak _ _ _
  | open4 c => exact viaSock_weak _ _ _
  | open6 c => exact viaSock_weak _ _ _
  | resolved c idx infos => exact viaSock_weak _ _ _
  | outside c v6 host port payload => exact viaSock_weak _ _ _
  | join ip sp c => simp [step]

theorem step_inv (base : List (Nat × Bytes)) (P : List Ev) (st : St) (ev : Ev) (hinv : Inv base P st)
    (hj : ∀ ip sp c, ev = .join ip sp c → (c, ip) ∈ base) :
    Inv base (ev :: P) (step st ev).1 ∧ ∀ o ∈ (step st ev).2, StrongOut base (ev :: P) st.flags st.pfx o := by
  cases ev with
  | setFlags f => exact ⟨hinv.mono _, by simp [step]⟩
  | data ip sp c d p =>
    exact interpOnData_inv ⟨ip, sp, c, d, p⟩ base _ sp List.mem_cons_self Gen.on_data_prog st false false false (by simp)
      on_data_prog_safe' (hinv.mono _)
  | open4 c => exact viaSock_inv base P st c _ hinv
  | open6 c => exact viaSock_inv base P st c _ hinv
  | resolved c idx infos => exact viaSock_inv base P st c _ hinv
  | outside c v6 host port payload => exact viaSock_inv base P st c _ hinv
  | join ip sp c =>
    refine ⟨?_, by simp [step]⟩
    intro x hx
    rcases mem_joinStep hx with hx | hx
    · exact (hinv.mono _) x hx
    · subst hx
      exact ⟨hj ip sp c rfl, by simp, by simp, by simp⟩

theorem step_pfx (st : St) (ev : Ev) : (step st ev).1.pfx = st.pfx := by
  cases ev with
  | setFlags f => rfl
  | data ip sp c d p => exact (interpOnData_flags _ _ _).2
  | open4 c => exact (viaSock_flags _ _ _).2
  | open6 c => exact (viaSock_flags _ _ _).2
  | resolved c idx infos => exact (viaSock_flags _ _ _).2
  | outside c v6 host port payload => exact (viaSock_flags _ _ _).2
  | join ip sp c => exact (joinStep_frame _ _ _ _).1

theorem step_queue (st : St) (ev : Ev) (h : ∀ s ∈ st.socks, s.queue.length ≤ Gen.QUEUE_MAXLEN) :
    ∀ s ∈ (step st ev).1.socks, s.queue.length ≤ Gen.QUEUE_MAXLEN := by
  cases ev with
  | setFlags f => exact h
  | data ip sp c d p => exact interpOnData_queue _ _ _ h
  | open4 c => exact viaSock_queue _ _ _ h
  | open6 c => exact viaSock_queue _ _ _ h
  | resolved c idx infos => exact viaSock_queue _ _ _ h
  | outside c v6 host port payload => exact viaSock_queue _ _ _ h
  | join ip sp c =>
    intro x hx
    rcases mem_joinStep hx with hx | hx
    · exact h x hx
    · subst hx; simp

theorem run_pfx : ∀ (evs : List Ev) (st : St), (run st evs).1.pfx = st.pfx
  | [], _ => rfl
  | ev :: evs, st => by simp only [run]; rw [run_pfx evs, step_pfx]

/-- every CREATE of the history is declared in `base` -/
def JoinsIn (base : List (Nat × Bytes)) (evs : List Ev) : Prop := ∀ ip sp c, Ev.join ip sp c ∈ evs → (c, ip) ∈ base

theorem JoinsIn.head {base : List (Nat × Bytes)} {ev : Ev} {evs : List Ev} (h : JoinsIn base (ev :: evs)) :
    ∀ ip sp c, ev = .join ip sp c → (c, ip) ∈ base := fun ip sp c he => h ip sp c (he ▸ List.mem_cons_self)
theorem JoinsIn.tail {base : List (Nat × Bytes)} {ev : Ev} {evs : List Ev} (h : JoinsIn base (ev :: evs)) :
    JoinsIn base evs := fun ip sp c hm => h ip sp c (List.mem_cons_of_mem _ hm)

theorem run_inv (base : List (Nat × Bytes)) : ∀ (evs P : List Ev) (st : St), JoinsIn base evs → Inv base P st →
    Inv base (evs.reverse ++ P) (run st evs).1
  | [], P, st, _, h => by simpa [run] using h
  | ev :: evs, P, st, hj, h => by
    have := run_inv base evs (ev :: P) (step st ev).1 hj.tail (step_inv base P st ev h hj.head).1
    simpa [run, List.reverse_cons, List.append_assoc] using this

theorem step_emit_opened (base : List (Nat × Bytes)) (P : List Ev) (st : St) (ev : Ev) (hinv : Inv base P st)
    (hj : ∀ ip sp c, ev = .join ip sp c → (c, ip) ∈ base)
    (c : Nat) (v : Bool) (data : Bytes) (dest : Dest) (hmem : Out.emit c v data dest ∈ (step st ev).2) :
    ∃ ip, (c, ip) ∈ base ∧ ∃ sp d p, Ev.data ip sp c d p ∈ ev :: P ∧ d.isNull = false := by
  rcases (step_inv base P st ev hinv hj).2 _ hmem with (⟨c', k, h⟩ | ⟨c', h⟩) | ⟨s', hb, hi, hso⟩
  · cases h
  · cases h
  · rcases hso with (⟨h, p, dta, he, _⟩ | ⟨v', data', dest', he, _, _, ht⟩) | ⟨payload, src, he, _⟩
    · cases he
    · cases he
      have hen : s'.enabled = true := by
        rcases ht with ht | ht
        · exact hi.2.1 ht
        · exact hi.2.1 (hi.1 ht)
      obtain ⟨sp, d, p, hm, hn⟩ := hi.2.2 hen
      exact ⟨s'.hopIp, hb, sp, d, p, hm, hn⟩
    · cases he

theorem run_emit (base : List (Nat × Bytes)) : ∀ (evs P : List Ev) (st : St), JoinsIn base evs → Inv base P st →
    ∀ fl c v data dest, (fl, Out.emit c v data dest) ∈ (run st evs).2 →
      ∃ ip, (c, ip) ∈ base ∧ ∃ sp d p, Ev.data ip sp c d p ∈ evs.reverse ++ P ∧ d.isNull = false
  | [], P, st, _, _ => by intro fl c v data dest h; simp [run] at h
  | ev :: evs, P, st, hj, hinv => by
    intro fl c v data dest h
    simp only [run, List.mem_append, List.mem_map] at h
    rcases h with ⟨o, ho, heq⟩ | h
    · cases heq
      obtain ⟨ip, hb, sp, d, p, hm, hn⟩ := step_emit_opened base P st ev hinv hj.head c v data dest ho
      refine ⟨ip, hb, sp, d, p, ?_, hn⟩
      simp only [List.reverse_cons, List.append_assoc, List.mem_append]
      exact Or.inr (by simpa using hm)
    · obtain ⟨ip, hb, sp, d, p, hm, hn⟩ :=
        run_emit base evs (ev :: P) (step st ev).1 hj.tail (step_inv base P st ev hinv hj.head).1 fl c v data dest h
      exact ⟨ip, hb, sp, d, p, by simpa [List.reverse_cons, List.append_assoc] using hm, hn⟩

/-- one step keeps every socket's (circuit id, hop IP) inside `base`, provided a CREATE's pair is in `base` -/
theorem step_ids (st : St) (ev : Ev) (base : List (Nat × Bytes)) (hj : ∀ ip sp c, ev = .join ip sp c → (c, ip) ∈ base)
    (h : ∀ x ∈ st.socks, (x.cid, x.hopIp) ∈ base) : ∀ x ∈ (step st ev).1.socks, (x.cid, x.hopIp) ∈ base := by
  have via : ∀ cid, ∀ x ∈ (viaSock st cid ev).1.socks, (x.cid, x.hopIp) ∈ base := by
    intro cid x hx
    unfold viaSock at hx
    split at hx
    · exact h x hx
    · rename_i s hf
      rcases mem_setSock hx with hx | hx
      · exact h x hx
      · subst hx
        obtain ⟨i1, i2⟩ := sockStep_ids st.flags st.pfx s ev
        rw [i1, i2]; exact h s (find_cid hf).1
  cases ev with
  | setFlags f => exact h
  | data ip sp c d p =>
    have ex : ∀ (st : St), (∀ x ∈ st.socks, (x.cid, x.hopIp) ∈ base) →
        ∀ x ∈ (exitData st ip c d p).1.socks, (x.cid, x.hopIp) ∈ base := by
      intro st h x hx
      rcases Bool.eq_false_or_eq_true x.enabled with he | he
      · rcases (exitData_why st ip c d p x hx).1 he with ⟨s, hs, j1, j2, _⟩ | ⟨j1, j2⟩
        · rw [← j1, ← j2]; exact h s hs
        · -- enabled by this cell: it is the updated socket of the table; its identity is that of the found socket
          unfold exitData at hx
          cases hf : st.socks.find? (fun s => s.cid == c) with
          | none => simp only [hf, interpExit_none] at hx; exact h x hx
          | some y =>
            obtain ⟨y', hy', spc⟩ := interpExit_some ⟨st.flags, st.pfx, ip, p, d⟩ Gen.exit_data_prog y false false
              (by simp) (by simp) exit_data_prog_safe'
            simp only [hf, hy'] at hx
            rcases mem_setSock hx with hx | hx
            · exact h x hx
            · subst hx; rw [spc.net.1, spc.net.2.1]; exact h y (find_cid hf).1
      · exact h x ((exitData_why st ip c d p x hx).2 he)
    -- thread through the dispatch program
    have thr : ∀ (pr : Prog) (st : St), (∀ x ∈ st.socks, (x.cid, x.hopIp) ∈ base) →
        ∀ x ∈ (interpOnData ⟨ip, sp, c, d, p⟩ pr st).1.socks, (x.cid, x.hopIp) ∈ base := by
      intro pr
      induction pr with
      | done => intro st h; exact h
      | act a k ih =>
        intro st h
        simp only [interpOnData]
        refine ih _ ?_
        by_cases ha : a = .exitData
        · subst ha; exact ex st h
        · rw [(actOnData_loc _ st a ha).1]; exact h
      | ite cnd t e iht ihe =>
        intro st h
        simp only [interpOnData]
        split
        · exact iht st h
        · exact ihe st h
    exact thr Gen.on_data_prog st h
  | open4 c => exact via c
  | open6 c => exact via c
  | resolved c idx infos => exact via c
  | outside c v6 host port payload => exact via c
  | join ip sp c =>
    intro x hx
    rcases mem_joinStep hx with hx | hx
    · exact h x hx
    · subst hx; exact hj ip sp c rfl

/-! ### re-entry through the re-dispatch -/

theorem exitData_exitIds (st : St) (srcIp : Bytes) (cid : Nat) (dest : Dest) (payload : Bytes) :
    (exitData st srcIp cid dest payload).1.exitIds = st.exitIds := by
  unfold exitData; simp only; split <;> rfl

theorem actOnData_exitIds (e : DEnv) (st : St) (a : Act) : (actOnData e st a).1.exitIds = st.exitIds := by
  by_cases ha : a = .exitData
  · subst ha; exact exitData_exitIds _ _ _ _ _
  · rw [(actOnData_loc e st a ha).1]

theorem interpOnData_exitIds (e : DEnv) : ∀ (p : Prog) (st : St), (interpOnData e p st).1.exitIds = st.exitIds
  | .done, _ => rfl
  | .act a k, st => by
    simp only [interpOnData]
    rw [interpOnData_exitIds e k, actOnData_exitIds]
  | .ite c t el, st => by
    simp only [interpOnData]
    split
    · exact interpOnData_exitIds e t st
    · exact interpOnData_exitIds e el st

theorem step_exitIds (st : St) (ev : Ev) : (step st ev).1.exitIds = st.exitIds := by
  have via : ∀ cid, (viaSock st cid ev).1.exitIds = st.exitIds := by
    intro cid; unfold viaSock; split <;> rfl
  cases ev with
  | setFlags f => rfl
  | data ip sp c d p => exact interpOnData_exitIds _ _ _
  | open4 c => exact via c
  | open6 c => exact via c
  | resolved c idx infos => exact via c
  | outside c v6 host port payload => exact via c
  | join ip sp c => exact (joinStep_frame _ _ _ _).2.2

/-- a `reenter` output only comes from `deliverOwn` on a payload whose message id is DataPayload's (no safety check needed) -/
theorem interpOnData_reenter_data (e : DEnv) : ∀ (p : Prog) (st : St) (c' : Nat),
    Out.reenter c' ∈ (interpOnData e p st).2 → e.payload[22]? = some (UInt8.ofNat Gen.DATA_MSG_ID)
  | .done, _, _ => by intro h; simp [interpOnData] at h
  | .act a k, st, c' => by
    intro h
    simp only [interpOnData, List.mem_append] at h
    rcases h with h | h
    · cases a with
      | deliverOwn =>
        simp only [actOnData] at h
        split at h
        · rename_i hd; simpa using hd
        · simp at h
      | exitData =>
        obtain ⟨s', hso⟩ := exitData_sockout st e.srcIp e.cid e.dest e.payload _ h
        rcases hso with (⟨_, _, _, he, _⟩ | ⟨_, _, _, he, _⟩) | ⟨_, _, he, _⟩ <;> cases he
      | deliverOther => simp [actOnData] at h
      | deliverRaw => simp [actOnData] at h
      | queueAppend => simp [actOnData] at h
      | transportSend => simp [actOnData] at h
      | startResolve => simp [actOnData] at h
      | tunnelData => simp [actOnData] at h
      | enable => simp [actOnData] at h
      | sendto => simp [actOnData] at h
    · exact interpOnData_reenter_data e k _ c' h
  | .ite c t el, st, c' => by
    intro h
    simp only [interpOnData] at h
    split at h
    · exact interpOnData_reenter_data e t st c' h
    · exact interpOnData_reenter_data e el st c' h

/-- … and, for a program passing `safeOnData`, only when that id is one of the node's exit message ids -/
theorem interpOnData_reenter_exit (e : DEnv) (st0 : St) : ∀ (p : Prog) (st : St) (nn no xm : Bool), st.exitIds = st0.exitIds →
    (xm = true → condOnData e st0 .exitMessage = true) → safeOnData nn no xm p = true →
    ∀ c', Out.reenter c' ∈ (interpOnData e p st).2 → condOnData e st0 .exitMessage = true
  | .done, _, _, _, _, _, _, _ => by intro c' h; simp [interpOnData] at h
  | .act a k, st, nn, no, xm, hx, hxm, hs => by
    simp only [safeOnData, Bool.and_eq_true] at hs
    intro c' h
    simp only [interpOnData, List.mem_append] at h
    rcases h with h | h
    · cases a with
      | deliverOwn =>
        have : xm = true := by simpa using hs.1.2
        exact hxm this
      | exitData =>
        obtain ⟨s', hso⟩ := exitData_sockout st e.srcIp e.cid e.dest e.payload _ h
        rcases hso with (⟨_, _, _, he, _⟩ | ⟨_, _, _, he, _⟩) | ⟨_, _, he, _⟩ <;> cases he
      | deliverOther => simp [actOnData] at h
      | deliverRaw => simp [actOnData] at h
      | queueAppend => simp [actOnData] at h
      | transportSend => simp [actOnData] at h
      | startResolve => simp [actOnData] at h
      | tunnelData => simp [actOnData] at h
      | enable => simp [actOnData] at h
      | sendto => simp [actOnData] at h
    · exact interpOnData_reenter_exit e st0 k (actOnData e st a).1 nn no xm ((actOnData_exitIds e st a).trans hx) hxm hs.2 c' h
  | .ite c t el, st, nn, no, xm, hx, hxm, hs => by
    simp only [safeOnData, Bool.and_eq_true] at hs
    intro c' h
    simp only [interpOnData] at h
    by_cases hcc : condOnData e st c = true
    · simp only [hcc, if_true] at h
      refine interpOnData_reenter_exit e st0 t st nn no _ hx ?_ hs.1 c' h
      intro hh
      rcases (Bool.or_eq_true _ _).mp hh with hh | hh
      · exact hxm hh
      · have : c = .exitMessage := by simpa using hh
        subst this
        simpa [condOnData, hx] using hcc
    · have hc' : condOnData e st c = false := by simpa using hcc
      simp only [hc', Bool.false_eq_true, if_false] at h
      exact interpOnData_reenter_exit e st0 el st _ _ xm hx hxm hs.2 c' h

theorem viaSock_no_reenter (st : St) (cid : Nat) (ev : Ev) (c' : Nat) : Out.reenter c' ∉ (viaSock st cid ev).2 := by
  intro h
  unfold viaSock at h
  split at h
  · simp at h
  · rcases sockStep_out _ _ _ _ _ h with (⟨_, _, _, he, _⟩ | ⟨_, _, _, he, _⟩) | ⟨_, _, he, _⟩ <;> cases he

/-- one step: a re-entry needs DataPayload's id among the node's exit message ids -/
theorem step_reenter (st : St) (ev : Ev) (c' : Nat) (h : Out.reenter c' ∈ (step st ev).2) :
    st.exitIds.contains Gen.DATA_MSG_ID = true := by
  cases ev with
  | data ip sp c d p =>
    have h1 := interpOnData_reenter_data ⟨ip, sp, c, d, p⟩ Gen.on_data_prog st c' h
    have h2 := interpOnData_reenter_exit ⟨ip, sp, c, d, p⟩ st Gen.on_data_prog st false false false rfl (by simp)
      on_data_prog_safe' c' h
    simp only at h1
    simp only [condOnData, h1] at h2
    have : (UInt8.ofNat Gen.DATA_MSG_ID).toNat = Gen.DATA_MSG_ID := by decide
    rwa [this] at h2
  | setFlags f => simp [step] at h
  | join ip sp c => simp [step] at h
  | open4 c => exact absurd h (viaSock_no_reenter st c _ c')
  | open6 c => exact absurd h (viaSock_no_reenter st c _ c')
  | resolved c idx infos => exact absurd h (viaSock_no_reenter st c _ c')
  | outside c v6 host port payload => exact absurd h (viaSock_no_reenter st c _ c')

theorem run_exitIds : ∀ (evs : List Ev) (st : St), (run st evs).1.exitIds = st.exitIds
  | [], _ => rfl
  | ev :: evs, st => by simp only [run]; rw [run_exitIds evs, step_exitIds]

/-- the (circuit id, source IP) pairs of the CREATEs of a history -/
def joinPairs : List Ev → List (Nat × Bytes)
  | [] => []
  | .join ip _ c :: evs => (c, ip) :: joinPairs evs
  | _ :: evs => joinPairs evs

theorem mem_joinPairs : ∀ {evs : List Ev} {ip : Bytes} {sp c : Nat}, Ev.join ip sp c ∈ evs → (c, ip) ∈ joinPairs evs
  | ev :: evs, ip, sp, c, h => by
    rcases List.mem_cons.mp h with h | h
    · subst h; simp [joinPairs]
    · have := mem_joinPairs h
      cases ev <;> simp [joinPairs, this]

theorem joinPairs_mem : ∀ {evs : List Ev} {ip : Bytes} {c : Nat}, (c, ip) ∈ joinPairs evs → ∃ sp, Ev.join ip sp c ∈ evs
  | ev :: evs, ip, c, h => by
    cases ev with
    | join ip' sp' c' =>
      simp only [joinPairs, List.mem_cons] at h
      rcases h with h | h
      · cases h; exact ⟨sp', List.mem_cons_self⟩
      · obtain ⟨sp, hm⟩ := joinPairs_mem h; exact ⟨sp, List.mem_cons_of_mem _ hm⟩
    | setFlags f => obtain ⟨sp, hm⟩ := joinPairs_mem (by simpa [joinPairs] using h); exact ⟨sp, List.mem_cons_of_mem _ hm⟩
    | data a b c2 d e => obtain ⟨sp, hm⟩ := joinPairs_mem (by simpa [joinPairs] using h); exact ⟨sp, List.mem_cons_of_mem _ hm⟩
    | open4 c2 => obtain ⟨sp, hm⟩ := joinPairs_mem (by simpa [joinPairs] using h); exact ⟨sp, List.mem_cons_of_mem _ hm⟩
    | open6 c2 => obtain ⟨sp, hm⟩ := joinPairs_mem (by simpa [joinPairs] using h); exact ⟨sp, List.mem_cons_of_mem _ hm⟩
    | resolved c2 i l => obtain ⟨sp, hm⟩ := joinPairs_mem (by simpa [joinPairs] using h); exact ⟨sp, List.mem_cons_of_mem _ hm⟩
    | outside c2 v h2 p2 d2 => obtain ⟨sp, hm⟩ := joinPairs_mem (by simpa [joinPairs] using h); exact ⟨sp, List.mem_cons_of_mem _ hm⟩

/-- the declared sockets of a history: those of the initial state and those created by its CREATEs -/
def baseOf (st0 : St) (evs : List Ev) : List (Nat × Bytes) := (st0.socks.map fun s => (s.cid, s.hopIp)) ++ joinPairs evs

theorem joinsIn_baseOf (st0 : St) (evs : List Ev) : JoinsIn (baseOf st0 evs) evs :=
  fun _ _ _ h => List.mem_append_right _ (mem_joinPairs h)

theorem baseOf_mem {st0 : St} {evs : List Ev} {c : Nat} {ip : Bytes} (h : (c, ip) ∈ baseOf st0 evs) :
    (∃ s0 ∈ st0.socks, s0.cid = c ∧ s0.hopIp = ip) ∨ ∃ sp, Ev.join ip sp c ∈ evs := by
  rcases List.mem_append.mp h with h | h
  · obtain ⟨s0, hs0, heq⟩ := List.mem_map.mp h
    cases heq; exact Or.inl ⟨s0, hs0, rfl, rfl⟩
  · exact Or.inr (joinPairs_mem h)

/-! ## definitions used by the statements in Props.lean -/

/-- what the property demands of one output, under the flags `fl` in force when it is produced -/
def OutOK (fl : List Nat) (pfx : Bytes) : Out → Prop
  | .emit _ _ data dest =>
      Spec.allowed (fl.contains Gen.PEER_FLAG_EXIT_BT) (fl.contains Gen.PEER_FLAG_EXIT_IPV8) pfx data = true
      ∧ dest.isNull = false
  | .tunnel _ _ _ data _ =>
      Spec.allowed (fl.contains Gen.PEER_FLAG_EXIT_BT) (fl.contains Gen.PEER_FLAG_EXIT_IPV8) pfx data = true
  | .resolve _ _ _ data =>     -- a DNS lookup for a tunnel-supplied name is outside-world traffic as well
      Spec.allowed (fl.contains Gen.PEER_FLAG_EXIT_BT) (fl.contains Gen.PEER_FLAG_EXIT_IPV8) pfx data = true
  | _ => True

/-- all exit sockets closed: not enabled, no transport -/
def Closed (st : St) : Prop := ∀ s ∈ st.socks, s.enabled = false ∧ s.t4 = false ∧ s.t6 = false

/-! concrete state for the non-vacuity examples -/
def exSock : Sock := { cid := 7, hopIp := [49, 48, 46, 48, 46, 48, 46, 49], hopPort := 5000 }
def exSt : St := { flags := [Gen.PEER_FLAG_RELAY, Gen.PEER_FLAG_EXIT_BT], pfx := [0, 2], socks := [exSock], circs := [] }
def exDht : Bytes := [100, 49, 58, 97, 101]
def exDest : Dest := ⟨.v4, [49, 46, 50, 46, 51, 46, 52], 80⟩

end Ipv8.C06
