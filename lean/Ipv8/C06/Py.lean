/-
  C06 — the small Python-semantics vocabulary the translator (tools/gen_exitpolicy.py) targets.  Core Lean only.

  A translated Python expression has type `V α` (= `Option α`): `none` means "the expression raised"
  (struct.error from `unpack_from`, IndexError from `data[i]`).  `and`/`or`/`not`, comparison chains, `>>`, `&`,
  `len`, constant-bound slices and `struct.unpack_from` with big-endian unsigned formats are the whole subset.
-/
import Ipv8.Base.Proto

namespace Ipv8.C06
open Ipv8

namespace Py

abbrev V (α : Type) := Option α

/-- big-endian value of a byte string -/
def beNat (b : Bytes) : Nat := b.foldl (fun acc x => acc * 256 + x.toNat) 0

/-- `struct.unpack_from(fmt, buf)` on the bytes that start at the offset: one unsigned big-endian field per width;
    `none` (= struct.error) when the buffer is too short -/
def unpackFields : List Nat → Bytes → Option (List Nat)
  | [], _ => some []
  | w :: ws, d =>
    if w ≤ d.length then
      match unpackFields ws (d.drop w) with
      | some r => some (beNat (d.take w) :: r)
      | none => none
    else none

def vUnpack (ws : List Nat) (d : V Bytes) (off : Nat) : V (List Nat) :=
  match d with
  | none => none
  | some b => if off ≤ b.length then unpackFields ws (b.drop off) else none

/-- `t[i]` on the tuple `unpack_from` returned -/
def vIdx (l : V (List Nat)) (i : Nat) : V Nat :=
  match l with
  | none => none
  | some xs => xs[i]?

/-- `a, b = <tuple>`; any other arity is a ValueError -/
def vLet2 {α : Type} (l : V (List Nat)) (k : Nat → Nat → V α) : V α :=
  match l with
  | some [a, b] => k a b
  | _ => none

def vLet1 {α β : Type} (x : V α) (k : α → V β) : V β :=
  match x with
  | none => none
  | some a => k a

def vLen (d : V Bytes) : V Nat := d.map List.length

/-- `data[i]` for a constant non-negative index (IndexError → none) -/
def vByteAt (d : V Bytes) (i : Nat) : V Nat :=
  match d with
  | none => none
  | some b => (b[i]?).map UInt8.toNat

/-- Python's normalisation of one slice bound against a sequence of length `len` -/
def normIdx (len : Nat) (i : Int) : Nat :=
  if i < 0 then (Int.ofNat len + i).toNat else min i.toNat len

/-- `d[lo:hi]` (step 1), any integer or missing bounds; never raises -/
def pySlice (d : Bytes) (lo hi : Option Int) : Bytes :=
  let a := match lo with | none => 0 | some i => normIdx d.length i
  let b := match hi with | none => d.length | some i => normIdx d.length i
  (d.drop a).take (b - a)

def vSlice (d : V Bytes) (lo hi : Option Int) : V Bytes := d.map (fun b => pySlice b lo hi)

def vCmp (f : Nat → Nat → Bool) (a b : V Nat) : V Bool :=
  match a, b with
  | some x, some y => some (f x y)
  | _, _ => none

def vLe := vCmp (fun x y => decide (x ≤ y))
def vLt := vCmp (fun x y => decide (x < y))
def vGe := vCmp (fun x y => decide (x ≥ y))
def vGt := vCmp (fun x y => decide (x > y))
def vEqN := vCmp (fun x y => x == y)
def vNeN := vCmp (fun x y => x != y)

def vEqB (a b : V Bytes) : V Bool :=
  match a, b with
  | some x, some y => some (x == y)
  | _, _ => none
def vNeB (a b : V Bytes) : V Bool :=
  match a, b with
  | some x, some y => some (x != y)
  | _, _ => none

/-- `x in [b1, b2, …]` for byte strings -/
def vInB (a : V Bytes) (l : List Bytes) : V Bool := a.map (fun x => l.contains x)
/-- `FLAG in peer_flags` -/
def vInN (a : V Nat) (l : List Nat) : V Bool := a.map (fun x => l.contains x)

/-- short-circuit `and` / `or` on booleans; the right operand is not evaluated (cannot raise) when the left decides -/
def vAnd (a b : V Bool) : V Bool :=
  match a with
  | none => none
  | some false => some false
  | some true => b
def vOr (a b : V Bool) : V Bool :=
  match a with
  | none => none
  | some true => some true
  | some false => b
def vNot (a : V Bool) : V Bool := a.map (!·)

/-- `if c: <t> else: <e>` at statement level (`e` is the continuation) -/
def vIf {α : Type} (c : V Bool) (t e : V α) : V α :=
  match c with
  | none => none
  | some true => t
  | some false => e

def vArith (f : Nat → Nat → Nat) (a b : V Nat) : V Nat :=
  match a, b with
  | some x, some y => some (f x y)
  | _, _ => none
def vShr := vArith (fun x y => x >>> y)
def vShl := vArith (fun x y => x <<< y)
def vBand := vArith (fun x y => x &&& y)
def vBor := vArith (fun x y => x ||| y)
def vAdd := vArith (fun x y => x + y)

end Py
end Ipv8.C06
