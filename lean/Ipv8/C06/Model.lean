/-
  C06 — model of the exit path of an exit node (core Lean only; executable; linked into drv_c06).

  * `Spec`   — the FIXED statement of what "BitTorrent-shaped" / "IPv8-shaped" / "allowed" mean (hand-written once from
               the property text, BEP 29 / BEP 15 / bencoding and the IPv8 header; never regenerated).
  * `Gen.*`  — (GenPolicy.lean) the classifier and `is_allowed` as the code has them NOW (translated on every run).
  * `Gen.*_prog` — (GenPaths.lean) sendto / datagram_received / exit_data / on_data's dispatch as decision trees over the
               IR of IR.lean, translated on every run; this file gives the atoms and actions their meaning.
  * state machine — the rest is a hand-written mirror of
        TunnelCommunity.on_data / exit_data (community.py),
        TunnelExitSocket.enable / create_transports / sendto / on_address+resolve / datagram_received(_ipv4/_ipv6) /
        tunnel_data (exit_socket.py),
    using `Gen.is_allowed` as its gate.  Tied to the real objects by the correspondence run (harness/c06.py).

  Strings (host names / textual IP addresses) are kept as their UTF-8 bytes.
-/
import Ipv8.C06.GenPolicy
import Ipv8.C06.GenPaths

namespace Ipv8.C06
open Ipv8

/-! ## Fixed specification of the traffic classes -/
namespace Spec

/-- uTP (BEP 29): at least a 20-byte header, type 0..4 in the high nibble, version 1 in the low nibble,
    extension 0..3 in the second byte -/
def isUtp (d : Bytes) : Bool :=
  match d with
  | b0 :: b1 :: _ => decide (20 ≤ d.length) && decide (b0.toNat / 16 ≤ 4) && decide (b0.toNat % 16 = 1) && decide (b1.toNat ≤ 3)
  | _ => false

/-- the four bytes at `off` are a big-endian action code 0..3: three zero bytes and a byte ≤ 3 -/
def actionAt (d : Bytes) (off : Nat) : Bool :=
  match d.drop off with
  | a :: b :: c :: e :: _ => a == 0 && b == 0 && c == 0 && decide (e.toNat ≤ 3)
  | _ => false

/-- UDP tracker (BEP 15): action field 0..3 at offset 0 (packet of ≥ 8 bytes) or at offset 8 (≥ 12 bytes) -/
def isTracker (d : Bytes) : Bool :=
  (decide (8 ≤ d.length) && actionAt d 0) || (decide (12 ≤ d.length) && actionAt d 8)

/-- DHT: a bencoded dictionary — at least two bytes, first 'd', last 'e' -/
def isDht (d : Bytes) : Bool :=
  decide (2 ≤ d.length) && d.head? == some 100 && d.getLast? == some 101

def isBT (d : Bytes) : Bool := isUtp d || isTracker d || isDht d

/-- IPv8 overlay packet: 22-byte prefix + message id at least, first byte 0, version byte 1 or 2 -/
def isIPv8 (d : Bytes) : Bool :=
  match d with
  | b0 :: b1 :: _ => decide (23 ≤ d.length) && b0 == 0 && (b1 == 1 || b1 == 2)
  | _ => false

/-- the exit policy of the property text -/
def allowed (exitBT exitIPv8 : Bool) (pfx d : Bytes) : Bool :=
  (isBT d && exitBT) || (isIPv8 d && (exitIPv8 || d.take 22 == pfx))

end Spec

/-! ## Addresses -/

inductive Kind | v4 | v6 | dom
  deriving DecidableEq, Repr, Inhabited

/-- a destination / source address as the payload decoder produces it: UDPv4Address, UDPv6Address or DomainAddress -/
structure Dest where
  kind : Kind
  host : Bytes
  port : Nat
  deriving DecidableEq, Repr, Inhabited

/-- "0.0.0.0" -/
def zeroHost : Bytes := [48, 46, 48, 46, 48, 46, 48]

/-- Python: `destination == ("0.0.0.0", 0)` — tuple equality, whatever the namedtuple class -/
def Dest.isNull (d : Dest) : Bool := d.host == zeroHost && d.port == 0

/-- "::ffff:" -/
def mappedPrefix : Bytes := [58, 58, 102, 102, 102, 102, 58]

/-! ## State -/

structure Sock where
  cid : Nat
  hopIp : Bytes
  hopPort : Nat
  enabled : Bool := false
  t4 : Bool := false            -- transport_ipv4 is set
  t6 : Bool := false            -- transport_ipv6 is set (then create_transports has flushed the queue)
  queue : List (Bytes × Dest) := []
  pending : List (Bytes × Dest) := []   -- resolutions in flight: (data, domain destination)
  deriving Repr, Inhabited

structure Circ where
  cid : Nat
  hopIp : Bytes
  hopPort : Nat
  ctype : Nat         -- Circuit.ctype: 0 DATA, 1 IP_SEEDER, 2 RP_SEEDER, 3 RP_DOWNLOADER (the last two are the e2e types)
  deriving Repr, Inhabited

structure St where
  flags : List Nat          -- overlay.settings.peer_flags
  pfx : Bytes               -- overlay.get_prefix()
  socks : List Sock         -- overlay.exit_sockets
  circs : List Circ         -- overlay.circuits (circuits this node originated)
  tunnelEp : Bool := false  -- isinstance(overlay.endpoint, TunnelEndpoint)
  exitIds : List Nat := []  -- overlay.exit_msg_ids: message types registered with add_cell_handler(..., from_exit=True)
  deriving Repr, Inhabited

inductive Out
  | emit (cid : Nat) (v6 : Bool) (data : Bytes) (dest : Dest)               -- transport_ipvX.sendto(data, dest)
  | tunnel (cid : Nat) (hopIp : Bytes) (hopPort : Nat) (data : Bytes) (src : Dest)   -- overlay.send_data(hop, cid, null, src, data)
  | resolve (cid : Nat) (host : Bytes) (port : Nat) (data : Bytes)          -- getaddrinfo started for this packet
  | reenter (cid : Nat)                                                     -- on_packet_from_circuit handed a DATA cell back to on_data (the model does not follow it)
  | loc (cid : Nat) (how : Nat)                                             -- data for an own circuit: 0 own overlay, 1 other overlay, 2 raw
  deriving Repr, DecidableEq

inductive Ev
  | setFlags (fl : List Nat)
  | data (srcIp : Bytes) (srcPort : Nat) (cid : Nat) (dest : Dest) (payload : Bytes)
  | open4 (cid : Nat)
  | open6 (cid : Nat)
  | resolved (cid : Nat) (idx : Nat) (infos : List (Bool × Bytes))          -- getaddrinfo result: (is AF_INET6, ip)
  | outside (cid : Nat) (v6 : Bool) (host : Bytes) (port : Nat) (payload : Bytes)
  | join (srcIp : Bytes) (srcPort : Nat) (cid : Nat)                         -- join_circuit for a CREATE that came from (srcIp, srcPort)
  deriving Repr

/-! ## The gate -/

/-- `is_allowed` returned True (a raised exception never lets the packet through: sendto / datagram_received propagate it) -/
def gate (flags : List Nat) (pfx data : Bytes) : Bool :=
  Gen.is_allowed flags pfx data == some true

/-! ## TunnelExitSocket -/

/-- `deque(maxlen).append` -/
def pushBounded (q : List (Bytes × Dest)) (x : Bytes × Dest) : List (Bytes × Dest) :=
  let q' := q ++ [x]
  q'.drop (q'.length - Gen.QUEUE_MAXLEN)

/-! ### meaning of the IR atoms and actions at the level of one exit socket (sendto, datagram_received) -/

/-- what a socket-level program sees: configured flags, prefix, the packet, and the address argument
    (`destination` for sendto, `source` for datagram_received) -/
structure Env where
  fl : List Nat
  pfx : Bytes
  data : Bytes
  dest : Dest

def condSock (e : Env) (s : Sock) : Cond → Bool
  | .allowed => gate e.fl e.pfx e.data
  | .isDomain => e.dest.kind = .dom
  | .destIsNull => e.dest.isNull
  | .hasTransport => if e.dest.kind = .v6 then s.t6 else s.t4
  | _ => false

def actSock (e : Env) (s : Sock) : Act → Sock × List Out
  | .queueAppend => ({ s with queue := pushBounded s.queue (e.data, e.dest) }, [])
  | .transportSend => (s, [.emit s.cid (e.dest.kind = .v6) e.data e.dest])
  | .startResolve => ({ s with pending := s.pending ++ [(e.data, e.dest)] }, [.resolve s.cid e.dest.host e.dest.port e.data])
  | .tunnelData => (s, [.tunnel s.cid s.hopIp s.hopPort e.data e.dest])
  | _ => (s, [])

def interpSock (e : Env) : Prog → Sock → Sock × List Out
  | .done, s => (s, [])
  | .act a k, s =>
    let r := actSock e s a
    let r' := interpSock e k r.1
    (r'.1, r.2 ++ r'.2)
  | .ite c t el, s => if condSock e s c then interpSock e t s else interpSock e el s

/-- `TunnelExitSocket.sendto`: the program translated from the source -/
def sendto (flags : List Nat) (pfx : Bytes) (s : Sock) (data : Bytes) (dest : Dest) : Sock × List Out :=
  interpSock ⟨flags, pfx, data, dest⟩ Gen.sendto_prog s

/-- `TunnelExitSocket.datagram_received` (after the family wrappers): the program translated from the source -/
def recvOutside (flags : List Nat) (pfx : Bytes) (s : Sock) (data : Bytes) (src : Dest) : Sock × List Out :=
  interpSock ⟨flags, pfx, data, src⟩ Gen.datagram_received_prog s

/-- the `while self.queue: self.sendto(*self.queue.popleft())` loop of create_transports, over the packets that were
    queued when it started (packets re-queued by sendto during the loop stay queued: both transports are open then,
    so this only happens in states the real object cannot reach) -/
def flush (flags : List Nat) (pfx : Bytes) : Sock → List (Bytes × Dest) → Sock × List Out
  | s, [] => (s, [])
  | s, (d, dst) :: rest =>
    let r := sendto flags pfx s d dst
    let r' := flush flags pfx r.1 rest
    (r'.1, r.2 ++ r'.2)

/-- `resolve`: sort the getaddrinfo list by family (AF_INET < AF_INET6, stable) and take the first entry -/
def pickAddr (infos : List (Bool × Bytes)) (port : Nat) : Option Dest :=
  match infos.find? (fun i => !i.1) with
  | some i => some ⟨.v4, i.2, port⟩
  | none =>
    match infos with
    | i :: _ => some ⟨.v6, i.2, port⟩
    | [] => none

def removeAt {α : Type} : List α → Nat → List α
  | [], _ => []
  | _ :: xs, 0 => xs
  | x :: xs, n + 1 => x :: removeAt xs n

/-- what one event other than a DATA cell does to one exit socket -/
def sockStep (flags : List Nat) (pfx : Bytes) (s : Sock) : Ev → Sock × List Out
  | .open4 _ => if s.enabled && !s.t4 then ({ s with t4 := true }, []) else (s, [])
  | .open6 _ =>
    if s.t4 && !s.t6 then flush flags pfx { s with t6 := true, queue := [] } s.queue else (s, [])
  | .resolved _ idx infos =>
    match s.pending[idx]? with
    | none => (s, [])
    | some (data, dest) =>
      let s' := { s with pending := removeAt s.pending idx }
      match pickAddr infos dest.port with
      | none => (s', [])
      | some a => sendto flags pfx s' data a
  | .outside _ v6 host port payload =>
    -- datagram_received_ipv4 / _ipv6: mapped IPv4 sources on the IPv6 socket are ignored
    if v6 && host.take 7 == mappedPrefix then (s, [])
    else recvOutside flags pfx s payload ⟨if v6 then .v6 else .v4, host, port⟩
  | .data _ _ _ _ _ => (s, [])        -- DATA cells go through `exitData` below
  | .setFlags _ => (s, [])
  | .join _ _ _ => (s, [])            -- socket creation is a table operation (`joinSock`)

/-! ## TunnelCommunity -/

/-- replace the first socket with the same circuit id -/
def setSock : List Sock → Sock → List Sock
  | [], _ => []
  | x :: xs, s => if x.cid == s.cid then s :: xs else x :: setSock xs s

/-- hand the event to the exit socket registered under `cid` (dropped when there is none) -/
def viaSock (st : St) (cid : Nat) (ev : Ev) : St × List Out :=
  match st.socks.find? (fun s => s.cid == cid) with
  | none => (st, [])
  | some s =>
    let r := sockStep st.flags st.pfx s ev
    ({ st with socks := setSock st.socks r.1 }, r.2)

/-! ### meaning of the IR at the level of `exit_data` -/

structure XEnv where
  fl : List Nat
  pfx : Bytes
  srcIp : Bytes
  data : Bytes
  dest : Dest

/-- `s` = `self.exit_sockets.get(circuit_id)` -/
def condExit (e : XEnv) (s : Option Sock) : Cond → Bool
  | .knownCircuit => s.isSome
  | .sockEnabled => match s with | some x => x.enabled | none => false
  | .srcIpIsHopIp => match s with | some x => e.srcIp == x.hopIp | none => false
  | .destIsNull => e.dest.isNull
  | _ => false

def actExit (e : XEnv) (x : Sock) : Act → Sock × List Out
  | .enable => ({ x with enabled := true }, [])        -- TunnelExitSocket.enable(): flag set, create_transports scheduled
  | .sendto => sendto e.fl e.pfx x e.data e.dest
  | _ => (x, [])

/-- an action on `self.exit_sockets[circuit_id]` without such a socket is a KeyError: nothing further happens -/
def interpExit (e : XEnv) : Prog → Option Sock → Option Sock × List Out
  | .done, s => (s, [])
  | .act _ _, none => (none, [])
  | .act a k, some x =>
    let r := actExit e x a
    let r' := interpExit e k (some r.1)
    (r'.1, r.2 ++ r'.2)
  | .ite c t el, s => if condExit e s c then interpExit e t s else interpExit e el s

/-- `TunnelCommunity.exit_data`: the program translated from the source, run on the socket table -/
def exitData (st : St) (srcIp : Bytes) (cid : Nat) (dest : Dest) (payload : Bytes) : St × List Out :=
  let r := interpExit ⟨st.flags, st.pfx, srcIp, payload, dest⟩ Gen.exit_data_prog (st.socks.find? (fun s => s.cid == cid))
  match r.1 with
  | some s' => ({ st with socks := setSock st.socks s' }, r.2)
  | none => (st, r.2)

/-! ### meaning of the IR at the level of `on_data` (after the payload has been decoded) -/

structure DEnv where
  srcIp : Bytes
  srcPort : Nat
  cid : Nat
  dest : Dest
  payload : Bytes

def condOnData (e : DEnv) (st : St) : Cond → Bool
  | .ownCircuit =>
    match st.circs.find? (fun c => c.cid == e.cid) with
    | some c => c.hopIp == e.srcIp && c.hopPort == e.srcPort
    | none => false
  | .destIsNull => e.dest.isNull
  | .ipv8Payload => Gen.could_be_ipv8 e.payload == some true
  | .e2eCircuit =>
    match st.circs.find? (fun c => c.cid == e.cid) with
    | some c => c.ctype == 2 || c.ctype == 3
    | none => false
  | .ownPrefix => st.pfx == e.payload.take 22
  | .exitMessage =>
    match e.payload[22]? with
    | some b => st.exitIds.contains b.toNat
    | none => false
  | .tunnelEndpoint => st.tunnelEp
  | _ => false

/-- `deliverOwn` hands the payload to `on_packet_from_circuit`, which re-dispatches by `data[22]` through
    `decode_map_private` with the payload's `org_address` (chosen by the sender) as source address.  `safeOnData` demands
    that it is reached only when `exitMessage` is known to hold, i.e. for message types that were registered to arrive
    through an exit; the circuit-management cells (data, create, created, extend, extended, ping, pong, test-*) are not
    (`Gen.EXIT_MSG_IDS_DECLARED`, theorem `data_is_not_an_exit_message`), so the re-dispatch never leads back into
    `on_data`/`exit_data` and is a local delivery (`loc`). -/
def actOnData (e : DEnv) (st : St) : Act → St × List Out
  | .exitData => exitData st e.srcIp e.cid e.dest e.payload
  | .deliverOwn =>
    -- re-dispatch by data[22]: DataPayload's handler is on_data itself (a re-entry with the sender-chosen origin as
    -- source, which this model does not follow: it is made visible as `reenter`); any other handler is a local delivery
    if e.payload[22]? == some (UInt8.ofNat Gen.DATA_MSG_ID) then (st, [.reenter e.cid]) else (st, [.loc e.cid 0])
  | .deliverOther => (st, [.loc e.cid 1])
  | .deliverRaw => (st, [.loc e.cid 2])
  | _ => (st, [])

def interpOnData (e : DEnv) : Prog → St → St × List Out
  | .done, st => (st, [])
  | .act a k, st =>
    let r := actOnData e st a
    let r' := interpOnData e k r.1
    (r'.1, r.2 ++ r'.2)
  | .ite c t el, st => if condOnData e st c then interpOnData e t st else interpOnData e el st

/-- `TunnelCommunity.join_circuit`: `self.exit_sockets[circuit_id] = TunnelExitSocket(circuit_id, Hop(Peer(node_public_key,
    previous_node_address), keys), self)` — the new socket's hop address is the address the CREATE came from; the socket
    is closed (not enabled, no transports, nothing queued).  An entry under the same id is replaced. -/
def joinSock (socks : List Sock) (ip : Bytes) (port : Nat) (cid : Nat) : List Sock :=
  socks.filter (fun s => s.cid != cid) ++ [{ cid := cid, hopIp := ip, hopPort := port }]

/-- `on_create` → `join_circuit`: a CREATE is ignored when no peer flag is configured or when the circuit id is already in
    use as an own circuit or an exit socket (relays and the pending-request guard are not modelled) -/
def joinStep (st : St) (ip : Bytes) (port : Nat) (cid : Nat) : St :=
  if st.flags.isEmpty || st.circs.any (fun c => c.cid == cid) || st.socks.any (fun s => s.cid == cid) then st
  else { st with socks := joinSock st.socks ip port cid }

def step (st : St) (ev : Ev) : St × List Out :=
  match ev with
  | .setFlags fl => ({ st with flags := fl }, [])
  | .data srcIp srcPort cid dest payload => interpOnData ⟨srcIp, srcPort, cid, dest, payload⟩ Gen.on_data_prog st
  | .open4 cid => viaSock st cid ev
  | .open6 cid => viaSock st cid ev
  | .resolved cid _ _ => viaSock st cid ev
  | .outside cid _ _ _ _ => viaSock st cid ev
  | .join ip port cid => (joinStep st ip port cid, [])

/-- run a history; outputs are tagged with the peer_flags that were configured when they were produced -/
def run : St → List Ev → St × List (List Nat × Out)
  | st, [] => (st, [])
  | st, ev :: evs =>
    let r := step st ev
    let r' := run r.1 evs
    (r'.1, r.2.map (fun o => (st.flags, o)) ++ r'.2)

end Ipv8.C06
