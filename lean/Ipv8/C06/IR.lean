/-
  C06 — the decision-tree IR the path translator (tools/gen_exitpolicy.py, second half) targets.  Core Lean only.

  A translated method body (TunnelExitSocket.sendto, TunnelExitSocket.datagram_received, TunnelCommunity.exit_data, the
  dispatch tail of TunnelCommunity.on_data) is a `Prog`: tests of atomic conditions, the actions that matter for the exit
  policy, in program order.  Logging, statistics (`bytes_up`, `beat_heart`) and `try/except` wrappers that only log are
  dropped by the translator; anything it does not recognise is a TranslatorError, not a silent omission.
  Model.lean gives the atoms and actions their meaning (`condSock/actSock`, `condExit`, `interpOnData`); Lemmas.lean
  proves properties of ALL programs that pass a syntactic safety check (`safeSock`, `safeExit`, `safeOnData`), and
  Props.lean discharges the check for the generated programs by `decide`.
-/
namespace Ipv8.C06

inductive Cond
  | allowed        -- self.is_allowed(data)
  | isDomain       -- isinstance(destination, DomainAddress)
  | destIsNull     -- destination == ("0.0.0.0", 0)
  | hasTransport   -- bool(transport), transport = self.transport_ipv6 if isinstance(destination, UDPv6Address) else self.transport_ipv4
  | knownCircuit   -- circuit_id in self.exit_sockets
  | sockEnabled    -- self.exit_sockets[circuit_id].enabled
  | srcIpIsHopIp   -- sock_addr[0] == self.exit_sockets[circuit_id].hop.address[0]
  | ownCircuit     -- circuit and origin and sock_addr == circuit.hop.address   (circuit = self.circuits.get(circuit_id))
  | ipv8Payload    -- DataChecker.could_be_ipv8(data)                 (own-circuit branch of on_data)
  | e2eCircuit     -- circuit.ctype in [CIRCUIT_TYPE_RP_DOWNLOADER, CIRCUIT_TYPE_RP_SEEDER]
  | ownPrefix      -- self._prefix == data[:22]
  | exitMessage    -- data[22] in self.exit_msg_ids   (a message type registered with add_cell_handler(..., from_exit=True))
  | tunnelEndpoint -- isinstance(self.endpoint, TunnelEndpoint)
  deriving DecidableEq, Repr, Inhabited

inductive Act
  | queueAppend    -- self.queue.append((data, destination))
  | transportSend  -- transport.sendto(data, destination)
  | startResolve   -- ensure_future(self.resolve(destination)) … add_done_callback(on_address), on_address re-enters self.sendto
  | tunnelData     -- self.tunnel_data(source, data)  = overlay.send_data(hop.address, circuit_id, ("0.0.0.0", 0), source, data)
  | enable         -- self.exit_sockets[circuit_id].enable()
  | sendto         -- self.exit_sockets[circuit_id].sendto(data, destination)
  | exitData       -- self.exit_data(circuit_id, sock_addr, destination, data)
  | deliverOwn     -- self.on_packet_from_circuit(origin, data, circuit_id): re-dispatch by data[22] through decode_map_private
  | deliverOther   -- self.endpoint.notify_listeners((origin, data), from_tunnel=True)
  | deliverRaw     -- self.on_raw_data(circuit, origin, data)
  deriving DecidableEq, Repr, Inhabited

inductive Prog
  | done
  | act (a : Act) (k : Prog)
  | ite (c : Cond) (t e : Prog)
  deriving DecidableEq, Repr, Inhabited

end Ipv8.C06
