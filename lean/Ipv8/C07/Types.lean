/-
  C07 — data types shared by the generated definitions (GenTunnel.lean) and the hand-written model (Model.lean).
  Core Lean only.

  Mirrors the data the anchored code looks at:
    ipv8/messaging/anonymization/tunnel.py   Hop (address, flags), Circuit (circuit_id, goal_hops, ctype, _closing, _hops)
-/
import Ipv8.Base.Proto

namespace Ipv8.C07

/-- a socket address; the model never looks inside one -/
abbrev Addr := Nat

/-- `Hop`: the peer's address and its advertised peer flags (`None` is stored as `[]`, which is what
    `Circuit.exit_flags` turns it into: `self.hops[-1].flags or []`) -/
structure Hop where
  addr : Addr
  flags : List Nat
deriving Repr, DecidableEq

/-- circuit types (`CIRCUIT_TYPE_*`), only `DATA` is distinguished -/
inductive CType
  | data | ipSeeder | rpSeeder | rpDownloader
deriving Repr, DecidableEq

/-- circuit states (`CIRCUIT_STATE_*`) -/
inductive CState
  | ready | extending | closing
deriving Repr, DecidableEq

/-- `Circuit` as far as `TunnelEndpoint.send` and `TunnelCommunity.find_circuits` read it -/
structure Circuit where
  cid : Nat
  goalHops : Nat
  ctype : CType
  closing : Bool      -- `_closing`
  hops : List Hop     -- `_hops` (verified hops, first hop first)
deriving Repr, DecidableEq

/-- endpoint decorators `ipv8_service.IPv8.__init__` can put around the base endpoint -/
inductive Wrapper
  | statistics | tunnel
deriving Repr, DecidableEq

/-- Python `set(a) <= set(b)` on lists -/
def subsetB (a b : List Nat) : Bool := a.all (fun x => b.contains x)

/-- Python `xs[-1]` guarded by `if xs` -/
def lastHop? (c : Circuit) : Option Hop := c.hops.getLast?

end Ipv8.C07
