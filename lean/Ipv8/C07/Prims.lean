/-
  C07 model, part 1 (core Lean only): state, events, ops, Python containers, the tunnel community as an environment and
  the primitive ACTIONS `TunnelEndpoint.send` is composed of.  The control flow of `send` itself is GENERATED from
  endpoint.py into GenSend.lean (tools/gen_c07.py) as a composition of these actions; Model.lean continues with the other
  methods and the step function.
-/
import Ipv8.C07.GenTunnel

namespace Ipv8.C07

/-- the tunnel community as `TunnelEndpoint.send` sees it -/
structure Community where
  circuits : List Circuit      -- `self.circuits` (dict: insertion order, unique ids)
  nextId : Nat                 -- next circuit id handed out by create_circuit (ids are opaque tokens)
  canCreate : Bool             -- whether create_circuit finds a first hop / exit candidate
  failAfter : Option Nat       -- fault injection: how many more `send_cell` calls succeed before one raises
deriving Repr, DecidableEq

/-- an endpoint listener registered with the wrapped endpoint: id and its `anonymize` attribute (if it has one) -/
structure Listener where
  lid : Nat
  anonymize : Option Bool
deriving Repr, DecidableEq

structure State where
  cap : Nat                          -- `send_queue.maxlen`
  settings : List (Bytes × Bool)     -- `self.settings`
  queue : List (Addr × Bytes)        -- `self.send_queue`, oldest first
  hops : Nat                         -- `self.hops`
  attached : Bool                    -- `self.tunnel_community is not None`
  comm : Community                   -- the tunnel community object (it outlives detaching)
  listeners : List Listener          -- `self.endpoint._listeners` (global listeners, `add_listener`)
  plisteners : List (Bytes × Listener)  -- listeners registered by prefix (`add_prefix_listener`: every Community)
  nextOverlay : Nat                  -- overlays loaded so far (their listener ids are 1000, 1001, …)
deriving Repr, DecidableEq

/-- what the outside can observe of one call -/
inductive Event
  /-- `self.endpoint.send(address, packet)`: the packet leaves through the node's own socket -/
  | raw (a : Addr) (p : Bytes)
  /-- `tunnel_community.send_data(circuit.hop.address, circuit_id, address, ("0.0.0.0", 0), packet)` -/
  | data (cid : Nat) (target : Option Addr) (dest : Addr) (p : Bytes)
  /-- `tunnel_community.create_circuit(hops, exit_flags=…)`; `made` is the id of the circuit it registered -/
  | create (hops : Nat) (flags : Option (List Nat)) (made : Option Nat)
  /-- ghost event: the packet is gone without having been handed to anybody (no community / queue overflow) -/
  | drop (overflow : Bool) (a : Addr) (p : Bytes)
  /-- ghost event: `send_data` raised for this packet; the exception propagates to the caller of `send`, the packet
      (already taken off the queue, if it came from there) is gone -/
  | fail (a : Addr) (p : Bytes)
  /-- `listener.on_packet` via `_deliver_later` -/
  | deliver (lid : Nat)
deriving Repr, DecidableEq

inductive Op
  | send (a : Addr) (p : Bytes)
  | setAnonymity (pfx : Bytes) (enable : Bool)
  | setTunnelCommunity (attach : Bool) (hops : Nat)
  /-- Community.__init__ of an overlay with the given community id and `settings.anonymize` -/
  | overlay (cid : Bytes) (anonymize : Bool)
  /-- Community.__init__ of an overlay whose `settings.endpoint` is NOT a TunnelEndpoint although its sends end up in
      `TunnelEndpoint.send` (a decorator such as StatisticsEndpoint sits in front): the `isinstance` guard fails, only a
      warning is logged; the overlay still registers as a listener (decorators forward `add_prefix_listener`) -/
  | overlayForeign (cid : Bytes) (anonymize : Bool)
  | newCircuit (goalHops : Nat) (ctype : CType)
  | addHop (idx : Nat) (h : Hop)
  | close (idx : Nat)
  | remove (idx : Nat)
  | setCanCreate (b : Bool)
  /-- environment: the (k+1)-th `send_cell` from now raises (serializer / crypto error), once -/
  | setFail (k : Option Nat)
  /-- `TunnelCommunity.__init__` on this endpoint: `set_tunnel_community(self)` (default hops) and
      `set_anonymity(self._prefix, False)` for the tunnel community's own prefix -/
  | attachCommunity (pfx : Bytes)
  /-- `TunnelCommunity.remove_circuit(circuit_id, …)` up to its `await sleep(remove_tunnel_delay)`: the destroy is sent
      and `Circuit.close()` marks the circuit CLOSING at once (this is also what `on_destroy` and `do_remove` trigger) -/
  | removeRequest (cid : Nat)
  /-- … and what it does after the delay: `self.circuits.pop(circuit_id, None)` -/
  | removeDone (cid : Nat)
  | addListener (l : Listener)
  /-- `TunnelEndpoint.notify_listeners((origin, p), from_tunnel)` -/
  | notify (fromTunnel : Bool) (p : Bytes)
  /-- `Community.unload` of the overlay with that listener id: `remove_listener` (forwarded to the wrapped endpoint) -/
  | unloadOverlay (lid : Nat)
deriving Repr, DecidableEq

/-! ### Python containers -/

/-- `dict.get(k)` -/
def dictGet (d : List (Bytes × Bool)) (k : Bytes) : Option Bool :=
  match d with
  | [] => none
  | (k', v) :: rest => if k' = k then some v else dictGet rest k

/-- `d[k] = v` (in place when present, appended otherwise) -/
def dictSet (d : List (Bytes × Bool)) (k : Bytes) (v : Bool) : List (Bytes × Bool) :=
  match d with
  | [] => [(k, v)]
  | (k', v') :: rest => if k' = k then (k, v) :: rest else (k', v') :: dictSet rest k v

/-- `deque(maxlen=cap).append(x)`: returns the new contents and what fell out on the left -/
def dequeAppend (cap : Nat) (q : List (Addr × Bytes)) (x : Addr × Bytes) :
    List (Addr × Bytes) × List (Addr × Bytes) :=
  let all := q ++ [x]
  (all.drop (all.length - cap), all.take (all.length - cap))

/-- replace the `idx`-th element -/
def modifyAt (f : Circuit → Circuit) : List Circuit → Nat → List Circuit
  | [], _ => []
  | c :: cs, 0 => f c :: cs
  | c :: cs, n + 1 => c :: modifyAt f cs n

/-- `Circuit.close()` on the circuit registered under `cid` -/
def closeById (cid : Nat) (cs : List Circuit) : List Circuit :=
  cs.map (fun c => if c.cid = cid then { c with closing := true } else c)

/-- `self.circuits.pop(cid, None)` -/
def popById (cid : Nat) (cs : List Circuit) : List Circuit :=
  cs.filter (fun c => c.cid ≠ cid)

/-! ### the tunnel community -/

/-- `find_circuits(...)` as called by `send` -/
def Community.find (cm : Community) (hops : Nat) : List Circuit :=
  cm.circuits.filter (sendFind hops)

/-- `create_circuit(goal_hops, exit_flags=…)`: registers an EXTENDING circuit without verified hops, or returns None -/
def Community.create (cm : Community) (goalHops : Nat) (ctype : CType) : Community × Option Nat :=
  if cm.canCreate then
    ({ cm with circuits := cm.circuits ++ [{ cid := cm.nextId, goalHops := goalHops, ctype := ctype,
                                               closing := false, hops := [] }],
               nextId := cm.nextId + 1 }, some cm.nextId)
  else (cm, none)

/-! ### TunnelEndpoint -/

def init (cap : Nat) : State :=
  { cap := cap, settings := [], queue := [], hops := initHops, attached := false,
    comm := { circuits := [], nextId := 1, canCreate := true, failAfter := none }, listeners := [],
    plisteners := [], nextOverlay := 0 }

/-- `self.settings.get(packet[:22], False)` -/
def State.anonymized (s : State) (p : Bytes) : Bool :=
  (dictGet s.settings (p.take prefixLen)).getD false

/-- one `send_data` call over circuit `c` -/
def dataEv (c : Circuit) (x : Addr × Bytes) : Event :=
  .data c.cid (c.firstHop?.map (·.addr)) x.1 x.2

/-- the circuit `send` uses: the first READY one among those `find_circuits` returns
    (`next((c for c in circuits if c.state == CIRCUIT_STATE_READY), None)`) -/
def Community.pick (cm : Community) (hops : Nat) : Option Circuit :=
  (cm.find hops).find? (fun c => c.state == .ready)

/-- how many of `n` consecutive `send_data` calls succeed -/
def okCalls (f : Option Nat) (n : Nat) : Nat :=
  match f with
  | none => n
  | some k => min k n

/-- the fault counter after `n` attempted calls (it fires at most once) -/
def nextFail (f : Option Nat) (n : Nat) : Option Nat :=
  match f with
  | none => none
  | some k => if k < n then none else some (k - n)

/-- the READY branch of `send`: the new packet first, then the backlog, oldest first (`popleft` before each call), all
    over circuit `c`; a `send_data` that raises ends the method: what was popped for it is gone, the rest stays queued -/
def sendOver (s : State) (c : Circuit) (a : Addr) (p : Bytes) : State × List Event :=
  let all := (a, p) :: s.queue
  let n := okCalls s.comm.failAfter all.length
  ({ s with queue := all.drop (n + 1), comm := { s.comm with failAfter := nextFail s.comm.failAfter all.length } },
   (all.take n).map (dataEv c) ++ (match all[n]? with | some x => [.fail x.1 x.2] | none => []))

/-! ### the actions `send` is composed of (targets of the translator) -/

/-- an effect of a few statements: new state and what the outside observes -/
abbrev Act := State → State × List Event

/-- statements in sequence -/
def Act.seq (x y : Act) : Act := fun s =>
  let r := x s
  let r2 := y r.1
  (r2.1, r.2 ++ r2.2)

/-- `return` -/
def Act.done : Act := fun s => (s, [])

/-- `self.endpoint.send(address, packet)` -/
def actRaw (a : Addr) (p : Bytes) : Act := fun s => (s, [.raw a p])

/-- the method ends without the packet having been handed to anybody (ghost event) -/
def actGhostDrop (a : Addr) (p : Bytes) : Act := fun s => (s, [.drop false a p])

/-- `tunnel_community.create_circuit(<translated arguments>)` -/
def actCreate : Act := fun s =>
  let r := s.comm.create (sendCreateHops s.hops) sendCreateCtype
  ({ s with comm := r.1 }, [.create (sendCreateHops s.hops) sendCreateFlags r.2])

/-- `self.send_queue.append((address, packet))` (ghost `drop` events for what falls out on the left) -/
def actEnqueue (a : Addr) (p : Bytes) : Act := fun s =>
  let r := dequeAppend s.cap s.queue (a, p)
  ({ s with queue := r.1 }, r.2.map (fun x => .drop true x.1 x.2))

/-- `send_data(circuit.hop.address, circuit.circuit_id, address, ("0.0.0.0", 0), packet)` followed by
    `while self.send_queue: address, packet = self.send_queue.popleft(); send_data(… same circuit …)` -/
def actSendOver (c : Circuit) (a : Addr) (p : Bytes) : Act := fun s => sendOver s c a p

end Ipv8.C07
