/-
  C07 — helper lemmas (core Lean only; no Mathlib needed).
  Facts about the GENERATED definitions (they are re-proved against what the code says on every run), about the
  Python container models, and step-level facts about `send` that Props.lean lifts to arbitrary histories.
-/
import Ipv8.C07.Model

namespace Ipv8.C07

/-! ### facts about the generated definitions -/

/-- READY means: not closing and every goal hop verified -/
theorem state_ready_iff (c : Circuit) :
    c.state = .ready ↔ (c.closing = false ∧ c.goalHops ≤ c.hops.length) := by
  unfold Circuit.state
  cases hc : c.closing <;> simp

/-- a flag in `exit_flags` is a flag of the LAST verified hop -/
theorem exitFlags_spec (c : Circuit) (f : Nat) (h : f ∈ c.exitFlags) :
    ∃ hp, c.hops.getLast? = some hp ∧ f ∈ hp.flags := by
  unfold Circuit.exitFlags lastHop? at h
  cases hl : c.hops.getLast? with
  | none => simp [hl] at h
  | some hp => simp [hl] at h; exact ⟨hp, rfl, h⟩

/-- what `send` asks of `find_circuits`: DATA circuit, goal_hops = configured hops, EXIT_IPV8 among the exit flags -/
theorem sendFind_spec (hops : Nat) (c : Circuit) (h : sendFind hops c = true) :
    c.ctype = .data ∧ c.goalHops = hops ∧ PEER_FLAG_EXIT_IPV8 ∈ c.exitFlags := by
  unfold sendFind findPred at h
  simp [subsetB] at h
  obtain ⟨⟨h1, h2⟩, h3⟩ := h
  exact ⟨h1.symm, h3.symm, h2⟩

theorem sendCreateHops_eq (h : Nat) : sendCreateHops h = h := by simp [sendCreateHops]

/-! ### containers -/

theorem dictGet_dictSet (d : List (Bytes × Bool)) (k k' : Bytes) (v : Bool) :
    dictGet (dictSet d k v) k' = if k = k' then some v else dictGet d k' := by
  induction d with
  | nil => simp [dictSet, dictGet]
  | cons x rest ih =>
    obtain ⟨k0, v0⟩ := x
    by_cases h0 : k0 = k
    · subst h0; by_cases h1 : k0 = k' <;> simp [dictSet, dictGet, h1]
    · by_cases h1 : k = k'
      · subst h1; simp [dictSet, dictGet, h0, ih]
      · simp [dictSet, dictGet, h0, ih, h1]

theorem dequeAppend_parts (cap : Nat) (q : List (Addr × Bytes)) (x : Addr × Bytes) :
    (dequeAppend cap q x).2 ++ (dequeAppend cap q x).1 = q ++ [x] := by
  simp [dequeAppend]

theorem dequeAppend_length (cap : Nat) (q : List (Addr × Bytes)) (x : Addr × Bytes) :
    (dequeAppend cap q x).1.length ≤ cap := by
  simp [dequeAppend]; omega

theorem dequeAppend_mem (cap : Nat) (q : List (Addr × Bytes)) (x y : Addr × Bytes)
    (h : y ∈ (dequeAppend cap q x).1) : y ∈ q ∨ y = x := by
  have := List.mem_of_mem_drop (by simpa [dequeAppend] using h)
  simpa using this

/-- below the bound nothing falls out -/
theorem dequeAppend_room (cap : Nat) (q : List (Addr × Bytes)) (x : Addr × Bytes) (h : q.length < cap) :
    dequeAppend cap q x = (q ++ [x], []) := by
  have : q.length + 1 - cap = 0 := by omega
  simp [dequeAppend, this]

/-! ### step-level facts about `send` -/

/-- unfolding the action combinators the generated `send` is written with -/
theorem seq_done (x : Act) (s : State) : (x.seq Act.done) s = x s := by
  simp [Act.seq, Act.done]

theorem send_plain (s : State) (a : Addr) (p : Bytes) (h : s.anonymized p = false) :
    send s a p = (s, [.raw a p]) := by
  simp [send, h, seq_done, actRaw]

theorem send_detached (s : State) (a : Addr) (p : Bytes) (h : s.anonymized p = true) (hd : s.attached = false) :
    send s a p = (s, [.drop false a p]) := by
  simp [send, h, hd, seq_done, actGhostDrop]

theorem send_tunnel (s : State) (a : Addr) (p : Bytes) (c : Circuit) (h : s.anonymized p = true)
    (ha : s.attached = true) (hc : s.comm.pick s.hops = some c) :
    send s a p = sendOver s c a p := by
  simp only [Community.pick] at hc
  simp [send, h, ha, hc, seq_done, actSendOver]

theorem send_queue_notready (s : State) (a : Addr) (p : Bytes) (h : s.anonymized p = true)
    (ha : s.attached = true) (hc : s.comm.pick s.hops = none) (hne : (s.comm.find s.hops).isEmpty = false) :
    send s a p = ({ s with queue := (dequeAppend s.cap s.queue (a, p)).1 },
                  (dequeAppend s.cap s.queue (a, p)).2.map (fun x => .drop true x.1 x.2)) := by
  simp only [Community.pick] at hc
  simp [send, h, ha, hc, hne, seq_done, actEnqueue]

theorem send_queue_nocircuit (s : State) (a : Addr) (p : Bytes) (h : s.anonymized p = true)
    (ha : s.attached = true) (hc : s.comm.pick s.hops = none) (he : (s.comm.find s.hops).isEmpty = true) :
    send s a p = ({ s with comm := (s.comm.create (sendCreateHops s.hops) sendCreateCtype).1,
                           queue := (dequeAppend s.cap s.queue (a, p)).1 },
                  .create (sendCreateHops s.hops) sendCreateFlags (s.comm.create (sendCreateHops s.hops) sendCreateCtype).2
                    :: (dequeAppend s.cap s.queue (a, p)).2.map (fun x => .drop true x.1 x.2)) := by
  simp only [Community.pick] at hc
  simp [send, h, ha, hc, he, Act.seq, Act.done, actCreate, actEnqueue]

/-- the five ways a call of `send` can go, with the exact result of each -/
theorem send_cases (s : State) (a : Addr) (p : Bytes) :
    (s.anonymized p = false ∧ send s a p = (s, [.raw a p]))
    ∨ (s.anonymized p = true ∧ s.attached = false ∧ send s a p = (s, [.drop false a p]))
    ∨ (s.anonymized p = true ∧ s.attached = true ∧ ∃ c, s.comm.pick s.hops = some c ∧ send s a p = sendOver s c a p)
    ∨ (s.anonymized p = true ∧ s.attached = true ∧ s.comm.pick s.hops = none ∧ (s.comm.find s.hops).isEmpty = false ∧
        send s a p = ({ s with queue := (dequeAppend s.cap s.queue (a, p)).1 },
                      (dequeAppend s.cap s.queue (a, p)).2.map (fun x => .drop true x.1 x.2)))
    ∨ (s.anonymized p = true ∧ s.attached = true ∧ s.comm.pick s.hops = none ∧ (s.comm.find s.hops).isEmpty = true ∧
        send s a p = ({ s with comm := (s.comm.create (sendCreateHops s.hops) sendCreateCtype).1,
                               queue := (dequeAppend s.cap s.queue (a, p)).1 },
                      .create (sendCreateHops s.hops) sendCreateFlags
                          (s.comm.create (sendCreateHops s.hops) sendCreateCtype).2
                        :: (dequeAppend s.cap s.queue (a, p)).2.map (fun x => .drop true x.1 x.2))) := by
  rcases Bool.eq_false_or_eq_true (s.anonymized p) with h | h
  · rcases Bool.eq_false_or_eq_true s.attached with ha | ha
    · cases hc : s.comm.pick s.hops with
      | none =>
        rcases Bool.eq_false_or_eq_true (s.comm.find s.hops).isEmpty with he | he
        · exact Or.inr (Or.inr (Or.inr (Or.inr ⟨h, ha, rfl, he, send_queue_nocircuit s a p h ha hc he⟩)))
        · exact Or.inr (Or.inr (Or.inr (Or.inl ⟨h, ha, rfl, he, send_queue_notready s a p h ha hc he⟩)))
      | some c => exact Or.inr (Or.inr (Or.inl ⟨h, ha, c, rfl, send_tunnel s a p c h ha hc⟩))
    · exact Or.inr (Or.inl ⟨h, ha, send_detached s a p h ha⟩)
  · exact Or.inl ⟨h, send_plain s a p h⟩

/-- the circuit `send` picks is registered, passes the `find_circuits` filter and is READY -/
theorem pick_spec (cm : Community) (hops : Nat) (c : Circuit) (h : cm.pick hops = some c) :
    c ∈ cm.circuits ∧ sendFind hops c = true ∧ c.state = .ready := by
  unfold Community.pick at h
  have hm : c ∈ cm.find hops := List.mem_of_find?_eq_some h
  have hp := List.find?_some h
  simp [Community.find, List.mem_filter] at hm
  exact ⟨hm.1, hm.2, by simpa using hp⟩

/-- … and when it picks none, no registered circuit both passes the filter and is READY -/
theorem pick_none (cm : Community) (hops : Nat) (h : cm.pick hops = none) :
    ∀ c ∈ cm.circuits, sendFind hops c = true → c.state ≠ .ready := by
  unfold Community.pick at h
  rw [List.find?_eq_none] at h
  intro c hc hf hr
  exact h c (by simp [Community.find, List.mem_filter, hc, hf]) (by simp [hr])

/-! #### the READY branch -/

theorem sendOver_fields (s : State) (c : Circuit) (a : Addr) (p : Bytes) :
    (sendOver s c a p).1.cap = s.cap ∧ (sendOver s c a p).1.settings = s.settings ∧
    (sendOver s c a p).1.hops = s.hops ∧ (sendOver s c a p).1.attached = s.attached ∧
    (sendOver s c a p).1.comm.circuits = s.comm.circuits ∧ (sendOver s c a p).1.comm.nextId = s.comm.nextId := by
  simp [sendOver]

theorem sendOver_queue_mem (s : State) (c : Circuit) (a : Addr) (p : Bytes) (x : Addr × Bytes)
    (h : x ∈ (sendOver s c a p).1.queue) : x ∈ s.queue := by
  simp only [sendOver, List.drop_succ_cons] at h
  exact List.mem_of_mem_drop h

theorem sendOver_queue_len (s : State) (c : Circuit) (a : Addr) (p : Bytes) :
    (sendOver s c a p).1.queue.length ≤ s.queue.length := by
  simp only [sendOver, List.drop_succ_cons, List.length_drop]; omega

theorem sendOver_data (s : State) (c : Circuit) (a : Addr) (p : Bytes) (cid : Nat) (t : Option Addr) (d : Addr)
    (q : Bytes) (h : Event.data cid t d q ∈ (sendOver s c a p).2) :
    ∃ y, (y = (a, p) ∨ y ∈ s.queue) ∧ Event.data cid t d q = dataEv c y := by
  simp only [sendOver, List.mem_append, List.mem_map] at h
  rcases h with ⟨y, hy, h⟩ | h
  · have : y ∈ (a, p) :: s.queue := List.mem_of_mem_take hy
    simp only [List.mem_cons] at this
    exact ⟨y, this, h.symm⟩
  · split at h <;> simp at h

theorem sendOver_noraw (s : State) (c : Circuit) (a : Addr) (p : Bytes) (a' : Addr) (p' : Bytes) :
    Event.raw a' p' ∉ (sendOver s c a p).2 := by
  intro h
  simp only [sendOver, List.mem_append, List.mem_map] at h
  rcases h with ⟨y, _, h⟩ | h
  · simp [dataEv] at h
  · split at h <;> simp at h

/-- packets of a list of events that left the queue for good: tunnelled, dropped, or lost to a raising `send_data` -/
def goneOf (evs : List Event) : List (Addr × Bytes) :=
  evs.filterMap (fun e => match e with
    | .data _ _ d q => some (d, q) | .drop _ d q => some (d, q) | .fail d q => some (d, q) | _ => none)

theorem goneOf_datas (c : Circuit) (l : List (Addr × Bytes)) : goneOf (l.map (dataEv c)) = l := by
  induction l with
  | nil => rfl
  | cons y ys ih => simp [goneOf, dataEv] at ih ⊢; exact ih

theorem goneOf_drops (l : List (Addr × Bytes)) (b : Bool) :
    goneOf (l.map (fun x => Event.drop b x.1 x.2)) = l := by
  induction l with
  | nil => rfl
  | cons y ys ih => simp [goneOf] at ih ⊢; exact ih

theorem goneOf_append (xs ys : List Event) : goneOf (xs ++ ys) = goneOf xs ++ goneOf ys := by
  simp [goneOf, List.filterMap_append]

theorem take_getElem?_drop (l : List (Addr × Bytes)) (n : Nat) :
    l.take n ++ (match l[n]? with | some x => [x] | none => []) ++ l.drop (n + 1) = l := by
  induction l generalizing n with
  | nil => simp
  | cons x xs ih =>
    cases n with
    | zero => simp
    | succ m => simpa using ih m

/-- the READY branch conserves packets, as lists: tunnelled ++ lost ++ still queued = new packet :: backlog -/
theorem sendOver_conserve (s : State) (c : Circuit) (a : Addr) (p : Bytes) :
    goneOf (sendOver s c a p).2 ++ (sendOver s c a p).1.queue = (a, p) :: s.queue := by
  have key := take_getElem?_drop ((a, p) :: s.queue) (okCalls s.comm.failAfter ((a, p) :: s.queue).length)
  simp only [sendOver, goneOf_append, goneOf_datas]
  generalize ((a, p) :: s.queue) = all at key ⊢
  generalize okCalls s.comm.failAfter all.length = n at key ⊢
  cases hn : all[n]? with
  | none => simp [hn, goneOf] at key ⊢; exact key
  | some x => simp [hn, goneOf] at key ⊢; exact key

/-- without fault injection the READY branch sends everything and empties the queue -/
theorem sendOver_nofail (s : State) (c : Circuit) (a : Addr) (p : Bytes) (h : s.comm.failAfter = none) :
    sendOver s c a p = ({ s with queue := [] }, dataEv c (a, p) :: s.queue.map (dataEv c)) := by
  have hc : ({ s.comm with failAfter := none } : Community) = s.comm := by
    cases hcm : s.comm; simp_all
  simp [sendOver, okCalls, nextFail, h, hc]

/-- ops other than `send` and `notify` are silent, and only `send` touches the queue -/
theorem step_events_nonsend (s : State) (o : Op) (hs : ∀ a p, o ≠ .send a p) (hn : ∀ b p, o ≠ .notify b p) :
    (step s o).2 = [] := by
  cases o <;> simp [step] at * <;> (try split) <;> simp

theorem step_queue_nonsend (s : State) (o : Op) (hs : ∀ a p, o ≠ .send a p) :
    (step s o).1.queue = s.queue ∧ (step s o).1.cap = s.cap := by
  cases o <;> simp [step] at * <;> (try split) <;> simp

/-- every case of `send` at once: cap and settings are never changed -/
theorem send_cap (s : State) (a : Addr) (p : Bytes) : (send s a p).1.cap = s.cap := by
  rcases send_cases s a p with ⟨_, e⟩ | ⟨_, _, e⟩ | ⟨_, _, c, _, e⟩ | ⟨_, _, _, _, e⟩ | ⟨_, _, _, _, e⟩ <;> rw [e]
  exact (sendOver_fields s c a p).1

theorem step_cap (s : State) (o : Op) : (step s o).1.cap = s.cap := by
  cases o <;> simp [step, send_cap] <;> (try split) <;> simp

theorem send_settings (s : State) (a : Addr) (p : Bytes) : (send s a p).1.settings = s.settings := by
  rcases send_cases s a p with ⟨_, e⟩ | ⟨_, _, e⟩ | ⟨_, _, c, _, e⟩ | ⟨_, _, _, _, e⟩ | ⟨_, _, _, _, e⟩ <;> rw [e]
  exact (sendOver_fields s c a p).2.1

/-! ### what reaches the raw socket, as a function of the history alone -/

/-- the (address, packet) pairs handed to the wrapped endpoint's `send` -/
def rawOf (evs : List Event) : List (Addr × Bytes) :=
  evs.filterMap (fun e => match e with | .raw a p => some (a, p) | _ => none)

/-- how `settings` evolves: only `set_anonymity` and an overlay's opt-in touch it -/
def settingsStep (d : List (Bytes × Bool)) : Op → List (Bytes × Bool)
  | .setAnonymity k v => dictSet d k v
  | .overlay cid true => dictSet d (overlayPrefix cid) true
  | .attachCommunity pfx => dictSet d pfx false
  | _ => d

/-- what one op hands to the raw socket, given only the settings -/
def plainOf (d : List (Bytes × Bool)) : Op → List (Addr × Bytes)
  | .send a p => if (dictGet d (p.take prefixLen)).getD false then [] else [(a, p)]
  | _ => []

/-- the sends of a history whose prefix is not anonymized at the time, in order -/
def plainSends (d : List (Bytes × Bool)) : List Op → List (Addr × Bytes)
  | [] => []
  | o :: os => plainOf d o ++ plainSends (settingsStep d o) os

/-- all events of a trace, in order -/
def allEvents (t : List (State × Op × List Event)) : List Event := t.flatMap (·.2.2)

theorem step_settings (s : State) (o : Op) : (step s o).1.settings = settingsStep s.settings o := by
  cases o with
  | send a p => simp [step, send_settings, settingsStep]
  | overlay cid b => cases b <;> simp [step, settingsStep]
  | _ => simp [step, settingsStep]

theorem rawOf_drops (l : List (Addr × Bytes)) (b : Bool) :
    rawOf (l.map (fun x => Event.drop b x.1 x.2)) = [] := by
  induction l with
  | nil => rfl
  | cons y ys ih => simp [rawOf]

theorem rawOf_datas (c : Circuit) (l : List (Addr × Bytes)) : rawOf (l.map (dataEv c)) = [] := by
  induction l with
  | nil => rfl
  | cons y ys ih => simp [rawOf, dataEv]

theorem rawOf_sendOver (s : State) (c : Circuit) (a : Addr) (p : Bytes) : rawOf (sendOver s c a p).2 = [] := by
  have h := rawOf_datas c (((a, p) :: s.queue).take (okCalls s.comm.failAfter ((a, p) :: s.queue).length))
  simp only [rawOf] at h
  simp only [sendOver, rawOf, List.filterMap_append, h, List.nil_append]
  split <;> simp

theorem step_rawOf (s : State) (o : Op) : rawOf (step s o).2 = plainOf s.settings o := by
  cases o with
  | send a p =>
    simp only [step, plainOf]
    rcases send_cases s a p with ⟨h, e⟩ | ⟨h, _, e⟩ | ⟨h, _, c, _, e⟩ | ⟨h, _, _, _, e⟩ | ⟨h, _, _, _, e⟩
    all_goals (simp only [State.anonymized] at h; rw [e, h])
    · simp [rawOf]
    · simp [rawOf]
    · simpa using rawOf_sendOver s c a p
    · simpa using rawOf_drops _ true
    · have := rawOf_drops (dequeAppend s.cap s.queue (a, p)).2 true
      simp [rawOf] at this ⊢
  | notify b q =>
    simp only [step, plainOf, notify]
    induction ((s.listenersFor q).filter (fun l => l.anonymize.getD false == b)) with
    | nil => rfl
    | cons y ys ih => simp [rawOf]
  | overlay cid b => cases b <;> simp [step, plainOf, rawOf]
  | _ => simp [step, plainOf, rawOf]

theorem dictGet_settingsStep_true (d : List (Bytes × Bool)) (k : Bytes) (o : Op)
    (h : dictGet d k = some true) (hno : o ≠ .setAnonymity k false) (hno2 : o ≠ .attachCommunity k) :
    dictGet (settingsStep d o) k = some true := by
  cases o with
  | attachCommunity pfx =>
    simp only [settingsStep, dictGet_dictSet]
    by_cases hk : pfx = k
    · subst hk; exact absurd rfl hno2
    · simp [hk, h]
  | setAnonymity k' v =>
    simp only [settingsStep, dictGet_dictSet]
    by_cases hk : k' = k
    · subst hk; cases v
      · exact absurd rfl hno
      · simp
    · simp [hk, h]
  | overlay cid b =>
    cases b
    · simpa [settingsStep] using h
    · simp only [settingsStep, dictGet_dictSet]; split <;> simp [h]
  | _ => simpa [settingsStep] using h

theorem dictGet_settingsStep_plain (d : List (Bytes × Bool)) (k : Bytes) (o : Op)
    (h : dictGet d k ≠ some true) (hno : o ≠ .setAnonymity k true)
    (hov : ∀ cid, o = .overlay cid true → overlayPrefix cid ≠ k) :
    dictGet (settingsStep d o) k ≠ some true := by
  cases o with
  | setAnonymity k' v =>
    simp only [settingsStep, dictGet_dictSet]
    by_cases hk : k' = k
    · subst hk; cases v
      · simp
      · exact absurd rfl hno
    · simpa [hk] using h
  | attachCommunity pfx =>
    simp only [settingsStep, dictGet_dictSet]
    by_cases hk : pfx = k
    · simp [hk]
    · simpa [hk] using h
  | overlay cid b =>
    cases b
    · simpa [settingsStep] using h
    · have := hov cid rfl
      simp only [settingsStep, dictGet_dictSet]
      simpa [this] using h
  | _ => simpa [settingsStep] using h

theorem runState_keeps_anonymized (ops : List Op) (s : State) (k : Bytes)
    (h : dictGet s.settings k = some true)
    (hno : ∀ o ∈ ops, o ≠ .setAnonymity k false ∧ o ≠ .attachCommunity k) :
    dictGet (runState s ops).settings k = some true := by
  induction ops generalizing s with
  | nil => exact h
  | cons o os ih =>
    apply ih
    · rw [step_settings]; exact dictGet_settingsStep_true _ _ _ h (hno o (by simp)).1 (hno o (by simp)).2
    · intro o' ho'; exact hno o' (by simp [ho'])

/-! ### circuits whose removal was requested -/

/-- every circuit registered under `cid` is CLOSING, and `cid` has already been handed out (fresh circuits get
    other ids) -/
def ClosedFor (cid : Nat) (s : State) : Prop :=
  (∀ c ∈ s.comm.circuits, c.cid = cid → c.closing = true) ∧ cid < s.comm.nextId

theorem mem_modifyAt (f : Circuit → Circuit) (l : List Circuit) (i : Nat) (c' : Circuit)
    (h : c' ∈ modifyAt f l i) : c' ∈ l ∨ ∃ c ∈ l, c' = f c := by
  induction l generalizing i with
  | nil => simp [modifyAt] at h
  | cons x xs ih =>
    cases i with
    | zero =>
      simp only [modifyAt, List.mem_cons] at h
      rcases h with rfl | h
      · exact Or.inr ⟨x, by simp, rfl⟩
      · exact Or.inl (by simp [h])
    | succ n =>
      simp only [modifyAt, List.mem_cons] at h
      rcases h with rfl | h
      · exact Or.inl (by simp)
      · rcases ih n h with h | ⟨c, hc, rfl⟩
        · exact Or.inl (by simp [h])
        · exact Or.inr ⟨c, by simp [hc], rfl⟩

theorem closedFor_create (cid : Nat) (cm : Community) (g : Nat) (t : CType)
    (h : (∀ c ∈ cm.circuits, c.cid = cid → c.closing = true) ∧ cid < cm.nextId) :
    (∀ c ∈ (cm.create g t).1.circuits, c.cid = cid → c.closing = true) ∧ cid < (cm.create g t).1.nextId := by
  unfold Community.create
  split
  · refine ⟨?_, by simp; omega⟩
    intro c hc hcid
    simp only [List.mem_append, List.mem_singleton] at hc
    rcases hc with hc | rfl
    · exact h.1 c hc hcid
    · simp at hcid; omega
  · exact h

theorem closedFor_step (cid : Nat) (s : State) (o : Op) (h : ClosedFor cid s) : ClosedFor cid (step s o).1 := by
  obtain ⟨hc, hn⟩ := h
  cases o with
  | send a p =>
    simp only [step]
    rcases send_cases s a p with ⟨_, e⟩ | ⟨_, _, e⟩ | ⟨_, _, c, _, e⟩ | ⟨_, _, _, _, e⟩ | ⟨_, _, _, _, e⟩
    · rw [e]; exact ⟨hc, hn⟩
    · rw [e]; exact ⟨hc, hn⟩
    · rw [e]
      obtain ⟨_, _, _, _, h5, h6⟩ := sendOver_fields s c a p
      exact ⟨by rw [h5]; exact hc, by rw [h6]; exact hn⟩
    · rw [e]; exact ⟨hc, hn⟩
    · rw [e]; exact closedFor_create cid s.comm _ _ ⟨hc, hn⟩
  | newCircuit g t =>
    refine ⟨?_, by simp [step]; omega⟩
    intro c hmem hcid
    simp only [step, List.mem_append, List.mem_singleton] at hmem
    rcases hmem with hmem | rfl
    · exact hc c hmem hcid
    · simp at hcid; omega
  | addHop i hp =>
    refine ⟨?_, by simpa [step] using hn⟩
    intro c hmem hcid
    simp only [step] at hmem
    rcases mem_modifyAt _ _ _ _ hmem with hm | ⟨c0, hm, rfl⟩
    · exact hc c hm hcid
    · exact hc c0 hm hcid
  | close i =>
    refine ⟨?_, by simpa [step] using hn⟩
    intro c hmem hcid
    simp only [step] at hmem
    rcases mem_modifyAt _ _ _ _ hmem with hm | ⟨c0, hm, rfl⟩
    · exact hc c hm hcid
    · rfl
  | remove i =>
    refine ⟨?_, by simpa [step] using hn⟩
    intro c hmem hcid
    simp only [step] at hmem
    exact hc c (List.mem_of_mem_eraseIdx hmem) hcid
  | removeRequest cid' =>
    refine ⟨?_, by simpa [step] using hn⟩
    intro c hmem hcid
    simp only [step, closeById, List.mem_map] at hmem
    obtain ⟨c0, hm, rfl⟩ := hmem
    by_cases h' : c0.cid = cid'
    · simp [h']
    · simp only [h', if_false] at hcid ⊢; exact hc c0 hm hcid
  | removeDone cid' =>
    refine ⟨?_, by simpa [step] using hn⟩
    intro c hmem hcid
    simp only [step, popById, List.mem_filter] at hmem
    exact hc c hmem.1 hcid
  | overlay cid' b => cases b <;> exact ⟨by simpa [step] using hc, by simpa [step] using hn⟩
  | _ => exact ⟨by simpa [step] using hc, by simpa [step] using hn⟩

theorem closedFor_runState (cid : Nat) (ops : List Op) (s : State) (h : ClosedFor cid s) :
    ClosedFor cid (runState s ops) := by
  induction ops generalizing s with
  | nil => exact h
  | cons o os ih => exact ih _ (closedFor_step cid s o h)

theorem closedFor_request (cid : Nat) (s : State) (h : cid < s.comm.nextId) :
    ClosedFor cid (step s (.removeRequest cid)).1 := by
  refine ⟨?_, by simpa [step] using h⟩
  intro c hmem hcid
  simp only [step, closeById, List.mem_map] at hmem
  obtain ⟨c0, _, rfl⟩ := hmem
  by_cases h' : c0.cid = cid
  · simp [h']
  · simp only [h', if_false] at hcid

/-! ### listeners -/

theorem dedupL_sub (ls : List Listener) (l : Listener) (h : l ∈ dedupL ls) : l ∈ ls := by
  induction ls with
  | nil => simp [dedupL] at h
  | cons x xs ih =>
    simp only [dedupL] at h
    split at h
    · exact List.mem_cons_of_mem _ (ih h)
    · rcases List.mem_cons.1 h with rfl | h
      · exact List.mem_cons_self
      · exact List.mem_cons_of_mem _ (ih h)

theorem dedupL_has_lid (ls : List Listener) (l : Listener) (h : l ∈ ls) : ∃ m ∈ dedupL ls, m.lid = l.lid := by
  induction ls with
  | nil => simp at h
  | cons x xs ih =>
    simp only [dedupL]
    rcases List.mem_cons.1 h with rfl | h
    · split
      · rename_i hany
        simp only [List.any_eq_true, decide_eq_true_eq] at hany
        exact hany
      · exact ⟨l, List.mem_cons_self, rfl⟩
    · obtain ⟨m, hm, hl⟩ := ih h
      split
      · exact ⟨m, hm, hl⟩
      · exact ⟨m, List.mem_cons_of_mem _ hm, hl⟩

theorem dedupL_nodup (ls : List Listener) : ((dedupL ls).map (·.lid)).Nodup := by
  induction ls with
  | nil => simp [dedupL]
  | cons x xs ih =>
    simp only [dedupL]
    split
    · exact ih
    · rename_i hany
      simp only [List.map_cons, List.nodup_cons]
      refine ⟨?_, ih⟩
      intro hmem
      apply hany
      simp only [List.mem_map] at hmem
      obtain ⟨m, hm, hl⟩ := hmem
      simp only [List.any_eq_true, decide_eq_true_eq]
      exact ⟨m, hm, hl⟩

/-- lifting a per-step fact that holds in every state to every entry of a trace -/
theorem trace_forall (P : State → Op → List Event → Prop) (hP : ∀ s o, P s o (step s o).2) :
    ∀ (ops : List Op) (s : State), ∀ x ∈ trace s ops, P x.1 x.2.1 x.2.2 := by
  intro ops
  induction ops with
  | nil => intro s x hx; simp [trace] at hx
  | cons o os ih =>
    intro s x hx
    simp only [trace, List.mem_cons] at hx
    rcases hx with rfl | hx
    · exact hP s o
    · exact ih _ x hx

/-- entries of a trace are (state reached by a prefix, next op, what that op emitted there) -/
theorem trace_mem (ops : List Op) (s : State) (x : State × Op × List Event) (hx : x ∈ trace s ops) :
    ∃ pre post, ops = pre ++ x.2.1 :: post ∧ x.1 = runState s pre ∧ x.2.2 = (step x.1 x.2.1).2 := by
  induction ops generalizing s with
  | nil => simp [trace] at hx
  | cons o os ih =>
    simp only [trace, List.mem_cons] at hx
    rcases hx with rfl | hx
    · exact ⟨[], os, rfl, rfl, rfl⟩
    · obtain ⟨pre, post, h1, h2, h3⟩ := ih _ hx
      exact ⟨o :: pre, post, by simp [h1], by simp [runState, h2], h3⟩

theorem runState_append (s : State) (xs ys : List Op) :
    runState s (xs ++ ys) = runState (runState s xs) ys := by
  induction xs generalizing s with
  | nil => rfl
  | cons o os ih => simp [runState, ih]

end Ipv8.C07
