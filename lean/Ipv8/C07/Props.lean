/-
  C07 — property theorems.  Every `theorem` in this file is an obligation of the check.

  Property: every packet of an overlay that asked for anonymity is either carried as tunnel data over a ready circuit
  of the configured length ending in an IPv8-capable exit, held in a bounded queue until such a circuit exists, or
  dropped; it is never handed to the raw socket.  Overlays that did not ask for anonymity are unaffected.

  All statements quantify over EVERY start state `s` (or the initial state of an endpoint with any queue bound) and
  EVERY finite history `ops : List Op` — sends by any prefix, anonymity toggles, tunnel community attached/detached
  with any hop count, circuits appearing / gaining hops / closing / disappearing, circuit creation succeeding or not,
  listeners, deliveries — without bound on length.  `trace s ops` lists, for every op of the history, the state it
  ran in and the events it emitted; `Event.raw` is a call of the wrapped endpoint's `send`, `Event.data` a call of
  `TunnelCommunity.send_data`.  `Circuit.state`, `Circuit.exitFlags`, `sendFind` (the `find_circuits` call of `send`),
  `queueCap`, `prefixLen`, `communityPrefixHead` are GENERATED from the source on every run.
-/
import Ipv8.C07.Lemmas

namespace Ipv8.C07

/-- **No raw leak.**  Whatever the history, the only things ever handed to the wrapped endpoint's `send` are the
    packet of the `send` call being executed, and only if its prefix is not anonymized at that moment. -/
theorem no_raw_leak (s : State) (ops : List Op) :
    ∀ x ∈ trace s ops, ∀ a p, Event.raw a p ∈ x.2.2 → x.2.1 = .send a p ∧ x.1.anonymized p = false := by
  apply trace_forall (fun st o evs => ∀ a p, Event.raw a p ∈ evs → o = .send a p ∧ st.anonymized p = false)
  intro st o a p hmem
  cases o with
  | send a' p' =>
    simp only [step] at hmem
    rcases send_cases st a' p' with ⟨h, e⟩ | ⟨_, _, e⟩ | ⟨_, _, c, _, e⟩ | ⟨_, _, _, _, e⟩ | ⟨_, _, _, _, e⟩
    · rw [e] at hmem; simp at hmem; obtain ⟨rfl, rfl⟩ := hmem; exact ⟨rfl, h⟩
    · rw [e] at hmem; simp at hmem
    · rw [e] at hmem; exact absurd hmem (sendOver_noraw st c a' p' a p)
    · rw [e] at hmem; simp at hmem
    · rw [e] at hmem; simp at hmem
  | notify b q => simp [step, notify] at hmem
  | _ => simp [step] at hmem <;> (split at hmem <;> simp at hmem)

/-- **Tunnelled only over a ready circuit of the configured length ending in an IPv8 exit.**  Every `send_data` call of
    every history happens inside a `send` of an anonymized packet while a tunnel community is attached, over a
    registered circuit that is READY (not closing, all goal hops verified), of type DATA, with
    `goal_hops = ` the configured hop count, whose LAST hop advertises PEER_FLAG_EXIT_IPV8; it is addressed to that
    circuit's first hop and carries, unmodified, either the packet being sent or one that was waiting in the queue. -/
theorem tunnelled_only_over_ready_exit_circuit (s : State) (ops : List Op) :
    ∀ x ∈ trace s ops, ∀ cid tgt d p, Event.data cid tgt d p ∈ x.2.2 →
      x.1.attached = true ∧
      (∃ a' p', x.2.1 = .send a' p' ∧ x.1.anonymized p' = true ∧ ((d, p) = (a', p') ∨ (d, p) ∈ x.1.queue)) ∧
      ∃ c ∈ x.1.comm.circuits, c.cid = cid ∧ c.state = .ready ∧ c.closing = false ∧ c.goalHops ≤ c.hops.length ∧
        c.ctype = .data ∧ c.goalHops = x.1.hops ∧
        (∃ hp, c.hops.getLast? = some hp ∧ PEER_FLAG_EXIT_IPV8 ∈ hp.flags) ∧
        tgt = c.hops.head?.map (·.addr) := by
  apply trace_forall (fun st o evs => ∀ cid tgt d p, Event.data cid tgt d p ∈ evs →
      st.attached = true ∧
      (∃ a' p', o = .send a' p' ∧ st.anonymized p' = true ∧ ((d, p) = (a', p') ∨ (d, p) ∈ st.queue)) ∧
      ∃ c ∈ st.comm.circuits, c.cid = cid ∧ c.state = .ready ∧ c.closing = false ∧ c.goalHops ≤ c.hops.length ∧
        c.ctype = .data ∧ c.goalHops = st.hops ∧
        (∃ hp, c.hops.getLast? = some hp ∧ PEER_FLAG_EXIT_IPV8 ∈ hp.flags) ∧
        tgt = c.hops.head?.map (·.addr))
  intro st o cid tgt d p hmem
  cases o with
  | send a' p' =>
    simp only [step] at hmem
    rcases send_cases st a' p' with ⟨_, e⟩ | ⟨_, _, e⟩ | ⟨han, hat, c, hc, e⟩ | ⟨_, _, _, _, e⟩ | ⟨_, _, _, _, e⟩
    · rw [e] at hmem; simp at hmem
    · rw [e] at hmem; simp at hmem
    · rw [e] at hmem
      obtain ⟨hcm, hf, hr⟩ := pick_spec _ _ _ hc
      obtain ⟨hty, hgoal, hflag⟩ := sendFind_spec _ _ hf
      obtain ⟨hncl, hlen⟩ := (state_ready_iff c).1 hr
      obtain ⟨y, hy, heq⟩ := sendOver_data st c a' p' cid tgt d p hmem
      simp only [dataEv, Event.data.injEq] at heq
      obtain ⟨h1, h2, h3, h4⟩ := heq
      refine ⟨hat, ⟨a', p', rfl, han, ?_⟩, c, hcm, h1.symm, hr, hncl, hlen, hty, hgoal, exitFlags_spec c _ hflag, ?_⟩
      · rcases hy with hy | hy
        · left; rw [h3, h4, ← hy]
        · right; rw [h3, h4]; exact hy
      · rw [h2]; rfl
    · rw [e] at hmem; simp at hmem
    · rw [e] at hmem; simp at hmem
  | notify b q => simp [step, notify] at hmem
  | _ => simp [step] at hmem <;> (split at hmem <;> simp at hmem)

/-- **Only `send` drains the queue.**  No other event — a circuit completing or closing, attach / detach, a toggle, an
    overlay loading or unloading, a delivery — removes a waiting packet or hands anything to `send_data`: whatever
    leaves the queue does so inside a `send`, hence (previous theorem) over a usable circuit of the configured length.
    (Code outside `TunnelEndpoint` that flushes `send_queue` is outside this model; the harness judges such a flush by
    the same circuit criteria and reports the difference as a broken correspondence.) -/
theorem queue_only_drained_by_send (s : State) (o : Op) (hs : ∀ a p, o ≠ .send a p) :
    (step s o).1.queue = s.queue ∧ ∀ cid t d p, Event.data cid t d p ∉ (step s o).2 := by
  refine ⟨(step_queue_nonsend s o hs).1, ?_⟩
  intro cid t d p hmem
  cases o with
  | send a q => exact hs a q rfl
  | notify b q => simp [step, notify] at hmem
  | _ => simp [step] at hmem <;> (split at hmem <;> simp at hmem)

/-- **A circuit that is being torn down is ineligible at once.**  From the moment `remove_circuit(cid)` has been
    requested (destroy sent, `Circuit.close()` — this is also what `on_destroy` and `do_remove` trigger), through
    every later interleaving of sends, anonymity toggles, attach/detach, other circuits appearing / extending /
    closing, the delayed `circuits.pop(cid)` arriving or not, further removal requests … no `send_data` ever names
    circuit `cid` again: packets are queued (or use another READY circuit) instead.  (`cid < nextId`: the id has been
    handed out; in the MODEL ids are never reused.  The code draws random 32-bit ids and only avoids ids currently
    registered, so after the entry has been popped a new circuit may get the same id: the claim is about the circuit,
    not the number.  `removeRequest` stands for the point at which the `@task` body of `remove_circuit` has run up to
    its `await sleep`, one loop iteration after the call.) -/
theorem no_send_data_after_remove_request (s : State) (cid : Nat) (h : cid < s.comm.nextId) (ops : List Op) :
    ∀ x ∈ trace (step s (.removeRequest cid)).1 ops, ∀ tgt d p, Event.data cid tgt d p ∉ x.2.2 := by
  intro x hx tgt d p hmem
  obtain ⟨_, _, c, hc, hcid, _, hncl, _⟩ :=
    tunnelled_only_over_ready_exit_circuit _ ops x hx cid tgt d p hmem
  obtain ⟨pre, _, _, hst, _⟩ := trace_mem ops _ x hx
  have hinv := closedFor_runState cid pre _ (closedFor_request cid s h)
  rw [← hst] at hinv
  have := hinv.1 c hc hcid
  rw [hncl] at this; cases this

/-- **No `send_data` over a CLOSING circuit, for any interleaving.**  Whatever the history, the circuit a `send_data`
    names is, in the state in which that call happens, registered under that id with `_closing = False`; the moment
    the closing event (`Circuit.close()`, however it was reached) has happened, the next `send` already sees it. -/
theorem no_send_data_over_closing_circuit (s : State) (ops : List Op) :
    ∀ x ∈ trace s ops, ∀ cid tgt d p, Event.data cid tgt d p ∈ x.2.2 →
      ∃ c ∈ x.1.comm.circuits, c.cid = cid ∧ c.closing = false ∧ c.state ≠ .closing := by
  intro x hx cid tgt d p hmem
  obtain ⟨_, _, c, hc, hcid, hr, hncl, _⟩ := tunnelled_only_over_ready_exit_circuit s ops x hx cid tgt d p hmem
  exact ⟨c, hc, hcid, hncl, by rw [hr]; simp⟩

/-- **Tunnelled, queued or dropped — nothing else; queued only while no usable circuit exists.**  A `send` of an
    anonymized packet has exactly one of three outcomes, each with its exact effect:
    * a tunnel community is attached and SOME registered circuit passes the `find_circuits` filter and is READY: the
      first such circuit carries the packet and then the backlog as `send_data` (`sendOver`; if no `send_data` raises,
      everything goes out and the queue is emptied);
    * a tunnel community is attached and NO registered circuit both passes the filter and is READY: the packet is
      appended to the bounded queue (the oldest entry falls out if full; a circuit is requested if none matched at
      all); no `send_data`, no raw;
    * no tunnel community: nothing changes and nothing is emitted (the packet is dropped). -/
theorem anonymized_send_outcome (s : State) (a : Addr) (p : Bytes) (h : s.anonymized p = true) :
    (s.attached = true ∧ ∃ c ∈ s.comm.circuits, sendFind s.hops c = true ∧ c.state = .ready ∧
        send s a p = sendOver s c a p ∧
        (s.comm.failAfter = none →
          send s a p = ({ s with queue := [] }, dataEv c (a, p) :: s.queue.map (dataEv c))))
    ∨ (s.attached = true ∧ (∀ c ∈ s.comm.circuits, sendFind s.hops c = true → c.state ≠ .ready) ∧
        (send s a p).1.queue = (dequeAppend s.cap s.queue (a, p)).1 ∧
        (∀ e ∈ (send s a p).2, (∃ h f m, e = .create h f m) ∨ (∃ x ∈ s.queue ++ [(a, p)], e = .drop true x.1 x.2)))
    ∨ (s.attached = false ∧ send s a p = (s, [.drop false a p])) := by
  rcases send_cases s a p with ⟨h', _⟩ | ⟨_, hd, e⟩ | ⟨_, hat, c, hc, e⟩ | ⟨_, hat, hc, _, e⟩ | ⟨_, hat, hc, _, e⟩
  · rw [h] at h'; cases h'
  · exact Or.inr (Or.inr ⟨hd, e⟩)
  · obtain ⟨hcm, hf, hr⟩ := pick_spec _ _ _ hc
    exact Or.inl ⟨hat, c, hcm, hf, hr, e, fun hnf => by rw [e, sendOver_nofail s c a p hnf]⟩
  · refine Or.inr (Or.inl ⟨hat, pick_none _ _ hc, by rw [e], ?_⟩)
    rw [e]; intro ev hev
    simp only [List.mem_map] at hev
    obtain ⟨x, hx, rfl⟩ := hev
    refine Or.inr ⟨x, ?_, rfl⟩
    rw [← dequeAppend_parts s.cap s.queue (a, p)]; exact List.mem_append_left _ hx
  · refine Or.inr (Or.inl ⟨hat, pick_none _ _ hc, by rw [e], ?_⟩)
    rw [e]; intro ev hev
    simp only [List.mem_cons, List.mem_map] at hev
    rcases hev with rfl | ⟨x, hx, rfl⟩
    · exact Or.inl ⟨_, _, _, rfl⟩
    · refine Or.inr ⟨x, ?_, rfl⟩
      rw [← dequeAppend_parts s.cap s.queue (a, p)]; exact List.mem_append_left _ hx

/- FULL STATEMENT of the clause "held in a bounded queue UNTIL such a circuit exists" (not provable for this code):
     whenever a registered circuit is READY, of the configured length, with an IPv8 exit, the queue is empty —
       ∀ ops s, let s' := runState s ops;
         (∃ c ∈ s'.comm.circuits, sendFind s'.hops c = true ∧ c.state = .ready) → s'.attached = true → s'.queue = []
   It fails because nothing flushes the queue at the moment a circuit BECOMES ready (`addHop`) or the community is
   re-attached: the backlog waits for the next anonymized `send` (witness below).  What is proved is the part that
   concerns every `send`: -/

/-- **Held only while no usable circuit exists (the part that holds).**  If, when an anonymized packet is sent with
    a tunnel community attached, some registered circuit passes the filter (DATA, configured length, IPv8 exit) and is
    READY — wherever it sits in the circuit table, whatever closing or extending circuits precede it — then neither
    that packet nor any backlog is left waiting: every packet of `(a, p) :: queue` is handed to `send_data`, or lost
    to a raising `send_data`, or (only after such a raise) still queued; without a raise the queue is empty. -/
theorem held_until_ready_circuit_exists_partial (s : State) (a : Addr) (p : Bytes) (h : s.anonymized p = true)
    (hat : s.attached = true) (c : Circuit) (hc : c ∈ s.comm.circuits) (hf : sendFind s.hops c = true)
    (hr : c.state = .ready) :
    (∃ c', s.comm.pick s.hops = some c' ∧ send s a p = sendOver s c' a p) ∧
    (s.comm.failAfter = none → (send s a p).1.queue = [] ∧ (send s a p).2.length = s.queue.length + 1) := by
  rcases send_cases s a p with ⟨h', _⟩ | ⟨_, hd, _⟩ | ⟨_, _, c', hc', e⟩ | ⟨_, _, hn, _, _⟩ | ⟨_, _, hn, _, _⟩
  · rw [h] at h'; cases h'
  · rw [hat] at hd; cases hd
  · refine ⟨⟨c', hc', e⟩, fun hnf => ?_⟩
    rw [e, sendOver_nofail s c' a p hnf]; simp
  · exact absurd hr (pick_none _ _ hn c hc hf)
  · exact absurd hr (pick_none _ _ hn c hc hf)

/-- the witness that the full statement fails: a circuit becomes READY while a packet waits, and nothing happens -/
theorem held_until_ready_circuit_exists_fails :
    ∃ (s : State) (ops : List Op),
      (∃ c ∈ (runState s ops).comm.circuits, sendFind (runState s ops).hops c = true ∧ c.state = .ready) ∧
      (runState s ops).attached = true ∧ (runState s ops).queue ≠ [] :=
  ⟨init 2, [.setAnonymity (communityPrefixHead ++ List.replicate 20 0xAA) true, .setTunnelCommunity true 1,
            .send 3 (communityPrefixHead ++ List.replicate 20 0xAA ++ [1]), .addHop 0 { addr := 7, flags := [4] }],
   by decide⟩

/-- **A failing `send_data` never falls back to the raw socket.**  Whatever the fault injection (`setFail`), an
    anonymized `send` emits no raw event; the packet whose `send_data` raised is lost, the rest stays queued. -/
theorem anonymized_send_never_raw (s : State) (a : Addr) (p : Bytes) (h : s.anonymized p = true) :
    ∀ a' p', Event.raw a' p' ∉ (send s a p).2 := by
  intro a' p' hmem
  rcases send_cases s a p with ⟨h', _⟩ | ⟨_, _, e⟩ | ⟨_, _, c, _, e⟩ | ⟨_, _, _, _, e⟩ | ⟨_, _, _, _, e⟩
  · rw [h] at h'; cases h'
  · rw [e] at hmem; simp at hmem
  · rw [e] at hmem; exact sendOver_noraw s c a p a' p' hmem
  · rw [e] at hmem; simp at hmem
  · rw [e] at hmem; simp at hmem

/-- **Attaching the tunnel community leaves every other overlay's opt-in alone.**  `TunnelCommunity.__init__` on this
    endpoint sets the community, the default hop count and `set_anonymity(own prefix, False)`; the anonymity of every
    packet whose 22-byte prefix is not the tunnel community's own is unchanged. -/
theorem attach_keeps_other_overlays_anonymized (s : State) (pfx p : Bytes) (h : p.take prefixLen ≠ pfx) :
    (step s (.attachCommunity pfx)).1.anonymized p = s.anonymized p ∧
    (step s (.attachCommunity pfx)).1.attached = true ∧ (step s (.attachCommunity pfx)).2 = [] := by
  refine ⟨?_, rfl, rfl⟩
  simp only [step, State.anonymized, dictGet_dictSet]
  rw [if_neg (fun hh => h hh.symm)]

/-- **The queue is bounded.**  From any state whose queue respects its bound, after any history the queue still
    respects the same bound. -/
theorem queue_bounded (ops : List Op) (s : State) (h : s.queue.length ≤ s.cap) :
    (runState s ops).queue.length ≤ (runState s ops).cap ∧ (runState s ops).cap = s.cap := by
  induction ops generalizing s with
  | nil => exact ⟨h, rfl⟩
  | cons o os ih =>
    have hstep : (step s o).1.queue.length ≤ (step s o).1.cap := by
      rw [step_cap]
      cases o with
      | send a p =>
        simp only [step]
        rcases send_cases s a p with ⟨_, e⟩ | ⟨_, _, e⟩ | ⟨_, _, c, _, e⟩ | ⟨_, _, _, _, e⟩ | ⟨_, _, _, _, e⟩
        · rw [e]; exact h
        · rw [e]; exact h
        · rw [e]; exact Nat.le_trans (sendOver_queue_len s c a p) h
        · rw [e]; exact dequeAppend_length _ _ _
        · rw [e]; exact dequeAppend_length _ _ _
      | _ => rw [(step_queue_nonsend s _ (by intro a p; simp)).1]; exact h
    obtain ⟨h1, h2⟩ := ih _ hstep
    exact ⟨h1, by show (runState (step s o).1 os).cap = s.cap; rw [h2, step_cap]⟩

/-- … in particular for a fresh endpoint, with the bound the code configures (`deque(maxlen=queueCap)`). -/
theorem queue_bounded_init (ops : List Op) : (runState (init queueCap) ops).queue.length ≤ queueCap := by
  have := queue_bounded ops (init queueCap) (by simp [init])
  rw [this.2] at this; exact this.1

/-- **Only anonymized sends ever wait in the queue.**  Whatever is in the queue after a history was either there at
    the start or is the argument of an earlier `send` whose prefix was anonymized when it was called. -/
theorem queue_holds_only_anonymized_sends (ops : List Op) (s : State) (x : Addr × Bytes)
    (hx : x ∈ (runState s ops).queue) :
    x ∈ s.queue ∨ ∃ pre post, ops = pre ++ .send x.1 x.2 :: post ∧ (runState s pre).anonymized x.2 = true := by
  induction ops generalizing s with
  | nil => exact Or.inl hx
  | cons o os ih =>
    rcases ih _ hx with h | ⟨pre, post, h1, h2⟩
    · -- x is in the queue right after `o`
      cases o with
      | send a p =>
        simp only [step] at h
        rcases send_cases s a p with ⟨_, e⟩ | ⟨_, _, e⟩ | ⟨_, _, c, _, e⟩ | ⟨han, _, _, _, e⟩ | ⟨han, _, _, _, e⟩
        · rw [e] at h; exact Or.inl h
        · rw [e] at h; exact Or.inl h
        · rw [e] at h; exact Or.inl (sendOver_queue_mem s c a p x h)
        · rw [e] at h
          rcases dequeAppend_mem _ _ _ _ h with h | rfl
          · exact Or.inl h
          · exact Or.inr ⟨[], os, rfl, han⟩
        · rw [e] at h
          rcases dequeAppend_mem _ _ _ _ h with h | rfl
          · exact Or.inl h
          · exact Or.inr ⟨[], os, rfl, han⟩
      | _ => rw [(step_queue_nonsend s _ (by intro a p; simp)).1] at h; exact Or.inl h
    · exact Or.inr ⟨o :: pre, post, by simp [h1], by simpa [runState] using h2⟩

/-- **Every tunnelled packet is an anonymized send of this history.**  Starting from a fresh endpoint, each
    `send_data` call carries a (destination, packet) pair that some `send` op at or before that point supplied while
    its prefix was anonymized. -/
theorem tunnelled_packets_were_anonymized_sends (cap : Nat) (ops : List Op) :
    ∀ x ∈ trace (init cap) ops, ∀ cid tgt d p, Event.data cid tgt d p ∈ x.2.2 →
      ∃ pre post, ops = pre ++ .send d p :: post ∧ (runState (init cap) pre).anonymized p = true := by
  intro x hx cid tgt d p hmem
  obtain ⟨_, ⟨a', p', hop, han, hwhich⟩, _⟩ := tunnelled_only_over_ready_exit_circuit (init cap) ops x hx cid tgt d p hmem
  obtain ⟨pre, post, hops, hst, _⟩ := trace_mem ops (init cap) x hx
  rcases hwhich with heq | hq
  · cases heq
    exact ⟨pre, post, by rw [hops, hop], by rw [← hst]; exact han⟩
  · rw [hst] at hq
    rcases queue_holds_only_anonymized_sends pre (init cap) (d, p) hq with h | ⟨pre', post', h1, h2⟩
    · simp [init] at h
    · exact ⟨pre', post' ++ x.2.1 :: post, by rw [hops, h1]; simp, h2⟩

/-- **Nothing is duplicated or invented.**  For an anonymized `send`, the packets that were waiting plus the new
    one are exactly (as a multiset) what is tunnelled now, what is dropped or lost to a raising `send_data` now
    (`goneOf`) and what waits afterwards. -/
theorem send_conserves_packets (s : State) (a : Addr) (p : Bytes) (h : s.anonymized p = true) :
    List.Perm ((a, p) :: s.queue) (goneOf (send s a p).2 ++ (send s a p).1.queue) := by
  rcases send_cases s a p with ⟨h', _⟩ | ⟨_, _, e⟩ | ⟨_, _, c, _, e⟩ | ⟨_, _, _, _, e⟩ | ⟨_, _, _, _, e⟩
  · rw [h] at h'; cases h'
  · rw [e]; simp [goneOf]
  · rw [e, sendOver_conserve]
  · rw [e]; simp only [goneOf_drops]
    rw [dequeAppend_parts]
    exact (List.perm_append_singleton _ _).symm
  · rw [e]
    have : goneOf (Event.create (sendCreateHops s.hops) sendCreateFlags
        (s.comm.create (sendCreateHops s.hops) sendCreateCtype).2 ::
        (dequeAppend s.cap s.queue (a, p)).2.map (fun x => Event.drop true x.1 x.2))
        = (dequeAppend s.cap s.queue (a, p)).2 := by
      have := goneOf_drops (dequeAppend s.cap s.queue (a, p)).2 true
      simp only [goneOf, List.filterMap_cons] at this ⊢
      exact this
    rw [this, dequeAppend_parts]
    exact (List.perm_append_singleton _ _).symm

/-- **Plain overlays are unaffected (one call).**  A `send` whose prefix is not anonymized hands exactly that packet
    to the wrapped endpoint, once, and changes nothing — whatever the tunnel community, circuits or queue look like. -/
theorem plain_send_unaffected (s : State) (a : Addr) (p : Bytes) (h : s.anonymized p = false) :
    step s (.send a p) = (s, [.raw a p]) := by
  simp [step, send_plain s a p h]

/- FULL STATEMENT of "overlays that did not ask for anonymity are unaffected", per overlay (FALSE for this code):
     a packet sent while no LOADED overlay with its prefix asked for anonymity (and nobody switched the prefix on
     explicitly) is handed to the raw socket.
   The per-prefix switch outlives the overlay that set it (`Community.unload` does not revoke it, and cannot simply do
   so: another anonymized instance may share the prefix), so a plain overlay loaded later under the same community id
   is tunnelled / queued / dropped.  Known finding `Community.unload:stale-opt-in`; witness and the part that holds: -/

/-- the witness: anonymized overlay loaded and unloaded, then a plain overlay under the same id sends — dropped, not raw -/
theorem plain_overlay_after_unload_is_affected :
    ∃ (cid : Bytes) (a : Addr) (body : Bytes), cid.length = 20 ∧
      ((trace (init 2) [.overlay cid true, .unloadOverlay 1000, .overlay cid false,
                        .send a (overlayPrefix cid ++ body)]).map (·.2.2)).getLast?
        = some [.drop false a (overlayPrefix cid ++ body)] :=
  ⟨List.replicate 20 0xAA, 3, [1], by decide, by decide⟩

/-- **Plain overlays are unaffected as long as nobody ever opted that prefix in.**  From a fresh endpoint, through any
    history in which no overlay with this prefix is loaded with `anonymize` and nobody calls `set_anonymity(prefix,
    True)`, every packet with that prefix is sent raw, unchanged, whatever else happens (other overlays opting in,
    tunnel communities, circuits, unloads). -/
theorem plain_overlays_unaffected_partial (cap : Nat) (pfx : Bytes) (ops : List Op)
    (hno : ∀ o ∈ ops, o ≠ .setAnonymity pfx true ∧ ∀ cid, o = .overlay cid true → overlayPrefix cid ≠ pfx)
    (a : Addr) (p : Bytes) (hp : p.take prefixLen = pfx) :
    step (runState (init cap) ops) (.send a p) = (runState (init cap) ops, [.raw a p]) := by
  have key : ∀ (ops : List Op) (s : State), dictGet s.settings pfx ≠ some true →
      (∀ o ∈ ops, o ≠ .setAnonymity pfx true ∧ ∀ cid, o = .overlay cid true → overlayPrefix cid ≠ pfx) →
      dictGet (runState s ops).settings pfx ≠ some true := by
    intro ops
    induction ops with
    | nil => intro s h _; exact h
    | cons o os ih =>
      intro s h hn
      apply ih
      · rw [step_settings]
        exact dictGet_settingsStep_plain _ _ _ h (hn o (by simp)).1 (hn o (by simp)).2
      · intro o' ho'; exact hn o' (by simp [ho'])
  have h := key ops (init cap) (by simp [init, dictGet]) hno
  apply plain_send_unaffected
  simp only [State.anonymized, hp]
  cases hg : dictGet (runState (init cap) ops).settings pfx with
  | none => rfl
  | some b => cases b
              · rfl
              · exact absurd hg h

/-- **Plain overlays are unaffected (whole histories).**  The sequence of packets handed to the raw socket during any
    history is a function of the `set_anonymity` / opt-in ops and the sends alone (`plainSends` never looks at
    circuits, the tunnel community, the queue or listeners): exactly the sends whose prefix was not anonymized when
    they were made, each once, in order. -/
theorem plain_traffic_unaffected (ops : List Op) (s : State) :
    rawOf (allEvents (trace s ops)) = plainSends s.settings ops := by
  induction ops generalizing s with
  | nil => rfl
  | cons o os ih =>
    have := ih (step s o).1
    simp only [allEvents, trace, List.flatMap_cons, rawOf, List.filterMap_append, plainSends] at this ⊢
    rw [this, step_settings]
    congr 1
    exact step_rawOf s o

/-- … hence two endpoints with the same anonymity settings emit the same raw traffic for the same history, however
    different their tunnel communities, circuits and queues are. -/
theorem plain_traffic_independent_of_tunnels (ops : List Op) (s₁ s₂ : State) (h : s₁.settings = s₂.settings) :
    rawOf (allEvents (trace s₁ ops)) = rawOf (allEvents (trace s₂ ops)) := by
  rw [plain_traffic_unaffected, plain_traffic_unaffected, h]

/-- **The opt-in works.**  Constructing an overlay with `settings.anonymize` marks every packet that starts with the
    overlay's prefix (`b"\x00" + version + community_id`, 20-byte id) as anonymized. -/
theorem overlay_opts_in (s : State) (cid body : Bytes) (hlen : cid.length = 20) :
    (step s (.overlay cid true)).1.anonymized (overlayPrefix cid ++ body) = true := by
  have hl : (overlayPrefix cid).length = prefixLen := by
    simp [overlayPrefix, communityPrefixHead, prefixLen, hlen]
  have ht : (overlayPrefix cid ++ body).take prefixLen = overlayPrefix cid := by
    rw [← hl]; exact List.take_left
  simp [step, State.anonymized, ht, dictGet_dictSet]

/-- **Once a prefix is anonymized it never reaches the raw socket** (state form of the next theorem): from any state
    whose settings hold `True` for a 22-byte prefix, through any history without `set_anonymity(prefix, False)` and
    without a tunnel community of that very prefix being attached. -/
theorem anonymized_prefix_never_raw (s : State) (pfx : Bytes) (hl : pfx.length = prefixLen)
    (h0 : dictGet s.settings pfx = some true) (ops : List Op)
    (hno : ∀ o ∈ ops, o ≠ .setAnonymity pfx false ∧ o ≠ .attachCommunity pfx) :
    ∀ x ∈ trace s ops, ∀ a body, Event.raw a (pfx ++ body) ∉ x.2.2 := by
  intro x hx a body hmem
  obtain ⟨_, hplain⟩ := no_raw_leak _ ops x hx a _ hmem
  obtain ⟨pre, post, hops, hst, _⟩ := trace_mem ops _ x hx
  have ht : (pfx ++ body).take prefixLen = pfx := by rw [← hl]; exact List.take_left
  have hk := runState_keeps_anonymized pre _ _ h0 (by
    intro o ho; exact hno o (by rw [hops]; simp [ho]))
  rw [hst] at hplain
  simp [State.anonymized, ht, hk] at hplain

/-- **Anonymized overlays never send from the node's own address.**  Once an overlay has opted in, then through any
    history in which nobody switches its prefix off again, no packet starting with that overlay's prefix is ever
    handed to the wrapped endpoint's `send` — with or without tunnel community, circuits, queue space. -/
theorem anonymized_overlay_never_raw (s : State) (cid : Bytes) (hlen : cid.length = 20) (ops : List Op)
    (hno : ∀ o ∈ ops, o ≠ .setAnonymity (overlayPrefix cid) false ∧ o ≠ .attachCommunity (overlayPrefix cid)) :
    ∀ x ∈ trace (step s (.overlay cid true)).1 ops, ∀ a body, Event.raw a (overlayPrefix cid ++ body) ∉ x.2.2 := by
  intro x hx a body hmem
  obtain ⟨_, hplain⟩ := no_raw_leak _ ops x hx a _ hmem
  obtain ⟨pre, post, hops, hst, _⟩ := trace_mem ops _ x hx
  have hl : (overlayPrefix cid).length = prefixLen := by
    simp [overlayPrefix, communityPrefixHead, prefixLen, hlen]
  have ht : (overlayPrefix cid ++ body).take prefixLen = overlayPrefix cid := by
    rw [← hl]; exact List.take_left
  have h0 : dictGet (step s (.overlay cid true)).1.settings (overlayPrefix cid) = some true := by
    simp [step, dictGet_dictSet]
  have hk := runState_keeps_anonymized pre _ _ h0 (by
    intro o ho; exact hno o (by rw [hops]; simp [ho]))
  rw [hst] at hplain
  simp [State.anonymized, ht, hk] at hplain

/-- **Loading a plain overlay revokes nothing.**  `Community.__init__` without `settings.anonymize` registers the
    overlay as a listener for its prefix and otherwise leaves the endpoint exactly as it was — in particular the
    anonymity another overlay instance (or an explicit `set_anonymity`) enabled for the same community id / prefix. -/
theorem plain_overlay_load_changes_nothing (s : State) (cid : Bytes) :
    step s (.overlay cid false) =
      ({ s with plisteners := s.plisteners ++ [(overlayPrefix cid, { lid := 1000 + s.nextOverlay, anonymize := some false })],
                nextOverlay := s.nextOverlay + 1 }, []) := by
  simp [step]

/-- **Overlays that share a prefix.**  After an overlay has opted in, loading any number of further overlay
    instances — anonymized or plain, under the same community id or others — interleaved with anything except an
    explicit `set_anonymity(prefix, False)`, never lets a packet with that prefix reach the raw socket.  (This is
    `anonymized_overlay_never_raw` with the later loads spelled out as part of the history.) -/
theorem shared_prefix_stays_anonymized (s : State) (cid : Bytes) (hlen : cid.length = 20) (pre post : List Op)
    (others : List (Bytes × Bool))
    (hpre : ∀ o ∈ pre, o ≠ .setAnonymity (overlayPrefix cid) false ∧ o ≠ .attachCommunity (overlayPrefix cid))
    (hpost : ∀ o ∈ post, o ≠ .setAnonymity (overlayPrefix cid) false ∧ o ≠ .attachCommunity (overlayPrefix cid)) :
    ∀ x ∈ trace (step s (.overlay cid true)).1 (pre ++ others.map (fun cb => Op.overlay cb.1 cb.2) ++ post),
      ∀ a body, Event.raw a (overlayPrefix cid ++ body) ∉ x.2.2 := by
  apply anonymized_overlay_never_raw s cid hlen
  intro o ho
  simp only [List.mem_append, List.mem_map] at ho
  rcases ho with (ho | ⟨cb, _, rfl⟩) | ho
  · exact hpre o ho
  · simp
  · exact hpost o ho

/-- **The service hands every overlay the TunnelEndpoint itself.**  Whatever `enable_statistics` is, when some configured
    overlay asks for anonymity the outermost decorator `IPv8.__init__` builds (generated `serviceWrappers`) is the
    TunnelEndpoint — which is what `Community.__init__`'s `isinstance(self.endpoint, TunnelEndpoint)` guard (translated as
    `optInNeedsTunnelEndpoint`, read by `serviceOps`) needs. -/
theorem service_hands_overlays_the_tunnel_endpoint (stats : Bool) :
    (serviceWrappers stats true).getLast? = some .tunnel := by
  cases stats <;> decide

/-- **The opt-in silently fails behind a decorator.**  (Why the order above matters.)  An overlay constructed with
    `anonymize` over an endpoint that merely forwards to a TunnelEndpoint is not anonymized: its packets are sent raw. -/
theorem optin_fails_behind_a_decorator :
    ∃ (s : State) (cid : Bytes) (a : Addr) (body : Bytes), cid.length = 20 ∧
      (step (step s (.overlayForeign cid true)).1 (.send a (overlayPrefix cid ++ body))).2
        = [.raw a (overlayPrefix cid ++ body)] :=
  ⟨init 2, List.replicate 20 0xAA, 3, [1], by decide, by decide⟩

/-- **An overlay configured with `anonymize` in the IPv8 service never sends raw.**  After `IPv8.__init__` has loaded
    the configured overlays (any statistics setting, any mix of anonymized and plain overlays, shared ids included),
    through any later history without an explicit `set_anonymity(prefix, False)` / a tunnel community of that prefix,
    no packet with the prefix of an overlay configured with `anonymize: True` reaches the raw socket. -/
theorem service_anonymized_overlay_never_raw (cap : Nat) (stats : Bool) (ovs : List (Bytes × Bool)) (cid : Bytes)
    (hin : (cid, true) ∈ ovs) (hlen : cid.length = 20) (ops : List Op)
    (hno : ∀ o ∈ ops, o ≠ .setAnonymity (overlayPrefix cid) false ∧ o ≠ .attachCommunity (overlayPrefix cid)) :
    ∀ x ∈ trace (runState (init cap) (serviceOps stats ovs)) ops,
      ∀ a body, Event.raw a (overlayPrefix cid ++ body) ∉ x.2.2 := by
  have hl : (overlayPrefix cid).length = prefixLen := by
    simp [overlayPrefix, communityPrefixHead, prefixLen, hlen]
  have hany : ovs.any (·.2) = true := List.any_eq_true.2 ⟨(cid, true), hin, rfl⟩
  have htop : (serviceWrappers stats (ovs.any (·.2))).getLast? = some .tunnel := by
    rw [hany]; exact service_hands_overlays_the_tunnel_endpoint stats
  have hops : serviceOps stats ovs = ovs.map (fun o => Op.overlay o.1 o.2) := by
    simp [serviceOps, htop]
  obtain ⟨l1, l2, rfl⟩ := List.append_of_mem hin
  apply anonymized_prefix_never_raw _ _ hl _ ops hno
  rw [hops, List.map_append, List.map_cons, runState_append]
  simp only [runState]
  apply runState_keeps_anonymized
  · simp [step, dictGet_dictSet]
  · intro o ho
    simp only [List.mem_map] at ho
    obtain ⟨e, _, rfl⟩ := ho
    simp

/-- **A pseudonym loaded while a hidden tunnel community runs is anonymized as a whole.**  After
    `CommunicationManager.load` (generated `pseudonymAnonymize`) with a HiddenTunnelCommunity present, through any later
    history without an explicit switch-off, neither the identity overlay's nor the attestation overlay's packets — the
    two share one TunnelEndpoint — are ever handed to the pseudonym's raw socket. -/
theorem pseudonym_overlays_never_raw (cap : Nat) (idCid atCid cid : Bytes) (hc : cid = idCid ∨ cid = atCid)
    (hlen : cid.length = 20) (ops : List Op)
    (hno : ∀ o ∈ ops, o ≠ .setAnonymity (overlayPrefix cid) false ∧ o ≠ .attachCommunity (overlayPrefix cid)) :
    ∀ x ∈ trace (runState (init cap) (pseudonymOps true idCid atCid)) ops,
      ∀ a body, Event.raw a (overlayPrefix cid ++ body) ∉ x.2.2 := by
  have hl : (overlayPrefix cid).length = prefixLen := by
    simp [overlayPrefix, communityPrefixHead, prefixLen, hlen]
  apply anonymized_prefix_never_raw _ _ hl _ ops hno
  rcases hc with rfl | rfl
  · simp only [pseudonymOps, pseudonymAnonymize, runState, step, init, if_true, dictGet_dictSet]
    split <;> simp
  · simp [pseudonymOps, pseudonymAnonymize, runState, step, init, dictGet_dictSet]

/-- **Delivery filter by origin.**  `TunnelEndpoint.notify_listeners((origin, p), from_tunnel)` offers the packet to
    exactly those listeners the wrapped endpoint has for it — the overlays registered for the packet's 22-byte prefix
    and the global listeners (`_prefix_map.get(prefix, _listeners)`) — whose `anonymize` attribute (absent = False)
    equals `from_tunnel`; each of them once; and it changes nothing.  (Listener ids are pairwise distinct.) -/
theorem delivery_filter (s : State) (ft : Bool) (p : Bytes) (lid : Nat)
    (hu : ∀ l m, (l ∈ s.listeners ∨ (p.take prefixLen, l) ∈ s.plisteners) →
                 (m ∈ s.listeners ∨ (p.take prefixLen, m) ∈ s.plisteners) → l.lid = m.lid → l = m) :
    (Event.deliver lid ∈ (step s (.notify ft p)).2 ↔
        ∃ l, (l ∈ s.listeners ∨ (p.take prefixLen, l) ∈ s.plisteners) ∧ l.lid = lid ∧ l.anonymize.getD false = ft)
    ∧ ((step s (.notify ft p)).2.filterMap (fun e => match e with | .deliver i => some i | _ => none)).Nodup
    ∧ (step s (.notify ft p)).1 = s := by
  have hcand : ∀ l, l ∈ ((s.plisteners.filter (fun e => e.1 = p.take prefixLen)).map (·.2)) ++ s.listeners ↔
      (l ∈ s.listeners ∨ (p.take prefixLen, l) ∈ s.plisteners) := by
    intro l
    simp only [List.mem_append, List.mem_map, List.mem_filter, decide_eq_true_eq]
    constructor
    · rintro (⟨e, ⟨he, hk⟩, rfl⟩ | h)
      · right; rw [← hk]; exact he
      · left; exact h
    · rintro (h | h)
      · right; exact h
      · left; exact ⟨(p.take prefixLen, l), ⟨h, rfl⟩, rfl⟩
  refine ⟨?_, ?_, rfl⟩
  · simp only [step, notify, State.listenersFor, List.mem_map, List.mem_filter, beq_iff_eq, Event.deliver.injEq]
    constructor
    · rintro ⟨l, ⟨hl, hf⟩, rfl⟩
      exact ⟨l, (hcand l).1 (dedupL_sub _ l hl), rfl, hf⟩
    · rintro ⟨l, hl, rfl, hf⟩
      obtain ⟨m, hm, hml⟩ := dedupL_has_lid _ l ((hcand l).2 hl)
      have : m = l := hu m l ((hcand m).1 (dedupL_sub _ m hm)) hl hml
      subst this
      exact ⟨m, ⟨hm, hf⟩, rfl⟩
  · simp only [step, notify, State.listenersFor]
    have hn := dedupL_nodup (((s.plisteners.filter (fun e => e.1 = p.take prefixLen)).map (·.2)) ++ s.listeners)
    generalize dedupL _ = L at hn ⊢
    induction L with
    | nil => simp
    | cons x xs ih =>
      simp only [List.map_cons, List.nodup_cons] at hn
      simp only [List.filter_cons]
      split
      · simp only [List.map_cons, List.filterMap_cons, List.nodup_cons]
        refine ⟨?_, ih hn.2⟩
        intro hmem
        apply hn.1
        simp only [List.mem_filterMap, List.mem_map, List.mem_filter] at hmem
        obtain ⟨e, ⟨l, ⟨hl, _⟩, rfl⟩, he⟩ := hmem
        simp at he
        exact List.mem_map.2 ⟨l, hl, he⟩
      · exact ih hn.2

/-- **An anonymized overlay receives tunnel traffic and only tunnel traffic; a plain overlay the mirror image.**
    Right after `Community.__init__` (20-byte id) the overlay is offered every packet with its prefix that
    `notify_listeners` is given with `from_tunnel = settings.anonymize`, and none given with the opposite origin —
    although it is registered by prefix only and does not sit in the wrapped endpoint's `_listeners`. -/
theorem overlay_receives_by_origin (s : State) (cid body : Bytes) (anon ft : Bool) (hlen : cid.length = 20)
    (hfresh : ∀ l, (l ∈ s.listeners ∨ (overlayPrefix cid, l) ∈ s.plisteners) → l.lid ≠ 1000 + s.nextOverlay) :
    (Event.deliver (1000 + s.nextOverlay) ∈
        (step (step s (.overlay cid anon)).1 (.notify ft (overlayPrefix cid ++ body))).2) ↔ ft = anon := by
  have hl : (overlayPrefix cid).length = prefixLen := by
    simp [overlayPrefix, communityPrefixHead, prefixLen, hlen]
  have ht : (overlayPrefix cid ++ body).take prefixLen = overlayPrefix cid := by
    rw [← hl]; exact List.take_left
  simp only [step, notify, State.listenersFor, ht, List.mem_map, List.mem_filter, beq_iff_eq, Event.deliver.injEq]
  constructor
  · rintro ⟨l, ⟨hl', hf⟩, hlid⟩
    have hmem := dedupL_sub _ l hl'
    simp only [List.filter_append, List.map_append, List.mem_append, List.mem_map, List.mem_filter,
      decide_eq_true_eq, List.mem_singleton] at hmem
    rcases hmem with (⟨e, ⟨he, hk⟩, rfl⟩ | ⟨e, ⟨rfl, _⟩, rfl⟩) | hg
    · exact absurd hlid (hfresh e.2 (Or.inr (by rw [← hk]; exact he)))
    · simp at hf; exact hf.symm
    · exact absurd hlid (hfresh l (Or.inl hg))
  · intro hft
    have hin : (Listener.mk (1000 + s.nextOverlay) (some anon)) ∈
        (((s.plisteners ++ [((overlayPrefix cid, Listener.mk (1000 + s.nextOverlay) (some anon)) : Bytes × Listener)]).filter
          (fun (e : Bytes × Listener) => decide (e.1 = overlayPrefix cid))).map (fun (e : Bytes × Listener) => e.2))
          ++ s.listeners := by
      simp [List.filter_append]
    obtain ⟨m, hm, hml⟩ := dedupL_has_lid _ _ hin
    have hmem := dedupL_sub _ m hm
    simp only [List.filter_append, List.map_append, List.mem_append, List.mem_map, List.mem_filter,
      decide_eq_true_eq, List.mem_singleton] at hmem
    rcases hmem with (⟨e, ⟨he, hk⟩, rfl⟩ | ⟨e, ⟨rfl, _⟩, rfl⟩) | hg
    · exact absurd hml (hfresh e.2 (Or.inr (by rw [← hk]; exact he)))
    · exact ⟨_, ⟨hm, by simp [hft]⟩, rfl⟩
    · exact absurd hml (hfresh m (Or.inl hg))

/-! ### non-vacuity: concrete states in which the interesting branches are taken -/

/-- a 22-byte prefix and a packet of that overlay -/
private def pfxA : Bytes := communityPrefixHead ++ List.replicate 20 0xAA
private def pktA (n : UInt8) : Bytes := pfxA ++ [n]
/-- attached community, hops = 1, one READY circuit whose single hop advertises {RELAY, EXIT_IPV8}, one queued packet -/
private def stReady : State :=
  { cap := 2, settings := [(pfxA, true)], queue := [(5, pktA 1)], hops := 1, attached := true,
    comm := { circuits := [{ cid := 9, goalHops := 1, ctype := .data, closing := false,
                              hops := [{ addr := 7, flags := [1, 4] }] }], nextId := 10, canCreate := true, failAfter := none },
    listeners := [{ lid := 1, anonymize := some true }, { lid := 2, anonymize := none }],
    plisteners := [], nextOverlay := 0 }

/-- tunnelled: new packet first, then the backlog, over circuit 9 via first hop 7; queue emptied -/
example : step stReady (.send 3 (pktA 2)) =
    ({ stReady with queue := [] }, [.data 9 (some 7) 3 (pktA 2), .data 9 (some 7) 5 (pktA 1)]) := by decide
/-- the same circuit while closing: queued, nothing emitted, bound respected by evicting the oldest -/
example : (runState stReady [.close 0, .send 3 (pktA 2), .send 3 (pktA 3)]).queue = [(3, pktA 2), (3, pktA 3)]
    ∧ (trace stReady [.close 0, .send 3 (pktA 2), .send 3 (pktA 3)]).map (·.2.2)
        = [[], [], [.drop true 5 (pktA 1)]] := by decide
/-- removal requested for the READY circuit 9 (`remove_circuit` before its delay has elapsed): the very next send is
    queued although the entry is still registered; after the pop the backlog goes over the new READY circuit -/
example : (trace stReady [.removeRequest 9, .send 3 (pktA 2), .newCircuit 1 .data,
      .addHop 1 { addr := 8, flags := [4] }, .removeDone 9, .send 3 (pktA 3)]).map (·.2.2)
    = [[], [], [], [], [], [.data 10 (some 8) 3 (pktA 3), .data 10 (some 8) 5 (pktA 1), .data 10 (some 8) 3 (pktA 2)]]
    ∧ (runState stReady [.removeRequest 9, .send 3 (pktA 2)]).comm.circuits.length = 1 := by decide
/-- a READY circuit behind a CLOSING one is used at once (since the repair of `send`; before it the packet was queued) -/
example : (trace stReady [.removeRequest 9, .newCircuit 1 .data, .addHop 1 { addr := 8, flags := [4] },
      .send 3 (pktA 3)]).map (·.2.2)
    = [[], [], [], [.data 10 (some 8) 3 (pktA 3), .data 10 (some 8) 5 (pktA 1)]] := by decide
/-- the second `send_data` raises: the first packet went out, the one popped for the failing call is lost, nothing raw -/
example : step { stReady with queue := [(5, pktA 1), (6, pktA 4)], comm := { stReady.comm with failAfter := some 1 } }
      (.send 3 (pktA 2))
    = ({ stReady with queue := [(6, pktA 4)] }, [.data 9 (some 7) 3 (pktA 2), .fail 5 (pktA 1)]) := by decide
/-- `TunnelCommunity.__init__` on the endpoint: attached with the default hop count, own prefix plain, others untouched -/
example : (step { stReady with attached := false, hops := 0 } (.attachCommunity (0 :: pfxA))).1
    = { stReady with settings := [(pfxA, true), (0 :: pfxA, false)] } := by decide
/-- detached: dropped, never raw -/
example : step { stReady with attached := false } (.send 3 (pktA 2)) =
    ({ stReady with attached := false }, [.drop false 3 (pktA 2)]) := by decide
/-- exit without EXIT_IPV8: not used; a new circuit is requested and the packet waits -/
example : (step { stReady with comm := { stReady.comm with circuits :=
      [{ cid := 9, goalHops := 1, ctype := .data, closing := false, hops := [{ addr := 7, flags := [1, 2] }] }] } }
      (.send 3 (pktA 2))).2 = [.create 1 (some [4]) (some 10)] := by decide
/-- plain overlay in the same state: raw, state untouched -/
example : step stReady (.send 3 (0 :: pktA 2)) = (stReady, [.raw 3 (0 :: pktA 2)]) := by decide
/-- the hypotheses of `anonymized_overlay_never_raw` are satisfiable by a history that does send that overlay's packets -/
example : ∃ ops : List Op, (∀ o ∈ ops, o ≠ .setAnonymity (overlayPrefix (List.replicate 20 0xAA)) false) ∧
    Op.send 3 (overlayPrefix (List.replicate 20 0xAA) ++ [1]) ∈ ops ∧
    (allEvents (trace (step (init 2) (.overlay (List.replicate 20 0xAA) true)).1 ops)).length = 3 :=
  ⟨[.send 3 (overlayPrefix (List.replicate 20 0xAA) ++ [1]), .setTunnelCommunity true 1,
    .send 3 (overlayPrefix (List.replicate 20 0xAA) ++ [1]), .send 3 (overlayPrefix (List.replicate 20 0xAA) ++ [1])],
   by decide, by decide, by decide⟩
/-- an anonymized overlay, then a plain instance of the same community id, then an unrelated plain overlay: the first
    overlay's packet is still not sent raw (queued behind a freshly requested circuit), the unrelated one's is -/
example : (trace (init 2) [.overlay (List.replicate 20 0xAA) true, .overlay (List.replicate 20 0xAA) false,
      .overlay (List.replicate 20 0xBB) false, .setTunnelCommunity true 1, .send 3 (pktA 1),
      .send 4 (overlayPrefix (List.replicate 20 0xBB) ++ [1])]).map (·.2.2)
    = [[], [], [], [], [.create 1 (some [4]) (some 1)], [.raw 4 (overlayPrefix (List.replicate 20 0xBB) ++ [1])]] := by
  decide
/-- delivery filter on a concrete listener set -/
example : (step stReady (.notify true (pktA 1))).2 = [.deliver 1] ∧ (step stReady (.notify false (pktA 1))).2 = [.deliver 2] := by
  decide
/-- an anonymized overlay and a plain one under the same community id, one global plain listener: tunnel traffic with
    that prefix goes to the anonymized overlay only, socket traffic to the plain overlay and the global listener;
    another prefix reaches the global listener only -/
example : (trace (init 2) [.overlay (List.replicate 20 0xAA) true, .overlay (List.replicate 20 0xAA) false,
      .addListener { lid := 2, anonymize := none }, .notify true (pktA 1), .notify false (pktA 1),
      .notify false (0 :: pktA 1), .unloadOverlay 1000, .notify true (pktA 1)]).map (·.2.2)
    = [[], [], [], [.deliver 1000], [.deliver 1001, .deliver 2], [.deliver 2], [], []] := by decide

end Ipv8.C07
