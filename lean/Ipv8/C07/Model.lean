/-
  C07 model (core Lean only): `TunnelEndpoint` over a tunnel community that owns a dict of circuits.

  Mirrors, statement by statement,
    ipv8/messaging/anonymization/endpoint.py   TunnelEndpoint.__init__, set_tunnel_community, set_anonymity, send,
                                               notify_listeners
    ipv8/community.py                          Community.__init__  (the `settings.anonymize` opt-in, prefix composition)
  and uses the GENERATED definitions of GenTunnel.lean for everything that is table-like:
    Circuit.state, Circuit.exit_flags, the filter of TunnelCommunity.find_circuits, the keyword arguments `send`
    passes to find_circuits / create_circuit, queue capacity, initial values, prefix length.

  The tunnel community itself is an environment: its circuits appear, gain hops, close and disappear through the
  `Op`s `newCircuit / addHop / close / remove`, its `create_circuit` either registers a fresh EXTENDING circuit or
  fails (no exit candidate known).  Python containers: `dict` = association list in insertion order with in-place
  update, `deque(maxlen=cap)` = list that drops from the left when full.
-/
import Ipv8.C07.GenTunnel

namespace Ipv8.C07

/-- the tunnel community as `TunnelEndpoint.send` sees it -/
structure Community where
  circuits : List Circuit      -- `self.circuits` (dict: insertion order, unique ids)
  nextId : Nat                 -- next circuit id handed out by create_circuit (ids are opaque tokens)
  canCreate : Bool             -- whether create_circuit finds a first hop / exit candidate
  failAfter : Option Nat       -- fault injection: how many more `send_cell` calls succeed before one raises
deriving Repr, DecidableEq

/-- an endpoint listener registered with the wrapped endpoint: id and its `anonymize` attribute (if it has one) -/
structure Listener where
  lid : Nat
  anonymize : Option Bool
deriving Repr, DecidableEq

structure State where
  cap : Nat                          -- `send_queue.maxlen`
  settings : List (Bytes × Bool)     -- `self.settings`
  queue : List (Addr × Bytes)        -- `self.send_queue`, oldest first
  hops : Nat                         -- `self.hops`
  attached : Bool                    -- `self.tunnel_community is not None`
  comm : Community                   -- the tunnel community object (it outlives detaching)
  listeners : List Listener          -- `self.endpoint._listeners` (global listeners, `add_listener`)
  plisteners : List (Bytes × Listener)  -- listeners registered by prefix (`add_prefix_listener`: every Community)
  nextOverlay : Nat                  -- overlays loaded so far (their listener ids are 1000, 1001, …)
deriving Repr, DecidableEq

/-- what the outside can observe of one call -/
inductive Event
  /-- `self.endpoint.send(address, packet)`: the packet leaves through the node's own socket -/
  | raw (a : Addr) (p : Bytes)
  /-- `tunnel_community.send_data(circuit.hop.address, circuit_id, address, ("0.0.0.0", 0), packet)` -/
  | data (cid : Nat) (target : Option Addr) (dest : Addr) (p : Bytes)
  /-- `tunnel_community.create_circuit(hops, exit_flags=…)`; `made` is the id of the circuit it registered -/
  | create (hops : Nat) (flags : Option (List Nat)) (made : Option Nat)
  /-- ghost event: the packet is gone without having been handed to anybody (no community / queue overflow) -/
  | drop (overflow : Bool) (a : Addr) (p : Bytes)
  /-- ghost event: `send_data` raised for this packet; the exception propagates to the caller of `send`, the packet
      (already taken off the queue, if it came from there) is gone -/
  | fail (a : Addr) (p : Bytes)
  /-- `listener.on_packet` via `_deliver_later` -/
  | deliver (lid : Nat)
deriving Repr, DecidableEq

inductive Op
  | send (a : Addr) (p : Bytes)
  | setAnonymity (pfx : Bytes) (enable : Bool)
  | setTunnelCommunity (attach : Bool) (hops : Nat)
  /-- Community.__init__ of an overlay with the given community id and `settings.anonymize` -/
  | overlay (cid : Bytes) (anonymize : Bool)
  /-- Community.__init__ of an overlay whose `settings.endpoint` is NOT a TunnelEndpoint although its sends end up in
      `TunnelEndpoint.send` (a decorator such as StatisticsEndpoint sits in front): the `isinstance` guard fails, only a
      warning is logged; the overlay still registers as a listener (decorators forward `add_prefix_listener`) -/
  | overlayForeign (cid : Bytes) (anonymize : Bool)
  | newCircuit (goalHops : Nat) (ctype : CType)
  | addHop (idx : Nat) (h : Hop)
  | close (idx : Nat)
  | remove (idx : Nat)
  | setCanCreate (b : Bool)
  /-- environment: the (k+1)-th `send_cell` from now raises (serializer / crypto error), once -/
  | setFail (k : Option Nat)
  /-- `TunnelCommunity.__init__` on this endpoint: `set_tunnel_community(self)` (default hops) and
      `set_anonymity(self._prefix, False)` for the tunnel community's own prefix -/
  | attachCommunity (pfx : Bytes)
  /-- `TunnelCommunity.remove_circuit(circuit_id, …)` up to its `await sleep(remove_tunnel_delay)`: the destroy is sent
      and `Circuit.close()` marks the circuit CLOSING at once (this is also what `on_destroy` and `do_remove` trigger) -/
  | removeRequest (cid : Nat)
  /-- … and what it does after the delay: `self.circuits.pop(circuit_id, None)` -/
  | removeDone (cid : Nat)
  | addListener (l : Listener)
  /-- `TunnelEndpoint.notify_listeners((origin, p), from_tunnel)` -/
  | notify (fromTunnel : Bool) (p : Bytes)
  /-- `Community.unload` of the overlay with that listener id: `remove_listener` (forwarded to the wrapped endpoint) -/
  | unloadOverlay (lid : Nat)
deriving Repr, DecidableEq

/-! ### Python containers -/

/-- `dict.get(k)` -/
def dictGet (d : List (Bytes × Bool)) (k : Bytes) : Option Bool :=
  match d with
  | [] => none
  | (k', v) :: rest => if k' = k then some v else dictGet rest k

/-- `d[k] = v` (in place when present, appended otherwise) -/
def dictSet (d : List (Bytes × Bool)) (k : Bytes) (v : Bool) : List (Bytes × Bool) :=
  match d with
  | [] => [(k, v)]
  | (k', v') :: rest => if k' = k then (k, v) :: rest else (k', v') :: dictSet rest k v

/-- `deque(maxlen=cap).append(x)`: returns the new contents and what fell out on the left -/
def dequeAppend (cap : Nat) (q : List (Addr × Bytes)) (x : Addr × Bytes) :
    List (Addr × Bytes) × List (Addr × Bytes) :=
  let all := q ++ [x]
  (all.drop (all.length - cap), all.take (all.length - cap))

/-- replace the `idx`-th element -/
def modifyAt (f : Circuit → Circuit) : List Circuit → Nat → List Circuit
  | [], _ => []
  | c :: cs, 0 => f c :: cs
  | c :: cs, n + 1 => c :: modifyAt f cs n

/-- `Circuit.close()` on the circuit registered under `cid` -/
def closeById (cid : Nat) (cs : List Circuit) : List Circuit :=
  cs.map (fun c => if c.cid = cid then { c with closing := true } else c)

/-- `self.circuits.pop(cid, None)` -/
def popById (cid : Nat) (cs : List Circuit) : List Circuit :=
  cs.filter (fun c => c.cid ≠ cid)

/-! ### the tunnel community -/

/-- `find_circuits(...)` as called by `send` -/
def Community.find (cm : Community) (hops : Nat) : List Circuit :=
  cm.circuits.filter (sendFind hops)

/-- `create_circuit(goal_hops, exit_flags=…)`: registers an EXTENDING circuit without verified hops, or returns None -/
def Community.create (cm : Community) (goalHops : Nat) (ctype : CType) : Community × Option Nat :=
  if cm.canCreate then
    ({ cm with circuits := cm.circuits ++ [{ cid := cm.nextId, goalHops := goalHops, ctype := ctype,
                                               closing := false, hops := [] }],
               nextId := cm.nextId + 1 }, some cm.nextId)
  else (cm, none)

/-! ### TunnelEndpoint -/

def init (cap : Nat) : State :=
  { cap := cap, settings := [], queue := [], hops := initHops, attached := false,
    comm := { circuits := [], nextId := 1, canCreate := true, failAfter := none }, listeners := [],
    plisteners := [], nextOverlay := 0 }

/-- `self.settings.get(packet[:22], False)` -/
def State.anonymized (s : State) (p : Bytes) : Bool :=
  (dictGet s.settings (p.take prefixLen)).getD false

/-- one `send_data` call over circuit `c` -/
def dataEv (c : Circuit) (x : Addr × Bytes) : Event :=
  .data c.cid (c.firstHop?.map (·.addr)) x.1 x.2

/-- the circuit `send` uses: the first READY one among those `find_circuits` returns
    (`next((c for c in circuits if c.state == CIRCUIT_STATE_READY), None)`) -/
def Community.pick (cm : Community) (hops : Nat) : Option Circuit :=
  (cm.find hops).find? (fun c => c.state == .ready)

/-- how many of `n` consecutive `send_data` calls succeed -/
def okCalls (f : Option Nat) (n : Nat) : Nat :=
  match f with
  | none => n
  | some k => min k n

/-- the fault counter after `n` attempted calls (it fires at most once) -/
def nextFail (f : Option Nat) (n : Nat) : Option Nat :=
  match f with
  | none => none
  | some k => if k < n then none else some (k - n)

/-- the READY branch of `send`: the new packet first, then the backlog, oldest first (`popleft` before each call), all
    over circuit `c`; a `send_data` that raises ends the method: what was popped for it is gone, the rest stays queued -/
def sendOver (s : State) (c : Circuit) (a : Addr) (p : Bytes) : State × List Event :=
  let all := (a, p) :: s.queue
  let n := okCalls s.comm.failAfter all.length
  ({ s with queue := all.drop (n + 1), comm := { s.comm with failAfter := nextFail s.comm.failAfter all.length } },
   (all.take n).map (dataEv c) ++ (match all[n]? with | some x => [.fail x.1 x.2] | none => []))

/-- `TunnelEndpoint.send` -/
def send (s : State) (a : Addr) (p : Bytes) : State × List Event :=
  if !s.anonymized p then
    (s, [.raw a p])                                             -- self.endpoint.send(address, packet); return
  else if !s.attached then
    (s, [.drop false a p])                                      -- tunnel_community is None: falls off the end
  else
    match s.comm.pick s.hops with
    | none =>
      if (s.comm.find s.hops).isEmpty then                      -- `if not circuits:` recreate tunnel when needed
        let (cm, made) := s.comm.create (sendCreateHops s.hops) sendCreateCtype
        let (q, lost) := dequeAppend s.cap s.queue (a, p)
        ({ s with comm := cm, queue := q },
         .create (sendCreateHops s.hops) sendCreateFlags made :: lost.map (fun x => .drop true x.1 x.2))
      else
        let (q, lost) := dequeAppend s.cap s.queue (a, p)
        ({ s with queue := q }, lost.map (fun x => .drop true x.1 x.2))
    | some c => sendOver s c a p

/-- keep the first occurrence of every listener (a listener is offered a packet once) -/
def dedupL : List Listener → List Listener
  | [] => []
  | l :: ls => if (dedupL ls).any (fun m => m.lid = l.lid) then dedupL ls else l :: dedupL ls

/-- the listeners the wrapped endpoint has for a packet: `_prefix_map.get(prefix, _listeners)` — those registered for
    the packet's prefix together with the global ones (as a set; the driver prints deliveries sorted) -/
def State.listenersFor (s : State) (p : Bytes) : List Listener :=
  dedupL (((s.plisteners.filter (fun e => e.1 = p.take prefixLen)).map (·.2)) ++ s.listeners)

/-- `TunnelEndpoint.notify_listeners(packet, from_tunnel)`: every listener for the packet whose `anonymize`
    (absent = False) equals `from_tunnel`, once -/
def notify (s : State) (fromTunnel : Bool) (p : Bytes) : List Event :=
  ((s.listenersFor p).filter (fun l => l.anonymize.getD false == fromTunnel)).map (fun l => .deliver l.lid)

/-- `Community._prefix` -/
def overlayPrefix (cid : Bytes) : Bytes := communityPrefixHead ++ cid

def step (s : State) : Op → State × List Event
  | .send a p => send s a p
  | .setAnonymity pfx en => ({ s with settings := dictSet s.settings pfx en }, [])
  | .setTunnelCommunity att h => ({ s with attached := att, hops := h }, [])
  | .overlay cid anon =>
      -- registers itself by prefix (`add_prefix_listener`), carries `self.anonymize`, and opts in if asked to
      ({ s with settings := if anon then dictSet s.settings (overlayPrefix cid) true else s.settings,
                plisteners := s.plisteners ++ [(overlayPrefix cid, { lid := 1000 + s.nextOverlay, anonymize := some anon })],
                nextOverlay := s.nextOverlay + 1 }, [])
  | .overlayForeign cid anon =>
      ({ s with plisteners := s.plisteners ++ [(overlayPrefix cid, { lid := 1000 + s.nextOverlay, anonymize := some anon })],
                nextOverlay := s.nextOverlay + 1 }, [])
  | .newCircuit g t =>
      ({ s with comm := { s.comm with
            circuits := s.comm.circuits ++ [{ cid := s.comm.nextId, goalHops := g, ctype := t, closing := false, hops := [] }],
            nextId := s.comm.nextId + 1 } }, [])
  | .addHop i h =>
      ({ s with comm := { s.comm with circuits := modifyAt (fun c => { c with hops := c.hops ++ [h] }) s.comm.circuits i } }, [])
  | .close i =>
      ({ s with comm := { s.comm with circuits := modifyAt (fun c => { c with closing := true }) s.comm.circuits i } }, [])
  | .remove i => ({ s with comm := { s.comm with circuits := s.comm.circuits.eraseIdx i } }, [])
  | .setCanCreate b => ({ s with comm := { s.comm with canCreate := b } }, [])
  | .setFail k => ({ s with comm := { s.comm with failAfter := k } }, [])
  | .attachCommunity pfx =>
      ({ s with attached := true, hops := defaultTcHops, settings := dictSet s.settings pfx false }, [])
  | .removeRequest cid => ({ s with comm := { s.comm with circuits := closeById cid s.comm.circuits } }, [])
  | .removeDone cid => ({ s with comm := { s.comm with circuits := popById cid s.comm.circuits } }, [])
  | .addListener l => ({ s with listeners := s.listeners ++ [l] }, [])
  | .notify ft p => (s, notify s ft p)
  | .unloadOverlay lid => ({ s with plisteners := s.plisteners.filter (fun e => e.2.lid ≠ lid) }, [])

/-- `ipv8_service.IPv8.__init__` loading the configured overlays `(community id, initialize.anonymize)`: each gets the
    outermost decorator as its endpoint, so the opt-in works iff that is the TunnelEndpoint -/
def serviceOps (stats : Bool) (ovs : List (Bytes × Bool)) : List Op :=
  let top := (serviceWrappers stats (ovs.any (·.2))).getLast?
  -- the opt-in works if the overlay's endpoint IS the TunnelEndpoint, or if the (translated) guard does not insist on it
  ovs.map (fun o => if top = some .tunnel || (!optInNeedsTunnelEndpoint && (serviceWrappers stats (ovs.any (·.2))).contains .tunnel)
                    then Op.overlay o.1 o.2 else Op.overlayForeign o.1 o.2)

/-- the state after a history -/
def runState (s : State) : List Op → State
  | [] => s
  | o :: os => runState (step s o).1 os

/-- the full trace: for every op the state it ran in and what it emitted -/
def trace (s : State) : List Op → List (State × Op × List Event)
  | [] => []
  | o :: os => (s, o, (step s o).2) :: trace (step s o).1 os

end Ipv8.C07
