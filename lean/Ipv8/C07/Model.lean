/-
  C07 model (core Lean only): `TunnelEndpoint` over a tunnel community that owns a dict of circuits.

  Mirrors, statement by statement,
    ipv8/messaging/anonymization/endpoint.py   TunnelEndpoint.__init__, set_tunnel_community, set_anonymity, send,
                                               notify_listeners
    ipv8/community.py                          Community.__init__  (the `settings.anonymize` opt-in, prefix composition)
  and uses the GENERATED definitions of GenTunnel.lean for everything that is table-like:
    Circuit.state, Circuit.exit_flags, the filter of TunnelCommunity.find_circuits, the keyword arguments `send`
    passes to find_circuits / create_circuit, queue capacity, initial values, prefix length.

  The tunnel community itself is an environment: its circuits appear, gain hops, close and disappear through the
  `Op`s `newCircuit / addHop / close / remove`, its `create_circuit` either registers a fresh EXTENDING circuit or
  fails (no exit candidate known).  Python containers: `dict` = association list in insertion order with in-place
  update, `deque(maxlen=cap)` = list that drops from the left when full.
-/
import Ipv8.C07.GenSend

namespace Ipv8.C07

/-- keep the first occurrence of every listener (a listener is offered a packet once) -/
def dedupL : List Listener → List Listener
  | [] => []
  | l :: ls => if (dedupL ls).any (fun m => m.lid = l.lid) then dedupL ls else l :: dedupL ls

/-- the listeners the wrapped endpoint has for a packet: `_prefix_map.get(prefix, _listeners)` — those registered for
    the packet's prefix together with the global ones (as a set; the driver prints deliveries sorted) -/
def State.listenersFor (s : State) (p : Bytes) : List Listener :=
  dedupL (((s.plisteners.filter (fun e => e.1 = p.take prefixLen)).map (·.2)) ++ s.listeners)

/-- `TunnelEndpoint.notify_listeners(packet, from_tunnel)`: every listener for the packet whose `anonymize`
    (absent = False) equals `from_tunnel`, once -/
def notify (s : State) (fromTunnel : Bool) (p : Bytes) : List Event :=
  ((s.listenersFor p).filter (fun l => l.anonymize.getD false == fromTunnel)).map (fun l => .deliver l.lid)

/-- `Community._prefix` -/
def overlayPrefix (cid : Bytes) : Bytes := communityPrefixHead ++ cid

def step (s : State) : Op → State × List Event
  | .send a p => send s a p
  | .setAnonymity pfx en => ({ s with settings := dictSet s.settings pfx en }, [])
  | .setTunnelCommunity att h => ({ s with attached := att, hops := h }, [])
  | .overlay cid anon =>
      -- registers itself by prefix (`add_prefix_listener`), carries `self.anonymize`, and opts in if asked to
      ({ s with settings := if anon then dictSet s.settings (overlayPrefix cid) true else s.settings,
                plisteners := s.plisteners ++ [(overlayPrefix cid, { lid := 1000 + s.nextOverlay, anonymize := some anon })],
                nextOverlay := s.nextOverlay + 1 }, [])
  | .overlayForeign cid anon =>
      ({ s with plisteners := s.plisteners ++ [(overlayPrefix cid, { lid := 1000 + s.nextOverlay, anonymize := some anon })],
                nextOverlay := s.nextOverlay + 1 }, [])
  | .newCircuit g t =>
      ({ s with comm := { s.comm with
            circuits := s.comm.circuits ++ [{ cid := s.comm.nextId, goalHops := g, ctype := t, closing := false, hops := [] }],
            nextId := s.comm.nextId + 1 } }, [])
  | .addHop i h =>
      ({ s with comm := { s.comm with circuits := modifyAt (fun c => { c with hops := c.hops ++ [h] }) s.comm.circuits i } }, [])
  | .close i =>
      ({ s with comm := { s.comm with circuits := modifyAt (fun c => { c with closing := true }) s.comm.circuits i } }, [])
  | .remove i => ({ s with comm := { s.comm with circuits := s.comm.circuits.eraseIdx i } }, [])
  | .setCanCreate b => ({ s with comm := { s.comm with canCreate := b } }, [])
  | .setFail k => ({ s with comm := { s.comm with failAfter := k } }, [])
  | .attachCommunity pfx =>
      ({ s with attached := true, hops := defaultTcHops, settings := dictSet s.settings pfx false }, [])
  | .removeRequest cid => ({ s with comm := { s.comm with circuits := closeById cid s.comm.circuits } }, [])
  | .removeDone cid => ({ s with comm := { s.comm with circuits := popById cid s.comm.circuits } }, [])
  | .addListener l => ({ s with listeners := s.listeners ++ [l] }, [])
  | .notify ft p => (s, notify s ft p)
  | .unloadOverlay lid => ({ s with plisteners := s.plisteners.filter (fun e => e.2.lid ≠ lid) }, [])

/-- `ipv8_service.IPv8.__init__` loading the configured overlays `(community id, initialize.anonymize)`: each gets the
    outermost decorator as its endpoint, so the opt-in works iff that is the TunnelEndpoint -/
def serviceOps (stats : Bool) (ovs : List (Bytes × Bool)) : List Op :=
  let top := (serviceWrappers stats (ovs.any (·.2))).getLast?
  -- the opt-in works if the overlay's endpoint IS the TunnelEndpoint, or if the (translated) guard does not insist on it
  ovs.map (fun o => if top = some .tunnel || (!optInNeedsTunnelEndpoint && (serviceWrappers stats (ovs.any (·.2))).contains .tunnel)
                    then Op.overlay o.1 o.2 else Op.overlayForeign o.1 o.2)

/-- `CommunicationManager.load(pseudonym)`: a fresh TunnelEndpoint (`produce_anonymized_endpoint`), the identity overlay
    and the attestation overlay constructed on it with the (translated) `anonymize` arguments, then
    `set_tunnel_community(tunnel_community)` — with `None` when no HiddenTunnelCommunity is loaded -/
def pseudonymOps (hasTunnels : Bool) (idCid atCid : Bytes) : List Op :=
  [.overlay idCid (pseudonymAnonymize hasTunnels).1, .overlay atCid (pseudonymAnonymize hasTunnels).2,
   .setTunnelCommunity hasTunnels defaultTcHops]

/-- the state after a history -/
def runState (s : State) : List Op → State
  | [] => s
  | o :: os => runState (step s o).1 os

/-- the full trace: for every op the state it ran in and what it emitted -/
def trace (s : State) : List Op → List (State × Op × List Event)
  | [] => []
  | o :: os => (s, o, (step s o).2) :: trace (step s o).1 os

end Ipv8.C07
