/- helper lemmas for C20 (proof side; core Lean only) -/
import Ipv8.C20.Model
import Ipv8.C20.Gen

namespace Ipv8.C20

variable {V : Type}

/-! ### association lists -/

theorem alookup_none_iff {β : Type} (l : List (String × β)) (n : String) :
    alookup l n = none ↔ n ∉ keys l := by
  induction l with
  | nil => simp [alookup, keys]
  | cons h t ih =>
    obtain ⟨k, v⟩ := h
    simp only [alookup, keys, List.map_cons, List.mem_cons] at *
    by_cases hk : k = n
    · simp [hk]
    · simp only [hk, if_false, ih]
      constructor
      · intro h1 h2
        rcases h2 with h2 | h2
        · exact hk h2.symm
        · exact h1 h2
      · intro h1 h2
        exact h1 (Or.inr h2)

theorem popKw_none_iff (kw : KW V) (n : String) : popKw kw n = none ↔ alookup kw n = none := by
  induction kw with
  | nil => simp [popKw, alookup]
  | cons h t ih =>
    obtain ⟨k, v⟩ := h
    simp only [popKw, alookup]
    by_cases hk : k = n
    · simp [hk]
    · simp only [hk, if_false]
      cases hp : popKw t n with
      | none => simp [ih.mp hp]
      | some x =>
        obtain ⟨x1, x2⟩ := x
        simp only [reduceCtorEq, false_iff]
        intro hl
        rw [ih.mpr hl] at hp
        cases hp

/-- with distinct keys, `pop` returns the looked-up value and removes exactly that key -/
theorem popKw_some (kw : KW V) (n : String) (v : V) (hnd : (keys kw).Nodup) (h : alookup kw n = some v) :
    popKw kw n = some (v, kw.filter (fun e => e.1 != n)) := by
  induction kw with
  | nil => simp [alookup] at h
  | cons hd t ih =>
    obtain ⟨k, w⟩ := hd
    simp only [keys, List.map_cons, List.nodup_cons] at hnd
    simp only [popKw, alookup] at *
    by_cases hk : k = n
    · subst hk
      simp only [if_true, Option.some.injEq] at h
      subst h
      simp only [if_true, List.filter_cons, bne_self_eq_false, Bool.false_eq_true, if_false]
      congr 2
      symm
      rw [List.filter_eq_self]
      intro e he
      simp only [bne_iff_ne, ne_eq]
      intro heq
      exact hnd.1 (heq ▸ List.mem_map_of_mem (f := (·.1)) he)
    · simp only [hk, if_false] at h ⊢
      rw [ih hnd.2 h]
      simp [hk]

theorem alookup_filter_ne (kw : KW V) (n p : String) (h : p ≠ n) :
    alookup (kw.filter (fun e => e.1 != n)) p = alookup kw p := by
  induction kw with
  | nil => rfl
  | cons hd t ih =>
    obtain ⟨k, w⟩ := hd
    simp only [List.filter_cons]
    by_cases hk : k = n
    · subst hk
      simp only [bne_self_eq_false, Bool.false_eq_true, if_false, alookup]
      rw [ih]
      simp [Ne.symm h]
    · simp only [bne_iff_ne, ne_eq, hk, not_false_eq_true, if_true, alookup, ih]

theorem keys_filter_nodup (kw : KW V) (p : String × V → Bool) (h : (keys kw).Nodup) :
    (keys (kw.filter p)).Nodup := by
  induction kw with
  | nil => simp [keys]
  | cons hd t ih =>
    simp only [keys, List.map_cons, List.nodup_cons] at h
    simp only [List.filter_cons]
    split
    · simp only [keys, List.map_cons, List.nodup_cons]
      refine ⟨?_, ih h.2⟩
      intro hm
      apply h.1
      simp only [List.mem_map] at hm ⊢
      obtain ⟨e, he, heq⟩ := hm
      exact ⟨e, (List.mem_filter.mp he).1, heq⟩
    · exact ih h.2

/-! ### Python argument binding -/

/-- binding only consults the keywords / defaults of the parameters themselves -/
theorem bindParams_congr (dflt dflt' : String → Option V) (kw kw' : KW V) (ps : List String) (as : List V)
    (hk : ∀ p ∈ ps, alookup kw' p = alookup kw p) (hd : ∀ p ∈ ps, dflt' p = dflt p) :
    bindParams dflt' kw' ps as = bindParams dflt kw ps as := by
  induction ps generalizing as with
  | nil => cases as <;> rfl
  | cons p ps ih =>
    have ih' := fun as => ih as (fun q hq => hk q (List.mem_cons_of_mem _ hq))
      (fun q hq => hd q (List.mem_cons_of_mem _ hq))
    cases as with
    | nil =>
      simp only [bindParams, hk p (List.mem_cons_self ..), hd p (List.mem_cons_self ..), ih']
    | cons a as =>
      simp only [bindParams, hk p (List.mem_cons_self ..), ih']

theorem bindParams_length (dflt : String → Option V) (kw : KW V) (ps : List String) (as vals : List V)
    (h : bindParams dflt kw ps as = .ok vals) : vals.length = ps.length := by
  induction ps generalizing as vals with
  | nil => cases as <;> simp [bindParams] at h; subst h; rfl
  | cons p ps ih =>
    cases as with
    | nil =>
      simp only [bindParams] at h
      split at h
      · cases h
      · split at h
        · rename_i vs hvs
          cases h
          simp [ih _ _ hvs]
        · cases h
    | cons a as =>
      simp only [bindParams] at h
      split at h
      · cases h
      · split at h
        · rename_i vs hvs
          cases h
          simp [ih _ _ hvs]
        · cases h


/-! ### VariablePayload.__init__: the index based double loop is a single pass over the names -/

theorem initSlots_add (names : List String) (args : List V) (a b : Nat) (st : InitSt V) :
    initSlots names args (a + b) st =
      match initSlots names args a st with
      | .error e => .error e
      | .ok st' => initSlots names args b st' := by
  induction a generalizing st with
  | zero => simp [initSlots]
  | succ a ih =>
    rw [Nat.succ_add]
    simp only [initSlots]
    cases initSlot names args st with
    | error e => rfl
    | ok st' => exact ih st'

theorem initFmts_flat (names : List String) (args : List V) (fmts : List Fmt) (st : InitSt V) :
    initFmts names args fmts st = initSlots names args (totalSlots fmts) st := by
  induction fmts generalizing st with
  | nil => rfl
  | cons f fs ih =>
    simp only [initFmts, totalSlots, initSlots_add]
    cases initSlots names args f.slots st with
    | error e => rfl
    | ok st' => exact ih st'

/-- list-recursive reading of the loop: positional values first, then `kwargs.pop` per remaining name -/
def vpLoop : List String → List V → KW V → Attrs V → Except Err (KW V × Attrs V)
  | [], _, kw, acc => .ok (kw, acc)
  | n :: ns, a :: as, kw, acc => vpLoop ns as kw ((n, a) :: acc)
  | n :: ns, [], kw, acc =>
    match popKw kw n with
    | none => .error .keyError
    | some (v, kw') => vpLoop ns [] kw' ((n, v) :: acc)

theorem initSlots_eq_vpLoop (names : List String) (args : List V) (k i : Nat) (kw : KW V) (acc : Attrs V)
    (h : i + k = names.length) :
    initSlots names args k { index := i, kw := kw, attrs := acc } =
      match vpLoop (names.drop i) (args.drop i) kw acc with
      | .error e => .error e
      | .ok (kw', acc') => .ok { index := names.length, kw := kw', attrs := acc' } := by
  induction k generalizing i kw acc with
  | zero =>
    have : i = names.length := by omega
    subst this
    simp [initSlots, vpLoop]
  | succ k ih =>
    have hi : i < names.length := by omega
    rw [List.drop_eq_getElem_cons hi]
    simp only [initSlots, initSlot, List.getElem?_eq_getElem hi]
    by_cases ha : i < args.length
    · rw [List.drop_eq_getElem_cons ha]
      simp only [ha, dite_true, vpLoop]
      exact ih (i + 1) kw _ (by omega)
    · have e1 : args.drop i = [] := List.drop_eq_nil_of_le (by omega)
      have e2 : args.drop (i + 1) = [] := List.drop_eq_nil_of_le (by omega)
      simp only [ha, dite_false, e1, vpLoop]
      cases hp : popKw kw names[i] with
      | none => rfl
      | some x =>
        obtain ⟨v, kw'⟩ := x
        simp only
        have := ih (i + 1) kw' ((names[i], v) :: acc) (by omega)
        rw [e2] at this
        exact this

theorem initSlots_index (names : List String) (args : List V) (k : Nat) (st st' : InitSt V)
    (h : initSlots names args k st = .ok st') : st'.index = st.index + k := by
  induction k generalizing st with
  | zero => simp only [initSlots, Except.ok.injEq] at h; subst h; rfl
  | succ k ih =>
    simp only [initSlots] at h
    cases hs : initSlot names args st with
    | error e => simp [hs] at h
    | ok s1 =>
      simp only [hs] at h
      have h1 : s1.index = st.index + 1 := by
        unfold initSlot at hs
        split at hs
        · split at hs
          · cases hs
          · cases hs; rfl
        · split at hs
          · cases hs
          · split at hs
            · cases hs
            · cases hs; rfl
      rw [ih s1 h, h1]; omega

/-- the forwarding loop over the first names is the main loop's inner step -/
theorem superFwd_eq_initSlots (names : List String) (args : List V) (k i : Nat) (kw : KW V) (acc : Attrs V)
    (h : i + k ≤ names.length) :
    superFwd args ((names.drop i).take k) { index := i, kw := kw, attrs := acc } =
      initSlots names args k { index := i, kw := kw, attrs := acc } := by
  induction k generalizing i kw acc with
  | zero => simp [superFwd, initSlots]
  | succ k ih =>
    have hi : i < names.length := by omega
    rw [List.drop_eq_getElem_cons hi, List.take_succ_cons]
    simp only [superFwd, initSlots, superSlot, initSlot, List.getElem?_eq_getElem hi]
    by_cases ha : i < args.length
    · simp only [ha, dite_true]
      exact ih (i + 1) kw _ (by omega)
    · simp only [ha, dite_false]
      cases hp : popKw kw names[i] with
      | none => rfl
      | some x =>
        obtain ⟨v, kw'⟩ := x
        exact ih (i + 1) kw' _ (by omega)

theorem totalSlots_append (a b : List Fmt) : totalSlots (a ++ b) = totalSlots a + totalSlots b := by
  induction a with
  | nil => simp [totalSlots]
  | cons f fs ih => simp [totalSlots, ih]; omega

theorem totalSlots_single (fs : List Fmt) (h : ∀ f ∈ fs, f.slots = 1) : totalSlots fs = fs.length := by
  induction fs with
  | nil => rfl
  | cons f fs ih =>
    simp only [totalSlots, List.length_cons, h f (List.mem_cons_self ..),
      ih (fun g hg => h g (List.mem_cons_of_mem _ hg))]
    omega

/-- VariablePayload.__init__ in terms of the single pass (needs one name per slot; an old-style superclass takes the
    first names, whose formats occupy one slot each) -/
theorem vpInit_eq (d : PDef V) (args : List V) (kw : KW V) (hlen : d.names.length = totalSlots d.fmts)
    (hsup : d.superArgs = d.names.take d.superArgs.length)
    (hsl : d.superArgs.length ≤ d.fmts.length)
    (hsingle : ∀ f ∈ d.fmts.take d.superArgs.length, f.slots = 1) :
    vpInit d args kw =
      match vpLoop d.names args kw [] with
      | .error e => .error e
      | .ok (kw', acc') =>
        if args.length > d.names.length then .error .keyError
        else if !kw'.isEmpty then .error .keyError
        else .ok acc' := by
  have hsplit : totalSlots d.fmts = d.superArgs.length + totalSlots (d.fmts.drop d.superArgs.length) := by
    conv => lhs; rw [← List.take_append_drop d.superArgs.length d.fmts]
    rw [totalSlots_append, totalSlots_single _ hsingle, List.length_take]
    omega
  have hn : d.superArgs.length ≤ d.names.length := by omega
  have hfwd : superFwd args d.superArgs { index := 0, kw := kw, attrs := [] } =
      initSlots d.names args d.superArgs.length { index := 0, kw := kw, attrs := [] } := by
    have := superFwd_eq_initSlots d.names args d.superArgs.length 0 kw [] (by omega)
    rw [List.drop_zero, ← hsup] at this
    exact this
  have hall := initSlots_eq_vpLoop d.names args (totalSlots d.fmts) 0 kw [] (by omega)
  rw [hsplit, initSlots_add] at hall
  unfold vpInit
  rw [hfwd]
  cases h0 : initSlots d.names args d.superArgs.length { index := 0, kw := kw, attrs := [] } with
  | error e =>
    rw [h0] at hall
    simp only [List.drop_zero] at hall
    cases hv : vpLoop d.names args kw [] with
    | error e' =>
      rw [hv] at hall
      injection hall with he
      subst he
      rfl
    | ok r => obtain ⟨a, b⟩ := r; rw [hv] at hall; cases hall
  | ok st0 =>
    have hidx := initSlots_index _ _ _ _ _ h0
    simp only [Nat.zero_add] at hidx
    rw [h0] at hall
    simp only [List.drop_zero] at hall
    simp only [hidx, initFmts_flat, hall]
    cases vpLoop d.names args kw [] with
    | error e => rfl
    | ok r => obtain ⟨kw', acc'⟩ := r; rfl

/-- positional phase -/
theorem vpLoop_positional (ns : List String) (as : List V) (kw : KW V) (acc : Attrs V)
    (h : as.length ≤ ns.length) :
    vpLoop ns as kw acc = vpLoop (ns.drop as.length) [] kw (((ns.take as.length).zip as).reverse ++ acc) := by
  induction as generalizing ns acc with
  | nil => simp
  | cons a as ih =>
    cases ns with
    | nil => simp at h
    | cons n ns =>
      simp only [vpLoop, List.length_cons, List.drop_succ_cons, List.take_succ_cons, List.zip_cons_cons,
        List.reverse_cons, List.append_assoc, List.singleton_append]
      exact ih ns _ (by simpa using h)

theorem vpLoop_surplus (ns : List String) (as : List V) (kw : KW V) (acc : Attrs V)
    (h : as.length > ns.length) : ∃ acc', vpLoop ns as kw acc = .ok (kw, acc') := by
  induction ns generalizing as acc with
  | nil => cases as <;> simp [vpLoop]
  | cons n ns ih =>
    cases as with
    | nil => simp at h
    | cons a as =>
      simp only [vpLoop]
      exact ih as _ (by simpa using h)

/-- keyword phase: popping every remaining name succeeds exactly when binding them by keyword succeeds -/
theorem vpLoop_keyword (ns : List String) (kw : KW V) (acc : Attrs V)
    (hns : ns.Nodup) (hkw : (keys kw).Nodup) :
    vpLoop ns [] kw acc =
      match bindParams (fun _ => none) kw ns [] with
      | .error _ => .error .keyError
      | .ok vals => .ok (kw.filter (fun e => !ns.contains e.1), (ns.zip vals).reverse ++ acc) := by
  induction ns generalizing kw acc with
  | nil =>
    simp only [vpLoop, bindParams, List.contains_nil, Bool.not_false, List.zip_nil_left, List.reverse_nil,
      List.nil_append]
    rw [List.filter_eq_self.mpr (fun _ _ => rfl)]
  | cons n ns ih =>
    simp only [List.nodup_cons] at hns
    simp only [vpLoop, bindParams]
    cases hl : alookup kw n with
    | none =>
      rw [(popKw_none_iff kw n).mpr hl]
    | some v =>
      rw [popKw_some kw n v hkw hl]
      simp only
      rw [ih _ _ hns.2 (keys_filter_nodup kw _ hkw)]
      rw [bindParams_congr (fun _ => none) (fun _ => none) kw (kw.filter (fun e => e.1 != n)) ns []
        (fun p hp => alookup_filter_ne kw n p (fun h => hns.1 (h ▸ hp))) (fun _ _ => rfl)]
      cases bindParams (fun _ => none) kw ns [] with
      | error e => rfl
      | ok vals =>
        simp only [List.zip_cons_cons, List.reverse_cons, List.append_assoc, List.singleton_append,
          List.filter_filter, Except.ok.injEq, Prod.mk.injEq, and_true]
        congr 1
        funext e
        simp only [List.contains_cons, Bool.not_or, bne, Bool.and_comm]


/-! ### the compiled constructor -/

theorem bindParams_surplus (dflt : String → Option V) (kw : KW V) (ns : List String) (as : List V)
    (h : as.length > ns.length) : ∃ e, bindParams dflt kw ns as = .error e := by
  induction ns generalizing as with
  | nil =>
    cases as with
    | nil => simp at h
    | cons a as => exact ⟨_, rfl⟩
  | cons n ns ih =>
    cases as with
    | nil => simp at h
    | cons a as =>
      simp only [bindParams]
      cases alookup kw n with
      | some _ => exact ⟨_, rfl⟩
      | none =>
        obtain ⟨e, he⟩ := ih as (by simpa using h)
        simp only [he]
        exact ⟨_, rfl⟩

theorem bindParams_positional (dflt : String → Option V) (kw : KW V) (ns : List String) (as : List V)
    (h : as.length ≤ ns.length) :
    bindParams dflt kw ns as =
      if (ns.take as.length).any (fun n => (alookup kw n).isSome) then .error .typeError
      else match bindParams dflt kw (ns.drop as.length) [] with
        | .ok vs => .ok (as ++ vs)
        | .error e => .error e := by
  induction as generalizing ns with
  | nil =>
    simp only [List.length_nil, List.take_zero, List.any_nil, Bool.false_eq_true, if_false, List.drop_zero,
      List.nil_append]
    cases bindParams dflt kw ns [] <;> rfl
  | cons a as ih =>
    cases ns with
    | nil => simp at h
    | cons n ns =>
      simp only [bindParams, List.length_cons, List.take_succ_cons, List.any_cons, List.drop_succ_cons]
      cases hl : alookup kw n with
      | some v => simp
      | none =>
        simp only [Option.isSome_none, Bool.false_or]
        rw [ih ns (by simpa using h)]
        by_cases hc : ((ns.take as.length).any fun n => (alookup kw n).isSome) = true
        · simp only [hc, if_true]
        · simp only [hc]
          cases bindParams dflt kw (ns.drop as.length) [] <;> rfl

theorem alookup_map_self {β : Type} (names : List String) (f : String → β) (p : String) (hp : p ∈ names) :
    alookup (names.map (fun n => (n, f n))) p = some (f p) := by
  induction names with
  | nil => simp at hp
  | cons n ns ih =>
    simp only [List.map_cons, alookup]
    by_cases h : n = p
    · simp [h]
    · simp only [h, if_false]
      exact ih (by
        rcases List.mem_cons.mp hp with h1 | h1
        · exact absurd h1.symm h
        · exact h1)

theorem spliceParams_ok (splice : V → Option V) (defaults : KW V) (names : List String)
    (hsp : ∀ n v, alookup defaults n = some v → splice v = some v) :
    spliceParams splice defaults names = .ok (names.map (fun n => (n, alookup defaults n))) := by
  induction names with
  | nil => rfl
  | cons n ns ih =>
    simp only [spliceParams, ih, List.map_cons]
    cases hl : alookup defaults n with
    | none => rfl
    | some v => simp [hsp n v hl]

theorem defaultsOrdered_none (names : List String) :
    defaultsOrdered (names.map (fun n => (n, (none : Option V)))) = true := by
  induction names with
  | nil => rfl
  | cons n ns ih => simpa [defaultsOrdered] using ih

theorem runSetters_zip (pre : KW V) (ns : List String) (vs : List V) (acc : Attrs V)
    (hlen : ns.length = vs.length) (hpre : ∀ n ∈ ns, n ∉ keys pre) (hnd : ns.Nodup) :
    runSetters (pre ++ ns.zip vs) (ns.map (fun n => (n, n))) acc = .ok ((ns.zip vs).reverse ++ acc) := by
  induction ns generalizing pre vs acc with
  | nil => simp [runSetters]
  | cons n ns ih =>
    cases vs with
    | nil => simp at hlen
    | cons v vs =>
      simp only [List.nodup_cons] at hnd
      have hl : alookup (pre ++ (n, v) :: ns.zip vs) n = some v := by
        have hn := hpre n (List.mem_cons_self ..)
        clear ih hpre
        induction pre with
        | nil => simp [alookup]
        | cons hd t iht =>
          obtain ⟨k, w⟩ := hd
          simp only [keys, List.map_cons, List.mem_cons, not_or] at hn
          simp only [List.cons_append, alookup]
          rw [if_neg (fun h => hn.1 h.symm)]
          exact iht hn.2
      simp only [List.zip_cons_cons, List.map_cons, runSetters, hl]
      have := ih (pre ++ [(n, v)]) vs ((n, v) :: acc) (by simpa using hlen)
        (by
          intro m hm
          simp only [keys, List.map_append, List.map_cons, List.map_nil, List.mem_append, List.mem_singleton,
            not_or]
          refine ⟨hpre m (List.mem_cons_of_mem _ hm), ?_⟩
          intro h
          exact hnd.1 (h ▸ hm))
        hnd.2
      simp only [List.append_assoc, List.singleton_append] at this
      rw [this]
      simp

/-- well-formedness of a definition: distinct names, one name per slot -/
structure PDef.WF (d : PDef V) : Prop where
  nodup : d.names.Nodup
  slots : d.names.length = totalSlots d.fmts
  /-- an old-style superclass `__init__` takes the first field names, in order, ... -/
  super_prefix : d.superArgs = d.names.take d.superArgs.length
  super_len : d.superArgs.length ≤ d.fmts.length
  /-- ... and their formats occupy one slot each (no "bits" among them) -/
  super_single : ∀ f ∈ d.fmts.take d.superArgs.length, f.slots = 1
  /-- the user `__init__` has no keyword-only parameters (for those see `compiled_init_eq_kwonly`) -/
  no_kwonly : d.kwOnly = []

theorem PDef.WF.of_no_super (d : PDef V) (h1 : d.names.Nodup) (h2 : d.names.length = totalSlots d.fmts)
    (h3 : d.superArgs = []) (h4 : d.kwOnly = []) : d.WF :=
  ⟨h1, h2, by simp [h3], by simp [h3], by simp [h3], h4⟩

/-- defaults: the spliced text denotes the same value, and no non-default parameter follows a default one
    (Python rejects such an `__init__` already in the interpreted class) -/
structure PDef.DefaultsOK (splice : V → Option V) (d : PDef V) : Prop where
  splice_same : ∀ n v, alookup d.defaults n = some v → splice v = some v
  ordered : defaultsOrdered (d.names.map (fun n => (n, alookup d.defaults n))) = true

theorem compileInit_ok (splice : V → Option V) (d : PDef V) (hd : d.DefaultsOK splice) :
    compileInit splice d.names d.sigDefaults =
      .ok { params := d.names.map (fun n => (n, alookup d.sigDefaults n)),
            setters := d.names.map (fun n => (n, n)) } := by
  unfold compileInit
  have hs : ∀ n v, alookup d.sigDefaults n = some v → splice v = some v := by
    intro n v h
    unfold PDef.sigDefaults at h
    cases hu : d.userInit with
    | none => simp [hu, alookup] at h
    | some b => rw [hu] at h; exact hd.splice_same n v h
  rw [spliceParams_ok splice _ _ hs]
  have ho : defaultsOrdered (d.names.map (fun n => (n, alookup d.sigDefaults n))) = true := by
    unfold PDef.sigDefaults
    cases hu : d.userInit with
    | none => simpa [alookup] using defaultsOrdered_none (V := V) d.names
    | some b => exact hd.ordered
  simp [ho]

/-- the generated `__init__` binds like a `def` with the signature defaults and then runs the setters -/
theorem runInit_generated (d : PDef V) (args : List V) (kw : KW V) (hnd : d.names.Nodup) :
    runInit { params := d.names.map (fun n => (n, alookup d.sigDefaults n)),
              setters := d.names.map (fun n => (n, n)) } args kw =
      match bindParams (alookup d.sigDefaults) kw d.names args with
      | .error e => .error e
      | .ok vals =>
        if !(kw.filter (fun e => !d.names.contains e.1)).isEmpty then .error .typeError
        else .ok (d.names.zip vals).reverse := by
  simp only [runInit, pyBind, List.map_map, Function.comp_def, List.map_id']
  rw [bindParams_congr (alookup d.sigDefaults) _ kw kw d.names args (fun _ _ => rfl)
    (fun p hp => by simp [alookup_map_self d.names (fun n => alookup d.sigDefaults n) p hp])]
  cases hb : bindParams (alookup d.sigDefaults) kw d.names args with
  | error e => rfl
  | ok vals =>
    by_cases hx : (kw.filter (fun e => !d.names.contains e.1)).isEmpty = true
    · have := runSetters_zip [] d.names vals [] (bindParams_length _ _ _ _ _ hb).symm
        (fun _ _ => by simp [keys]) hnd
      simp only [List.nil_append, List.append_nil] at this
      simp only [hx, Bool.not_false, Bool.not_true, Bool.and_false, Bool.false_eq_true, if_false, this]
    · have hx' : (kw.filter (fun e => !d.names.contains e.1)).isEmpty = false := by
        cases h : (kw.filter (fun e => !d.names.contains e.1)).isEmpty
        · rfl
        · exact absurd h hx
      simp only [hx', Bool.not_false, Bool.and_self, if_true]


theorem vpInit_full (d : PDef V) (vals : List V) (extra : KW V) (hwf : d.WF)
    (hv : vals.length = d.names.length) :
    vpInit d vals extra = if !extra.isEmpty then .error .keyError else .ok (d.names.zip vals).reverse := by
  rw [vpInit_eq d vals extra hwf.slots hwf.super_prefix hwf.super_len hwf.super_single, vpLoop_positional d.names vals extra [] (by omega)]
  simp only [hv, List.drop_length, List.take_length, vpLoop, List.append_nil, Nat.lt_irrefl, gt_iff_lt, if_false]

/-- the keywords that remain after the keyword phase are empty exactly when CPython accepts the call -/
theorem leftover_iff (names : List String) (k : Nat) (kw : KW V) (hnd : names.Nodup) :
    (kw.filter (fun e => !(names.drop k).contains e.1)).isEmpty = true ↔
      ((names.take k).any (fun n => (alookup kw n).isSome) = false ∧
       (kw.filter (fun e => !names.contains e.1)).isEmpty = true) := by
  have hsplit : names.take k ++ names.drop k = names := List.take_append_drop k names
  have hdisj : ∀ a, a ∈ names.take k → a ∉ names.drop k := by
    intro a h1 h2
    have := hnd
    rw [← hsplit] at this
    exact (List.nodup_append.mp this).2.2 a h1 a h2 rfl
  simp only [List.isEmpty_iff, List.filter_eq_nil_iff, Bool.not_eq_true', Bool.not_eq_false,
    List.contains_iff_mem, List.any_eq_false, Bool.not_eq_true, Option.isSome_eq_false_iff, Option.isNone_iff_eq_none,
    alookup_none_iff]
  constructor
  · intro h
    refine ⟨?_, ?_⟩
    · intro n hn hk
      simp only [keys, List.mem_map] at hk
      obtain ⟨e, he, heq⟩ := hk
      exact hdisj n hn (heq ▸ h e he)
    · intro e he
      exact List.mem_of_mem_drop (h e he)
  · intro ⟨h1, h2⟩ e he
    have hm : e.1 ∈ names.take k ++ names.drop k := by rw [hsplit]; exact h2 e he
    rcases List.mem_append.mp hm with hm | hm
    · exact absurd (List.mem_map_of_mem (f := (·.1)) he) (h1 e.1 hm)
    · exact hm

/-- the core of the constructor equivalence: CPython binding of the generated `def` followed by the setters
    equals what the interpreted constructor computes (up to the kind of exception) -/
theorem init_core (d : PDef V) (args : List V) (kw : KW V) (hwf : d.WF) (hkw : (keys kw).Nodup) :
    (match bindParams (alookup d.sigDefaults) kw d.names args with
      | .error e => (.error e : Except Err (Attrs V))
      | .ok vals =>
        if !(kw.filter (fun (e : String × V) => !d.names.contains e.1)).isEmpty then .error .typeError
        else .ok (d.names.zip vals).reverse).toOption
    = (interpInit d args kw).toOption := by
  unfold interpInit PDef.sigDefaults
  cases hu : d.userInit with
  | none =>
    simp only
    have hfun : alookup ([] : KW V) = fun _ => none := by funext n; rfl
    rw [hfun, vpInit_eq d args kw hwf.slots hwf.super_prefix hwf.super_len hwf.super_single]
    by_cases hlen : args.length > d.names.length
    · obtain ⟨e, he⟩ := bindParams_surplus (fun _ => (none : Option V)) kw d.names args hlen
      obtain ⟨acc', ha⟩ := vpLoop_surplus d.names args kw [] hlen
      simp [he, ha, hlen, Except.toOption]
    · have hle : args.length ≤ d.names.length := by omega
      rw [bindParams_positional _ kw d.names args hle, vpLoop_positional d.names args kw [] hle,
        vpLoop_keyword _ kw _ (List.Nodup.sublist (List.drop_sublist _ _) hwf.nodup) hkw]
      have hiff := leftover_iff d.names args.length kw hwf.nodup
      cases hb : bindParams (fun _ => (none : Option V)) kw (d.names.drop args.length) [] with
      | error e =>
        by_cases hc : ((d.names.take args.length).any fun n => (alookup kw n).isSome) = true
        · simp [hc, Except.toOption]
        · simp [hc, Except.toOption]
      | ok vs =>
        simp only [hlen, if_false, List.append_nil]
        by_cases hL : (kw.filter (fun e => !(d.names.drop args.length).contains e.1)).isEmpty = true
        · obtain ⟨h1, h2⟩ := hiff.mp hL
          have hz : d.names.zip (args ++ vs) =
              (d.names.take args.length).zip args ++ (d.names.drop args.length).zip vs := by
            conv => lhs; rw [← List.take_append_drop args.length d.names]
            exact List.zip_append (by simp [List.length_take]; omega)
          simp only [h1, Bool.false_eq_true, if_false, h2, hL, Bool.not_true, hz, List.reverse_append]
        · have hL' : (kw.filter (fun e => !(d.names.drop args.length).contains e.1)).isEmpty = false := by
            cases h : (kw.filter (fun e => !(d.names.drop args.length).contains e.1)).isEmpty
            · rfl
            · exact absurd h hL
          simp only [hL', Bool.not_false, if_true]
          by_cases hc : ((d.names.take args.length).any fun n => (alookup kw n).isSome) = true
          · simp [hc, Except.toOption]
          · have hc' : ((d.names.take args.length).any fun n => (alookup kw n).isSome) = false := by
              cases h : ((d.names.take args.length).any fun n => (alookup kw n).isSome)
              · rfl
              · exact absurd h hc
            have hne : (kw.filter (fun e => !d.names.contains e.1)).isEmpty = false := by
              cases h : (kw.filter (fun e => !d.names.contains e.1)).isEmpty
              · rfl
              · exact absurd (hiff.mpr ⟨hc', h⟩) hL
            simp only [hc', Bool.false_eq_true, if_false, hne, Bool.not_false, if_true, Except.toOption]
  | some varkw =>
    simp only [hwf.no_kwonly, List.isEmpty_nil, Bool.not_true, Bool.false_and, Bool.false_eq_true, if_false, pyBind]
    cases hb : bindParams (alookup d.defaults) kw d.names args with
    | error e => rfl
    | ok vals =>
      simp only
      have hv := bindParams_length _ _ _ _ _ hb
      by_cases hx : (kw.filter (fun e => !d.names.contains e.1)).isEmpty = true
      · simp only [hx, Bool.not_true, Bool.and_false, Bool.false_eq_true, if_false]
        rw [vpInit_full d vals _ hwf hv]
        simp only [hx, Bool.not_true, Bool.false_eq_true, if_false]
      · have hx' : (kw.filter (fun e => !d.names.contains e.1)).isEmpty = false := by
          cases h : (kw.filter (fun e => !d.names.contains e.1)).isEmpty
          · rfl
          · exact absurd h hx
        simp only [hx', Bool.not_false, Bool.and_true, if_true]
        cases varkw with
        | false => simp [Except.toOption]
        | true =>
          simp only [Bool.not_true, Bool.false_eq_true, if_false]
          rw [vpInit_full d vals _ hwf hv]
          simp only [hx', Bool.not_false, if_true, Except.toOption]


/-! ### to_pack_list -/

theorem compilePackSlots_ok (names : List String) (hook : String → Bool) (k index : Nat)
    (h : index + k ≤ names.length) : ∃ as, compilePackSlots names hook k index = .ok as := by
  induction k generalizing index with
  | zero => exact ⟨[], rfl⟩
  | succ k ih =>
    obtain ⟨rest, hr⟩ := ih (index + 1) (by omega)
    simp only [compilePackSlots, List.getElem?_eq_getElem (show index < names.length by omega), hr]
    exact ⟨_, rfl⟩

theorem compilePackFmts_ok (names : List String) (hook : String → Bool) (fmts : List Fmt) (index : Nat)
    (h : index + totalSlots fmts ≤ names.length) : ∃ es, compilePackFmts names hook fmts index = .ok es := by
  induction fmts generalizing index with
  | nil => exact ⟨[], rfl⟩
  | cons f fs ih =>
    simp only [totalSlots] at h
    obtain ⟨as, ha⟩ := compilePackSlots_ok names hook f.slots index (by omega)
    obtain ⟨rest, hr⟩ := ih (index + f.slots) (by omega)
    simp only [compilePackFmts, ha, hr]
    exact ⟨_, rfl⟩

/-- running the generated argument expressions = the interpreted inner loop -/
theorem runPackArgs_eq (d : PDef V) (attrs : Attrs V) (k index : Nat) (as : List PArg)
    (h : compilePackSlots d.names (hasKey d.fixPack) k index = .ok as) :
    runPackArgs d attrs as = packSlots d attrs k index := by
  induction k generalizing index as with
  | zero =>
    simp only [compilePackSlots, Except.ok.injEq] at h
    subst h
    rfl
  | succ k ih =>
    simp only [compilePackSlots] at h
    cases hn : d.names[index]? with
    | none => simp [hn] at h
    | some n =>
      simp only [hn] at h
      cases hr : compilePackSlots d.names (hasKey d.fixPack) k (index + 1) with
      | error e => simp [hr] at h
      | ok rest =>
        simp only [hr, Except.ok.injEq] at h
        subst h
        simp only [runPackArgs, packSlots, hn, ih (index + 1) rest hr]
        have harg : runPackArg d attrs (if hasKey d.fixPack n then PArg.hooked n else PArg.attr n) =
            fixPackI d attrs n := by
          unfold hasKey fixPackI
          cases hl : alookup d.fixPack n with
          | none =>
            simp only [Option.isSome_none, Bool.false_eq_true, if_false, runPackArg]
            cases getAttr attrs n <;> rfl
          | some f =>
            simp only [Option.isSome_some, if_true, runPackArg, hl]
        rw [harg]

theorem runPackEntries_eq (d : PDef V) (attrs : Attrs V) (fmts : List Fmt) (index : Nat)
    (es : List (String × List PArg))
    (h : compilePackFmts d.names (hasKey d.fixPack) fmts index = .ok es) :
    runPackEntries d attrs es = packFmts d attrs fmts index := by
  induction fmts generalizing index es with
  | nil =>
    simp only [compilePackFmts, Except.ok.injEq] at h
    subst h
    rfl
  | cons f fs ih =>
    simp only [compilePackFmts] at h
    cases ha : compilePackSlots d.names (hasKey d.fixPack) f.slots index with
    | error e => simp [ha] at h
    | ok as =>
      simp only [ha] at h
      cases hr : compilePackFmts d.names (hasKey d.fixPack) fs (index + f.slots) with
      | error e => simp [hr] at h
      | ok rest =>
        simp only [hr, Except.ok.injEq] at h
        subst h
        simp only [runPackEntries, packFmts, runPackArgs_eq d attrs f.slots index as ha, ih _ rest hr]

/-- `vp_compile` succeeds on a well-formed definition whose defaults splice back to themselves -/
theorem vpCompile_ok (splice : V → Option V) (d : PDef V) (hwf : d.WF) (hd : d.DefaultsOK splice) :
    ∃ gp, compilePack d.fmts d.names (hasKey d.fixPack) = .ok gp ∧
      vpCompile splice d = .ok
        { init := { params := d.names.map (fun n => (n, alookup d.sigDefaults n)),
                    setters := d.names.map (fun n => (n, n)) },
          unpack := compileUnpack d.names (hasKey d.fixUnpack), pack := gp } := by
  obtain ⟨es, hes⟩ := compilePackFmts_ok d.names (hasKey d.fixPack) d.fmts 0 (by have := hwf.slots; omega)
  refine ⟨{ entries := es }, by simp [compilePack, hes], ?_⟩
  have hci := compileInit_ok splice d hd
  simp only [vpCompile, hci, compilePack, hes]

/-- proof of `compiled_pack_eq` (stated in Props.lean) -/
theorem compiled_pack_eq_lemma (splice : V → Option V) (d : PDef V) (attrs : Attrs V)
    (hwf : d.WF) (hd : d.DefaultsOK splice) :
    compiledPack splice d attrs = interpPack d attrs := by
  obtain ⟨gp, hgp, hc⟩ := vpCompile_ok splice d hwf hd
  simp only [compiledPack, hc, runPack, interpPack]
  unfold compilePack at hgp
  cases hes : compilePackFmts d.names (hasKey d.fixPack) d.fmts 0 with
  | error e => simp [hes] at hgp
  | ok es =>
    simp only [hes, Except.ok.injEq] at hgp
    subst hgp
    exact runPackEntries_eq d attrs d.fmts 0 es hes


/-! ### from_unpack_list -/

theorem bindParams_all_positional (dflt : String → Option V) (ns : List String) (as : List V)
    (h : as.length = ns.length) : bindParams dflt [] ns as = .ok as := by
  induction ns generalizing as with
  | nil =>
    cases as with
    | nil => rfl
    | cons a as => simp at h
  | cons n ns ih =>
    cases as with
    | nil => simp at h
    | cons a as =>
      simp only [bindParams, alookup, ih as (by simpa using h)]

/-- the hook a field's raw value goes through on decode -/
def unpackHook (d : PDef V) (n : String) (a : V) : V :=
  match alookup d.fixUnpack n with
  | some f => f a
  | none => a

theorem unpackFix_eq (d : PDef V) (as : List V) (i : Nat) (h : i + as.length ≤ d.names.length) :
    unpackFix d as i = .ok (List.zipWith (unpackHook d) (d.names.drop i) as) := by
  induction as generalizing i with
  | nil => simp [unpackFix]
  | cons a as ih =>
    simp only [List.length_cons] at h
    have hi : i < d.names.length := by omega
    rw [List.drop_eq_getElem_cons hi]
    simp only [unpackFix, List.getElem?_eq_getElem hi, ih (i + 1) (by omega), List.zipWith_cons_cons]
    rfl

theorem runUArgs_eq (isNone : V → Bool) (d : PDef V) (pre : KW V) (ns : List String) (as : List V)
    (hlen : ns.length = as.length) (hpre : ∀ n ∈ ns, n ∉ keys pre) (hnd : ns.Nodup)
    (hnone : ∀ a ∈ as, isNone a = false) :
    runUArgs isNone d (pre ++ ns.zip as)
        (ns.map (fun n => if hasKey d.fixUnpack n then UArg.guarded n else UArg.plain n)) =
      .ok (List.zipWith (unpackHook d) ns as) := by
  induction ns generalizing pre as with
  | nil => simp [runUArgs]
  | cons n ns ih =>
    cases as with
    | nil => simp at hlen
    | cons a as =>
      simp only [List.nodup_cons] at hnd
      have hl : alookup (pre ++ (n, a) :: ns.zip as) n = some a := by
        have hn := hpre n (List.mem_cons_self ..)
        clear ih hpre
        induction pre with
        | nil => simp [alookup]
        | cons hd t iht =>
          obtain ⟨k, w⟩ := hd
          simp only [keys, List.map_cons, List.mem_cons, not_or] at hn
          simp only [List.cons_append, alookup]
          rw [if_neg (fun h => hn.1 h.symm)]
          exact iht hn.2
      have hrest := ih (pre ++ [(n, a)]) as (by simpa using hlen)
        (by
          intro m hm
          simp only [keys, List.map_append, List.map_cons, List.map_nil, List.mem_append, List.mem_singleton,
            not_or]
          refine ⟨hpre m (List.mem_cons_of_mem _ hm), ?_⟩
          intro h
          exact hnd.1 (h ▸ hm))
        hnd.2 (fun x hx => hnone x (List.mem_cons_of_mem _ hx))
      simp only [List.append_assoc, List.singleton_append] at hrest
      have ha : runUArg isNone d (pre ++ (n, a) :: ns.zip as)
          (if hasKey d.fixUnpack n then UArg.guarded n else UArg.plain n) = .ok (unpackHook d n a) := by
        unfold hasKey unpackHook
        cases hf : alookup d.fixUnpack n with
        | none => simp [runUArg, hl]
        | some f =>
          simp only [Option.isSome_some, if_true, runUArg, hl, hnone a (List.mem_cons_self ..), hf,
            Bool.false_eq_true, if_false]
      simp only [List.zip_cons_cons, List.map_cons, runUArgs, ha, hrest, List.zipWith_cons_cons]


/-- proof of `compiled_unpack_eq` (stated in Props.lean) -/
theorem compiled_unpack_eq_lemma (splice : V → Option V) (isNone : V → Bool) (d : PDef V) (args : List V)
    (hwf : d.WF) (hd : d.DefaultsOK splice)
    (hlen : args.length = d.names.length) (hnone : ∀ a ∈ args, isNone a = false) :
    (compiledUnpack splice isNone d args).toOption = (interpUnpack d args).toOption := by
  obtain ⟨gp, _, hc⟩ := vpCompile_ok splice d hwf hd
  have hbind : bindParams (fun _ => (none : Option V)) [] d.names args = .ok args :=
    bindParams_all_positional _ d.names args hlen
  have hargs := runUArgs_eq isNone d [] d.names args hlen.symm (fun _ _ => by simp [keys]) hwf.nodup hnone
  simp only [List.nil_append] at hargs
  simp only [compiledUnpack, hc, runUnpack, compileUnpack, pyBind, hbind, List.filter_nil, List.isEmpty_nil,
    Bool.not_true, Bool.and_false, Bool.false_eq_true, if_false, hargs]
  rw [runInit_generated d _ [] hwf.nodup]
  have hcore := init_core d (List.zipWith (unpackHook d) d.names args) [] hwf (by simp [keys])
  rw [hcore]
  simp only [interpUnpack, unpackFix_eq d args 0 (by omega), List.drop_zero]


/-- with the right number of raw values the interpreted `from_unpack_list` always succeeds, with these attributes -/
theorem interpUnpack_formula (d : PDef V) (raw : List V) (hwf : d.WF) (hlen : raw.length = d.names.length) :
    (interpUnpack d raw).toOption = some (d.names.zip (List.zipWith (unpackHook d) d.names raw)).reverse := by
  have hz : (List.zipWith (unpackHook d) d.names raw).length = d.names.length := by
    simp [List.length_zipWith, hlen]
  simp only [interpUnpack, unpackFix_eq d raw 0 (by omega), List.drop_zero]
  rw [← init_core d _ [] hwf (by simp [keys])]
  rw [bindParams_congr (alookup d.sigDefaults) (alookup d.sigDefaults) [] [] d.names _ (fun _ _ => rfl) (fun _ _ => rfl),
    bindParams_all_positional _ d.names _ hz]
  simp [Except.toOption]

/-! ### missing arguments, shipped definitions, dataclass well-formedness -/

theorem bindParams_missing (dflt : String → Option V) (ns : List String)
    (h : ∃ n ∈ ns, dflt n = none) : bindParams dflt [] ns [] = .error .typeError := by
  induction ns with
  | nil => obtain ⟨n, hn, _⟩ := h; simp at hn
  | cons p ps ih =>
    simp only [bindParams, alookup]
    cases hp : dflt p with
    | none => rfl
    | some v =>
      obtain ⟨n, hn, hd⟩ := h
      have : ∃ n ∈ ps, dflt n = none := by
        rcases List.mem_cons.mp hn with h1 | h1
        · rw [h1, hp] at hd; cases hd
        · exact ⟨n, h1, hd⟩
      simp only [ih this]

/-- `defaultsOrdered` only looks at which parameters have a default -/
def ordPat : List Bool → Bool
  | [] => true
  | false :: r => ordPat r
  | true :: r => r.all id

theorem defaultsOrdered_pat {β : Type} (l : List (String × Option β)) :
    defaultsOrdered l = ordPat (l.map (fun p => p.2.isSome)) := by
  induction l with
  | nil => rfl
  | cons hd t ih =>
    obtain ⟨n, o⟩ := hd
    cases o with
    | none => simpa [defaultsOrdered, ordPat] using ih
    | some v => simp [defaultsOrdered, ordPat, List.all_map, Function.comp_def]

theorem alookup_map_isSome (ds : List String) (dv : String → V) (n : String) :
    (alookup (ds.map (fun m => (m, dv m))) n).isSome = ds.contains n := by
  induction ds with
  | nil => rfl
  | cons m ms ih =>
    simp only [List.map_cons, alookup, List.contains_cons]
    by_cases h : m = n
    · simp [h]
    · have : (n == m) = false := by simp [Ne.symm h]
      simp [h, ih, this]

theorem SDef.toPDef_wf (s : SDef) (dv : String → V) (hp hu : String → V → V) (h : s.wf = true) :
    (s.toPDef dv hp hu).WF ∧ (s.toPDef dv hp hu).DefaultsOK some := by
  simp only [SDef.wf, Bool.and_eq_true, decide_eq_true_eq, beq_iff_eq] at h
  obtain ⟨⟨h1, h2⟩, h3⟩ := h
  refine ⟨PDef.WF.of_no_super _ h1 h2 rfl rfl, ⟨fun _ _ _ => rfl, ?_⟩⟩
  simp only [SDef.toPDef]
  rw [defaultsOrdered_pat] at h3 ⊢
  rw [← h3]
  congr 1
  simp only [List.map_map]
  apply List.map_congr_left
  intro n _
  simp only [Function.comp_def, alookup_map_isSome]
  cases s.defaults.contains n <;> rfl

theorem typeMap_slots (t : Ty) (f : Fmt) (h : typeMap t = .ok f) (hb : t ≠ .tvar "bits") : f.slots = 1 := by
  cases t with
  | tvar n =>
    simp only [typeMap, Except.ok.injEq] at h
    subst h
    simp only [Fmt.slots]
    have : n ≠ "bits" := fun hn => hb (by rw [hn])
    simp [this]
  | coll k e =>
    cases e <;> simp [typeMap, nativeFmt] at h <;> subst h <;> first | rfl | decide
  | bool => simp [typeMap, nativeFmt] at h; subst h; decide
  | int => simp [typeMap, nativeFmt] at h; subst h; decide
  | float => simp [typeMap, nativeFmt] at h; subst h; decide
  | bytes => simp [typeMap, nativeFmt] at h; subst h; decide
  | str => simp [typeMap, nativeFmt] at h; subst h; decide
  | lit c => simp [typeMap] at h; subst h; rfl
  | ser c => simp [typeMap] at h; subst h; rfl
  | other => simp [typeMap] at h

theorem mapTypes_slots (ts : List Ty) (fs : List Fmt) (h : mapTypes ts = .ok fs)
    (hb : ∀ t ∈ ts, t ≠ .tvar "bits") : totalSlots fs = ts.length := by
  induction ts generalizing fs with
  | nil => simp only [mapTypes, Except.ok.injEq] at h; subst h; rfl
  | cons t ts ih =>
    simp only [mapTypes] at h
    cases ht : typeMap t with
    | error e => simp [ht] at h
    | ok f =>
      simp only [ht] at h
      cases hr : mapTypes ts with
      | error e => simp [hr] at h
      | ok rest =>
        simp only [hr, Except.ok.injEq] at h
        subst h
        simp only [totalSlots, List.length_cons,
          typeMap_slots t f ht (hb t (List.mem_cons_self ..)),
          ih rest hr (fun x hx => hb x (List.mem_cons_of_mem _ hx))]
        omega


/-! ### dataclass inheritance chains -/

theorem nearest_self (conv : List Nat) (k : Nat) (h : k ∈ conv) : nearest conv k = some k := by
  cases k with
  | zero => simp [nearest, h]
  | succ k => simp [nearest, h]

theorem mem_runInst (evs : List Nat) (k : Nat) : k ∈ runInst evs ↔ k ∈ evs := by
  unfold runInst
  suffices h : ∀ (acc : List Nat), k ∈ evs.foldl (fun conv k => k :: conv) acc ↔ k ∈ evs ∨ k ∈ acc by
    simp [h []]
  induction evs with
  | nil => simp
  | cons e es ih =>
    intro acc
    simp only [List.foldl_cons, ih, List.mem_cons]
    constructor
    · rintro (h | h | h)
      · exact Or.inl (Or.inr h)
      · exact Or.inl (Or.inl h)
      · exact Or.inr h
    · rintro ((h | h) | h)
      · exact Or.inr (Or.inl h)
      · exact Or.inl h
      · exact Or.inr (Or.inr h)


/-- under the guard `always` the state is just the list of instantiated classes -/
theorem DChain.run_always (c : DChain V) (evs : List Nat) : c.run .always evs = runInst evs := by
  unfold DChain.run runInst
  suffices h : ∀ acc : List Nat, evs.foldl (c.newStep .always) acc = evs.foldl (fun conv k => k :: conv) acc from h []
  induction evs with
  | nil => intro acc; rfl
  | cons e es ih => intro acc; simp only [List.foldl_cons, DChain.newStep]; exact ih _

/-! ### re-compilation (form D runs vp_compile on every `__new__`) -/

theorem alookup_filterMap_params (names : List String) (f : String → Option V) (p : String) (hp : p ∈ names) :
    alookup ((names.map (fun n => (n, f n))).filterMap (fun q => match q.2 with
      | some v => some (q.1, v)
      | none => none)) p = f p := by
  induction names with
  | nil => simp at hp
  | cons n ns ih =>
    simp only [List.map_cons, List.filterMap_cons]
    by_cases h : n = p
    · subst h
      cases hf : f n with
      | none =>
        simp only
        -- p does not occur with a value later either way: lookup in the rest gives none or the same f p
        by_cases hm : n ∈ ns
        · rw [ih hm, hf]
        · clear ih hp
          induction ns with
          | nil => rfl
          | cons m ms ihm =>
            simp only [List.mem_cons, not_or] at hm
            simp only [List.map_cons, List.filterMap_cons]
            cases f m with
            | none => exact ihm hm.2
            | some w => simp only [alookup, if_neg (Ne.symm hm.1)]; exact ihm hm.2
      | some v => simp [alookup]
    · have hp' : p ∈ ns := by
        rcases List.mem_cons.mp hp with h1 | h1
        · exact absurd h1.symm h
        · exact h1
      cases hf : f n with
      | none => simp only; exact ih hp'
      | some v => simp only [alookup, if_neg h]; exact ih hp'


theorem alookup_filterMap_params_notin (names : List String) (f : String → Option V) (p : String) (hp : p ∉ names) :
    alookup ((names.map (fun n => (n, f n))).filterMap (fun q => match q.2 with
      | some v => some (q.1, v)
      | none => none)) p = none := by
  induction names with
  | nil => rfl
  | cons m ms ih =>
    simp only [List.mem_cons, not_or] at hp
    simp only [List.map_cons, List.filterMap_cons]
    cases f m with
    | none => exact ih hp.2
    | some w => simp only [alookup, if_neg (Ne.symm hp.1)]; exact ih hp.2

/-- the signature defaults that a second `vp_compile` reads are the first one's -/
theorem recompile_sig (d : PDef V) (gu : GenUnpack) (gp : GenPack) :
    (∀ p ∈ d.names, alookup (recompileDef d
        { init := { params := d.names.map (fun n => (n, alookup d.sigDefaults n)),
                    setters := d.names.map (fun n => (n, n)) }, unpack := gu, pack := gp }).sigDefaults p
      = alookup d.sigDefaults p) ∧
    (∀ p, p ∉ d.names → alookup (recompileDef d
        { init := { params := d.names.map (fun n => (n, alookup d.sigDefaults n)),
                    setters := d.names.map (fun n => (n, n)) }, unpack := gu, pack := gp }).sigDefaults p = none) := by
  refine ⟨fun p hp => ?_, fun p hp => ?_⟩
  · simp only [recompileDef, PDef.sigDefaults]
    exact alookup_filterMap_params d.names (alookup d.sigDefaults) p hp
  · simp only [recompileDef, PDef.sigDefaults]
    exact alookup_filterMap_params_notin d.names (alookup d.sigDefaults) p hp


/-- under a guard that converts every class not converted yet, the converted classes are the instantiated ones -/
theorem DChain.mem_run (c : DChain V) (g : NewGuard) (hg : g = .always ∨ g = .oncePerClass) (evs : List Nat) (k : Nat) :
    k ∈ c.run g evs ↔ k ∈ evs := by
  unfold DChain.run
  suffices h : ∀ acc : List Nat, k ∈ evs.foldl (c.newStep g) acc ↔ k ∈ evs ∨ k ∈ acc by simpa using h []
  induction evs with
  | nil => intro acc; simp
  | cons e es ih =>
    intro acc
    simp only [List.foldl_cons, ih, List.mem_cons]
    have hstep : k ∈ c.newStep g acc e ↔ k = e ∨ k ∈ acc := by
      rcases hg with hg | hg <;> subst hg <;> simp only [DChain.newStep]
      · simp
      · by_cases hc : e ∈ acc
        · simp only [List.contains_iff_mem, hc, if_true]
          constructor
          · exact Or.inr
          · rintro (h | h)
            · subst h; exact hc
            · exact h
        · simp [hc]
    rw [hstep]
    constructor
    · rintro (h | h | h)
      · exact Or.inl (Or.inr h)
      · exact Or.inl (Or.inl h)
      · exact Or.inr h
    · rintro ((h | h) | h)
      · exact Or.inr (Or.inl h)
      · exact Or.inl h
      · exact Or.inr (Or.inr h)

theorem DChain.mem_newStep (c : DChain V) (g : NewGuard) (hg : g = .always ∨ g = .oncePerClass) (conv : List Nat)
    (k : Nat) : k ∈ c.newStep g conv k := by
  rcases hg with hg | hg <;> subst hg <;> simp only [DChain.newStep]
  · simp
  · by_cases hc : k ∈ conv
    · simp [hc]
    · simp [hc]


/-- the data view of the derived container rules is the function view -/
theorem derivedUnpack_eq_kinds (conv : CKind → V → V) (user : List (String × (V → V)))
    (fields : List (String × Ty × Option V)) :
    (derivedUnpack conv user fields).map (·.1) = (derivedKinds (keys user) fields).map (·.1) := by
  induction fields with
  | nil => rfl
  | cons f rest ih =>
    obtain ⟨n, t, dv⟩ := f
    have hk : hasKey user n = (keys user).contains n := by
      unfold hasKey
      cases h : alookup user n with
      | none =>
        have := (alookup_none_iff user n).mp h
        simp [this]
      | some v =>
        have : n ∈ keys user := by
          by_cases hm : n ∈ keys user
          · exact hm
          · rw [(alookup_none_iff user n).mpr hm] at h; cases h
        simp [this]
    cases t <;> simp only [derivedUnpack, derivedKinds, ih]
    rename_i k e
    simp only [hk]
    split <;> simp [ih]

end Ipv8.C20
