/- C20: nesting in mixed forms — one induction step (proof side; core Lean only).

   `R v w` reads "v and w are the same value, except that nested payload instances inside them may be instances of
   another form of the same definition".  If the packers cannot tell R-related values apart (for "payload" /
   "payload-list" that is the statement of this file one nesting level down; for primitive formats R is equality) and
   hooks preserve R, then a compiled instance and an interpreted instance with R-related attributes give the same
   bytes.  By induction on the nesting depth this covers every mix of forms in a tree of nested payloads. -/
import Ipv8.C20.Lemmas

namespace Ipv8.C20

variable {V : Type}

/-- pointwise relation of two lists of the same length -/
inductive All₂ {α : Type} (r : α → α → Prop) : List α → List α → Prop
  | nil : All₂ r [] []
  | cons {a b : α} {as bs : List α} : r a b → All₂ r as bs → All₂ r (a :: as) (b :: bs)

/-- both raise, or both return related results -/
def ERel {α : Type} (r : α → α → Prop) : Except Err α → Except Err α → Prop
  | .ok a, .ok b => r a b
  | .error _, .error _ => True
  | _, _ => False

def AttrsRel (R : V → V → Prop) (a b : Attrs V) : Prop :=
  All₂ (fun x y => x.1 = y.1 ∧ R x.2 y.2) a b

def PackRel (R : V → V → Prop) (p q : PackList V) : Prop :=
  All₂ (fun x y => x.1 = y.1 ∧ All₂ R x.2 y.2) p q

theorem getAttr_rel (R : V → V → Prop) (a b : Attrs V) (n : String) (h : AttrsRel R a b) :
    ERel R (getAttr a n) (getAttr b n) := by
  unfold AttrsRel at h
  induction h with
  | nil => simp [getAttr, alookup, ERel]
  | @cons x y xs ys hxy _ ih =>
    obtain ⟨kx, vx⟩ := x
    obtain ⟨ky, vy⟩ := y
    simp only at hxy
    obtain ⟨hk, hv⟩ := hxy
    subst hk
    unfold getAttr at ih ⊢
    simp only [alookup]
    by_cases hkn : kx = n
    · simp [hkn, ERel, hv]
    · simpa [hkn] using ih

theorem fixPackI_rel (R : V → V → Prop) (d : PDef V) (a b : Attrs V) (n : String) (h : AttrsRel R a b)
    (hhook : ∀ n f, alookup d.fixPack n = some f → ∀ v w, R v w → R (f v) (f w)) :
    ERel R (fixPackI d a n) (fixPackI d b n) := by
  have hg := getAttr_rel R a b n h
  unfold fixPackI
  cases ha : getAttr a n with
  | error e =>
    cases hb : getAttr b n with
    | error e' => simp [ERel]
    | ok w => simp [ha, hb, ERel] at hg
  | ok v =>
    cases hb : getAttr b n with
    | error e' => simp [ha, hb, ERel] at hg
    | ok w =>
      simp only [ha, hb, ERel] at hg
      cases hf : alookup d.fixPack n with
      | none => simpa [ERel] using hg
      | some f => simpa [ERel] using hhook n f hf v w hg

theorem packSlots_rel (R : V → V → Prop) (d : PDef V) (a b : Attrs V) (k index : Nat) (h : AttrsRel R a b)
    (hhook : ∀ n f, alookup d.fixPack n = some f → ∀ v w, R v w → R (f v) (f w)) :
    ERel (All₂ R) (packSlots d a k index) (packSlots d b k index) := by
  induction k generalizing index with
  | zero => simpa [packSlots, ERel] using All₂.nil
  | succ k ih =>
    simp only [packSlots]
    cases d.names[index]? with
    | none => simp [ERel]
    | some n =>
      simp only
      have h1 := fixPackI_rel R d a b n h hhook
      have h2 := ih (index + 1)
      cases ha : fixPackI d a n with
      | error e =>
        cases hb : fixPackI d b n with
        | error e' => simp [ERel]
        | ok w => simp [ha, hb, ERel] at h1
      | ok v =>
        cases hb : fixPackI d b n with
        | error e' => simp [ha, hb, ERel] at h1
        | ok w =>
          simp only [ha, hb, ERel] at h1
          cases hra : packSlots d a k (index + 1) with
          | error e =>
            cases hrb : packSlots d b k (index + 1) with
            | error e' => simp [ERel]
            | ok ws => simp [hra, hrb, ERel] at h2
          | ok vs =>
            cases hrb : packSlots d b k (index + 1) with
            | error e' => simp [hra, hrb, ERel] at h2
            | ok ws =>
              simp only [hra, hrb, ERel] at h2
              simpa [ERel] using All₂.cons h1 h2

theorem packFmts_rel (R : V → V → Prop) (d : PDef V) (a b : Attrs V) (fmts : List Fmt) (index : Nat)
    (h : AttrsRel R a b)
    (hhook : ∀ n f, alookup d.fixPack n = some f → ∀ v w, R v w → R (f v) (f w)) :
    ERel (PackRel R) (packFmts d a fmts index) (packFmts d b fmts index) := by
  induction fmts generalizing index with
  | nil => simpa [packFmts, ERel, PackRel] using All₂.nil
  | cons f fs ih =>
    simp only [packFmts]
    have h1 := packSlots_rel R d a b f.slots index h hhook
    have h2 := ih (index + f.slots)
    cases ha : packSlots d a f.slots index with
    | error e =>
      cases hb : packSlots d b f.slots index with
      | error e' => simp [ERel]
      | ok w => simp [ha, hb, ERel] at h1
    | ok v =>
      cases hb : packSlots d b f.slots index with
      | error e' => simp [ha, hb, ERel] at h1
      | ok w =>
        simp only [ha, hb, ERel] at h1
        cases hra : packFmts d a fs (index + f.slots) with
        | error e =>
          cases hrb : packFmts d b fs (index + f.slots) with
          | error e' => simp [ERel]
          | ok ws => simp [hra, hrb, ERel] at h2
        | ok vs =>
          cases hrb : packFmts d b fs (index + f.slots) with
          | error e' => simp [hra, hrb, ERel] at h2
          | ok ws =>
            simp only [hra, hrb, ERel] at h2
            simp only [ERel, PackRel]
            exact All₂.cons ⟨rfl, h1⟩ h2

theorem packBytes_rel (R : V → V → Prop) (packer : String → List V → Option Bytes) (p q : PackList V)
    (h : PackRel R p q) (hpacker : ∀ t vs ws, All₂ R vs ws → packer t vs = packer t ws) :
    packBytes packer p = packBytes packer q := by
  unfold PackRel at h
  induction h with
  | nil => rfl
  | @cons x y xs ys hxy _ ih =>
    obtain ⟨tx, vx⟩ := x
    obtain ⟨ty, vy⟩ := y
    simp only at hxy
    obtain ⟨ht, hv⟩ := hxy
    subst ht
    simp only [packBytes, hpacker tx vx vy hv, ih]

end Ipv8.C20
