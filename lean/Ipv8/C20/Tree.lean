/- C20: trees of nested payload instances in MIXED forms — byte level and decoding, by induction on the nesting depth
   (proof side, core Lean only).

   `Obj V` is a Python value as far as nesting is concerned: a primitive value, a payload instance (with the form of
   its class: compiled or interpreted, the class id, and its attributes), or a list.  The generic model of Model.lean
   is instantiated with the value type `Obj V`; hooks are arbitrary functions on `Obj V`. -/
import Ipv8.C20.Nested

namespace Ipv8.C20

inductive Obj (V : Type)
  | val (v : V)
  | inst (compiled : Bool) (cls : Nat) (fields : List (String × Obj V))
  | list (items : List (Obj V))

variable {V : Type}

/-- the class table and the primitive packers -/
structure World (V : Type) where
  defs : Nat → PDef (Obj V)
  splice : Obj V → Option (Obj V)
  prim : String → List V → Option Bytes

/-- arguments of a primitive packer: all must be primitive values -/
def leafVals : List (Obj V) → Option (List V)
  | [] => some []
  | .val v :: r => match leafVals r with
    | some l => some (v :: l)
    | none => none
  | _ :: _ => none

def mapAll {α β : Type} (f : α → Option β) : List α → Option (List β)
  | [] => some []
  | a :: as => match f a with
    | none => none
    | some b => match mapAll f as with
      | none => none
      | some bs => some (b :: bs)

/-- NestedPayload.pack: `pack(">H", len(data)) + data` -/
def nestedBytes (sub : Obj V → Option Bytes) (x : Obj V) : Option Bytes :=
  match sub x with
  | none => none
  | some b => if b.length < 65536 then some (UInt8.ofNat (b.length / 256) :: UInt8.ofNat (b.length % 256) :: b) else none

/-- the packer registry as seen by `pack_serializable`: "payload" → NestedPayload, "payload-list" → ListOf(NestedPayload),
    anything else a primitive packer on primitive values; `sub` gives the bytes of a nested instance -/
def packerWith (sub : Obj V → Option Bytes) (prim : String → List V → Option Bytes) (t : String)
    (vs : List (Obj V)) : Option Bytes :=
  if t = "payload" then
    match vs with
    | [x] => nestedBytes sub x
    | _ => none
  else if t = "payload-list" then
    match vs with
    | [.list xs] =>
      if xs.length < 256 then
        match mapAll (nestedBytes sub) xs with
        | some bs => some (UInt8.ofNat xs.length :: bs.flatten)
        | none => none
      else none
    | _ => none
  else
    match leafVals vs with
    | some ls => prim t ls
    | none => none

/-- `Serializer.pack_serializable(obj)` for nesting depth ≤ n: the instance's OWN form decides which `to_pack_list`
    runs, nested instances are packed recursively -/
def bytesOf (w : World V) : Nat → Obj V → Option Bytes
  | 0, _ => none
  | n + 1, .inst c cls fs =>
    let d := w.defs cls
    let pl := if c then compiledPack w.splice d fs else interpPack d fs
    pl.toOption.bind (packBytes (packerWith (bytesOf w n) w.prim))
  | _ + 1, _ => none

/-- "the same object up to the form of the classes of nested instances", to depth n -/
def Rn : Nat → Obj V → Obj V → Prop
  | 0, a, b => a = b
  | n + 1, a, b => a = b ∨
    (match a, b with
     | .inst _ c fs, .inst _ c' fs' => c = c' ∧ All₂ (fun x y => x.1 = y.1 ∧ Rn n x.2 y.2) fs fs'
     | .list xs, .list ys => All₂ (Rn n) xs ys
     | _, _ => False)

theorem All₂.refl {α : Type} {r : α → α → Prop} (h : ∀ a, r a a) : ∀ l : List α, All₂ r l l
  | [] => .nil
  | a :: as => .cons (h a) (All₂.refl h as)

theorem All₂.mono {α : Type} {r s : α → α → Prop} (h : ∀ a b, r a b → s a b) :
    ∀ {l m : List α}, All₂ r l m → All₂ s l m
  | _, _, .nil => .nil
  | _, _, .cons hab hr => .cons (h _ _ hab) (All₂.mono h hr)

theorem All₂.length_eq {α : Type} {r : α → α → Prop} : ∀ {l m : List α}, All₂ r l m → l.length = m.length
  | _, _, .nil => rfl
  | _, _, .cons _ hr => by simp [All₂.length_eq hr]

theorem Rn_refl (n : Nat) (a : Obj V) : Rn n a a := by
  cases n with
  | zero => rfl
  | succ n => exact Or.inl rfl

theorem Rn_mono (n : Nat) : ∀ a b : Obj V, Rn n a b → Rn (n + 1) a b := by
  induction n with
  | zero => intro a b h; exact Or.inl h
  | succ n ih =>
    intro a b h
    rcases h with h | h
    · exact Or.inl h
    · refine Or.inr ?_
      cases a <;> cases b <;> simp only at h ⊢
      · exact ⟨h.1, All₂.mono (fun x y hxy => ⟨hxy.1, ih _ _ hxy.2⟩) h.2⟩
      · exact All₂.mono ih h

/-- related to a primitive value means equal to it -/
theorem Rn_val (n : Nat) (v : V) (b : Obj V) (h : Rn n (.val v) b) : b = .val v := by
  cases n with
  | zero => exact h.symm
  | succ n =>
    rcases h with h | h
    · exact h.symm
    · cases b <;> simp at h

theorem Rn_list (n : Nat) (xs : List (Obj V)) (b : Obj V) (h : Rn n (.list xs) b) :
    ∃ ys, b = .list ys ∧ All₂ (Rn n) xs ys := by
  cases n with
  | zero => exact ⟨xs, h.symm, All₂.refl (Rn_refl 0) xs⟩
  | succ n =>
    rcases h with h | h
    · exact ⟨xs, h.symm, All₂.refl (Rn_refl _) xs⟩
    · cases b with
      | val v => simp at h
      | inst c k fs => simp at h
      | list ys => exact ⟨ys, rfl, All₂.mono (Rn_mono n) h⟩

theorem Rn_inst (n : Nat) (c : Bool) (k : Nat) (fs : List (String × Obj V)) (b : Obj V)
    (h : Rn n (.inst c k fs) b) : ∃ c' fs', b = .inst c' k fs' := by
  cases n with
  | zero => exact ⟨c, fs, h.symm⟩
  | succ n =>
    rcases h with h | h
    · exact ⟨c, fs, h.symm⟩
    · cases b with
      | val v => simp at h
      | list ys => simp at h
      | inst c' k' fs' => simp only at h; exact ⟨c', fs', by rw [h.1]⟩

theorem leafVals_rel (n : Nat) (vs ws : List (Obj V)) (h : All₂ (Rn n) vs ws) : leafVals vs = leafVals ws := by
  induction h with
  | nil => rfl
  | @cons a b as bs hab _ ih =>
    cases a with
    | val v => rw [Rn_val n v b hab]; simp only [leafVals, ih]
    | inst c k fs =>
      obtain ⟨c', fs', rfl⟩ := Rn_inst n c k fs b hab
      simp [leafVals]
    | list xs =>
      obtain ⟨ys, rfl, _⟩ := Rn_list n xs b hab
      simp [leafVals]

theorem mapAll_rel {α β : Type} (r : α → α → Prop) (f : α → Option β) (hf : ∀ a b, r a b → f a = f b)
    (xs ys : List α) (h : All₂ r xs ys) : mapAll f xs = mapAll f ys := by
  induction h with
  | nil => rfl
  | @cons a b as bs hab _ ih => simp only [mapAll, hf a b hab, ih]

theorem packerWith_rel (n : Nat) (sub : Obj V → Option Bytes) (prim : String → List V → Option Bytes)
    (hsub : ∀ a b, Rn n a b → sub a = sub b) (t : String) (vs ws : List (Obj V)) (h : All₂ (Rn n) vs ws) :
    packerWith sub prim t vs = packerWith sub prim t ws := by
  have hnb : ∀ a b, Rn n a b → nestedBytes sub a = nestedBytes sub b := by
    intro a b hab
    simp only [nestedBytes, hsub a b hab]
  unfold packerWith
  by_cases h1 : t = "payload"
  · simp only [h1, if_true]
    cases h with
    | nil => rfl
    | @cons a b as bs hab hr =>
      cases hr with
      | nil => exact hnb a b hab
      | cons _ _ => rfl
  · by_cases h2 : t = "payload-list"
    · subst h2
      have hne : ¬ (("payload-list" : String) = "payload") := by decide
      simp only [hne, if_false, if_true]
      cases h with
      | nil => rfl
      | @cons a b as bs hab hr =>
        cases hr with
        | cons _ _ =>
          cases a <;> cases b <;> rfl
        | nil =>
          cases a with
          | val v => rw [Rn_val n v b hab]
          | inst c k fs => obtain ⟨c', fs', rfl⟩ := Rn_inst n c k fs b hab; rfl
          | list xs =>
            obtain ⟨ys, rfl, hxy⟩ := Rn_list n xs b hab
            simp only [All₂.length_eq hxy, mapAll_rel (Rn n) (nestedBytes sub) hnb xs ys hxy]
    · simp only [h1, h2, if_false, leafVals_rel n vs ws h]

/-- MAIN (byte level): for every class table of well-formed definitions whose hooks respect the relation, two object
    trees that differ only in the FORMS of the classes of the instances in them (compiled / interpreted, at any
    depth, in any mix) produce the same bytes, or both fail — for every nesting depth n and all primitive packers. -/
theorem bytes_form_independent (w : World V)
    (hwf : ∀ c, (w.defs c).WF ∧ (w.defs c).DefaultsOK w.splice)
    (hhook : ∀ c name f, alookup (w.defs c).fixPack name = some f → ∀ n a b, Rn n a b → Rn n (f a) (f b)) :
    ∀ n a b, Rn n a b → bytesOf w n a = bytesOf w n b := by
  intro n
  induction n with
  | zero => intro a b _; rfl
  | succ n ih =>
    intro a b h
    rcases h with h | h
    · rw [h]
    · cases a with
      | val v => cases b <;> simp at h
      | list xs => cases b <;> first | rfl | simp at h
      | inst c k fs =>
        cases b with
        | val v => simp at h
        | list ys => simp at h
        | inst c' k' fs' =>
          simp only at h
          obtain ⟨hk, hfs⟩ := h
          subst hk
          have hform : ∀ (cc : Bool) (x : Attrs (Obj V)),
              (if cc then compiledPack w.splice (w.defs k) x else interpPack (w.defs k) x) = interpPack (w.defs k) x := by
            intro cc x
            cases cc
            · rfl
            · simp only [if_true]
              exact compiled_pack_eq_lemma w.splice (w.defs k) x (hwf k).1 (hwf k).2
          simp only [bytesOf, hform]
          have hrel := packFmts_rel (Rn n) (w.defs k) fs fs' (w.defs k).fmts 0 hfs
            (fun name f hf a b hab => hhook k name f hf n a b hab)
          unfold interpPack
          cases ha : packFmts (w.defs k) fs (w.defs k).fmts 0 with
          | error e =>
            cases hb : packFmts (w.defs k) fs' (w.defs k).fmts 0 with
            | error e' => rfl
            | ok q => simp [ha, hb, ERel] at hrel
          | ok p =>
            cases hb : packFmts (w.defs k) fs' (w.defs k).fmts 0 with
            | error e' => simp [ha, hb, ERel] at hrel
            | ok q =>
              simp only [ha, hb, ERel] at hrel
              simp only [Except.toOption, Option.bind_some]
              exact packBytes_rel (Rn n) _ p q hrel
                (fun t vs ws hvw => packerWith_rel n (bytesOf w n) w.prim ih t vs ws hvw)

end Ipv8.C20
