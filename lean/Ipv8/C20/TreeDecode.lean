/- C20: decoding through nested classes in MIXED forms, by induction on the nesting depth (proof side, core Lean only).

   `unpack_serializable(cls, data, offset)`: the unpackers of `cls.format_list` fill `unpack_list` — a nested class
   entry calls `unpack_serializable` of THAT class on a slice, a `[cls]` entry does so `count` times — and
   `cls.from_unpack_list(*unpack_list)` builds the instance.  Which form each class is in is a parameter `φ`. -/
import Ipv8.C20.Tree

namespace Ipv8.C20

variable {V : Type}

/-- class table and the byte-level primitives (all arbitrary functions: whatever the Serializer does today) -/
structure DWorld (V : Type) where
  defs : Nat → PDef (Obj V)
  classOf : String → Nat
  splice : Obj V → Option (Obj V)
  isNone : Obj V → Bool
  /-- primitive unpacker of a registered format: values appended to `unpack_list`, new offset -/
  unpackPrim : String → Bytes → Nat → Option (List V × Nat)
  /-- NestedPayload.unpack: the slice handed to the nested class and the offset after it -/
  nestedSlice : Bytes → Nat → Option (Bytes × Nat)
  /-- ListOf.unpack: number of items and the offset of the first one -/
  listCount : Bytes → Nat → Option (Nat × Nat)

/-- decoder of a class: class id, data, offset ↦ instance and new offset -/
abbrev Sub (V : Type) := Nat → Bytes → Nat → Option (Obj V × Nat)

def unpackNested (w : DWorld V) (sub : Sub V) (k : Nat) (data : Bytes) (off : Nat) : Option (Obj V × Nat) :=
  match w.nestedSlice data off with
  | none => none
  | some (sl, off') => match sub k sl 0 with
    | none => none
    | some (o, _) => some (o, off')

def unpackMany (w : DWorld V) (sub : Sub V) (k : Nat) : Nat → Bytes → Nat → Option (List (Obj V) × Nat)
  | 0, _, off => some ([], off)
  | c + 1, data, off => match unpackNested w sub k data off with
    | none => none
    | some (o, off1) => match unpackMany w sub k c data off1 with
      | none => none
      | some (os, off2) => some (o :: os, off2)

/-- the loop over `format_list` of `unpack_serializable` -/
def unpackFmts (w : DWorld V) (sub : Sub V) : List Fmt → Bytes → Nat → Option (List (Obj V) × Nat)
  | [], _, off => some ([], off)
  | .str s :: r, data, off => match w.unpackPrim s data off with
    | none => none
    | some (vals, o1) => match unpackFmts w sub r data o1 with
      | none => none
      | some (rest, o2) => some (vals.map Obj.val ++ rest, o2)
  | .cls c :: r, data, off => match unpackNested w sub (w.classOf c) data off with
    | none => none
    | some (o, o1) => match unpackFmts w sub r data o1 with
      | none => none
      | some (rest, o2) => some (o :: rest, o2)
  | .lst c :: r, data, off => match w.listCount data off with
    | none => none
    | some (cnt, o0) => match unpackMany w sub (w.classOf c) cnt data o0 with
      | none => none
      | some (os, o1) => match unpackFmts w sub r data o1 with
        | none => none
        | some (rest, o2) => some (Obj.list os :: rest, o2)

/-- `unpack_serializable` for nesting depth ≤ n, class `k` in form `φ k` -/
def decodeObj (w : DWorld V) (φ : Nat → Bool) : Nat → Sub V
  | 0 => fun _ _ _ => none
  | n + 1 => fun k data off =>
    match unpackFmts w (decodeObj w φ n) (w.defs k).fmts data off with
    | none => none
    | some (raw, off') =>
      match (if φ k then compiledUnpack w.splice w.isNone (w.defs k) raw
             else interpUnpack (w.defs k) raw).toOption with
      | none => none
      | some attrs => some (Obj.inst (φ k) k attrs, off')

/-- both fail, or related objects at the same new offset -/
def ORel (n : Nat) : Option (Obj V × Nat) → Option (Obj V × Nat) → Prop
  | none, none => True
  | some (a, o), some (b, o') => Rn n a b ∧ o = o'
  | _, _ => False

def LRel (n : Nat) : Option (List (Obj V) × Nat) → Option (List (Obj V) × Nat) → Prop
  | none, none => True
  | some (a, o), some (b, o') => All₂ (Rn n) a b ∧ o = o'
  | _, _ => False

theorem All₂.append {α : Type} {r : α → α → Prop} {a b c d : List α} (h1 : All₂ r a b) (h2 : All₂ r c d) :
    All₂ r (a ++ c) (b ++ d) := by
  induction h1 with
  | nil => exact h2
  | cons hab _ ih => exact .cons hab ih

theorem All₂.reverse {α : Type} {r : α → α → Prop} {a b : List α} (h : All₂ r a b) :
    All₂ r a.reverse b.reverse := by
  induction h with
  | nil => exact .nil
  | cons hab _ ih =>
    simp only [List.reverse_cons]
    exact All₂.append ih (.cons hab .nil)

theorem unpackNested_rel (w : DWorld V) (n : Nat) (s t : Sub V)
    (h : ∀ k data off, ORel n (s k data off) (t k data off)) (k : Nat) (data : Bytes) (off : Nat) :
    ORel n (unpackNested w s k data off) (unpackNested w t k data off) := by
  unfold unpackNested
  cases w.nestedSlice data off with
  | none => trivial
  | some p =>
    obtain ⟨sl, off'⟩ := p
    have := h k sl 0
    cases hs : s k sl 0 with
    | none =>
      cases ht : t k sl 0 with
      | none => simp only [hs, ht, ORel]
      | some q => obtain ⟨b, o'⟩ := q; simp [hs, ht, ORel] at this
    | some p =>
      obtain ⟨a, o⟩ := p
      cases ht : t k sl 0 with
      | none => simp [hs, ht, ORel] at this
      | some q =>
        obtain ⟨b, o'⟩ := q
        simp only [hs, ht, ORel] at this
        simp only [hs, ht, ORel, and_true]
        exact this.1

theorem unpackMany_rel (w : DWorld V) (n : Nat) (s t : Sub V)
    (h : ∀ k data off, ORel n (s k data off) (t k data off)) (k c : Nat) (data : Bytes) (off : Nat) :
    LRel n (unpackMany w s k c data off) (unpackMany w t k c data off) := by
  induction c generalizing off with
  | zero => exact ⟨.nil, rfl⟩
  | succ c ih =>
    simp only [unpackMany]
    have h1 := unpackNested_rel w n s t h k data off
    cases hs : unpackNested w s k data off with
    | none =>
      cases ht : unpackNested w t k data off with
      | none => simp only [hs, ht, LRel]
      | some q => obtain ⟨b, o'⟩ := q; simp [hs, ht, ORel] at h1
    | some p =>
      obtain ⟨a, o⟩ := p
      cases ht : unpackNested w t k data off with
      | none => simp [hs, ht, ORel] at h1
      | some q =>
        obtain ⟨b, o'⟩ := q
        simp only [hs, ht, ORel] at h1
        obtain ⟨hab, ho⟩ := h1
        subst ho
        have h2 := ih o
        cases hs2 : unpackMany w s k c data o with
        | none =>
          cases ht2 : unpackMany w t k c data o with
          | none => simp only [hs, ht, hs2, ht2, LRel]
          | some q => obtain ⟨b2, o2⟩ := q; simp [hs2, ht2, LRel] at h2
        | some p2 =>
          obtain ⟨a2, o2⟩ := p2
          cases ht2 : unpackMany w t k c data o with
          | none => simp [hs2, ht2, LRel] at h2
          | some q =>
            obtain ⟨b2, o2'⟩ := q
            simp only [hs2, ht2, LRel] at h2
            simp only [hs, ht, hs2, ht2, LRel]
            exact ⟨.cons hab h2.1, h2.2⟩

/-- raw values of one level: related (one level up, because a `[cls]` entry wraps its items in a list) -/
theorem unpackFmts_rel (w : DWorld V) (n : Nat) (s t : Sub V)
    (h : ∀ k data off, ORel n (s k data off) (t k data off)) (fs : List Fmt) (data : Bytes) (off : Nat) :
    LRel (n + 1) (unpackFmts w s fs data off) (unpackFmts w t fs data off) := by
  induction fs generalizing off with
  | nil => exact ⟨.nil, rfl⟩
  | cons f fs ih =>
    have tail : ∀ (pre pre' : List (Obj V)) (o1 : Nat), All₂ (Rn (n + 1)) pre pre' →
        LRel (n + 1)
          (match unpackFmts w s fs data o1 with
            | none => none
            | some (rest, o2) => some (pre ++ rest, o2))
          (match unpackFmts w t fs data o1 with
            | none => none
            | some (rest, o2) => some (pre' ++ rest, o2)) := by
      intro pre pre' o1 hpre
      have h2 := ih o1
      cases hs2 : unpackFmts w s fs data o1 with
      | none =>
        cases ht2 : unpackFmts w t fs data o1 with
        | none => simp only [hs2, ht2, LRel]
        | some q => obtain ⟨b2, o2⟩ := q; simp [hs2, ht2, LRel] at h2
      | some p2 =>
        obtain ⟨a2, o2⟩ := p2
        cases ht2 : unpackFmts w t fs data o1 with
        | none => simp [hs2, ht2, LRel] at h2
        | some q =>
          obtain ⟨b2, o2'⟩ := q
          simp only [hs2, ht2, LRel] at h2
          simp only [hs2, ht2, LRel]
          exact ⟨All₂.append hpre h2.1, h2.2⟩
    cases f with
    | str name =>
      simp only [unpackFmts]
      cases w.unpackPrim name data off with
      | none => trivial
      | some p =>
        obtain ⟨vals, o1⟩ := p
        exact tail _ _ o1 (All₂.refl (Rn_refl _) _)
    | cls c =>
      simp only [unpackFmts]
      have h1 := unpackNested_rel w n s t h (w.classOf c) data off
      cases hs : unpackNested w s (w.classOf c) data off with
      | none =>
        cases ht : unpackNested w t (w.classOf c) data off with
        | none => simp only [hs, ht, LRel]
        | some q => obtain ⟨b, o'⟩ := q; simp [hs, ht, ORel] at h1
      | some p =>
        obtain ⟨a, o⟩ := p
        cases ht : unpackNested w t (w.classOf c) data off with
        | none => simp [hs, ht, ORel] at h1
        | some q =>
          obtain ⟨b, o'⟩ := q
          simp only [hs, ht, ORel] at h1
          obtain ⟨hab, ho⟩ := h1
          subst ho
          simp only [hs, ht]
          exact tail [a] [b] o (.cons (Rn_mono n a b hab) .nil)
    | lst c =>
      simp only [unpackFmts]
      cases w.listCount data off with
      | none => trivial
      | some p =>
        obtain ⟨cnt, o0⟩ := p
        simp only
        have h1 := unpackMany_rel w n s t h (w.classOf c) cnt data o0
        cases hs : unpackMany w s (w.classOf c) cnt data o0 with
        | none =>
          cases ht : unpackMany w t (w.classOf c) cnt data o0 with
          | none => simp only [hs, ht, LRel]
          | some q => obtain ⟨b, o'⟩ := q; simp [hs, ht, LRel] at h1
        | some p =>
          obtain ⟨a, o⟩ := p
          cases ht : unpackMany w t (w.classOf c) cnt data o0 with
          | none => simp [hs, ht, LRel] at h1
          | some q =>
            obtain ⟨b, o'⟩ := q
            simp only [hs, ht, LRel] at h1
            obtain ⟨hab, ho⟩ := h1
            subst ho
            simp only [hs, ht]
            exact tail [Obj.list a] [Obj.list b] o (.cons (Or.inr hab) .nil)


/-! ### one level: from related raw values to related instances -/

theorem zipHook_rel (m : Nat) (d : PDef (Obj V)) (names : List String) (raw raw' : List (Obj V))
    (h : All₂ (Rn m) raw raw')
    (hhook : ∀ name f, alookup d.fixUnpack name = some f → ∀ a b, Rn m a b → Rn m (f a) (f b)) :
    AttrsRel (Rn m) (names.zip (List.zipWith (unpackHook d) names raw))
      (names.zip (List.zipWith (unpackHook d) names raw')) := by
  unfold AttrsRel
  induction h generalizing names with
  | nil => cases names <;> exact .nil
  | @cons a b as bs hab _ ih =>
    cases names with
    | nil => exact .nil
    | cons n ns =>
      simp only [List.zipWith_cons_cons, List.zip_cons_cons]
      refine .cons ⟨rfl, ?_⟩ (ih ns)
      unfold unpackHook
      cases hf : alookup d.fixUnpack n with
      | none => exact hab
      | some f => exact hhook n f hf a b hab

theorem unpackNested_inst (w : DWorld V) (s : Sub V) (P : Obj V → Prop)
    (hs : ∀ k d o x o', s k d o = some (x, o') → P x) (k : Nat) (data : Bytes) (off : Nat) (x : Obj V) (o' : Nat)
    (h : unpackNested w s k data off = some (x, o')) : P x := by
  unfold unpackNested at h
  cases hn : w.nestedSlice data off with
  | none => simp [hn] at h
  | some p =>
    obtain ⟨sl, off'⟩ := p
    simp only [hn] at h
    cases hr : s k sl 0 with
    | none => simp [hr] at h
    | some q =>
      obtain ⟨y, o2⟩ := q
      simp only [hr, Option.some.injEq, Prod.mk.injEq] at h
      exact h.1 ▸ hs k sl 0 y o2 hr

/-- the raw values of one level: one per slot, none of them None -/
theorem unpackFmts_shape (w : DWorld V) (s : Sub V)
    (hslots : ∀ name data off vals o, w.unpackPrim name data off = some (vals, o) →
      vals.length = (Fmt.str name).slots ∧ ∀ v ∈ vals, w.isNone (.val v) = false)
    (hlist : ∀ l, w.isNone (.list l) = false)
    (hs : ∀ k d o x o', s k d o = some (x, o') → w.isNone x = false)
    (fs : List Fmt) (data : Bytes) (off : Nat) (raw : List (Obj V)) (o : Nat)
    (h : unpackFmts w s fs data off = some (raw, o)) :
    raw.length = totalSlots fs ∧ ∀ x ∈ raw, w.isNone x = false := by
  induction fs generalizing off raw o with
  | nil =>
    simp only [unpackFmts, Option.some.injEq, Prod.mk.injEq] at h
    obtain ⟨rfl, _⟩ := h
    exact ⟨rfl, by simp⟩
  | cons f fs ih =>
    cases f with
    | str name =>
      simp only [unpackFmts] at h
      cases hp : w.unpackPrim name data off with
      | none => simp [hp] at h
      | some p =>
        obtain ⟨vals, o1⟩ := p
        simp only [hp] at h
        cases hr : unpackFmts w s fs data o1 with
        | none => simp [hr] at h
        | some q =>
          obtain ⟨rest, o2⟩ := q
          simp only [hr, Option.some.injEq, Prod.mk.injEq] at h
          obtain ⟨rfl, _⟩ := h
          obtain ⟨h1, h2⟩ := hslots name data off vals o1 hp
          obtain ⟨h3, h4⟩ := ih o1 rest o2 hr
          refine ⟨by simp [totalSlots, h1, h3], ?_⟩
          intro x hx
          rcases List.mem_append.mp hx with hx | hx
          · obtain ⟨v, hv, rfl⟩ := List.mem_map.mp hx
            exact h2 v hv
          · exact h4 x hx
    | cls c =>
      simp only [unpackFmts] at h
      cases hp : unpackNested w s (w.classOf c) data off with
      | none => simp [hp] at h
      | some p =>
        obtain ⟨x0, o1⟩ := p
        simp only [hp] at h
        cases hr : unpackFmts w s fs data o1 with
        | none => simp [hr] at h
        | some q =>
          obtain ⟨rest, o2⟩ := q
          simp only [hr, Option.some.injEq, Prod.mk.injEq] at h
          obtain ⟨rfl, _⟩ := h
          obtain ⟨h3, h4⟩ := ih o1 rest o2 hr
          refine ⟨by simp [totalSlots, Fmt.slots, h3]; omega, ?_⟩
          intro x hx
          rcases List.mem_cons.mp hx with hx | hx
          · exact hx ▸ unpackNested_inst w s (fun y => w.isNone y = false) hs _ _ _ _ _ hp
          · exact h4 x hx
    | lst c =>
      simp only [unpackFmts] at h
      cases hc : w.listCount data off with
      | none => simp [hc] at h
      | some p0 =>
        obtain ⟨cnt, o0⟩ := p0
        simp only [hc] at h
        cases hp : unpackMany w s (w.classOf c) cnt data o0 with
        | none => simp [hp] at h
        | some p =>
          obtain ⟨os, o1⟩ := p
          simp only [hp] at h
          cases hr : unpackFmts w s fs data o1 with
          | none => simp [hr] at h
          | some q =>
            obtain ⟨rest, o2⟩ := q
            simp only [hr, Option.some.injEq, Prod.mk.injEq] at h
            obtain ⟨rfl, _⟩ := h
            obtain ⟨h3, h4⟩ := ih o1 rest o2 hr
            refine ⟨by simp [totalSlots, Fmt.slots, h3]; omega, ?_⟩
            intro x hx
            rcases List.mem_cons.mp hx with hx | hx
            · exact hx ▸ hlist os
            · exact h4 x hx

/-- MAIN (decoding): for every class table of well-formed definitions, every byte string and offset, every nesting
    depth n and ANY two assignments φ, ψ of forms (compiled / interpreted) to the classes: decoding with φ and with ψ
    both fail, or return the same offset and objects that are equal up to the forms of the instances in them — in
    particular the same field values at every level. -/
theorem decode_form_independent (w : DWorld V) (φ ψ : Nat → Bool)
    (hwf : ∀ c, (w.defs c).WF ∧ (w.defs c).DefaultsOK w.splice)
    (hhook : ∀ c name f, alookup (w.defs c).fixUnpack name = some f → ∀ m a b, Rn m a b → Rn m (f a) (f b))
    (hslots : ∀ name data off vals o, w.unpackPrim name data off = some (vals, o) →
      vals.length = (Fmt.str name).slots ∧ ∀ v ∈ vals, w.isNone (.val v) = false)
    (hlist : ∀ l, w.isNone (.list l) = false)
    (hinst : ∀ c k fs, w.isNone (.inst c k fs) = false) :
    ∀ n k data off, ORel (2 * n) (decodeObj w φ n k data off) (decodeObj w ψ n k data off) := by
  have hres : ∀ (χ : Nat → Bool) n k d o x o', decodeObj w χ n k d o = some (x, o') → w.isNone x = false := by
    intro χ n k d o x o' h
    cases n with
    | zero => simp [decodeObj] at h
    | succ n =>
      simp only [decodeObj] at h
      split at h
      · cases h
      · split at h
        · cases h
        · simp only [Option.some.injEq, Prod.mk.injEq] at h
          exact h.1 ▸ hinst _ _ _
  have hone : ∀ (χ : Nat → Bool) k raw, raw.length = (w.defs k).names.length →
      (∀ x ∈ raw, w.isNone x = false) →
      (if χ k then compiledUnpack w.splice w.isNone (w.defs k) raw else interpUnpack (w.defs k) raw).toOption
        = some ((w.defs k).names.zip (List.zipWith (unpackHook (w.defs k)) (w.defs k).names raw)).reverse := by
    intro χ k raw hl hn
    cases χ k
    · simp only [Bool.false_eq_true, if_false]
      exact interpUnpack_formula _ raw (hwf k).1 hl
    · simp only [if_true]
      rw [compiled_unpack_eq_lemma w.splice w.isNone _ raw (hwf k).1 (hwf k).2 hl hn]
      exact interpUnpack_formula _ raw (hwf k).1 hl
  intro n
  induction n with
  | zero => intro k data off; simp [decodeObj, ORel]
  | succ n ih =>
    intro k data off
    have hraw := unpackFmts_rel w (2 * n) (decodeObj w φ n) (decodeObj w ψ n) ih (w.defs k).fmts data off
    simp only [decodeObj]
    cases hs : unpackFmts w (decodeObj w φ n) (w.defs k).fmts data off with
    | none =>
      cases ht : unpackFmts w (decodeObj w ψ n) (w.defs k).fmts data off with
      | none => simp [ORel]
      | some q => obtain ⟨b, o'⟩ := q; simp [hs, ht, LRel] at hraw
    | some p =>
      obtain ⟨raw, o⟩ := p
      cases ht : unpackFmts w (decodeObj w ψ n) (w.defs k).fmts data off with
      | none => simp [hs, ht, LRel] at hraw
      | some q =>
        obtain ⟨raw', o'⟩ := q
        simp only [hs, ht, LRel] at hraw
        obtain ⟨hrel, ho⟩ := hraw
        subst ho
        obtain ⟨hl1, hn1⟩ := unpackFmts_shape w _ hslots hlist (hres φ n) _ _ _ _ _ hs
        obtain ⟨hl2, hn2⟩ := unpackFmts_shape w _ hslots hlist (hres ψ n) _ _ _ _ _ ht
        rw [← (hwf k).1.slots] at hl1 hl2
        simp only [hone φ k raw hl1 hn1, hone ψ k raw' hl2 hn2, ORel, and_true]
        refine Or.inr ⟨rfl, ?_⟩
        have hz := zipHook_rel (2 * n + 1) (w.defs k) (w.defs k).names raw raw' hrel
          (fun name f hf a b hab => hhook k name f hf _ a b hab)
        exact All₂.reverse hz

end Ipv8.C20
