/-
  C20 — property theorems.  Every `theorem` in this file is an obligation of the check; helper lemmas are in
  Lemmas.lean.  Model: Model.lean (three semantics of one payload definition), Gen.lean (regenerated from /repo).

  Conventions
    * `V` is an arbitrary type of Python values; hooks are arbitrary functions `V → V`; `splice v` is the value denoted
      by the text that `_compile_init` splices for the default `v` (`repr(v)` since the fix).
    * outcomes are compared with `Except.toOption`: equal results, or both raise (the KIND of exception differs by
      design: the interpreted constructor raises KeyError where a compiled `def` raises TypeError).
    * `PDef.WF`: distinct names and one name per slot (8 for "bits", else 1).  `PDef.DefaultsOK splice`: every default
      splices back to itself and no parameter without default follows one with a default.
-/
import Ipv8.C20.Lemmas
import Ipv8.C20.Nested
import Ipv8.C20.TreeDecode

namespace Ipv8.C20

variable {V : Type}

/-! ## constructor -/

/-- ∀ well-formed definitions, ∀ positional/keyword argument mixes (valid or not): the generated `__init__` and the
    interpreted constructor produce the same attributes, or both raise. -/
theorem compiled_init_eq (splice : V → Option V) (d : PDef V) (args : List V) (kw : KW V)
    (hwf : d.WF) (hd : d.DefaultsOK splice) (hkw : (keys kw).Nodup) :
    (compiledInit splice d args kw).toOption = (interpInit d args kw).toOption := by
  obtain ⟨gp, _, hc⟩ := vpCompile_ok splice d hwf hd
  simp only [compiledInit, hc]
  rw [runInit_generated d args kw hwf.nodup]
  exact init_core d args kw hwf hkw

/-- non-vacuity: bits in the middle, a default, a mixed call -/
example :
    let d : PDef Nat := { fmts := [.str "I", .str "bits", .str "H"],
                          names := ["a", "b0", "b1", "b2", "b3", "b4", "b5", "b6", "b7", "z"],
                          userInit := some true, defaults := [("z", 9)] }
    (compiledInit some d [1, 0, 1] [("b7", 1), ("b2", 0), ("b3", 0), ("b4", 0), ("b5", 0), ("b6", 0)]).toOption
      = some [("z", 9), ("b7", 1), ("b6", 0), ("b5", 0), ("b4", 0), ("b3", 0), ("b2", 0), ("b1", 1), ("b0", 0), ("a", 1)]
    ∧ (interpInit d [1, 0, 1] [("b7", 1), ("b2", 0), ("b3", 0), ("b4", 0), ("b5", 0), ("b6", 0)]).toOption
      = some [("z", 9), ("b7", 1), ("b6", 0), ("b5", 0), ("b4", 0), ("b3", 0), ("b2", 0), ("b1", 1), ("b0", 0), ("a", 1)] := by
  decide

/-- old-style superclass (`class NewC(VariablePayload, OldA)`, `OldA.__init__(self, a, b)`): the definition is well
    formed, the mixed call binds alike, and the call that passes `a` both positionally and by keyword is rejected by
    both forms (the interpreted form used to accept it and drop the positional value; repaired in /repo) -/
example :
    let d : PDef Nat := { fmts := [.str "I", .str "H", .str "B"], names := ["a", "b", "c"], superArgs := ["a", "b"] }
    (interpInit d [7] [("c", 3), ("b", 8)]).toOption = some [("c", 3), ("b", 8), ("a", 7)]
    ∧ (compiledInit some d [7] [("c", 3), ("b", 8)]).toOption = some [("c", 3), ("b", 8), ("a", 7)]
    ∧ (interpInit d [7, 8] [("a", 1), ("c", 3)]).toOption = none
    ∧ (compiledInit some d [7, 8] [("a", 1), ("c", 3)]).toOption = none := by
  decide

/-- the hypothesis on defaults is needed: with a default whose spliced text denotes another value (what
    `str(default)` did for the string "3") the compiled constructor differs from the interpreted one -/
theorem splice_hypothesis_needed :
    let d : PDef Nat := { fmts := [.str "I"], names := ["a"], userInit := some false, defaults := [("a", 3)] }
    (compiledInit (fun _ => some 4) d [] []).toOption ≠ (interpInit d [] []).toOption
    ∧ (compiledInit (fun _ => none) d [] []).toOption ≠ (interpInit d [] []).toOption := by
  decide

/-! ## to_pack_list and bytes -/

/-- ∀ well-formed definitions, ∀ instances (any attribute store): the generated `to_pack_list` returns exactly the
    interpreted pack list — same tags ("payload"/"payload-list" renaming included), same `fix_pack_` applications,
    same exception if an attribute is missing. -/
theorem compiled_pack_eq (splice : V → Option V) (d : PDef V) (attrs : Attrs V)
    (hwf : d.WF) (hd : d.DefaultsOK splice) :
    compiledPack splice d attrs = interpPack d attrs :=
  compiled_pack_eq_lemma splice d attrs hwf hd

example :
    let d : PDef Nat := { fmts := [.str "bits", .cls "Inner", .lst "Inner"],
                          names := ["b0", "b1", "b2", "b3", "b4", "b5", "b6", "b7", "p", "ps"],
                          fixPack := [("b1", fun x => x + 10)] }
    let attrs : Attrs Nat := [("ps", 5), ("p", 4), ("b7", 0), ("b6", 0), ("b5", 0), ("b4", 0), ("b3", 0), ("b2", 0),
                              ("b1", 1), ("b0", 0)]
    (compiledPack some d attrs).toOption
      = some [("bits", [0, 11, 0, 0, 0, 0, 0, 0]), ("payload", [4]), ("payload-list", [5])] := by
  decide

/-- a field that holds None ("not set") and has a pack rule: the rule sees the None in BOTH forms (the theorem above
    quantifies over all attribute values; this instance is the one seeded change C20_m10 breaks in the interpreted
    `_fix_pack`) -/
example :
    let d : PDef (Option Nat) := { fmts := [.str "?", .str "I"], names := ["flag", "n"],
                                   fixPack := [("flag", fun v => match v with | none => some 1 | some x => some x)] }
    (interpPack d [("n", some 5), ("flag", none)]).toOption = some [("?", [some 1]), ("I", [some 5])]
    ∧ (compiledPack some d [("n", some 5), ("flag", none)]).toOption = some [("?", [some 1]), ("I", [some 5])] := by
  decide

/-- constructor → pack list → bytes, composed (the property's "given the same constructor arguments … the same
    bytes"): for every packer function the compiled form's bytes equal the interpreted form's, or both fail -/
theorem compiled_ctor_to_bytes_eq (splice : V → Option V) (packer : String → List V → Option Bytes) (d : PDef V)
    (args : List V) (kw : KW V) (hwf : d.WF) (hd : d.DefaultsOK splice) (hkw : (keys kw).Nodup) :
    ((compiledInit splice d args kw).toOption.bind
        fun a => (compiledPack splice d a).toOption.bind (packBytes packer))
      = ((interpInit d args kw).toOption.bind
        fun a => (interpPack d a).toOption.bind (packBytes packer)) := by
  rw [compiled_init_eq splice d args kw hwf hd hkw]
  congr 1
  funext a
  rw [compiled_pack_eq splice d a hwf hd]

/-- the code as repaired binds the default OBJECTS (`splice = some`): the only hypothesis left on defaults is the one
    Python's grammar enforces on the user's own `__init__` (no parameter without default after one with a default) -/
theorem compiled_init_eq_bound_defaults (d : PDef V) (args : List V) (kw : KW V) (hwf : d.WF)
    (hord : defaultsOrdered (d.names.map (fun n => (n, alookup d.defaults n))) = true) (hkw : (keys kw).Nodup) :
    (compiledInit some d args kw).toOption = (interpInit d args kw).toOption :=
  compiled_init_eq some d args kw hwf ⟨fun _ _ _ => rfl, hord⟩ hkw

/-- keyword-only defaults (`def __init__(self, a, *, b=1, c=2)`, dataclass `field(default=…, kw_only=True)`): the
    generated `__init__` makes them ordinary parameters WITH their defaults, so every call the plain definition accepts
    (at most the non-keyword-only names positionally) gives the same attributes in the compiled form.  (The converse
    fails by design: the compiled form also accepts those names positionally, and the interpreted `from_unpack_list`,
    which passes everything positionally, cannot build such a class at all.) -/
theorem compiled_init_eq_kwonly (splice : V → Option V) (d : PDef V) (args : List V) (kw : KW V)
    (hnd : d.names.Nodup) (hslots : d.names.length = totalSlots d.fmts) (hsup : d.superArgs = [])
    (hsplice : ∀ n v, alookup d.defaults n = some v → splice v = some v)
    (hord : defaultsOrdered (d.names.map (fun n => (n, alookup d.defaults n))) = true)
    (hkw : (keys kw).Nodup) (hargs : args.length ≤ d.names.length - d.kwOnly.length) :
    (compiledInit splice d args kw).toOption = (interpInit d args kw).toOption := by
  have hguard : (!d.kwOnly.isEmpty && decide (args.length > d.names.length - d.kwOnly.length)) = false := by
    have : ¬ (args.length > d.names.length - d.kwOnly.length) := by omega
    simp [this]
  have hi : interpInit d args kw = interpInit { d with kwOnly := [] } args kw := by
    unfold interpInit
    cases d.userInit with
    | none => rfl
    | some b => simp only [hguard, List.isEmpty_nil, Bool.not_true, Bool.false_and, Bool.false_eq_true, if_false]; rfl
  have hc : compiledInit splice d args kw = compiledInit splice { d with kwOnly := [] } args kw := rfl
  rw [hi, hc]
  exact compiled_init_eq splice _ args kw (PDef.WF.of_no_super _ hnd hslots hsup rfl) ⟨hsplice, hord⟩ hkw

/-- non-vacuity, and the witness for seeded change C20_m7 (defaults read from getfullargspec().defaults only: the
    keyword-only ones are lost, `sigDefaults` would be empty): with the defaults the call binds, without them it fails -/
example :
    let d : PDef Nat := { fmts := [.str "I", .str "H", .str "B"], names := ["identifier", "ttl", "label"],
                          userInit := some false, defaults := [("ttl", 7), ("label", 9)], kwOnly := ["ttl", "label"] }
    (interpInit d [42] [("label", 1)]).toOption = some [("label", 1), ("ttl", 7), ("identifier", 42)]
    ∧ (compiledInit some d [42] [("label", 1)]).toOption = some [("label", 1), ("ttl", 7), ("identifier", 42)]
    ∧ (compiledInit some { d with defaults := [] } [42] [("label", 1)]).toOption = none
    ∧ (interpInit d [42, 7] []).toOption = none ∧ (compiledInit some d [42, 7] []).toOption.isSome = true
    ∧ (interpUnpack d [42, 7, 9]).toOption = none := by
  decide

/-- that hypothesis is needed, and it is what `@dataclass(kw_only=True)` runs into (keyword-only parameters are
    regenerated as positional ones): a required field after a defaulted one does not compile (known finding
    `convert_to_payload:dataclass-field-options`; a `default_factory` field is refused by `convert_to_payload` with
    NotImplementedError — binding the signature's default would be the `splice_hypothesis_needed` case: dataclasses'
    marker object instead of `factory()`) -/
theorem kw_only_signature_does_not_compile :
    let d : PDef Nat := { fmts := [.str "q", .str "q"], names := ["a", "b"], userInit := some false,
                          defaults := [("a", 1)] }
    (vpCompile some d).toOption.isNone = true ∧ (interpInit d [] [("b", 7)]).toOption = some [("b", 7), ("a", 1)] := by
  decide

/-- form D re-runs `vp_compile` on every instantiation, reading the defaults back from the signature of the
    previously GENERATED `__init__`: that changes nothing -/
theorem recompile_idempotent (splice : V → Option V) (d : PDef V) (c : Compiled V)
    (hwf : d.WF) (hd : d.DefaultsOK splice) (h : vpCompile splice d = .ok c) :
    vpCompile splice (recompileDef d c) = .ok c := by
  obtain ⟨gp, hgp, hc⟩ := vpCompile_ok splice d hwf hd
  rw [hc] at h
  injection h with h
  subst h
  obtain ⟨hsig, hnot⟩ := recompile_sig d (compileUnpack d.names (hasKey d.fixUnpack)) gp
  generalize hr : recompileDef d _ = r at hsig hnot
  have hnames : r.names = d.names := by subst hr; rfl
  have hfm : r.fmts = d.fmts := by subst hr; rfl
  have hfp : r.fixPack = d.fixPack := by subst hr; rfl
  have hfu : r.fixUnpack = d.fixUnpack := by subst hr; rfl
  have hsup : r.superArgs = d.superArgs := by subst hr; rfl
  have hwf' : r.WF := ⟨hnames ▸ hwf.nodup, by rw [hnames, hfm]; exact hwf.slots,
    by rw [hsup, hnames]; exact hwf.super_prefix, by rw [hsup, hfm]; exact hwf.super_len,
    by rw [hsup, hfm]; exact hwf.super_single, by subst hr; exact hwf.no_kwonly⟩
  have hmap : r.names.map (fun n => (n, alookup r.sigDefaults n)) = d.names.map (fun n => (n, alookup d.sigDefaults n)) := by
    rw [hnames]
    exact List.map_congr_left (fun n hn => by rw [hsig n hn])
  have hd' : r.DefaultsOK splice := by
    constructor
    · intro n v hv
      have hui : r.userInit = some false := by subst hr; rfl
      have hs : r.sigDefaults = r.defaults := by simp [PDef.sigDefaults, hui]
      rw [← hs] at hv
      by_cases hn : n ∈ d.names
      · rw [hsig n hn] at hv
        cases hu : d.userInit with
        | none => simp [PDef.sigDefaults, hu, alookup] at hv
        | some b => simp only [PDef.sigDefaults, hu] at hv; exact hd.splice_same n v hv
      · rw [hnot n hn] at hv
        cases hv
    · have hui : r.userInit = some false := by subst hr; rfl
      have hs : r.sigDefaults = r.defaults := by simp [PDef.sigDefaults, hui]
      rw [← hs, hmap]
      have := (compileInit_ok splice d hd)
      -- ordering of the original signature
      cases hu : d.userInit with
      | none => simpa [PDef.sigDefaults, hu, alookup] using defaultsOrdered_none (V := V) d.names
      | some b => simpa [PDef.sigDefaults, hu] using hd.ordered
  obtain ⟨gp', hgp', hc'⟩ := vpCompile_ok splice r hwf' hd'
  rw [hc', hmap, hnames, hfu]
  rw [hfm, hnames, hfp, hgp] at hgp'
  injection hgp' with hgp'
  rw [← hgp']

/-! ## trees of nested payloads in mixed forms: the induction over the nesting depth, mechanised (Tree.lean) -/

/-- BYTES.  `Obj V` = primitive value | payload instance (form of its class, class id, attributes) | list;
    `bytesOf w n` = `pack_serializable` to nesting depth n where every instance uses the `to_pack_list` of ITS OWN form;
    `Rn n a b` = "a and b are the same object up to the forms of the instances in them (to depth n)".
    For every class table of well-formed definitions, all primitive packers, every depth: form-related trees produce
    the same bytes or both fail.  Hooks are arbitrary functions on `Obj V` that respect the relation (any hook that
    only looks at primitive values does). -/
theorem nested_bytes_form_independent (w : World V)
    (hwf : ∀ c, (w.defs c).WF ∧ (w.defs c).DefaultsOK w.splice)
    (hhook : ∀ c name f, alookup (w.defs c).fixPack name = some f → ∀ n a b, Rn n a b → Rn n (f a) (f b)) :
    ∀ n a b, Rn n a b → bytesOf w n a = bytesOf w n b :=
  bytes_form_independent w hwf hhook

/-- DECODING.  `decodeObj w φ n` = `unpack_serializable` to nesting depth n where class k is in form `φ k`; nested
    class entries and `[cls]` entries recurse; the byte-level primitives (`unpackPrim`, `nestedSlice`, `listCount`)
    are arbitrary functions.  For ANY two form assignments the results are both failures, or the same offset and
    objects equal up to forms — the same field values at every level.  Hypotheses on the Serializer: a primitive
    unpacker appends one value per slot and never None. -/
theorem nested_decode_form_independent (w : DWorld V) (φ ψ : Nat → Bool)
    (hwf : ∀ c, (w.defs c).WF ∧ (w.defs c).DefaultsOK w.splice)
    (hhook : ∀ c name f, alookup (w.defs c).fixUnpack name = some f → ∀ m a b, Rn m a b → Rn m (f a) (f b))
    (hslots : ∀ name data off vals o, w.unpackPrim name data off = some (vals, o) →
      vals.length = (Fmt.str name).slots ∧ ∀ v ∈ vals, w.isNone (.val v) = false)
    (hlist : ∀ l, w.isNone (.list l) = false)
    (hinst : ∀ c k fs, w.isNone (.inst c k fs) = false) :
    ∀ n k data off, ORel (2 * n) (decodeObj w φ n k data off) (decodeObj w ψ n k data off) :=
  decode_form_independent w φ ψ hwf hhook hslots hlist hinst

/-- non-vacuity of the decoding theorem: a two-level world in which decoding SUCCEEDS under both form assignments -/
example :
    let w : DWorld Nat :=
      { defs := fun k => if k = 0 then { fmts := [.str "B"], names := ["x"] }
                         else { fmts := [.str "B", .cls "Inner", .lst "Inner"], names := ["a", "p", "ps"] },
        classOf := fun _ => 0, splice := some, isNone := fun _ => false,
        unpackPrim := fun _ data off => (data[off]?).map (fun b => ([b.toNat], off + 1)),
        nestedSlice := fun data off => (data[off]?).map (fun b => ((data.drop (off + 1)).take b.toNat, off + 1 + b.toNat)),
        listCount := fun data off => (data[off]?).map (fun b => (b.toNat, off + 1)) }
    (decodeObj w (fun _ => true) 2 1 [7, 1, 9, 2, 1, 4, 1, 5] 0).map (·.2) = some 8
    ∧ (decodeObj w (fun _ => false) 2 1 [7, 1, 9, 2, 1, 4, 1, 5] 0).map (·.2) = some 8 := by
  decide

/-- non-vacuity: an outer class with a nested payload and a payload list; all forms flipped; same bytes -/
example :
    let w : World Nat :=
      { defs := fun k => if k = 0 then { fmts := [.str "B"], names := ["x"] }
                         else { fmts := [.str "B", .cls "Inner", .lst "Inner"], names := ["a", "p", "ps"] },
        splice := some, prim := fun _ ls => some (ls.map UInt8.ofNat) }
    let a : Obj Nat := .inst true 1 [("ps", .list [.inst false 0 [("x", .val 3)]]), ("p", .inst true 0 [("x", .val 2)]),
                                     ("a", .val 1)]
    let b : Obj Nat := .inst false 1 [("ps", .list [.inst true 0 [("x", .val 3)]]), ("p", .inst false 0 [("x", .val 2)]),
                                      ("a", .val 1)]
    bytesOf w 2 a = some [1, 0, 1, 2, 1, 0, 1, 3] ∧ bytesOf w 2 b = some [1, 0, 1, 2, 1, 0, 1, 3] := by
  decide

/-! ## from_unpack_list and decoding -/

/-- ∀ well-formed definitions, ∀ raw value lists of the right arity without None: the generated `from_unpack_list`
    (parameter binding, `None if x is None else cls.fix_unpack_x(x)` guards, constructor call) yields the interpreted
    fields, or both raise. -/
theorem compiled_unpack_eq (splice : V → Option V) (isNone : V → Bool) (d : PDef V) (args : List V)
    (hwf : d.WF) (hd : d.DefaultsOK splice)
    (hlen : args.length = d.names.length) (hnone : ∀ a ∈ args, isNone a = false) :
    (compiledUnpack splice isNone d args).toOption = (interpUnpack d args).toOption :=
  compiled_unpack_eq_lemma splice isNone d args hwf hd hlen hnone

example :
    let d : PDef Nat := { fmts := [.str "I", .str "H"], names := ["a", "b"], fixUnpack := [("b", fun x => x - 1)] }
    (compiledUnpack some (fun v => v == 0) d [7, 8]).toOption = some [("b", 7), ("a", 7)] := by
  decide

/-- the None hypothesis is needed: the compiled guard passes None through where the interpreted form calls the hook
    (the Serializer never produces None; the correspondence run exercises the guard) -/
theorem none_guard_differs :
    let d : PDef Nat := { fmts := [.str "I"], names := ["a"], fixUnpack := [("a", fun x => x + 1)] }
    (compiledUnpack some (fun v => v == 0) d [0]).toOption = some [("a", 0)]
    ∧ (interpUnpack d [0]).toOption = some [("a", 1)] := by
  decide

/-- decoding: `unpack_serializable` runs the unpackers of the (shared) `format_list` and hands the values to
    `from_unpack_list`.  Hypothesis on the Serializer: the unpackers of `fmts` append one value per slot and never
    None (checked against the live registry by the harness). -/
theorem compiled_decode_eq (splice : V → Option V) (isNone : V → Bool)
    (unpackAll : List Fmt → Bytes → Option (List V)) (d : PDef V) (data : Bytes)
    (hwf : d.WF) (hd : d.DefaultsOK splice)
    (hser : ∀ vs, unpackAll d.fmts data = some vs → vs.length = totalSlots d.fmts ∧ ∀ a ∈ vs, isNone a = false) :
    (decodeWith unpackAll d.fmts (compiledUnpack splice isNone d) data).toOption
      = (decodeWith unpackAll d.fmts (interpUnpack d) data).toOption := by
  unfold decodeWith
  cases hu : unpackAll d.fmts data with
  | none => rfl
  | some vs =>
    obtain ⟨h1, h2⟩ := hser vs hu
    exact compiled_unpack_eq splice isNone d vs hwf hd (by rw [h1, hwf.slots]) h2

/-! ## dataclass form -/

/-- what `convert_to_payload` derives from a dataclass: names = field names in order, formats = `type_map` of the
    annotations, defaults = the dataclass defaults, a generated `__init__` without `**kwargs` -/
theorem dataclass_def (dd : DDef V) (d : PDef V) (h : dd.toPDef = .ok d) :
    d.names = dd.fields.map (·.1) ∧ mapTypes (dd.fields.map (·.2.1)) = .ok d.fmts ∧
    d.userInit = some false ∧ d.defaults = fieldDefaults dd.fields ∧
    d.fixPack = dd.fixPack ∧ d.fixUnpack = dd.fixUnpack ++ derivedUnpack dd.conv dd.fixUnpack dd.fields := by
  unfold DDef.toPDef at h
  cases hm : mapTypes (dd.fields.map (·.2.1)) with
  | error e => simp [hm] at h
  | ok fmts =>
    simp only [hm, Except.ok.injEq] at h
    subst h
    exact ⟨rfl, rfl, rfl, rfl, rfl, rfl⟩

/-- a dataclass with distinct field names and no `type_from_format("bits")` annotation denotes a well-formed
    definition (every `type_map` image occupies one slot) -/
theorem dataclass_wf (dd : DDef V) (d : PDef V) (h : dd.toPDef = .ok d)
    (hnd : (dd.fields.map (·.1)).Nodup) (hbits : ∀ f ∈ dd.fields, f.2.1 ≠ .tvar "bits") : d.WF := by
  obtain ⟨h1, h2, _⟩ := dataclass_def dd d h
  have hs : d.superArgs = [] := by
    unfold DDef.toPDef at h
    cases hm : mapTypes (dd.fields.map (·.2.1)) with
    | error e => simp [hm] at h
    | ok fmts => simp only [hm, Except.ok.injEq] at h; subst h; rfl
  have hk : d.kwOnly = [] := by
    unfold DDef.toPDef at h
    cases hm : mapTypes (dd.fields.map (·.2.1)) with
    | error e => simp [hm] at h
    | ok fmts => simp only [hm, Except.ok.injEq] at h; subst h; rfl
  refine PDef.WF.of_no_super d (h1 ▸ hnd) ?_ hs hk
  rw [h1, mapTypes_slots _ _ h2 (by
    intro t ht
    simp only [List.mem_map] at ht
    obtain ⟨f, hf, rfl⟩ := ht
    exact hbits f hf)]
  simp

/-- ∀ dataclass payloads (after conversion): constructor, pack list and decoded fields equal those of the plain
    interpreted definition with the `type_map`'d formats. -/
theorem dataclass_eq (splice : V → Option V) (isNone : V → Bool) (dd : DDef V) (d : PDef V)
    (h : dd.toPDef = .ok d) (hwf : d.WF) (hd : d.DefaultsOK splice) :
    (∀ args kw, (keys kw).Nodup →
        (dataclassInit splice dd args kw).toOption = (interpInit d args kw).toOption) ∧
    (∀ attrs, dataclassPack splice dd attrs = interpPack d attrs) ∧
    (∀ args, args.length = d.names.length → (∀ a ∈ args, isNone a = false) →
        (dataclassUnpack splice isNone dd args).toOption = (interpUnpack d args).toOption) := by
  refine ⟨?_, ?_, ?_⟩
  · intro args kw hkw
    simp only [dataclassInit, h]
    exact compiled_init_eq splice d args kw hwf hd hkw
  · intro attrs
    simp only [dataclassPack, h]
    exact compiled_pack_eq splice d attrs hwf hd
  · intro args hl hn
    simp only [dataclassUnpack, h]
    exact compiled_unpack_eq splice isNone d args hwf hd hl hn

example :
    let dd : DDef Nat := { fields := [("a", .int, none), ("b", .coll .list .bool, none), ("c", .coll .tuple (.ser "Item"), some 5)] }
    (dd.toPDef.toOption.map (·.fmts)) = some [.str "q", .str "arrayH-?", .lst "Item"]
    ∧ (dataclassInit some dd [1] [("b", 2)]).toOption = some [("c", 5), ("b", 2), ("a", 1)] := by
  decide

/-- `type_map` as it is in the source today (table regenerated from payload_dataclass.py): the native types map to
    the documented formats, every image (also for list[bool|int|float]) is a registered format, and the hand model
    `nativeFmt`/`typeMap` agrees with the generated table. -/
theorem type_map_formats :
    Gen.typeMapTable = [("bool", "?"), ("int", "q"), ("float", "d"), ("bytes", "varlenH"), ("str", "varlenHutf8")]
    ∧ Gen.arrayPrefix = "arrayH-" ∧ Gen.typeVarBranch = true
    ∧ (∀ p ∈ Gen.typeMapTable, p.2 ∈ Gen.registeredFormats)
    ∧ (∀ s ∈ ["?", "q", "d"], (Gen.arrayPrefix ++ s) ∈ Gen.registeredFormats)
    ∧ [nativeFmt .bool, nativeFmt .int, nativeFmt .float, nativeFmt .bytes, nativeFmt .str]
        = Gen.typeMapTable.map (fun p => some p.2)
    ∧ (typeMap (.coll .set .int)).toOption = some (.str (Gen.arrayPrefix ++ "q")) := by
  decide

/-! ## the dataclass form before its first instantiation (known finding) -/

/-- FULL STATEMENT (does not hold for the code as it is): for every dataclass payload and every byte string,
    `unpack_serializable` on the dataclass class decodes like the plain definition — including when no instance of
    the class has been created yet.

    What holds: after the first instantiation (`dataclass_decode_eq_partial`).  Before it, the class still carries
    `format_list = []`/`names = []`, so nothing is unpacked and the constructor is called without arguments: -/
theorem dataclass_decode_first_fails (splice : V → Option V) (unpackAll : List Fmt → Bytes → Option (List V))
    (dd : DDef V) (d : PDef V) (data : Bytes)
    (h : dd.toPDef = .ok d) (hwf : d.WF) (hd : d.DefaultsOK splice)
    (hempty : unpackAll [] data = some [])
    (hreq : ∃ n ∈ d.names, alookup d.defaults n = none) :
    dataclassDecodeFirst unpackAll splice dd data = .error .typeError := by
  obtain ⟨gp, _, hc⟩ := vpCompile_ok splice d hwf hd
  obtain ⟨_, _, hui, _⟩ := dataclass_def dd d h
  have hsig : d.sigDefaults = d.defaults := by simp [PDef.sigDefaults, hui]
  simp only [dataclassDecodeFirst, decodeWith, hempty, unpackFix, dataclassInit, h, compiledInit, hc]
  rw [runInit_generated d [] [] hwf.nodup, hsig, bindParams_missing (alookup d.defaults) d.names hreq]

/-- negation of the full statement, with a concrete witness: one int field, bytes that the plain definition decodes -/
theorem dataclass_decode_first_witness :
    let dd : DDef Nat := { fields := [("a", .int, none)] }
    let unpackAll : List Fmt → Bytes → Option (List Nat) := fun fmts _ => some (fmts.map (fun _ => 7))
    (dataclassDecodeFirst unpackAll some dd [0, 0, 0, 0, 0, 0, 0, 7]).toOption = none
    ∧ (decodeWith unpackAll [.str "q"] (interpUnpack { fmts := [.str "q"], names := ["a"] }) [0, 0, 0, 0, 0, 0, 0, 7]).toOption
        = some [("a", 7)] := by
  decide

/-- the proved part: once the class has been converted (first instantiation), decoding agrees -/
theorem dataclass_decode_eq_partial (splice : V → Option V) (isNone : V → Bool)
    (unpackAll : List Fmt → Bytes → Option (List V)) (dd : DDef V) (d : PDef V) (data : Bytes)
    (h : dd.toPDef = .ok d) (hwf : d.WF) (hd : d.DefaultsOK splice)
    (hser : ∀ vs, unpackAll d.fmts data = some vs → vs.length = totalSlots d.fmts ∧ ∀ a ∈ vs, isNone a = false) :
    (decodeWith unpackAll d.fmts (dataclassUnpack splice isNone dd) data).toOption
      = (decodeWith unpackAll d.fmts (interpUnpack d) data).toOption := by
  have : dataclassUnpack splice isNone dd = compiledUnpack splice isNone d := by
    funext args
    simp only [dataclassUnpack, h]
  rw [this]
  exact compiled_decode_eq splice isNone unpackAll d data hwf hd hser

/-! ## inheritance between dataclass payloads and the order of first instantiation

  The condition under which `__new__` converts the class is read from the SOURCE (`Gen.newGuard`, regenerated on
  every run); `DChain.newStep`/`DChain.run` execute it.  The theorems below are about the guard the code has now and
  stop compiling when it changes (`hier_guard_matters` shows that they can fail). -/

/-- in both `__new__` methods the source converts (at least) every class that has not been converted itself -/
theorem new_guard_converts_unconverted : Gen.newGuard = .always ∨ Gen.newGuard = .oncePerClass := by decide

/-- class-level data does not depend on the conversion state once the class itself has been instantiated: for every
    chain, every sequence of instantiations (parents first, children first, interleaved, repeated) that contains class
    `k`, under the guard of the source, `format_list`/`names` of class `k` are those of its flattened field list
    (parent fields ++ own fields). -/
theorem hier_class_def_after_instance (c : DChain V) (evs : List Nat) (k : Nat) (h : k ∈ evs) :
    c.classData (c.run Gen.newGuard evs) k = c.classData [k] k := by
  unfold DChain.classData
  rw [nearest_self _ k ((c.mem_run Gen.newGuard new_guard_converts_unconverted evs k).mpr h),
    nearest_self [k] k (by simp)]

/-- the statement is sensitive to the guard: with "convert only if `not cls.format_list`" (seeded change C20_m3) a child
    instantiated after its parent keeps the parent's class-level data -/
theorem hier_guard_matters :
    let c : DChain Nat := { levels := [[("ident", .int, none)], [("body", .bytes, some 7)]] }
    (c.classData (c.run .ifNoFormatList [0, 1]) 1).toOption = some ([.str "q"], ["ident"])
    ∧ (c.classData (c.run .always [0, 1]) 1).toOption = some ([.str "q", .str "varlenH"], ["ident", "body"])
    ∧ (c.classData (c.run .oncePerClass [0, 1, 0]) 1).toOption = some ([.str "q", .str "varlenH"], ["ident", "body"])
    ∧ (c.classData (c.run .ifNoFormatList [1, 0]) 1).toOption = some ([.str "q", .str "varlenH"], ["ident", "body"]) := by
  decide

/-- instances: whatever was converted before, constructing class `k` (its `__new__` running under the guard of the
    source) behaves like the plain interpreted definition of the flattened field list, and so do its pack list and
    `from_unpack_list` (conversion state has no influence). -/
theorem hier_instance_eq (splice : V → Option V) (isNone : V → Bool) (c : DChain V) (conv : List Nat) (k : Nat)
    (d : PDef V) (h : (c.ddef k).toPDef = .ok d) (hwf : d.WF) (hd : d.DefaultsOK splice) :
    (∀ args kw, (keys kw).Nodup →
        (c.hierInit Gen.newGuard splice conv k args kw).toOption = (interpInit d args kw).toOption) ∧
    (∀ attrs, dataclassPack splice (c.ddef k) attrs = interpPack d attrs) ∧
    (∀ args, args.length = d.names.length → (∀ a ∈ args, isNone a = false) →
        (dataclassUnpack splice isNone (c.ddef k) args).toOption = (interpUnpack d args).toOption) := by
  obtain ⟨h1, h2, h3⟩ := dataclass_eq splice isNone (c.ddef k) d h hwf hd
  refine ⟨?_, h2, h3⟩
  intro args kw hkw
  unfold DChain.hierInit
  rw [nearest_self _ k (c.mem_newStep Gen.newGuard new_guard_converts_unconverted conv k)]
  exact h1 args kw hkw

/-- decoding is where the state matters, and exactly so: a class that has been instantiated decodes like its plain
    flattened definition in every state; a class that has NOT been instantiated decodes as its nearest converted
    ancestor (a parent-shaped object), or as in `dataclass_decode_first_fails` if there is none — and that failed
    attempt converts it (`decodeStep`), so the next decode succeeds. -/
theorem hier_decode_state (splice : V → Option V) (isNone : V → Bool)
    (unpackAll : List Fmt → Bytes → Option (List V)) (c : DChain V) (conv : List Nat) (k : Nat) (data : Bytes) :
    (k ∈ conv → ∀ d, (c.ddef k).toPDef = .ok d → d.WF → d.DefaultsOK splice →
        (∀ vs, unpackAll d.fmts data = some vs → vs.length = totalSlots d.fmts ∧ ∀ a ∈ vs, isNone a = false) →
        (c.hierDecode unpackAll splice isNone conv k data).toOption
          = (decodeWith unpackAll d.fmts (interpUnpack d) data).toOption) ∧
    (∀ j, nearest conv k = some j →
        c.hierDecode unpackAll splice isNone conv k data = c.hierDecode unpackAll splice isNone [j] j data) ∧
    (nearest conv k = none →
        c.hierDecode unpackAll splice isNone conv k data = dataclassDecodeFirst unpackAll splice (c.ddef k) data
        ∧ k ∈ c.decodeStep Gen.newGuard conv k) := by
  refine ⟨?_, ?_, ?_⟩
  · intro hk d hd hwf hdo hser
    unfold DChain.hierDecode
    rw [nearest_self conv k hk]
    simp only [hd]
    exact dataclass_decode_eq_partial splice isNone unpackAll (c.ddef k) d data hd hwf hdo hser
  · intro j hj
    unfold DChain.hierDecode
    rw [hj, nearest_self [j] j (by simp)]
  · intro hn
    refine ⟨?_, ?_⟩
    · unfold DChain.hierDecode
      rw [hn]
    · unfold DChain.decodeStep
      rw [hn]
      exact c.mem_newStep Gen.newGuard new_guard_converts_unconverted conv k

/-- non-vacuity: header/body chain, parent instantiated first, then the child -/
example :
    let c : DChain Nat := { levels := [[("ident", .int, none), ("flag", .bool, some 1)],
                                       [("body", .bytes, some 7), ("text", .str, some 8)]] }
    (c.classData (c.run Gen.newGuard [0, 1]) 1).toOption
        = some ([.str "q", .str "?", .str "varlenH", .str "varlenHutf8"], ["ident", "flag", "body", "text"])
    ∧ (c.classData (c.run Gen.newGuard [0]) 1).toOption = some ([.str "q", .str "?"], ["ident", "flag"])
    ∧ (c.hierInit Gen.newGuard some (c.run Gen.newGuard [0]) 1 [5] []).toOption
        = some [("text", 8), ("body", 7), ("flag", 1), ("ident", 5)] := by
  decide

/-- a subclass that declares a parent's `tuple[...]` field again with a NON-container type has no container rule of its
    own, whatever was converted before (the rule is a function of the class's own annotations; seeded change C20_m11
    kept the parent's) -/
example :
    let c : DChain Nat := { levels := [[("a", .int, none), ("t", .coll .tuple .int, none)], [("t", .bytes, none)]] }
    ((c.ddef 0).toPDef.toOption.map (fun d => (d.fmts, d.fixUnpack.map (·.1))))
        = some ([.str "q", .str "arrayH-q"], ["t"])
    ∧ ((c.ddef 1).toPDef.toOption.map (fun d => (d.fmts, d.fixUnpack.map (·.1))))
        = some ([.str "q", .str "varlenH"], []) := by
  decide

/-- an UNCOMPILED subclass of a vp_compile'd class that extends the field list inherits the parent's generated
    methods: the full statement (it behaves like the plain definition of the flattened field list) fails; witness -/
theorem uncompiled_subclass_of_compiled_differs :
    let parent : PDef Nat := { fmts := [.str "I", .str "H"], names := ["a", "b"] }
    let child : PDef Nat := { fmts := [.str "I", .str "H", .str "B"], names := ["a", "b", "c"] }
    (hybridInit some parent [1, 2, 3] []).toOption = none
    ∧ (interpInit child [1, 2, 3] []).toOption = some [("c", 3), ("b", 2), ("a", 1)] := by
  decide

/-! ## translated ties (re-proved against the source on every run)

  `Gen.compiledBattery` / `Gen.dataclassBattery` are written by the translator from what the REAL `vp_compile` /
  `convert_to_payload` of the working tree did to a fixed battery of definitions (every branch of the generators:
  bits first/middle/last, nested class, payload list, hooks also on bits names and inherited, user `__init__` with
  defaults / `**kwargs` / keyword-only / inherited, old-style superclass, 12 fields) and to every shipped class.  A change
  of the generators or of the conversion that alters the emitted code / the class data of any battery member makes these
  `decide` proofs fail. -/

/-- the hand-written generators `compileInit/compileUnpack/compilePack` emit, for every battery member and every
    shipped compiled class, exactly the code shape that the real `_compile_init/_compile_from_unpack_list/
    _compile_to_pack_list` emitted -/
theorem generated_code_matches_model : ∀ e ∈ Gen.compiledBattery, e.1.modelShape = some e.2 := by decide

/-- `typeMap`, the field order and the derived container rules of the model reproduce, for every battery dataclass,
    what the real `convert_to_payload` produced (`none` = the conversion is refused) -/
theorem dataclass_conversion_matches_model : ∀ c ∈ Gen.dataclassBattery, c.model = c.result := by decide

/-- the batteries are not empty and contain the interesting shapes (when the emitted text is inside the parser's subset;
    otherwise the translator leaves those members out and says so: `coverage.translator` in the evidence) -/
example : Gen.batteryTextRecognised = true → Gen.compiledBattery.length ≥ 18
    ∧ (Gen.compiledBattery.filter (fun e => e.2.unpackArgs.any (·.2))).length ≥ 5
    ∧ (Gen.compiledBattery.filter (fun e => e.2.initParams.any (·.2))).length ≥ 4
    ∧ (Gen.dataclassBattery.filter (fun c => c.result.isNone)).length ≥ 3
    ∧ (Gen.dataclassBattery.filter (fun c => match c.result with | some (_, _, d) => !d.isEmpty | none => false)).length ≥ 3 := by
  decide

/-! ## string annotations of nested payloads (module namespace) -/

/-- the policy observed on the live code (translator probe: two classes of one name converted in turn) -/
theorem publish_policy_is_always : Gen.publishPolicy = .always := by decide

/-- under the policy of the source a string annotation always denotes the class of that name that was converted LAST:
    for every namespace, every history of earlier generations, the holder of generation `c` nests `c` -/
theorem string_annotation_resolves_to_latest (ns : Namespace) (name : String) (earlier : List Nat) (c : Nat) :
    resolveName (publishAll Gen.publishPolicy name (earlier ++ [c]) ns) name = some c := by
  rw [publish_policy_is_always]
  induction earlier generalizing ns with
  | nil => simp [publishAll, publish, resolveName, alookup]
  | cons e es ih => simpa [publishAll] using ih (publish .always ns name e)

/-- the statement is sensitive to the policy: "publish once" (seeded change C20_m16) keeps the FIRST generation -/
example : resolveName (publishAll .onlyIfAbsent "Item" [1, 2] []) "Item" = some 1
    ∧ resolveName (publishAll .always "Item" [1, 2] []) "Item" = some 2 := by decide

/-! ## the shipped definitions (regenerated from the live package on every run) -/

/-- every shipped VariablePayload definition is well formed: distinct names, one name per slot, defaults ordered -/
theorem shipped_wf : ∀ s ∈ Gen.shipped, s.wf = true := by decide

/-- the equivalence instantiated on every shipped definition, for every value type, hooks, defaults and call -/
theorem shipped_compiled_eq :
    ∀ s ∈ Gen.shipped, ∀ (W : Type) (dv : String → W) (hp hu : String → W → W) (isNone : W → Bool),
      (∀ args kw, (keys kw).Nodup →
        (compiledInit some (s.toPDef dv hp hu) args kw).toOption = (interpInit (s.toPDef dv hp hu) args kw).toOption) ∧
      (∀ attrs, compiledPack some (s.toPDef dv hp hu) attrs = interpPack (s.toPDef dv hp hu) attrs) ∧
      (∀ args, args.length = s.names.length → (∀ a ∈ args, isNone a = false) →
        (compiledUnpack some isNone (s.toPDef dv hp hu) args).toOption = (interpUnpack (s.toPDef dv hp hu) args).toOption) := by
  intro s hs W dv hp hu isNone
  obtain ⟨hwf, hd⟩ := SDef.toPDef_wf s dv hp hu (shipped_wf s hs)
  exact ⟨fun args kw hkw => compiled_init_eq some _ args kw hwf hd hkw,
         fun attrs => compiled_pack_eq some _ attrs hwf hd,
         fun args hl hn => compiled_unpack_eq some isNone _ args hwf hd hl hn⟩

/-- the registry really contains the shipped definitions with `bits` and nesting (non-vacuity of the instantiation) -/
example : (Gen.shipped.filter (fun s => s.fmts.contains (.str "bits"))).length ≥ 1
    ∧ (Gen.shipped.filter (fun s => s.fmts.any (fun f => f.tag == "payload-list"))).length ≥ 1
    ∧ (Gen.shipped.filter (fun s => !s.names.isEmpty)).length ≥ 1 := by decide

end Ipv8.C20
