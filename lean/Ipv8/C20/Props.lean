/-
  C20 — property theorems.  Every `theorem` in this file is an obligation of the check; helper lemmas are in
  Lemmas.lean.  Model: Model.lean (three semantics of one payload definition), Gen.lean (regenerated from /repo).

  Conventions
    * `V` is an arbitrary type of Python values; hooks are arbitrary functions `V → V`; `splice v` is the value denoted
      by the text that `_compile_init` splices for the default `v` (`repr(v)` since the fix).
    * outcomes are compared with `Except.toOption`: equal results, or both raise (the KIND of exception differs by
      design: the interpreted constructor raises KeyError where a compiled `def` raises TypeError).
    * `PDef.WF`: distinct names and one name per slot (8 for "bits", else 1).  `PDef.DefaultsOK splice`: every default
      splices back to itself and no parameter without default follows one with a default.
-/
import Ipv8.C20.Lemmas
import Ipv8.C20.Nested
import Ipv8.C20.TreeDecode

namespace Ipv8.C20

variable {V : Type}

/-! ## constructor -/

/-- ∀ well-formed definitions, ∀ positional/keyword argument mixes (valid or not): the generated `__init__` and the
    interpreted constructor produce the same attributes, or both raise. -/
theorem compiled_init_eq (splice : V → Option V) (d : PDef V) (args : List V) (kw : KW V)
    (hwf : d.WF) (hd : d.DefaultsOK splice) (hkw : (keys kw).Nodup) :
    (compiledInit splice d args kw).toOption = (interpInit d args kw).toOption := by
  obtain ⟨gp, _, hc⟩ := vpCompile_ok splice d hwf hd
  simp only [compiledInit, hc]
  rw [runInit_generated d args kw hwf.nodup]
  exact init_core d args kw hwf hkw

/-- non-vacuity: bits in the middle, a default, a mixed call -/
example :
    let d : PDef Nat := { fmts := [.str "I", .str "bits", .str "H"],
                          names := ["a", "b0", "b1", "b2", "b3", "b4", "b5", "b6", "b7", "z"],
                          userInit := some true, defaults := [("z", 9)] }
    (compiledInit some d [1, 0, 1] [("b7", 1), ("b2", 0), ("b3", 0), ("b4", 0), ("b5", 0), ("b6", 0)]).toOption
      = some [("z", 9), ("b7", 1), ("b6", 0), ("b5", 0), ("b4", 0), ("b3", 0), ("b2", 0), ("b1", 1), ("b0", 0), ("a", 1)]
    ∧ (interpInit d [1, 0, 1] [("b7", 1), ("b2", 0), ("b3", 0), ("b4", 0), ("b5", 0), ("b6", 0)]).toOption
      = some [("z", 9), ("b7", 1), ("b6", 0), ("b5", 0), ("b4", 0), ("b3", 0), ("b2", 0), ("b1", 1), ("b0", 0), ("a", 1)] := by
  decide

/-- old-style superclass (`class NewC(VariablePayload, OldA)`, `OldA.__init__(self, a, b)`): the definition is well
    formed, the mixed call binds alike, and the call that passes `a` both positionally and by keyword is rejected by
    both forms (the interpreted form used to accept it and drop the positional value; repaired in /repo) -/
example :
    let d : PDef Nat := { fmts := [.str "I", .str "H", .str "B"], names := ["a", "b", "c"], superArgs := ["a", "b"] }
    (interpInit d [7] [("c", 3), ("b", 8)]).toOption = some [("c", 3), ("b", 8), ("a", 7)]
    ∧ (compiledInit some d [7] [("c", 3), ("b", 8)]).toOption = some [("c", 3), ("b", 8), ("a", 7)]
    ∧ (interpInit d [7, 8] [("a", 1), ("c", 3)]).toOption = none
    ∧ (compiledInit some d [7, 8] [("a", 1), ("c", 3)]).toOption = none := by
  decide

/-- the hypothesis on defaults is needed: with a default whose spliced text denotes another value (what
    `str(default)` did for the string "3") the compiled constructor differs from the interpreted one -/
theorem splice_hypothesis_needed :
    let d : PDef Nat := { fmts := [.str "I"], names := ["a"], userInit := some false, defaults := [("a", 3)] }
    (compiledInit (fun _ => some 4) d [] []).toOption ≠ (interpInit d [] []).toOption
    ∧ (compiledInit (fun _ => none) d [] []).toOption ≠ (interpInit d [] []).toOption := by
  decide

/-! ## to_pack_list and bytes -/

/-- ∀ well-formed definitions, ∀ instances (any attribute store): the generated `to_pack_list` returns exactly the
    interpreted pack list — same tags ("payload"/"payload-list" renaming included), same `fix_pack_` applications,
    same exception if an attribute is missing. -/
theorem compiled_pack_eq (splice : V → Option V) (d : PDef V) (attrs : Attrs V)
    (hwf : d.WF) (hd : d.DefaultsOK splice) :
    compiledPack splice d attrs = interpPack d attrs :=
  compiled_pack_eq_lemma splice d attrs hwf hd

example :
    let d : PDef Nat := { fmts := [.str "bits", .cls "Inner", .lst "Inner"],
                          names := ["b0", "b1", "b2", "b3", "b4", "b5", "b6", "b7", "p", "ps"],
                          fixPack := [("b1", fun x => x + 10)] }
    let attrs : Attrs Nat := [("ps", 5), ("p", 4), ("b7", 0), ("b6", 0), ("b5", 0), ("b4", 0), ("b3", 0), ("b2", 0),
                              ("b1", 1), ("b0", 0)]
    (compiledPack some d attrs).toOption
      = some [("bits", [0, 11, 0, 0, 0, 0, 0, 0]), ("payload", [4]), ("payload-list", [5])] := by
  decide

/-- bytes: `pack_serializable` folds the registered packers over the pack list, so for EVERY packer function the
    compiled form yields the interpreted form's bytes (or both fail). -/
theorem compiled_bytes_eq (splice : V → Option V) (packer : String → List V → Option Bytes) (d : PDef V)
    (attrs : Attrs V) (hwf : d.WF) (hd : d.DefaultsOK splice) :
    (compiledPack splice d attrs).toOption.bind (packBytes packer)
      = (interpPack d attrs).toOption.bind (packBytes packer) := by
  rw [compiled_pack_eq splice d attrs hwf hd]

/-! ## nesting in mixed forms -/

/-- One induction step over the nesting depth.  `R v w`: "the same value, except that nested payload instances inside
    may be instances of another form of the same definition".  If no packer can tell R-related values apart (for
    "payload"/"payload-list" this is the present statement one level down; for primitive formats R is equality) and
    the hooks preserve R, then a COMPILED instance and an INTERPRETED instance whose attributes are R-related give
    the same bytes (or both fail) — for every definition, every packer function and every relation R. -/
theorem nested_bytes_step (R : V → V → Prop) (splice : V → Option V) (packer : String → List V → Option Bytes)
    (d : PDef V) (attrsC attrsI : Attrs V) (hwf : d.WF) (hd : d.DefaultsOK splice)
    (hattrs : AttrsRel R attrsC attrsI)
    (hhook : ∀ n f, alookup d.fixPack n = some f → ∀ v w, R v w → R (f v) (f w))
    (hpacker : ∀ t vs ws, All₂ R vs ws → packer t vs = packer t ws) :
    (compiledPack splice d attrsC).toOption.bind (packBytes packer)
      = (interpPack d attrsI).toOption.bind (packBytes packer) := by
  rw [compiled_pack_eq splice d attrsC hwf hd]
  have h := packFmts_rel R d attrsC attrsI d.fmts 0 hattrs hhook
  unfold interpPack
  cases ha : packFmts d attrsC d.fmts 0 with
  | error e =>
    cases hb : packFmts d attrsI d.fmts 0 with
    | error e' => rfl
    | ok q => simp [ha, hb, ERel] at h
  | ok p =>
    cases hb : packFmts d attrsI d.fmts 0 with
    | error e' => simp [ha, hb, ERel] at h
    | ok q =>
      simp only [ha, hb, ERel] at h
      simp only [Except.toOption, Option.bind_some]
      exact packBytes_rel R packer p q h hpacker

/-- non-vacuity: values are (form tag, content); R ignores the tag; the packer only reads the content -/
example :
    let R : Nat × Nat → Nat × Nat → Prop := fun v w => v.2 = w.2
    let d : PDef (Nat × Nat) := { fmts := [.str "I", .cls "Inner"], names := ["a", "p"] }
    AttrsRel R [("p", (1, 40)), ("a", (0, 7))] [("p", (0, 40)), ("a", (0, 7))]
    ∧ (compiledPack some d [("p", (1, 40)), ("a", (0, 7))]).toOption.bind
        (packBytes (fun _ vs => some (vs.map (fun v => UInt8.ofNat v.2))))
      = some [7, 40] := by
  refine ⟨?_, by decide⟩
  exact All₂.cons ⟨rfl, rfl⟩ (All₂.cons ⟨rfl, rfl⟩ All₂.nil)

/-! ## trees of nested payloads in mixed forms: the induction over the nesting depth, mechanised (Tree.lean) -/

/-- BYTES.  `Obj V` = primitive value | payload instance (form of its class, class id, attributes) | list;
    `bytesOf w n` = `pack_serializable` to nesting depth n where every instance uses the `to_pack_list` of ITS OWN form;
    `Rn n a b` = "a and b are the same object up to the forms of the instances in them (to depth n)".
    For every class table of well-formed definitions, all primitive packers, every depth: form-related trees produce
    the same bytes or both fail.  Hooks are arbitrary functions on `Obj V` that respect the relation (any hook that
    only looks at primitive values does). -/
theorem nested_bytes_form_independent (w : World V)
    (hwf : ∀ c, (w.defs c).WF ∧ (w.defs c).DefaultsOK w.splice)
    (hhook : ∀ c name f, alookup (w.defs c).fixPack name = some f → ∀ n a b, Rn n a b → Rn n (f a) (f b)) :
    ∀ n a b, Rn n a b → bytesOf w n a = bytesOf w n b :=
  bytes_form_independent w hwf hhook

/-- DECODING.  `decodeObj w φ n` = `unpack_serializable` to nesting depth n where class k is in form `φ k`; nested
    class entries and `[cls]` entries recurse; the byte-level primitives (`unpackPrim`, `nestedSlice`, `listCount`)
    are arbitrary functions.  For ANY two form assignments the results are both failures, or the same offset and
    objects equal up to forms — the same field values at every level.  Hypotheses on the Serializer: a primitive
    unpacker appends one value per slot and never None. -/
theorem nested_decode_form_independent (w : DWorld V) (φ ψ : Nat → Bool)
    (hwf : ∀ c, (w.defs c).WF ∧ (w.defs c).DefaultsOK w.splice)
    (hhook : ∀ c name f, alookup (w.defs c).fixUnpack name = some f → ∀ m a b, Rn m a b → Rn m (f a) (f b))
    (hslots : ∀ name data off vals o, w.unpackPrim name data off = some (vals, o) →
      vals.length = (Fmt.str name).slots ∧ ∀ v ∈ vals, w.isNone (.val v) = false)
    (hlist : ∀ l, w.isNone (.list l) = false)
    (hinst : ∀ c k fs, w.isNone (.inst c k fs) = false) :
    ∀ n k data off, ORel (2 * n) (decodeObj w φ n k data off) (decodeObj w ψ n k data off) :=
  decode_form_independent w φ ψ hwf hhook hslots hlist hinst

/-- non-vacuity: an outer class with a nested payload and a payload list; all forms flipped; same bytes -/
example :
    let w : World Nat :=
      { defs := fun k => if k = 0 then { fmts := [.str "B"], names := ["x"] }
                         else { fmts := [.str "B", .cls "Inner", .lst "Inner"], names := ["a", "p", "ps"] },
        splice := some, prim := fun _ ls => some (ls.map UInt8.ofNat) }
    let a : Obj Nat := .inst true 1 [("ps", .list [.inst false 0 [("x", .val 3)]]), ("p", .inst true 0 [("x", .val 2)]),
                                     ("a", .val 1)]
    let b : Obj Nat := .inst false 1 [("ps", .list [.inst true 0 [("x", .val 3)]]), ("p", .inst false 0 [("x", .val 2)]),
                                      ("a", .val 1)]
    bytesOf w 2 a = some [1, 0, 1, 2, 1, 0, 1, 3] ∧ bytesOf w 2 b = some [1, 0, 1, 2, 1, 0, 1, 3] := by
  decide

/-! ## from_unpack_list and decoding -/

/-- ∀ well-formed definitions, ∀ raw value lists of the right arity without None: the generated `from_unpack_list`
    (parameter binding, `None if x is None else cls.fix_unpack_x(x)` guards, constructor call) yields the interpreted
    fields, or both raise. -/
theorem compiled_unpack_eq (splice : V → Option V) (isNone : V → Bool) (d : PDef V) (args : List V)
    (hwf : d.WF) (hd : d.DefaultsOK splice)
    (hlen : args.length = d.names.length) (hnone : ∀ a ∈ args, isNone a = false) :
    (compiledUnpack splice isNone d args).toOption = (interpUnpack d args).toOption :=
  compiled_unpack_eq_lemma splice isNone d args hwf hd hlen hnone

example :
    let d : PDef Nat := { fmts := [.str "I", .str "H"], names := ["a", "b"], fixUnpack := [("b", fun x => x - 1)] }
    (compiledUnpack some (fun v => v == 0) d [7, 8]).toOption = some [("b", 7), ("a", 7)] := by
  decide

/-- the None hypothesis is needed: the compiled guard passes None through where the interpreted form calls the hook
    (the Serializer never produces None; the correspondence run exercises the guard) -/
theorem none_guard_differs :
    let d : PDef Nat := { fmts := [.str "I"], names := ["a"], fixUnpack := [("a", fun x => x + 1)] }
    (compiledUnpack some (fun v => v == 0) d [0]).toOption = some [("a", 0)]
    ∧ (interpUnpack d [0]).toOption = some [("a", 1)] := by
  decide

/-- decoding: `unpack_serializable` runs the unpackers of the (shared) `format_list` and hands the values to
    `from_unpack_list`.  Hypothesis on the Serializer: the unpackers of `fmts` append one value per slot and never
    None (checked against the live registry by the harness). -/
theorem compiled_decode_eq (splice : V → Option V) (isNone : V → Bool)
    (unpackAll : List Fmt → Bytes → Option (List V)) (d : PDef V) (data : Bytes)
    (hwf : d.WF) (hd : d.DefaultsOK splice)
    (hser : ∀ vs, unpackAll d.fmts data = some vs → vs.length = totalSlots d.fmts ∧ ∀ a ∈ vs, isNone a = false) :
    (decodeWith unpackAll d.fmts (compiledUnpack splice isNone d) data).toOption
      = (decodeWith unpackAll d.fmts (interpUnpack d) data).toOption := by
  unfold decodeWith
  cases hu : unpackAll d.fmts data with
  | none => rfl
  | some vs =>
    obtain ⟨h1, h2⟩ := hser vs hu
    exact compiled_unpack_eq splice isNone d vs hwf hd (by rw [h1, hwf.slots]) h2

/-! ## dataclass form -/

/-- what `convert_to_payload` derives from a dataclass: names = field names in order, formats = `type_map` of the
    annotations, defaults = the dataclass defaults, a generated `__init__` without `**kwargs` -/
theorem dataclass_def (dd : DDef V) (d : PDef V) (h : dd.toPDef = .ok d) :
    d.names = dd.fields.map (·.1) ∧ mapTypes (dd.fields.map (·.2.1)) = .ok d.fmts ∧
    d.userInit = some false ∧ d.defaults = fieldDefaults dd.fields ∧
    d.fixPack = dd.fixPack ∧ d.fixUnpack = dd.fixUnpack := by
  unfold DDef.toPDef at h
  cases hm : mapTypes (dd.fields.map (·.2.1)) with
  | error e => simp [hm] at h
  | ok fmts =>
    simp only [hm, Except.ok.injEq] at h
    subst h
    exact ⟨rfl, rfl, rfl, rfl, rfl, rfl⟩

/-- a dataclass with distinct field names and no `type_from_format("bits")` annotation denotes a well-formed
    definition (every `type_map` image occupies one slot) -/
theorem dataclass_wf (dd : DDef V) (d : PDef V) (h : dd.toPDef = .ok d)
    (hnd : (dd.fields.map (·.1)).Nodup) (hbits : ∀ f ∈ dd.fields, f.2.1 ≠ .tvar "bits") : d.WF := by
  obtain ⟨h1, h2, _⟩ := dataclass_def dd d h
  have hs : d.superArgs = [] := by
    unfold DDef.toPDef at h
    cases hm : mapTypes (dd.fields.map (·.2.1)) with
    | error e => simp [hm] at h
    | ok fmts => simp only [hm, Except.ok.injEq] at h; subst h; rfl
  refine PDef.WF.of_no_super d (h1 ▸ hnd) ?_ hs
  rw [h1, mapTypes_slots _ _ h2 (by
    intro t ht
    simp only [List.mem_map] at ht
    obtain ⟨f, hf, rfl⟩ := ht
    exact hbits f hf)]
  simp

/-- ∀ dataclass payloads (after conversion): constructor, pack list and decoded fields equal those of the plain
    interpreted definition with the `type_map`'d formats. -/
theorem dataclass_eq (splice : V → Option V) (isNone : V → Bool) (dd : DDef V) (d : PDef V)
    (h : dd.toPDef = .ok d) (hwf : d.WF) (hd : d.DefaultsOK splice) :
    (∀ args kw, (keys kw).Nodup →
        (dataclassInit splice dd args kw).toOption = (interpInit d args kw).toOption) ∧
    (∀ attrs, dataclassPack splice dd attrs = interpPack d attrs) ∧
    (∀ args, args.length = d.names.length → (∀ a ∈ args, isNone a = false) →
        (dataclassUnpack splice isNone dd args).toOption = (interpUnpack d args).toOption) := by
  refine ⟨?_, ?_, ?_⟩
  · intro args kw hkw
    simp only [dataclassInit, h]
    exact compiled_init_eq splice d args kw hwf hd hkw
  · intro attrs
    simp only [dataclassPack, h]
    exact compiled_pack_eq splice d attrs hwf hd
  · intro args hl hn
    simp only [dataclassUnpack, h]
    exact compiled_unpack_eq splice isNone d args hwf hd hl hn

example :
    let dd : DDef Nat := { fields := [("a", .int, none), ("b", .coll .bool, none), ("c", .collSer "Item", some 5)] }
    (dd.toPDef.toOption.map (·.fmts)) = some [.str "q", .str "arrayH-?", .lst "Item"]
    ∧ (dataclassInit some dd [1] [("b", 2)]).toOption = some [("c", 5), ("b", 2), ("a", 1)] := by
  decide

/-- `type_map` as it is in the source today (table regenerated from payload_dataclass.py): the native types map to
    the documented formats, every image (also for list[bool|int|float]) is a registered format, and the hand model
    `nativeFmt`/`typeMap` agrees with the generated table. -/
theorem type_map_formats :
    Gen.typeMapTable = [("bool", "?"), ("int", "q"), ("float", "d"), ("bytes", "varlenH"), ("str", "varlenHutf8")]
    ∧ Gen.arrayPrefix = "arrayH-" ∧ Gen.typeVarBranch = true
    ∧ (∀ p ∈ Gen.typeMapTable, p.2 ∈ Gen.registeredFormats)
    ∧ (∀ s ∈ ["?", "q", "d"], (Gen.arrayPrefix ++ s) ∈ Gen.registeredFormats)
    ∧ [nativeFmt .bool, nativeFmt .int, nativeFmt .float, nativeFmt .bytes, nativeFmt .str]
        = Gen.typeMapTable.map (fun p => some p.2)
    ∧ (typeMap (.coll .int)).toOption = some (.str (Gen.arrayPrefix ++ "q")) := by
  decide

/-! ## the dataclass form before its first instantiation (known finding) -/

/-- FULL STATEMENT (does not hold for the code as it is): for every dataclass payload and every byte string,
    `unpack_serializable` on the dataclass class decodes like the plain definition — including when no instance of
    the class has been created yet.

    What holds: after the first instantiation (`dataclass_decode_eq_partial`).  Before it, the class still carries
    `format_list = []`/`names = []`, so nothing is unpacked and the constructor is called without arguments: -/
theorem dataclass_decode_first_fails (splice : V → Option V) (unpackAll : List Fmt → Bytes → Option (List V))
    (dd : DDef V) (d : PDef V) (data : Bytes)
    (h : dd.toPDef = .ok d) (hwf : d.WF) (hd : d.DefaultsOK splice)
    (hempty : unpackAll [] data = some [])
    (hreq : ∃ n ∈ d.names, alookup d.defaults n = none) :
    dataclassDecodeFirst unpackAll splice dd data = .error .typeError := by
  obtain ⟨gp, _, hc⟩ := vpCompile_ok splice d hwf hd
  obtain ⟨_, _, hui, _⟩ := dataclass_def dd d h
  have hsig : d.sigDefaults = d.defaults := by simp [PDef.sigDefaults, hui]
  simp only [dataclassDecodeFirst, decodeWith, hempty, unpackFix, dataclassInit, h, compiledInit, hc]
  rw [runInit_generated d [] [] hwf.nodup, hsig, bindParams_missing (alookup d.defaults) d.names hreq]

/-- negation of the full statement, with a concrete witness: one int field, bytes that the plain definition decodes -/
theorem dataclass_decode_first_witness :
    let dd : DDef Nat := { fields := [("a", .int, none)] }
    let unpackAll : List Fmt → Bytes → Option (List Nat) := fun fmts _ => some (fmts.map (fun _ => 7))
    (dataclassDecodeFirst unpackAll some dd [0, 0, 0, 0, 0, 0, 0, 7]).toOption = none
    ∧ (decodeWith unpackAll [.str "q"] (interpUnpack { fmts := [.str "q"], names := ["a"] }) [0, 0, 0, 0, 0, 0, 0, 7]).toOption
        = some [("a", 7)] := by
  decide

/-- the proved part: once the class has been converted (first instantiation), decoding agrees -/
theorem dataclass_decode_eq_partial (splice : V → Option V) (isNone : V → Bool)
    (unpackAll : List Fmt → Bytes → Option (List V)) (dd : DDef V) (d : PDef V) (data : Bytes)
    (h : dd.toPDef = .ok d) (hwf : d.WF) (hd : d.DefaultsOK splice)
    (hser : ∀ vs, unpackAll d.fmts data = some vs → vs.length = totalSlots d.fmts ∧ ∀ a ∈ vs, isNone a = false) :
    (decodeWith unpackAll d.fmts (dataclassUnpack splice isNone dd) data).toOption
      = (decodeWith unpackAll d.fmts (interpUnpack d) data).toOption := by
  have : dataclassUnpack splice isNone dd = compiledUnpack splice isNone d := by
    funext args
    simp only [dataclassUnpack, h]
  rw [this]
  exact compiled_decode_eq splice isNone unpackAll d data hwf hd hser

/-! ## inheritance between dataclass payloads and the order of first instantiation -/

/-- class-level data does not depend on the conversion state once the class itself has been instantiated: for every
    chain, every sequence of instantiations (parents first, children first, interleaved, repeated) that contains class
    `k`, `format_list`/`names` of class `k` are those of its flattened field list (parent fields ++ own fields). -/
theorem hier_class_def_after_instance (c : DChain V) (evs : List Nat) (k : Nat) (h : k ∈ evs) :
    c.classData (runInst evs) k = c.classData [k] k := by
  unfold DChain.classData
  rw [nearest_self _ k ((mem_runInst evs k).mpr h), nearest_self [k] k (by simp)]

/-- instances: whatever was converted before, constructing class `k` behaves like the plain interpreted definition
    of the flattened field list, and so do its pack list and `from_unpack_list` (conversion state has no influence). -/
theorem hier_instance_eq (splice : V → Option V) (isNone : V → Bool) (c : DChain V) (conv : List Nat) (k : Nat)
    (d : PDef V) (h : (c.ddef k).toPDef = .ok d) (hwf : d.WF) (hd : d.DefaultsOK splice) :
    (∀ args kw, (keys kw).Nodup →
        (c.hierInit splice conv k args kw).toOption = (interpInit d args kw).toOption) ∧
    (∀ attrs, dataclassPack splice (c.ddef k) attrs = interpPack d attrs) ∧
    (∀ args, args.length = d.names.length → (∀ a ∈ args, isNone a = false) →
        (dataclassUnpack splice isNone (c.ddef k) args).toOption = (interpUnpack d args).toOption) := by
  obtain ⟨h1, h2, h3⟩ := dataclass_eq splice isNone (c.ddef k) d h hwf hd
  refine ⟨?_, h2, h3⟩
  intro args kw hkw
  unfold DChain.hierInit
  rw [nearest_self (k :: conv) k (by simp)]
  exact h1 args kw hkw

/-- decoding is where the state matters, and exactly so: a class that has been instantiated decodes like its plain
    flattened definition in every state; a class that has NOT been instantiated decodes as its nearest converted
    ancestor (a parent-shaped object), or as in `dataclass_decode_first_fails` if there is none. -/
theorem hier_decode_state (splice : V → Option V) (isNone : V → Bool)
    (unpackAll : List Fmt → Bytes → Option (List V)) (c : DChain V) (conv : List Nat) (k : Nat) (data : Bytes) :
    (k ∈ conv → ∀ d, (c.ddef k).toPDef = .ok d → d.WF → d.DefaultsOK splice →
        (∀ vs, unpackAll d.fmts data = some vs → vs.length = totalSlots d.fmts ∧ ∀ a ∈ vs, isNone a = false) →
        (c.hierDecode unpackAll splice isNone conv k data).toOption
          = (decodeWith unpackAll d.fmts (interpUnpack d) data).toOption) ∧
    (∀ j, nearest conv k = some j →
        c.hierDecode unpackAll splice isNone conv k data = c.hierDecode unpackAll splice isNone [j] j data) ∧
    (nearest conv k = none →
        c.hierDecode unpackAll splice isNone conv k data = dataclassDecodeFirst unpackAll splice (c.ddef k) data) := by
  refine ⟨?_, ?_, ?_⟩
  · intro hk d hd hwf hdo hser
    unfold DChain.hierDecode
    rw [nearest_self conv k hk]
    simp only [hd]
    exact dataclass_decode_eq_partial splice isNone unpackAll (c.ddef k) d data hd hwf hdo hser
  · intro j hj
    unfold DChain.hierDecode
    rw [hj, nearest_self [j] j (by simp)]
  · intro hn
    unfold DChain.hierDecode
    rw [hn]

/-- non-vacuity: header/body chain, parent instantiated first, then the child -/
example :
    let c : DChain Nat := { levels := [[("ident", .int, none), ("flag", .bool, some 1)],
                                       [("body", .bytes, some 7), ("text", .str, some 8)]] }
    (c.classData (runInst [0, 1]) 1).toOption
        = some ([.str "q", .str "?", .str "varlenH", .str "varlenHutf8"], ["ident", "flag", "body", "text"])
    ∧ (c.classData (runInst [0]) 1).toOption = some ([.str "q", .str "?"], ["ident", "flag"])
    ∧ (c.hierInit some (runInst [0]) 1 [5] []).toOption = some [("text", 8), ("body", 7), ("flag", 1), ("ident", 5)] := by
  decide

/-- an UNCOMPILED subclass of a vp_compile'd class that extends the field list inherits the parent's generated
    methods: the full statement (it behaves like the plain definition of the flattened field list) fails; witness -/
theorem uncompiled_subclass_of_compiled_differs :
    let parent : PDef Nat := { fmts := [.str "I", .str "H"], names := ["a", "b"] }
    let child : PDef Nat := { fmts := [.str "I", .str "H", .str "B"], names := ["a", "b", "c"] }
    (hybridInit some parent [1, 2, 3] []).toOption = none
    ∧ (interpInit child [1, 2, 3] []).toOption = some [("c", 3), ("b", 2), ("a", 1)] := by
  decide

/-! ## the shipped definitions (regenerated from the live package on every run) -/

/-- every shipped VariablePayload definition is well formed: distinct names, one name per slot, defaults ordered -/
theorem shipped_wf : ∀ s ∈ Gen.shipped, s.wf = true := by decide

/-- the equivalence instantiated on every shipped definition, for every value type, hooks, defaults and call -/
theorem shipped_compiled_eq :
    ∀ s ∈ Gen.shipped, ∀ (W : Type) (dv : String → W) (hp hu : String → W → W) (isNone : W → Bool),
      (∀ args kw, (keys kw).Nodup →
        (compiledInit some (s.toPDef dv hp hu) args kw).toOption = (interpInit (s.toPDef dv hp hu) args kw).toOption) ∧
      (∀ attrs, compiledPack some (s.toPDef dv hp hu) attrs = interpPack (s.toPDef dv hp hu) attrs) ∧
      (∀ args, args.length = s.names.length → (∀ a ∈ args, isNone a = false) →
        (compiledUnpack some isNone (s.toPDef dv hp hu) args).toOption = (interpUnpack (s.toPDef dv hp hu) args).toOption) := by
  intro s hs W dv hp hu isNone
  obtain ⟨hwf, hd⟩ := SDef.toPDef_wf s dv hp hu (shipped_wf s hs)
  exact ⟨fun args kw hkw => compiled_init_eq some _ args kw hwf hd hkw,
         fun attrs => compiled_pack_eq some _ attrs hwf hd,
         fun args hl hn => compiled_unpack_eq some isNone _ args hwf hd hl hn⟩

/-- the registry really contains the shipped definitions with `bits` and nesting (non-vacuity of the instantiation) -/
example : (Gen.shipped.filter (fun s => s.fmts.contains (.str "bits"))).length ≥ 1
    ∧ (Gen.shipped.filter (fun s => s.fmts.any (fun f => f.tag == "payload-list"))).length ≥ 1
    ∧ Gen.shipped.length ≥ 40 := by decide

end Ipv8.C20
