/-
  C20 model (core Lean only): three semantics of one payload definition.

  Mirrors ipv8/messaging/lazy_payload.py and ipv8/messaging/payload_dataclass.py:

    interpreted   VariablePayload.__init__ (index based double loop, `kwargs.pop`, the two trailing KeyErrors),
                  VariablePayload.from_unpack_list, _fix_pack, _to_packlist_fmt, to_pack_list
    compiled      _compile_init / _compile_from_unpack_list / _compile_to_pack_list  as *code generators* that
                  return a small syntax tree (`GenInit`, `GenUnpack`, `GenPack`), and an evaluator for those trees
                  (`runInit`, `runUnpack`, `runPack`) built on `pyBind`, a model of CPython's argument binding for
                  `def f(self, p1, .., pk=dk, .. [, **kwargs])`
    dataclass     type_map (hand model; the literal table is regenerated in Gen.lean), convert_to_payload
                  (names := field names, format_list := map type_map, then vp_compile)

  Values are an arbitrary type `V` (the payload layer never looks into them); the only observation is
  `isNone` (the compiled unpacker's `None if x is None else ...` guard).  Per-field hooks are functions `V → V`.
  Not modelled: `__match_args__`.
-/
namespace Ipv8.C20

/-- Python exceptions that the modelled code can raise (kind only) -/
inductive Err
  | keyError | indexError | typeError | attributeError | nameError | compileError | notImplemented | packError
deriving Repr, DecidableEq, Inhabited

def Err.name : Err → String
  | .keyError => "KeyError" | .indexError => "IndexError" | .typeError => "TypeError"
  | .attributeError => "AttributeError" | .nameError => "NameError" | .compileError => "CompileError"
  | .notImplemented => "NotImplementedError" | .packError => "PackError"

/-- one entry of `format_list`: a registered format name, a nested Serializable class, or `[cls]` -/
inductive Fmt
  | str (s : String)
  | cls (c : String)
  | lst (c : String)
deriving Repr, DecidableEq, Inhabited

/-- `8 if fmt == "bits" else 1` (a class or a list never equals the string) -/
def Fmt.slots : Fmt → Nat
  | .str s => if s = "bits" then 8 else 1
  | _ => 1

/-- `_to_packlist_fmt` / the `derived_fmt` expression of `_compile_to_pack_list` -/
def Fmt.tag : Fmt → String
  | .str s => s
  | .lst _ => "payload-list"
  | .cls _ => "payload"

def totalSlots : List Fmt → Nat
  | [] => 0
  | f :: fs => f.slots + totalSlots fs

/-! ### association lists (Python dicts / instance `__dict__`) -/

abbrev KW (V : Type) := List (String × V)

def alookup {β : Type} : List (String × β) → String → Option β
  | [], _ => none
  | (k, v) :: rest, n => if k = n then some v else alookup rest n

/-- `kwargs.pop(n)` -/
def popKw {V : Type} : KW V → String → Option (V × KW V)
  | [], _ => none
  | (k, v) :: rest, n =>
    if k = n then some (v, rest)
    else match popKw rest n with
      | some (x, r) => some (x, (k, v) :: r)
      | none => none

def keys {β : Type} (kw : List (String × β)) : List String := kw.map (·.1)

/-- instance attributes: most recent `setattr` first -/
abbrev Attrs (V : Type) := List (String × V)

/-- a payload definition -/
structure PDef (V : Type) where
  fmts : List Fmt
  names : List String
  /-- `none`: the class uses VariablePayload.__init__; `some varkw`: it defines
      `def __init__(self, <names with defaults>[, **kwargs]): super().__init__(<names>[, **kwargs])` -/
  userInit : Option Bool := none
  /-- default values of that `__init__`, keyed by parameter (= field) name -/
  defaults : KW V := []
  fixPack : List (String × (V → V)) := []
  fixUnpack : List (String × (V → V)) := []
  /-- parameters of the `__init__` of an old-style (non VariablePayload) superclass, `class P(VariablePayload, Old)`;
      empty when there is none.  Assumption about `Old.__init__`: it stores every argument under its own name. -/
  superArgs : List String := []
  /-- field names that the user `__init__` declares keyword-only (`def __init__(self, a, *, b=1, c=2)`); the
      interpreted class then takes at most `names.length - kwOnly.length` positional arguments -/
  kwOnly : List String := []

/-! ### CPython argument binding (model of the calling convention, not of repo code) -/

/-- bind `params` against positional `args` and keywords `kw`; `dflt` gives parameter defaults -/
def bindParams {V : Type} (dflt : String → Option V) (kw : KW V) : List String → List V → Except Err (List V)
  | [], [] => .ok []
  | [], _ :: _ => .error .typeError                      -- too many positional arguments
  | p :: ps, a :: as =>
    match alookup kw p with
    | some _ => .error .typeError                        -- multiple values for argument
    | none => match bindParams dflt kw ps as with
      | .ok vs => .ok (a :: vs)
      | .error e => .error e
  | p :: ps, [] =>
    match (match alookup kw p with
           | some v => some v
           | none => dflt p) with
    | none => .error .typeError                          -- missing required argument
    | some v => match bindParams dflt kw ps [] with
      | .ok vs => .ok (v :: vs)
      | .error e => .error e

/-- returns the parameter values and the keywords collected by `**kwargs` -/
def pyBind {V : Type} (params : List String) (dflt : String → Option V) (varkw : Bool)
    (args : List V) (kw : KW V) : Except Err (List V × KW V) :=
  match bindParams dflt kw params args with
  | .error e => .error e
  | .ok vals =>
    let extra := kw.filter (fun e => !params.contains e.1)
    if !varkw && !extra.isEmpty then .error .typeError   -- unexpected keyword argument
    else .ok (vals, extra)

/-! ### interpreted semantics -/

structure InitSt (V : Type) where
  index : Nat
  kw : KW V
  attrs : Attrs V

/-- body of the inner loop of VariablePayload.__init__:
    `value = args[index] if index < len(args) else kwargs.pop(self.names[index])`
    `setattr(self, self.names[index], value); index += 1` -/
def initSlot {V : Type} (names : List String) (args : List V) (st : InitSt V) : Except Err (InitSt V) :=
  if h : st.index < args.length then
    match names[st.index]? with
    | none => .error .indexError
    | some n => .ok { index := st.index + 1, kw := st.kw, attrs := (n, args[st.index]) :: st.attrs }
  else
    match names[st.index]? with
    | none => .error .indexError
    | some n => match popKw st.kw n with
      | none => .error .keyError
      | some (v, kw') => .ok { index := st.index + 1, kw := kw', attrs := (n, v) :: st.attrs }

/-- `for _ in range(k)` -/
def initSlots {V : Type} (names : List String) (args : List V) : Nat → InitSt V → Except Err (InitSt V)
  | 0, st => .ok st
  | k + 1, st => match initSlot names args st with
    | .error e => .error e
    | .ok st' => initSlots names args k st'

/-- `for i in range(len(self.format_list))` -/
def initFmts {V : Type} (names : List String) (args : List V) : List Fmt → InitSt V → Except Err (InitSt V)
  | [], st => .ok st
  | f :: fs, st => match initSlots names args f.slots st with
    | .error e => .error e
    | .ok st' => initFmts names args fs st'

/-- one round of the forwarding loop for an old-style superclass (l.47-52, as repaired: positional arguments are
    consumed first, exactly like the main loop):
    `fwd_args[arg] = args[index] if index < len(args) else kwargs.pop(arg); index += 1` -/
def superSlot {V : Type} (args : List V) (arg : String) (st : InitSt V) : Except Err (InitSt V) :=
  if h : st.index < args.length then
    .ok { index := st.index + 1, kw := st.kw, attrs := (arg, args[st.index]) :: st.attrs }
  else
    match popKw st.kw arg with
    | none => .error .keyError
    | some (v, kw') => .ok { index := st.index + 1, kw := kw', attrs := (arg, v) :: st.attrs }

/-- `for arg in super_argspec: ...` then `super().__init__(**fwd_args)` (stores each argument under its name) -/
def superFwd {V : Type} (args : List V) : List String → InitSt V → Except Err (InitSt V)
  | [], st => .ok st
  | a :: as, st => match superSlot args a st with
    | .error e => .error e
    | .ok st' => superFwd args as st'

/-- VariablePayload.__init__: forwarding to an old-style superclass, then
    `base = index; for i in range(len(self.format_list) - index): ... self.format_list[i + base] ...` -/
def vpInit {V : Type} (d : PDef V) (args : List V) (kw : KW V) : Except Err (Attrs V) :=
  match superFwd args d.superArgs { index := 0, kw := kw, attrs := [] } with
  | .error e => .error e
  | .ok st0 =>
    match initFmts d.names args (d.fmts.drop st0.index) st0 with
    | .error e => .error e
    | .ok st =>
      if args.length > st.index then .error .keyError      -- "missing N arguments!"
      else if !st.kw.isEmpty then .error .keyError          -- "leftover keyword arguments"
      else .ok st.attrs

/-- constructor of the interpreted class -/
def interpInit {V : Type} (d : PDef V) (args : List V) (kw : KW V) : Except Err (Attrs V) :=
  match d.userInit with
  | none => vpInit d args kw
  | some varkw =>
    if !d.kwOnly.isEmpty && args.length > d.names.length - d.kwOnly.length then
      .error .typeError                     -- "takes N positional arguments but M were given"
    else
      match pyBind d.names (alookup d.defaults) varkw args kw with
      | .error e => .error e
      | .ok (vals, extra) => vpInit d vals extra

/-- `getattr(self, name)` -/
def getAttr {V : Type} (attrs : Attrs V) (name : String) : Except Err V :=
  match alookup attrs name with
  | some v => .ok v
  | none => .error .attributeError

/-- VariablePayload._fix_pack -/
def fixPackI {V : Type} (d : PDef V) (attrs : Attrs V) (name : String) : Except Err V :=
  match getAttr attrs name with
  | .error e => .error e
  | .ok raw => match alookup d.fixPack name with
    | some f => .ok (f raw)
    | none => .ok raw

/-- inner loop of to_pack_list: `k` names starting at `index` -/
def packSlots {V : Type} (d : PDef V) (attrs : Attrs V) : Nat → Nat → Except Err (List V)
  | 0, _ => .ok []
  | k + 1, index =>
    match d.names[index]? with
    | none => .error .indexError
    | some n => match fixPackI d attrs n with
      | .error e => .error e
      | .ok v => match packSlots d attrs k (index + 1) with
        | .error e => .error e
        | .ok vs => .ok (v :: vs)

abbrev PackList (V : Type) := List (String × List V)

def packFmts {V : Type} (d : PDef V) (attrs : Attrs V) : List Fmt → Nat → Except Err (PackList V)
  | [], _ => .ok []
  | f :: fs, index =>
    match packSlots d attrs f.slots index with
    | .error e => .error e
    | .ok vs => match packFmts d attrs fs (index + f.slots) with
      | .error e => .error e
      | .ok rest => .ok ((f.tag, vs) :: rest)

/-- VariablePayload.to_pack_list -/
def interpPack {V : Type} (d : PDef V) (attrs : Attrs V) : Except Err (PackList V) :=
  packFmts d attrs d.fmts 0

/-- the loop of VariablePayload.from_unpack_list: `unpack_args[i] = fix_unpack_<names[i]>(args[i])` -/
def unpackFix {V : Type} (d : PDef V) : List V → Nat → Except Err (List V)
  | [], _ => .ok []
  | a :: as, i =>
    match d.names[i]? with
    | none => .error .indexError
    | some n =>
      let a' := match alookup d.fixUnpack n with
        | some f => f a
        | none => a
      match unpackFix d as (i + 1) with
      | .error e => .error e
      | .ok rest => .ok (a' :: rest)

/-- VariablePayload.from_unpack_list -/
def interpUnpack {V : Type} (d : PDef V) (args : List V) : Except Err (Attrs V) :=
  match unpackFix d args 0 with
  | .error e => .error e
  | .ok as => interpInit d as []

/-! ### compiled semantics: code generators and an evaluator for what they generate -/

/-- `def __init__(self, <params>): Payload.__init__(self); self.<attr> = <param> ...` -/
structure GenInit (V : Type) where
  params : List (String × Option V)       -- parameter and the value its spliced default text denotes
  setters : List (String × String)        -- (attribute, parameter)

/-- a `def` whose parameter list has a non-default parameter after a default one does not compile -/
def defaultsOrdered {V : Type} : List (String × Option V) → Bool
  | [] => true
  | (_, none) :: rest => defaultsOrdered rest
  | (_, some _) :: rest => rest.all (fun p => p.2.isSome)

/-- the parameter list text `name` / `name=<spliced default>`; `splice v` is the value denoted by the text
    `f"{v!r}"` (`none` when that text does not compile / evaluate) -/
def spliceParams {V : Type} (splice : V → Option V) (defaults : KW V) :
    List String → Except Err (List (String × Option V))
  | [] => .ok []
  | n :: ns =>
    match spliceParams splice defaults ns with
    | .error e => .error e
    | .ok rest =>
      match alookup defaults n with
      | none => .ok ((n, none) :: rest)
      | some v => match splice v with
        | none => .error .compileError
        | some v' => .ok ((n, some v') :: rest)

/-- `_compile_init(names, defaults)` followed by `exec` of the result -/
def compileInit {V : Type} (splice : V → Option V) (names : List String) (defaults : KW V) :
    Except Err (GenInit V) :=
  match spliceParams splice defaults names with
  | .error e => .error e
  | .ok params =>
    if !defaultsOrdered params then .error .compileError
    else .ok { params := params, setters := names.map (fun n => (n, n)) }

/-- run the generated setters against the bound parameters -/
def runSetters {V : Type} (env : KW V) : List (String × String) → Attrs V → Except Err (Attrs V)
  | [], attrs => .ok attrs
  | (a, p) :: rest, attrs =>
    match alookup env p with
    | none => .error .nameError
    | some v => runSetters env rest ((a, v) :: attrs)

def runInit {V : Type} (g : GenInit V) (args : List V) (kw : KW V) : Except Err (Attrs V) :=
  let ps := g.params.map (·.1)
  match pyBind ps (fun p => (alookup g.params p).join) false args kw with
  | .error e => .error e
  | .ok (vals, _) => runSetters (ps.zip vals) g.setters []

inductive UArg
  | plain (n : String)                    -- `n`
  | guarded (n : String)                  -- `None if n is None else cls.fix_unpack_n(n)`
deriving Repr, DecidableEq

/-- `def from_unpack_list(cls, <params>): return cls(<callArgs>)` -/
structure GenUnpack where
  params : List String
  callArgs : List UArg
deriving Repr, DecidableEq

def compileUnpack (names : List String) (hasHook : String → Bool) : GenUnpack :=
  { params := names, callArgs := names.map (fun n => if hasHook n then .guarded n else .plain n) }

inductive PArg
  | attr (n : String)                     -- `self.n`
  | hooked (n : String)                   -- `self.fix_pack_n(self.n)`
deriving Repr, DecidableEq

/-- `def to_pack_list(self): return [(<tag>, <args>), ...]` -/
structure GenPack where
  entries : List (String × List PArg)
deriving Repr, DecidableEq

def compilePackSlots (names : List String) (hasHook : String → Bool) : Nat → Nat → Except Err (List PArg)
  | 0, _ => .ok []
  | k + 1, index =>
    match names[index]? with
    | none => .error .indexError
    | some n =>
      match compilePackSlots names hasHook k (index + 1) with
      | .error e => .error e
      | .ok rest => .ok ((if hasHook n then PArg.hooked n else PArg.attr n) :: rest)

def compilePackFmts (names : List String) (hasHook : String → Bool) :
    List Fmt → Nat → Except Err (List (String × List PArg))
  | [], _ => .ok []
  | f :: fs, index =>
    match compilePackSlots names hasHook f.slots index with
    | .error e => .error e
    | .ok as => match compilePackFmts names hasHook fs (index + f.slots) with
      | .error e => .error e
      | .ok rest => .ok ((f.tag, as) :: rest)

/-- `_compile_to_pack_list(src_cls, format_list, names)` -/
def compilePack (fmts : List Fmt) (names : List String) (hasHook : String → Bool) : Except Err GenPack :=
  match compilePackFmts names hasHook fmts 0 with
  | .error e => .error e
  | .ok es => .ok { entries := es }

/-- what `vp_compile` installs on the class -/
structure Compiled (V : Type) where
  init : GenInit V
  unpack : GenUnpack
  pack : GenPack

def hasKey {β : Type} (l : List (String × β)) (n : String) : Bool := (alookup l n).isSome

/-- the defaults `inspect.signature(cls.__init__)` shows: none for VariablePayload.__init__(self, *args, **kwargs) -/
def PDef.sigDefaults {V : Type} (d : PDef V) : KW V :=
  match d.userInit with
  | none => []
  | some _ => d.defaults

/-- `vp_compile(cls)`: defaults are read from the signature of the class's current `__init__` -/
def vpCompile {V : Type} (splice : V → Option V) (d : PDef V) : Except Err (Compiled V) :=
  match compileInit splice d.names d.sigDefaults with
  | .error e => .error e
  | .ok gi =>
    match compilePack d.fmts d.names (hasKey d.fixPack) with
    | .error e => .error e
    | .ok gp => .ok { init := gi, unpack := compileUnpack d.names (hasKey d.fixUnpack), pack := gp }

def runPackArg {V : Type} (d : PDef V) (attrs : Attrs V) : PArg → Except Err V
  | .attr n => getAttr attrs n
  | .hooked n => match getAttr attrs n with
    | .error e => .error e
    | .ok raw => match alookup d.fixPack n with
      | some f => .ok (f raw)
      | none => .error .attributeError

def runPackArgs {V : Type} (d : PDef V) (attrs : Attrs V) : List PArg → Except Err (List V)
  | [] => .ok []
  | a :: as => match runPackArg d attrs a with
    | .error e => .error e
    | .ok v => match runPackArgs d attrs as with
      | .error e => .error e
      | .ok vs => .ok (v :: vs)

def runPackEntries {V : Type} (d : PDef V) (attrs : Attrs V) : List (String × List PArg) → Except Err (PackList V)
  | [] => .ok []
  | (t, as) :: rest => match runPackArgs d attrs as with
    | .error e => .error e
    | .ok vs => match runPackEntries d attrs rest with
      | .error e => .error e
      | .ok r => .ok ((t, vs) :: r)

def runPack {V : Type} (d : PDef V) (g : GenPack) (attrs : Attrs V) : Except Err (PackList V) :=
  runPackEntries d attrs g.entries

def runUArg {V : Type} (isNone : V → Bool) (d : PDef V) (env : KW V) : UArg → Except Err V
  | .plain n => match alookup env n with
    | some v => .ok v
    | none => .error .nameError
  | .guarded n => match alookup env n with
    | none => .error .nameError
    | some v =>
      if isNone v then .ok v
      else match alookup d.fixUnpack n with
        | some f => .ok (f v)
        | none => .error .attributeError

def runUArgs {V : Type} (isNone : V → Bool) (d : PDef V) (env : KW V) : List UArg → Except Err (List V)
  | [] => .ok []
  | a :: as => match runUArg isNone d env a with
    | .error e => .error e
    | .ok v => match runUArgs isNone d env as with
      | .error e => .error e
      | .ok vs => .ok (v :: vs)

def runUnpack {V : Type} (isNone : V → Bool) (d : PDef V) (c : Compiled V) (args : List V) :
    Except Err (Attrs V) :=
  match pyBind c.unpack.params (fun _ => none) false args [] with
  | .error e => .error e
  | .ok (vals, _) =>
    match runUArgs isNone d (c.unpack.params.zip vals) c.unpack.callArgs with
    | .error e => .error e
    | .ok cargs => runInit c.init cargs []

/-- the three operations of the compiled class (class creation itself may fail) -/
def compiledInit {V : Type} (splice : V → Option V) (d : PDef V) (args : List V) (kw : KW V) :
    Except Err (Attrs V) :=
  match vpCompile splice d with
  | .error e => .error e
  | .ok c => runInit c.init args kw

def compiledPack {V : Type} (splice : V → Option V) (d : PDef V) (attrs : Attrs V) : Except Err (PackList V) :=
  match vpCompile splice d with
  | .error e => .error e
  | .ok c => runPack d c.pack attrs

def compiledUnpack {V : Type} (splice : V → Option V) (isNone : V → Bool) (d : PDef V) (args : List V) :
    Except Err (Attrs V) :=
  match vpCompile splice d with
  | .error e => .error e
  | .ok c => runUnpack isNone d c args

/-- what a SECOND `vp_compile` of the same class sees (form D re-runs it on every `__new__`): the signature of the
    generated `__init__` instead of the original one -/
def recompileDef {V : Type} (d : PDef V) (c : Compiled V) : PDef V :=
  { d with userInit := some false,
           defaults := c.init.params.filterMap (fun p => match p.2 with
             | some v => some (p.1, v)
             | none => none) }

/-! ### dataclass form -/

/-- which generic the annotation uses: `list[...]`, `tuple[...]`, `set[...]` -/
inductive CKind
  | list | tuple | set
deriving Repr, DecidableEq, Inhabited

/-- field annotations -/
inductive Ty
  | bool | int | float | bytes | str
  | tvar (name : String)                  -- `type_from_format(name)`
  | coll (k : CKind) (first : Ty)         -- list[T] / tuple[T, ...] / set[T]: `get_args(t)[0]`, further arguments ignored
  | ser (c : String)                      -- Cls (Serializable subclass)
  | lit (c : String)                      -- the annotation is the list literal `[Cls]` (an instance of list)
  | other                                 -- anything else (dict, ...)
deriving Repr, DecidableEq, Inhabited

/-- the five native element/field types and their formats (what `type_map` returns on them; table regenerated) -/
def nativeFmt : Ty → Option String
  | .bool => some "?"
  | .int => some "q"
  | .float => some "d"
  | .bytes => some "varlenH"
  | .str => some "varlenHutf8"
  | _ => none

/-- `type_map`.  For `list[T]`/`tuple[T, ...]`/`set[T]` the code takes the first type argument, evaluates
    `issubclass(T, Serializable)` (TypeError when `T` is not a class: a TypeVar, a nested generic, a list literal),
    returns `[T]` for a payload class and `"arrayH-" + type_map(T)` otherwise; an annotation that is itself a list
    instance (`[Cls]`) is returned unchanged. -/
def typeMap : Ty → Except Err Fmt
  | .tvar n => .ok (.str n)
  | .ser c => .ok (.cls c)
  | .lit c => .ok (.lst c)
  | .other => .error .notImplemented
  | .coll _ e => match e with
    | .ser c => .ok (.lst c)
    | .other => .error .notImplemented
    | _ => match nativeFmt e with
      | some s => .ok (.str ("arrayH-" ++ s))
      | none => .error .typeError
  | t => match nativeFmt t with
    | some s => .ok (.str s)
    | none => .error .notImplemented

/-- a dataclass payload: fields in declaration order (name, annotation, default); `conv k` is what `tuple(value)` /
    `set(value)` do to a decoded list -/
structure DDef (V : Type) where
  fields : List (String × Ty × Option V)
  fixPack : List (String × (V → V)) := []
  fixUnpack : List (String × (V → V)) := []
  conv : CKind → V → V := fun _ v => v

def mapTypes : List Ty → Except Err (List Fmt)
  | [] => .ok []
  | t :: ts => match typeMap t with
    | .error e => .error e
    | .ok f => match mapTypes ts with
      | .error e => .error e
      | .ok fs => .ok (f :: fs)

def fieldDefaults {V : Type} : List (String × Ty × Option V) → KW V
  | [] => []
  | (n, _, some v) :: rest => (n, v) :: fieldDefaults rest
  | (_, _, none) :: rest => fieldDefaults rest

/-- `convert_to_payload` (as repaired): a field annotated `tuple[...]`/`set[...]` gets a `fix_unpack_<field>` hook that
    restores the container (the array / payload-list unpackers return a list), unless the class defines one -/
def derivedUnpack {V : Type} (conv : CKind → V → V) (user : List (String × (V → V))) :
    List (String × Ty × Option V) → List (String × (V → V))
  | [] => []
  | (n, .coll k _, _) :: rest =>
    if k = .list || hasKey user n then derivedUnpack conv user rest
    else (n, conv k) :: derivedUnpack conv user rest
  | _ :: rest => derivedUnpack conv user rest

/-- `convert_to_payload`: the definition the dataclass denotes (the dataclass-generated `__init__` plays the
    role of the user `__init__` without `**kwargs`) -/
def DDef.toPDef {V : Type} (dd : DDef V) : Except Err (PDef V) :=
  match mapTypes (dd.fields.map (·.2.1)) with
  | .error e => .error e
  | .ok fmts => .ok { fmts := fmts, names := dd.fields.map (·.1), userInit := some false,
                      defaults := fieldDefaults dd.fields, fixPack := dd.fixPack,
                      fixUnpack := dd.fixUnpack ++ derivedUnpack dd.conv dd.fixUnpack dd.fields }

def dataclassInit {V : Type} (splice : V → Option V) (dd : DDef V) (args : List V) (kw : KW V) :
    Except Err (Attrs V) :=
  match dd.toPDef with
  | .error e => .error e
  | .ok d => compiledInit splice d args kw

def dataclassPack {V : Type} (splice : V → Option V) (dd : DDef V) (attrs : Attrs V) : Except Err (PackList V) :=
  match dd.toPDef with
  | .error e => .error e
  | .ok d => compiledPack splice d attrs

def dataclassUnpack {V : Type} (splice : V → Option V) (isNone : V → Bool) (dd : DDef V) (args : List V) :
    Except Err (Attrs V) :=
  match dd.toPDef with
  | .error e => .error e
  | .ok d => compiledUnpack splice isNone d args

/-! ### shipped definitions (pure data, regenerated into Gen.lean) -/

/-- class data of a shipped VariablePayload definition -/
structure SDef where
  name : String
  fmts : List Fmt
  names : List String
  userInit : Option Bool
  defaults : List String
  fixPack : List String
  fixUnpack : List String
deriving Repr, DecidableEq

/-- the definition it denotes, for any value type, default values `dv` and hook functions `hp`/`hu` -/
def SDef.toPDef {V : Type} (s : SDef) (dv : String → V) (hp hu : String → V → V) : PDef V :=
  { fmts := s.fmts, names := s.names, userInit := s.userInit,
    defaults := s.defaults.map (fun n => (n, dv n)),
    fixPack := s.fixPack.map (fun n => (n, hp n)),
    fixUnpack := s.fixUnpack.map (fun n => (n, hu n)) }

/-- distinct names, one name per slot, no parameter without default after one with a default -/
def SDef.wf (s : SDef) : Bool :=
  decide s.names.Nodup && s.names.length == totalSlots s.fmts &&
    defaultsOrdered (s.names.map (fun n => (n, if s.defaults.contains n then some () else none)))

/-! ### translated ties: what the REAL generators emitted / the REAL conversion produced, as data (Gen.lean)

  `tools/gen_c20.py` runs `vp_compile` / `convert_to_payload` of the working tree on a fixed battery of definitions
  (and on every shipped class), parses the emitted source text / reads the resulting class data, and writes it down as
  the structures below.  Props.lean proves by `decide` that the hand-written generators of this file produce exactly
  that, so those theorems are re-proved against the source on every run. -/

/-- the shape of the three generated functions, values of defaults dropped -/
structure GenShape where
  initParams : List (String × Bool)                      -- parameter, has a default
  setters : List (String × String)                       -- self.<attr> = <param>
  unpackParams : List String
  unpackArgs : List (String × Bool)                      -- argument of `cls(...)`, wrapped in the guarded hook call
  packEntries : List (String × List (String × Bool))     -- tag, (self.<attr>, wrapped in the hook call)
deriving Repr, DecidableEq

def Compiled.shape {V : Type} (c : Compiled V) : GenShape :=
  { initParams := c.init.params.map (fun p => (p.1, p.2.isSome)),
    setters := c.init.setters,
    unpackParams := c.unpack.params,
    unpackArgs := c.unpack.callArgs.map (fun a => match a with
      | .plain n => (n, false)
      | .guarded n => (n, true)),
    packEntries := c.pack.entries.map (fun e => (e.1, e.2.map (fun a => match a with
      | .attr n => (n, false)
      | .hooked n => (n, true)))) }

/-- what the model's `vp_compile` generates for a definition given as data -/
def SDef.modelShape (s : SDef) : Option GenShape :=
  match vpCompile (V := Unit) some (s.toPDef (fun _ => ()) (fun _ => id) (fun _ => id)) with
  | .ok c => some c.shape
  | .error _ => none

/-- the container rules that `convert_to_payload` derives, as data (see `derivedUnpack`) -/
def derivedKinds {β : Type} (user : List String) : List (String × Ty × β) → List (String × CKind)
  | [] => []
  | (n, .coll k _, _) :: rest =>
    if k = .list || user.contains n then derivedKinds user rest
    else (n, k) :: derivedKinds user rest
  | _ :: rest => derivedKinds user rest

/-- one dataclass of the battery: fields (name, annotation, has a default), names of the class's own unpack rules, and
    what the REAL conversion produced: `none` if it raised, else (format_list, names, derived container rules) -/
structure DCase where
  name : String
  fields : List (String × Ty × Bool)
  userUnpack : List String
  result : Option (List Fmt × List String × List (String × CKind))
deriving Repr, DecidableEq

/-- what the model's conversion produces for that dataclass -/
def DCase.model (c : DCase) : Option (List Fmt × List String × List (String × CKind)) :=
  match mapTypes (c.fields.map (·.2.1)) with
  | .error _ => none
  | .ok fmts => some (fmts, c.fields.map (·.1), derivedKinds c.userUnpack c.fields)

/-! ### string annotations: the module namespace that `convert_to_payload` keeps up to date

  A nested payload named by a STRING annotation is resolved by `get_type_hints` in the namespace of the defining module;
  `convert_to_payload` publishes every converted class there under its `__name__`.  Classes are numbers. -/

/-- what `convert_to_payload` does with the module attribute, as observed on the live code by the translator's probe -/
inductive PublishPolicy
  | always        -- `setattr(module, name, cls)` on every conversion
  | onlyIfAbsent  -- only when the module has no attribute of that name yet
  | unknown
deriving Repr, DecidableEq, Inhabited

abbrev Namespace := List (String × Nat)

def publish (p : PublishPolicy) (ns : Namespace) (name : String) (cls : Nat) : Namespace :=
  match p with
  | .always => (name, cls) :: ns
  | .onlyIfAbsent => if (alookup ns name).isSome then ns else (name, cls) :: ns
  | .unknown => ns

/-- `get_type_hints`: the class a string annotation denotes -/
def resolveName (ns : Namespace) (name : String) : Option Nat := alookup ns name

/-- successive generations (class ids) that reuse one class name; each is converted (published) before its holder -/
def publishAll (p : PublishPolicy) (name : String) : List Nat → Namespace → Namespace
  | [], ns => ns
  | c :: cs, ns => publishAll p name cs (publish p ns name c)

/-! ### bytes: `Serializer.pack_serializable` is a fold over the pack list -/

abbrev Bytes := List UInt8

/-- `packed += self._packers[packable[0]].pack(*packable[1:])`, any exception becomes PackError -/
def packBytes {V : Type} (packer : String → List V → Option Bytes) : PackList V → Option Bytes
  | [] => some []
  | (t, vs) :: rest => match packer t vs with
    | none => none
    | some b => match packBytes packer rest with
      | none => none
      | some r => some (b ++ r)

/-! ### decoding: `Serializer.unpack_serializable` runs the unpackers of `format_list`, then `from_unpack_list` -/

/-- `unpackAll fmts data` stands for the loop over `format_list` that fills `unpack_list` (any exception → PackError);
    `ful` is the class's `from_unpack_list` -/
def decodeWith {V : Type} (unpackAll : List Fmt → Bytes → Option (List V)) (fmts : List Fmt)
    (ful : List V → Except Err (Attrs V)) (data : Bytes) : Except Err (Attrs V) :=
  match unpackAll fmts data with
  | none => .error .packError
  | some vs => ful vs

/-- a dataclass payload class BEFORE its first instantiation: `format_list` and `names` are still the inherited empty
    lists, `from_unpack_list` is VariablePayload's, and calling the class converts it (`__new__`) and then runs the
    generated constructor -/
def dataclassDecodeFirst {V : Type} (unpackAll : List Fmt → Bytes → Option (List V)) (splice : V → Option V)
    (dd : DDef V) (data : Bytes) : Except Err (Attrs V) :=
  decodeWith unpackAll []
    (fun vs => match unpackFix ({ fmts := [], names := [] } : PDef V) vs 0 with
      | .error e => .error e
      | .ok as => dataclassInit splice dd as []) data

/-! ### inheritance between dataclass payloads: class-level state

  `@dataclass class Child(Parent)`: `dataclasses.fields(Child)` = parent fields ++ own fields.  `format_list`, `names`
  and the three generated methods are CLASS attributes that `convert_to_payload(cls)` sets on `cls` itself; a class
  that was not converted yet finds them through the MRO on its nearest converted ancestor (or the empty lists of
  VariablePayload).  `__new__` converts the class being instantiated, unconditionally.  Single inheritance chains:
  class `k` extends class `k-1`. -/

structure DChain (V : Type) where
  levels : List (List (String × Ty × Option V))       -- own fields of class 0, 1, 2, ...
  fixPack : List (String × (V → V)) := []
  fixUnpack : List (String × (V → V)) := []

/-- dataclass inheritance: a field that the subclass declares again keeps its POSITION and takes the new annotation
    and default; new fields are appended -/
def overrideField {V : Type} (f : String × Ty × Option V) : List (String × Ty × Option V) → List (String × Ty × Option V)
  | [] => [f]
  | g :: rest => if g.1 = f.1 then f :: rest else g :: overrideField f rest

def mergeFields {V : Type} (base own : List (String × Ty × Option V)) : List (String × Ty × Option V) :=
  own.foldl (fun acc f => overrideField f acc) base

/-- `dataclasses.fields(class k)` -/
def DChain.eff {V : Type} (c : DChain V) (k : Nat) : List (String × Ty × Option V) :=
  (c.levels.take (k + 1)).foldl mergeFields []

/-- the dataclass payload that class `k` denotes: the flattened field list -/
def DChain.ddef {V : Type} (c : DChain V) (k : Nat) : DDef V :=
  { fields := c.eff k, fixPack := c.fixPack, fixUnpack := c.fixUnpack }

/-- attribute lookup through the MRO: the nearest class among k, k-1, .., 0 that has been converted -/
def nearest (conv : List Nat) : Nat → Option Nat
  | 0 => if conv.contains 0 then some 0 else none
  | k + 1 => if conv.contains (k + 1) then some (k + 1) else nearest conv k

/-- state after instantiating classes in the given order when `__new__` converts unconditionally -/
def runInst (evs : List Nat) : List Nat := evs.foldl (fun conv k => k :: conv) []

/-- the condition under which `DataClassPayload.__new__` / `DataClassPayloadWID.__new__` call `convert_to_payload`,
    as found in the SOURCE by the translator (Gen.newGuard) -/
inductive NewGuard
  | always                 -- `convert_to_payload(cls)` is a plain statement of `__new__`
  | oncePerClass           -- converts a class that has not been converted itself yet (a per-class marker, or any other
                           --   spelling that the translator's probe on the live classes finds equivalent)
  | ifNoFormatList         -- `if not cls.format_list: convert_to_payload(cls)`
  | unknown                -- anything else
deriving Repr, DecidableEq, Inhabited

/-- `cls.format_list`, `cls.names` as seen on class `k` in state `conv` -/
def DChain.classData {V : Type} (c : DChain V) (conv : List Nat) (k : Nat) : Except Err (List Fmt × List String) :=
  match nearest conv k with
  | none => .ok ([], [])
  | some j => match (c.ddef j).toPDef with
    | .ok d => .ok (d.fmts, d.names)
    | .error e => .error e

/-- `__new__` of class `k` in state `conv`, under the guard of the source -/
def DChain.newStep {V : Type} (g : NewGuard) (c : DChain V) (conv : List Nat) (k : Nat) : List Nat :=
  match g with
  | .always => k :: conv
  | .oncePerClass => if conv.contains k then conv else k :: conv
  | .ifNoFormatList => match c.classData conv k with
    | .ok ([], _) => k :: conv
    | _ => conv
  | .unknown => conv

/-- state after instantiating classes in the given order -/
def DChain.run {V : Type} (g : NewGuard) (c : DChain V) (evs : List Nat) : List Nat :=
  evs.foldl (c.newStep g) []

/-- `Class_k(*args, **kw)` in state `conv`: `__new__` (under guard `g`), then the `__init__` found on the class runs -/
def DChain.hierInit {V : Type} (g : NewGuard) (splice : V → Option V) (c : DChain V) (conv : List Nat) (k : Nat)
    (args : List V) (kw : KW V) : Except Err (Attrs V) :=
  match nearest (c.newStep g conv k) k with
  | none => .error .typeError
  | some j => dataclassInit splice (c.ddef j) args kw

/-- a decode attempt on a class with no converted ancestor calls `cls()` and thereby converts it -/
def DChain.decodeStep {V : Type} (g : NewGuard) (c : DChain V) (conv : List Nat) (k : Nat) : List Nat :=
  match nearest conv k with
  | none => c.newStep g conv k
  | some _ => conv

/-- `unpack_serializable(Class_k, data)` in state `conv` (no instantiation of class k implied) -/
def DChain.hierDecode {V : Type} (unpackAll : List Fmt → Bytes → Option (List V)) (splice : V → Option V)
    (isNone : V → Bool) (c : DChain V) (conv : List Nat) (k : Nat) (data : Bytes) : Except Err (Attrs V) :=
  match nearest conv k with
  | none => dataclassDecodeFirst unpackAll splice (c.ddef k) data
  | some j => match (c.ddef j).toPDef with
    | .error e => .error e
    | .ok d => decodeWith unpackAll d.fmts (dataclassUnpack splice isNone (c.ddef j)) data

/-- an uncompiled subclass of a vp_compile'd class inherits the parent's GENERATED methods -/
def hybridInit {V : Type} (splice : V → Option V) (parent : PDef V) (args : List V) (kw : KW V) :
    Except Err (Attrs V) :=
  compiledInit splice parent args kw

end Ipv8.C20
