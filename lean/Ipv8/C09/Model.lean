/-
  C09 — executable per-node timed model of the TunnelCommunity routing tables (core Lean only).

  Mirrors, for one node: `circuits`, `relay_from_to`, `exit_sockets`, the RetryRequestCache of each circuit under
  construction, CreatedRequestCache / CreateRequestCache, the periodic `do_circuits → do_remove` sweep, the delayed
  `remove_circuit / remove_relay / remove_exit_socket` tasks, `on_destroy`, `on_create / join_circuit`,
  `on_created`, `on_extend`, `on_extended / _ours_on_created_extended`, `on_ping`, the exit part of `on_data`,
  `PythonCryptoEndpoint.process_cell / relay_cell` (heartbeats, relay_early budget) and `do_ping`.

  Time advances tick by tick (`Node.tick`); stimuli (`Ev`) are applied at the current time (`Node.step`).
  What a node decides on its own but the model cannot know (random ids, candidate lists, results of the real
  cryptography) is carried by the stimulus as an argument.  Conditions of the sweep, the join limit, the relay_early
  budget and the retry give-up are the *generated* functions of `GenC09.lean`.
-/
import Ipv8.C09.GenC09

namespace Ipv8.C09

abbrev Tbl := List (Nat × Entry)

namespace Tbl

/-- `dict.get(i)` restricted to entries that have not been popped -/
def get (t : Tbl) (i : Nat) : Option Entry :=
  match t.find? (fun p => p.1 == i && !p.2.gone) with
  | some p => some p.2
  | none => none

/-- apply `f` to the live entry stored under `i` (if any) -/
def modify (t : Tbl) (i : Nat) (f : Entry → Entry) : Tbl :=
  t.map fun p => if p.1 == i && !p.2.gone then (p.1, f p.2) else p

/-- apply `f` to the entry `get i` returns (the first live one under `i`) -/
def modify1 (t : Tbl) (i : Nat) (f : Entry → Entry) : Tbl :=
  match t with
  | [] => []
  | p :: r => if p.1 == i && !p.2.gone then (p.1, f p.2) :: r else p :: modify1 r i f

/-- `dict[i] = e` (popped entries are forgotten at this point) -/
def put (t : Tbl) (i : Nat) (e : Entry) : Tbl :=
  (i, e) :: t.filter (fun p => !(p.1 == i) && !p.2.gone)

/-- apply `f` to every live entry -/
def mapAll (t : Tbl) (f : Entry → Entry) : Tbl :=
  t.map fun p => (p.1, if p.2.gone then p.2 else f p.2)

/-- `len(dict)` -/
def count (t : Tbl) : Nat := (t.filter (fun p => !p.2.gone)).length

end Tbl

/-! ### entry-level operations -/

/-- `beat_heart()` -/
def Entry.beat (n : Nat) (e : Entry) : Entry := { e with last := n }

/-- `exit_data`: the socket is enabled; a datagram that is really sent beats the heart -/
def Entry.exited (n : Nat) (sent : Bool) (e : Entry) : Entry :=
  if sent then { e with opened := true, last := n } else { e with opened := true }

/-- `relay_cell` forwarded a cell over this route: `relay_early_count += 1`; the ghost counter counts the flagged ones.
    (The budget test is NOT repeated here: it is the guard in `Node.onCell`, as in `relay_cell`.) -/
def Entry.fwd (early : Bool) (e : Entry) : Entry :=
  { e with early := e.early + 1, fwdEarly := e.fwdEarly + (if early then 1 else 0) }

/-- a delayed removal whose sleep ends at `r ≤ n` pops the entry; whether the popped exit socket's transports are closed
    is the generated condition of `remove_exit_socket` (`Gen.closeOnPop`, argument: `enabled` of the popped object) -/
def Entry.pop (n : Nat) (e : Entry) : Entry :=
  match e.rmAt with
  | some r => if r ≤ n then { e with gone := true, opened := e.opened && !(Gen.closeOnPop e.opened) } else e
  | none => e

/-- register a removal task whose sleep ends at `t` (only the earliest matters: `pop` is idempotent) -/
def Entry.sched (t : Nat) (e : Entry) : Entry :=
  { e with rmAt := some (match e.rmAt with | some r => min r t | none => t) }

/-- the sleep of a `remove_*` task -/
def removeDelay (c : Cfg) (removeNow : Bool) : Nat :=
  if removeNow && (c.nowSkips || c.delay == 0) then 0 else c.delay

/-- body of `remove_relay` / `remove_exit_socket` started at time `n` -/
def Entry.remove (c : Cfg) (n : Nat) (removeNow : Bool) (e : Entry) : Entry :=
  (e.sched (n + removeDelay c removeNow)).pop n

/-- `remove_circuit`: pop the retry cache, `circuit.close()`, then the delayed pop -/
def Entry.removeC (c : Cfg) (n : Nat) (e : Entry) : Entry :=
  Entry.remove c n false { e with closing := true, retry := none, waiting := false }

/-- a new RetryRequestCache created by send_initial_create / send_extend called with `max_tries = tries` -/
def newRetry (c : Cfg) (n tries : Nat) (next : Nat × Nat) : Retry :=
  { deadline := n + c.hopTimeout, tries := tries - 1, cands := next.1, ident := next.2 }

/-- `_ours_on_created_extended` for the circuit whose retry cache `r` matched the answer -/
def Entry.ours (c : Cfg) (n : Nat) (ok : Bool) (next : Option (Nat × Nat)) (r : Retry) (e : Entry) : Entry :=
  if !ok then e.removeC c n
  else
    -- (process_cell beats the circuit's heart right after the handler; folded in here)
    let e := { e with hops := e.hops + 1, last := n }
    if e.closing then e
    else if e.hops < e.goal then
      match next with
      | some nx => { e with retry := some (newRetry c n r.tries nx), waiting := false }
      | none => e.removeC c n
    else { e with retry := none, waiting := false }

/-- `retry_later` ran `retry_func(circuit, candidates, max_tries)` -/
def Entry.retried (c : Cfg) (n : Nat) (peer : Nat) (next : Option (Nat × Nat)) (e : Entry) : Entry :=
  match e.retry with
  | some r =>
    if e.waiting then
      match next with
      | some nx => { e with retry := some (newRetry c n r.tries nx), waiting := false, peer := peer }
      | none => e.removeC c n
    else e
  | none => e

/-! ### one tick of time, per entry (`n` is the new time, `sw` = the sweep runs at `n`) -/

/-- `RetryRequestCache.on_timeout` at time `n` -/
def retryTimeout (c : Cfg) (n : Nat) (e : Entry) : Entry :=
  match e.retry with
  | some r =>
    if !e.waiting && r.deadline ≤ n then
      if e.closing then { e with retry := none }
      else if Gen.giveUp r.cands r.tries then e.removeC c n
      else { e with waiting := true }
    else e
  | none => e

/-- the circuits loop of `do_remove` for one circuit -/
def sweepC (c : Cfg) (n : Nat) (sw : Bool) (e : Entry) : Entry :=
  if sw then
    match Gen.sweepCircuit c n e with
    | some _ => e.removeC c n
    | none => e
  else e

def tickCircuit (c : Cfg) (n : Nat) (sw : Bool) (e0 : Entry) : Entry :=
  let e := e0.pop n
  if e.gone then e else
  let e := retryTimeout c n e
  if e.gone then e else
  sweepC c n sw e

def tickRelay (c : Cfg) (n : Nat) (sw : Bool) (e0 : Entry) : Entry :=
  let e := e0.pop n
  if e.gone then e else
  if sw then
    match Gen.sweepRelay c n e with
    | some _ => e.remove c n false
    | none => e
  else e

def tickExit (c : Cfg) (n : Nat) (sw : Bool) (e0 : Entry) : Entry :=
  let e := e0.pop n
  if e.gone then e else
  if sw then
    match Gen.sweepExit c n e with
    | some _ => e.remove c n false
    | none => e
  else e

/-! ### the node -/

structure CreateReq where
  toId : Nat
  fromId : Nat
  peer : Nat
  toPeer : Nat
  expiry : Nat
  deriving Repr

inductive Out
  | destroy (peer id : Nat)      -- send_destroy(peer, id)
  | cell (peer id kind : Nat)    -- a cell originated by this node (kind = message id)
  | fwd (id toId : Nat)          -- relay_cell forwarded a cell that arrived under `id`
  | drop (id : Nat)              -- relay_cell dropped it
  | refused (id : Nat)           -- create refused (join limit)
  deriving Repr, DecidableEq

structure Node where
  now : Nat
  nextSweep : Nat
  nextPing : Nat
  circuits : Tbl := []
  relays : Tbl := []
  exits : Tbl := []
  created : List (Nat × Nat) := []            -- CreatedRequestCache: circuit id ↦ expiry
  createReq : List (Nat × CreateReq) := []    -- CreateRequestCache: number ↦ request
  leaked : Nat := 0                           -- exit sockets replaced in the table while their transports were open
  outs : List Out := []

def Node.init (c : Cfg) (start : Nat) : Node :=
  { now := start, nextSweep := start + c.period, nextPing := start + c.pingPeriod }

/-- destroys sent by the sweep (traffic limit branches) -/
def sweepOuts (f : Nat → Entry → Option Bool) (dest : Nat → Entry → Out) (n : Nat) (t : Tbl) : List Out :=
  t.filterMap fun p =>
    let e := p.2.pop n
    if e.gone then none else
    match f n e with
    | some true => some (dest p.1 e)
    | _ => none

def pingOuts (t : Tbl) : List Out :=
  t.filterMap fun p =>
    if !p.2.gone && Gen.pingWanted p.2.closing p.2.hops then some (Out.cell p.2.peer p.1 6) else none

def Node.tick (c : Cfg) (s : Node) : Node :=
  let n := s.now + 1
  let sw := n == s.nextSweep
  let pg := n == s.nextPing
  let so : List Out :=
    if sw then
      sweepOuts (Gen.sweepCircuit c) (fun i e => Out.destroy e.peer i) n s.circuits ++
      sweepOuts (Gen.sweepRelay c) (fun _ e => Out.destroy e.peer e.other) n s.relays ++
      sweepOuts (Gen.sweepExit c) (fun i e => Out.destroy e.peer i) n s.exits
    else []
  let circuits := s.circuits.mapAll (tickCircuit c n sw)
  let po : List Out := if pg then pingOuts circuits else []
  { s with
    now := n
    nextSweep := if sw then s.nextSweep + c.period else s.nextSweep
    nextPing := if pg then s.nextPing + c.pingPeriod else s.nextPing
    circuits := circuits
    relays := s.relays.mapAll (tickRelay c n sw)
    exits := s.exits.mapAll (tickExit c n sw)
    created := s.created.filter (fun p => decide (n < p.2))
    createReq := s.createReq.filter (fun p => decide (n < p.2.expiry))
    outs := s.outs ++ so ++ po }

def Node.ticks (c : Cfg) : Nat → Node → Node
  | 0, s => s
  | k + 1, s => Node.ticks c k (s.tick c)

/-- let time pass until `t` (nothing happens if `t` is not in the future) -/
def Node.advance (c : Cfg) (s : Node) (t : Nat) : Node := s.ticks c (t - s.now)

/-! ### stimuli -/

/-- what an accepted cell decrypts to at this node -/
inductive Body
  | junk
  | create (peer : Nat)
  | created (ident : Nat) (ok : Bool) (next : Option (Nat × Nat))
  | extended (ident : Nat) (ok : Bool) (next : Option (Nat × Nat))
  | extend (reqId toId toPeer : Nat) (candOk : Bool)
  | ping
  | pong
  | data (sent : Bool)
  | testReq
  | other
  deriving Repr

inductive Ev
  | mkCircuit (id goal peer cands ident : Nat)          -- create_circuit / send_initial_create
  | cell (id : Nat) (early plain ok : Bool) (body : Body) -- a cell reaches process_cell; ok = decrypts and is dispatched
  | destroy (id peer : Nat) (fwd : Bool)                 -- authenticated destroy from `peer`; fwd = (reason ≠ 0)
  | rmCircuit (id : Nat) (destroy : Bool)                -- local remove_circuit(id, destroy=…)
  | rmRelay (id : Nat) (destroy : Bool)
  | rmExit (id : Nat) (destroy removeNow : Bool)
  | retry (id peer : Nat) (next : Option (Nat × Nat))    -- retry_later ran (peer = first hop afterwards)
  | outside (id : Nat)                                   -- a datagram from outside reaches the exit socket
  | traffic (tbl id amount : Nat)                        -- bytes counted on an entry (0 circuit, 1 relay, 2 exit)
  deriving Repr

def Node.emit (s : Node) (o : List Out) : Node := { s with outs := s.outs ++ o }

def Node.known (s : Node) (id : Nat) : Bool :=
  (s.circuits.get id).isSome || (s.exits.get id).isSome || (s.relays.get id).isSome

def Node.onCreate (c : Cfg) (s : Node) (id peer : Nat) : Node :=
  if s.created.any (fun p => p.1 == id) then s
  else if s.known id then s        -- "Circuit id … is already in use"
  else if Gen.joinRefused c s.relays.count s.exits.count then s.emit [Out.refused id]
  else
    let leak := match s.exits.get id with
      | some x => if x.opened then 1 else 0
      | none => 0
    { s with
      created := (id, s.now + c.createdTtl) :: s.created
      exits := s.exits.put id { last := s.now, born := s.now, peer := peer }
      leaked := s.leaked + leak
      outs := s.outs ++ [Out.cell peer id 3] }

def Node.onOurs (c : Cfg) (s : Node) (id ident : Nat) (ok : Bool) (next : Option (Nat × Nat)) : Node :=
  match s.circuits.get id with
  | some e =>
    match e.retry with
    | some r =>
      if !e.waiting && r.ident == ident then
        { s with circuits := s.circuits.modify id (Entry.ours c s.now ok next r) }
      else s
    | none => s
  | none => s

def Node.onCreated (c : Cfg) (s : Node) (id ident : Nat) (ok : Bool) (next : Option (Nat × Nat)) : Node :=
  match s.createReq.find? (fun p => p.1 == ident) with
  | some p =>
    let rq := p.2
    let s := { s with createReq := s.createReq.filter (fun q => !(q.1 == ident)) }
    match s.exits.get rq.fromId with
    | none => s
    | some x =>
      -- the id may have been handed to another peer / the id reserved for the next hop may have been taken meanwhile
      if !(x.peer == rq.peer) || s.known rq.toId then s else
      let bw : Entry := { last := s.now, born := s.now, other := rq.fromId, peer := rq.peer, early := Gen.earlyInit }
      let fw : Entry := { last := s.now, born := s.now, other := rq.toId, peer := rq.toPeer, early := Gen.earlyInit }
      { s with
        exits := s.exits.modify rq.fromId (Entry.remove c s.now true)
        relays := (s.relays.put rq.toId bw).put rq.fromId fw
        outs := s.outs ++ [Out.cell rq.peer rq.fromId 5] }
  | none => s.onOurs c id ident ok next

def Node.onExtend (c : Cfg) (s : Node) (id reqId toId toPeer : Nat) (candOk : Bool) : Node :=
  if !(s.created.any (fun p => p.1 == id)) || !candOk then s
  else
    let cand : Option Nat := match s.circuits.get id with
      | some e => some e.peer
      | none => match s.exits.get id with
        | some e => some e.peer
        | none => (s.relays.get id).map (·.peer)
    match cand with
    | none => s
    | some p =>
      { s with
        createReq := (reqId, { toId := toId, fromId := id, peer := p, toPeer := toPeer,
                               expiry := s.now + c.createReqTtl }) :: s.createReq.filter (fun q => !(q.1 == reqId))
        outs := s.outs ++ [Out.cell toPeer toId 2] }

def Node.dispatch (c : Cfg) (s : Node) (id : Nat) (src : Nat) (body : Body) : Node :=
  match body with
  | .junk => s
  | .other => s
  | .pong => s
  | .create peer => s.onCreate c id peer
  | .created ident ok next => s.onCreated c id ident ok next
  | .extended ident ok next => s.onOurs c id ident ok next
  | .extend reqId toId toPeer candOk => s.onExtend c id reqId toId toPeer candOk
  | .ping =>
    if s.known id then
      { s with exits := s.exits.modify id (Entry.beat s.now), outs := s.outs ++ [Out.cell src id 7] }
    else s
  | .data sent =>
    match s.circuits.get id with
    | some _ => s
    | none =>
      match s.exits.get id with
      | some _ => { s with exits := s.exits.modify id (Entry.exited s.now sent) }
      | none => s
  | .testReq =>
    match s.exits.get id with
    | some _ => { s with exits := s.exits.modify id (Entry.beat s.now), outs := s.outs ++ [Out.cell src id 18] }
    | none => s

/-- `PythonCryptoEndpoint.process_cell` -/
def Node.onCell (c : Cfg) (s : Node) (id : Nat) (early plain ok : Bool) (body : Body) : Node :=
  match s.relays.get id with
  | some nr =>
    -- (the heartbeat of the opposite route comes first in the code; the two updates touch different fields)
    if plain || Gen.earlyDrop c early nr.early || !ok then
      { s with relays := s.relays.modify nr.other (Entry.beat s.now), outs := s.outs ++ [Out.drop id] }
    else
      { s with
        relays := (s.relays.modify1 id (Entry.fwd early)).modify nr.other (Entry.beat s.now)
        outs := s.outs ++ [Out.fwd id nr.other] }
  | none =>
    let known := (s.circuits.get id).isSome || (s.exits.get id).isSome
    if (!known && !plain) || !ok then s
    else
      let src := match s.circuits.get id with
        | some e => e.peer
        | none => match s.exits.get id with
          | some e => e.peer
          | none => 0
      let s := s.dispatch c id src body
      { s with circuits := s.circuits.modify id (Entry.beat s.now) }

def Node.onDestroyRest (c : Cfg) (s : Node) (id peer : Nat) : Node :=
  match s.exits.get id with
  | some x =>
    if x.peer == peer then { s with exits := s.exits.modify id (Entry.remove c s.now false) }
    else match s.circuits.get id with
      | some e => if e.peer == peer then { s with circuits := s.circuits.modify id (Entry.removeC c s.now) } else s
      | none => s
  | none =>
    match s.circuits.get id with
    | some e => if e.peer == peer then { s with circuits := s.circuits.modify id (Entry.removeC c s.now) } else s
    | none => s

/-- `on_destroy` (after the signature check; `peer` is the signer) -/
def Node.onDestroy (c : Cfg) (s : Node) (id peer : Nat) (fwd : Bool) : Node :=
  match s.relays.get id with
  | some nr =>
    match s.relays.get nr.other with
    | some pr =>
      if pr.peer == peer then
        { s with
          relays := (s.relays.modify id (Entry.remove c s.now false)).modify nr.other (Entry.remove c s.now false)
          outs := s.outs ++ (if fwd then [Out.destroy nr.peer nr.other] else []) }
      else s.onDestroyRest c id peer
    | none => s.onDestroyRest c id peer
  | none => s.onDestroyRest c id peer

def Node.step (c : Cfg) (s : Node) : Ev → Node
  | .mkCircuit id goal peer cands ident =>
    { s with
      circuits := s.circuits.put id
        { last := s.now, born := s.now, goal := goal, peer := peer,
          retry := some (newRetry c s.now c.tries0 (cands, ident)) }
      outs := s.outs ++ [Out.cell peer id 2] }
  | .cell id early plain ok body => s.onCell c id early plain ok body
  | .destroy id peer fwd => s.onDestroy c id peer fwd
  | .rmCircuit id destroy =>
    match s.circuits.get id with
    | some e =>
      { s with
        circuits := s.circuits.modify id (Entry.removeC c s.now)
        outs := s.outs ++ (if destroy then [Out.destroy e.peer id] else []) }
    | none => s
  | .rmRelay id destroy =>
    match s.relays.get id with
    | some e =>
      { s with
        relays := s.relays.modify id (Entry.remove c s.now false)
        outs := s.outs ++ (if destroy then [Out.destroy e.peer e.other] else []) }
    | none => s
  | .rmExit id destroy removeNow =>
    match s.exits.get id with
    | some e =>
      { s with
        exits := s.exits.modify id (Entry.remove c s.now removeNow)
        outs := s.outs ++ (if destroy then [Out.destroy e.peer id] else []) }
    | none => s
  | .retry id peer next => { s with circuits := s.circuits.modify id (Entry.retried c s.now peer next) }
  | .outside id =>
    match s.exits.get id with
    | some e => s.emit [Out.cell e.peer id 1]
    | none => s
  | .traffic tbl id amount =>
    let f : Entry → Entry := fun e => { e with bytes := e.bytes + amount }
    if tbl == 0 then { s with circuits := s.circuits.modify id f }
    else if tbl == 1 then { s with relays := s.relays.modify id f }
    else { s with exits := s.exits.modify id f }

/-- a timed history: each stimulus carries the time at which it happens -/
def Node.run (c : Cfg) (s : Node) : List (Nat × Ev) → Node
  | [] => s
  | (t, ev) :: rest => Node.run c ((s.advance c t).step c ev) rest

end Ipv8.C09
