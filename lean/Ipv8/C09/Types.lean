/-
  C09 — basic types of the per-node timed model of TunnelCommunity's routing tables (core Lean only).

  Time is counted in ticks (`Cfg.tps` ticks per second, 64 in the generated configuration) so that every
  timer of the code (5 s sweep, 7.5 s ping, 10 s caches, 20 s inactivity …) is an integer and the
  harness can schedule everything on exactly representable floats.
-/
namespace Ipv8.C09

/-- constants read from `TunnelSettings` defaults / the source by tools/gen_c09.py (all durations in ticks) -/
structure Cfg where
  inactive : Nat      -- max_time_inactive
  maxTime : Nat       -- max_time (get_max_time)
  maxTraffic : Nat    -- max_traffic (bytes)
  delay : Nat         -- remove_tunnel_delay
  period : Nat        -- interval of the do_circuits task (→ do_remove)
  hopTimeout : Nat    -- next_hop_timeout (RetryRequestCache)
  tries0 : Nat        -- circuit_timeout // next_hop_timeout (max_tries handed to send_initial_create)
  maxJoined : Nat     -- max_joined_circuits
  maxEarly : Nat      -- max_relay_early
  createdTtl : Nat    -- unstable_timeout (CreatedRequestCache)
  createReqTtl : Nat  -- RandomNumberCache.timeout_delay (CreateRequestCache)
  pingPeriod : Nat    -- PING_INTERVAL
  nowSkips : Bool     -- does remove_now=True skip the sleep even when delay > 0 ?
  deriving Repr

/-- an outstanding RetryRequestCache of a circuit under construction -/
structure Retry where
  deadline : Nat
  tries : Nat         -- max_tries of the cache (Python's value, negative clipped to 0)
  cands : Nat         -- number of alternative candidates held by the cache
  ident : Nat         -- packet_identifier
  deriving Repr, DecidableEq

/-- one routing object (Circuit / RelayRoute / TunnelExitSocket share `RoutingObject`); unused fields stay 0 -/
structure Entry where
  last : Nat                    -- last_activity
  born : Nat                    -- creation_time
  rmAt : Option Nat := none     -- earliest pending delayed removal (time of the pop)
  gone : Bool := false          -- popped from its table
  other : Nat := 0              -- RelayRoute.circuit_id (the id cells are re-labelled with)
  peer : Nat := 0               -- label of hop.peer
  early : Nat := 0              -- RelayRoute.relay_early_count
  fwdEarly : Nat := 0           -- ghost: relay_early-flagged cells forwarded over this route
  closing : Bool := false       -- Circuit._closing
  goal : Nat := 0               -- goal_hops
  hops : Nat := 0               -- len(hops)
  retry : Option Retry := none  -- RetryRequestCache for this circuit
  waiting : Bool := false       -- the cache timed out with a retry allowed; outcome of retry_func not yet seen
  opened : Bool := false        -- TunnelExitSocket.enabled (outside transports exist)
  bytes : Nat := 0              -- bytes_up + bytes_down
  deriving Repr

/-- `circuit.state == CIRCUIT_STATE_READY` -/
def Entry.isReady (e : Entry) : Bool := !e.closing && decide (e.goal ≤ e.hops)

end Ipv8.C09
