/-
  C09 — helper lemmas: table combinators, obligations on the generated decision functions, per-entry invariants
  and their preservation by every tick and every stimulus.  (core Lean only)
-/
import Ipv8.C09.Model

namespace Ipv8.C09

/-! ### tables -/

/-- every live entry of the table satisfies `P key entry` -/
def Tbl.All (P : Nat → Entry → Prop) (t : Tbl) : Prop := ∀ p ∈ t, p.2.gone = false → P p.1 p.2

theorem Tbl.All.nil (P : Nat → Entry → Prop) : Tbl.All P [] := by
  intro p hp; cases hp

theorem Tbl.get_some {t : Tbl} {i : Nat} {e : Entry} (h : t.get i = some e) : (i, e) ∈ t ∧ e.gone = false := by
  unfold Tbl.get at h
  split at h
  · rename_i p hp
    have hm := List.mem_of_find?_eq_some hp
    have hq := List.find?_some hp
    simp at hq
    cases h
    obtain ⟨h1, h2⟩ := hq
    have : p = (i, p.2) := by cases p; simp_all
    rw [this] at hm
    exact ⟨hm, h2⟩
  · cases h

theorem Tbl.All.get {P : Nat → Entry → Prop} {t : Tbl} (h : Tbl.All P t) {i : Nat} {e : Entry}
    (hg : t.get i = some e) : P i e := by
  have := Tbl.get_some hg
  exact h (i, e) this.1 this.2

theorem Tbl.All.modify {P Q : Nat → Entry → Prop} {t : Tbl} (h : Tbl.All P t) (i : Nat) (f : Entry → Entry)
    (hother : ∀ k e, e.gone = false → P k e → Q k e)
    (hf : ∀ e, e.gone = false → P i e → (f e).gone = false → Q i (f e)) : Tbl.All Q (t.modify i f) := by
  intro p hp hg
  unfold Tbl.modify at hp
  rw [List.mem_map] at hp
  obtain ⟨q, hq, rfl⟩ := hp
  by_cases hc : (q.1 == i && !q.2.gone) = true
  · simp only [hc, if_true] at hg ⊢
    simp at hc
    have := hf q.2 hc.2 (hc.1 ▸ h q hq hc.2) hg
    rw [hc.1]; exact this
  · simp only [hc] at hg ⊢
    exact hother _ _ hg (h q hq hg)

theorem Tbl.get_cons_hit {p : Nat × Entry} {r : Tbl} {i : Nat} (hc : (p.1 == i && !p.2.gone) = true) :
    Tbl.get (p :: r) i = some p.2 := by
  unfold Tbl.get
  simp [List.find?_cons, hc]

theorem Tbl.get_cons_miss {p : Nat × Entry} {r : Tbl} {i : Nat} (hc : ¬ (p.1 == i && !p.2.gone) = true) :
    Tbl.get (p :: r) i = Tbl.get r i := by
  unfold Tbl.get
  simp only [List.find?_cons]
  simp only [Bool.not_eq_true] at hc
  rw [hc]

/-- `modify1` changes exactly the entry that `get` returns: `hf` is only needed for that entry -/
theorem Tbl.All.modify1 {P : Nat → Entry → Prop} {t : Tbl} (h : Tbl.All P t) (i : Nat) (f : Entry → Entry)
    (hf : ∀ e, t.get i = some e → e.gone = false → P i e → (f e).gone = false → P i (f e)) :
    Tbl.All P (t.modify1 i f) := by
  induction t with
  | nil => intro p hp; cases hp
  | cons p r ih =>
    have hr : Tbl.All P r := fun q hq => h q (List.mem_cons_of_mem _ hq)
    unfold Tbl.modify1
    by_cases hc : (p.1 == i && !p.2.gone) = true
    · simp only [hc, if_true]
      intro q hq hg
      rcases List.mem_cons.mp hq with rfl | hq
      · simp at hc
        have hp := h p List.mem_cons_self hc.2
        have := hf p.2 (Tbl.get_cons_hit (by simp [hc])) hc.2 (hc.1 ▸ hp) hg
        simpa [hc.1] using this
      · exact hr q hq hg
    · simp only [hc]
      intro q hq hg
      rcases List.mem_cons.mp hq with rfl | hq
      · exact h q List.mem_cons_self hg
      · exact ih hr (fun e he => hf e (by rw [Tbl.get_cons_miss hc]; exact he)) q hq hg

theorem Tbl.All.put {P : Nat → Entry → Prop} {t : Tbl} (h : Tbl.All P t) (i : Nat) (e : Entry)
    (he : e.gone = false → P i e) : Tbl.All P (t.put i e) := by
  intro p hp hg
  unfold Tbl.put at hp
  rcases List.mem_cons.mp hp with rfl | hp
  · exact he hg
  · exact h p (List.mem_filter.mp hp).1 hg

theorem Tbl.All.mapAll {P Q : Nat → Entry → Prop} {t : Tbl} (h : Tbl.All P t) (f : Entry → Entry)
    (hf : ∀ k e, e.gone = false → P k e → (f e).gone = false → Q k (f e)) : Tbl.All Q (t.mapAll f) := by
  intro p hp hg
  unfold Tbl.mapAll at hp
  rw [List.mem_map] at hp
  obtain ⟨q, hq, rfl⟩ := hp
  by_cases hc : q.2.gone = true
  · simp [hc] at hg
  · simp at hc
    simp only [hc] at hg ⊢
    exact hf _ _ hc (h q hq hc) hg

theorem Tbl.All.imp {P Q : Nat → Entry → Prop} {t : Tbl} (h : Tbl.All P t)
    (hpq : ∀ k e, e.gone = false → P k e → Q k e) : Tbl.All Q t :=
  fun p hp hg => hpq _ _ hg (h p hp hg)

/-! ### obligations on the generated decision functions (these are what a changed sweep condition breaks) -/

theorem sweepRelay_none {c : Cfg} {m : Nat} {e : Entry} (h : Gen.sweepRelay c m e = none) :
    m ≤ e.last + c.inactive := by
  unfold Gen.sweepRelay at h
  split at h
  · cases h
  · rename_i h1
    simp at h1
    omega

theorem sweepExit_none {c : Cfg} {m : Nat} {e : Entry} (h : Gen.sweepExit c m e = none) :
    m ≤ e.last + c.inactive ∧ m ≤ e.born + c.maxTime := by
  unfold Gen.sweepExit at h
  split at h
  · cases h
  · rename_i h1
    split at h
    · cases h
    · rename_i h2
      simp at h1 h2
      omega

theorem sweepCircuit_none {c : Cfg} {m : Nat} {e : Entry} (h : Gen.sweepCircuit c m e = none) :
    (e.isReady = true → m ≤ e.last + c.inactive) ∧ m ≤ e.born + c.maxTime := by
  unfold Gen.sweepCircuit at h
  split at h
  · cases h
  · rename_i h1
    split at h
    · cases h
    · rename_i h2
      simp at h1 h2
      constructor
      · intro hr
        have := h1 hr
        omega
      · omega

theorem earlyDrop_false {c : Cfg} {k : Nat} (h : Gen.earlyDrop c true k = false) : k < c.maxEarly := by
  unfold Gen.earlyDrop at h
  simp at h
  omega

theorem joinRefused_of_full {c : Cfg} {r x : Nat} (h : c.maxJoined ≤ r + x) : Gen.joinRefused c r x = true := by
  unfold Gen.joinRefused
  simp
  omega

theorem giveUp_of_no_tries {cands : Nat} : Gen.giveUp cands 0 = true := by
  unfold Gen.giveUp
  simp

theorem closeOnPop_enabled : Gen.closeOnPop true = true := by
  unfold Gen.closeOnPop
  rfl

theorem removeDelay_le (c : Cfg) (b : Bool) : removeDelay c b ≤ c.delay := by
  unfold removeDelay
  split <;> omega

/-! ### per-entry invariants -/

/-- clocks of an entry are in the past; a pending removal is in the future and at most `delay` away;
    a closing circuit has a pending removal -/
structure Sane (c : Cfg) (n : Nat) (e : Entry) : Prop where
  last_le : e.last ≤ n
  born_le : e.born ≤ n
  rm : ∀ r, e.rmAt = some r → n < r ∧ r ≤ n + c.delay
  closing : e.closing = true → ∃ r, e.rmAt = some r

/-- "reclaimed at the latest `period + delay` after `x`": either a removal that early is already pending,
    or the next sweep comes early enough to start one -/
def Bound (c : Cfg) (ns x : Nat) (e : Entry) : Prop :=
  (∃ r, e.rmAt = some r ∧ r ≤ x + c.period + c.delay) ∨ ns ≤ x + c.period

/-- the same for a circuit, where only a circuit that is not closing is swept for inactivity -/
def BoundC (c : Cfg) (ns x : Nat) (e : Entry) : Prop :=
  (∃ r, e.rmAt = some r ∧ r ≤ x + c.period + c.delay) ∨ (e.closing = false ∧ ns ≤ x + c.period)

def IdleOk (c : Cfg) (ns : Nat) (e : Entry) : Prop := Bound c ns (e.last + c.inactive) e
def AgeOk (c : Cfg) (ns : Nat) (e : Entry) : Prop := Bound c ns (e.born + c.maxTime) e
def ReadyOk (c : Cfg) (ns : Nat) (e : Entry) : Prop := e.goal ≤ e.hops → BoundC c ns (e.last + c.inactive) e

/-- relay_early accounting of a route -/
def EarlyOk (c : Cfg) (e : Entry) : Prop :=
  e.fwdEarly + Gen.earlyInit ≤ e.early ∧ (e.fwdEarly = 0 ∨ e.fwdEarly + Gen.earlyInit ≤ c.maxEarly)

def RelayInv (c : Cfg) (n ns : Nat) (e : Entry) : Prop := Sane c n e ∧ IdleOk c ns e ∧ EarlyOk c e
def ExitInv (c : Cfg) (n ns : Nat) (e : Entry) : Prop :=
  Sane c n e ∧ IdleOk c ns e ∧ AgeOk c ns e
def CircInv (c : Cfg) (n ns : Nat) (e : Entry) : Prop := Sane c n e ∧ ReadyOk c ns e ∧ AgeOk c ns e

/-- the sweep timer is strictly ahead and at most one period away -/
structure TimeOk (c : Cfg) (n ns : Nat) : Prop where
  lt : n < ns
  le : ns ≤ n + c.period

/-! #### elementary facts about `pop`, `sched`, `remove` -/

theorem pop_fields (n : Nat) (e : Entry) :
    (e.pop n).last = e.last ∧ (e.pop n).born = e.born ∧ (e.pop n).rmAt = e.rmAt ∧ (e.pop n).closing = e.closing ∧
    (e.pop n).goal = e.goal ∧ (e.pop n).hops = e.hops ∧ (e.pop n).early = e.early ∧ (e.pop n).fwdEarly = e.fwdEarly ∧
    (e.pop n).retry = e.retry ∧ (e.pop n).waiting = e.waiting ∧ (e.pop n).other = e.other ∧ (e.pop n).peer = e.peer := by
  unfold Entry.pop
  split
  · split <;> simp
  · simp

theorem pop_live {n : Nat} {e : Entry} (h : (e.pop n).gone = false) : ∀ r, e.rmAt = some r → n < r := by
  intro r hr
  unfold Entry.pop at h
  rw [hr] at h
  simp only at h
  split at h
  · simp at h
  · omega

theorem pop_opened_of_gone {n : Nat} {e : Entry} (h : e.gone = false) (hg : (e.pop n).gone = true) :
    (e.pop n).opened = false := by
  unfold Entry.pop at hg ⊢
  cases hr : e.rmAt with
  | none => simp [hr, h] at hg
  | some r =>
    simp only [hr] at hg ⊢
    by_cases hle : r ≤ n
    · simp only [hle, if_true]
      cases ho : e.opened with
      | false => rfl
      | true => simp [closeOnPop_enabled]
    · simp [hle, h] at hg

/-- a live entry stays sane when the clock moves from `n` to `n+1` (after `pop (n+1)`) -/
theorem Sane.step {c : Cfg} {n : Nat} {e : Entry} (h : Sane c n e) (hl : (e.pop (n + 1)).gone = false) :
    Sane c (n + 1) (e.pop (n + 1)) := by
  obtain ⟨f1, f2, f3, f4, -⟩ := pop_fields (n + 1) e
  have hp := pop_live hl
  refine ⟨by rw [f1]; have := h.last_le; omega, by rw [f2]; have := h.born_le; omega, ?_, ?_⟩
  · intro r hr
    rw [f3] at hr
    have := h.rm r hr
    have := hp r hr
    omega
  · intro hc
    rw [f4] at hc
    rw [f3]
    exact h.closing hc

/-- result of `sched t` followed by `pop n`, when it is still live -/
theorem sched_pop {n t : Nat} {e : Entry} (hl : ((e.sched t).pop n).gone = false) :
    ∃ r, ((e.sched t).pop n).rmAt = some r ∧ r ≤ t ∧ n < r ∧ (∀ r0, e.rmAt = some r0 → r ≤ r0) := by
  obtain ⟨-, -, f3, -⟩ := pop_fields n (e.sched t)
  have hp := pop_live hl
  rw [f3]
  unfold Entry.sched at hp ⊢
  simp only at hp ⊢
  cases hr : e.rmAt with
  | none =>
    simp only [hr] at hp ⊢
    exact ⟨t, rfl, Nat.le_refl _, hp t rfl, fun r0 h => by cases h⟩
  | some r0 =>
    simp only [hr] at hp ⊢
    refine ⟨min r0 t, rfl, Nat.min_le_right _ _, hp _ rfl, ?_⟩
    intro r1 h1
    cases h1
    exact Nat.min_le_left _ _

theorem sched_pop_fields (n t : Nat) (e : Entry) :
    ((e.sched t).pop n).last = e.last ∧ ((e.sched t).pop n).born = e.born ∧
    ((e.sched t).pop n).closing = e.closing ∧ ((e.sched t).pop n).goal = e.goal ∧
    ((e.sched t).pop n).hops = e.hops ∧ ((e.sched t).pop n).early = e.early ∧
    ((e.sched t).pop n).fwdEarly = e.fwdEarly := by
  obtain ⟨f1, f2, -, f4, f5, f6, f7, f8, -⟩ := pop_fields n (e.sched t)
  refine ⟨f1, f2, f4, f5, f6, f7, f8⟩

/-- `remove` started at the current time `n` keeps a sane entry sane -/
theorem Sane.remove {c : Cfg} {n : Nat} {e : Entry} (b : Bool) (h : Sane c n e)
    (hl : (e.remove c n b).gone = false) : Sane c n (e.remove c n b) := by
  unfold Entry.remove at hl ⊢
  obtain ⟨r, hr, hrt, hnr, hmin⟩ := sched_pop hl
  obtain ⟨f1, f2, f3, -⟩ := sched_pop_fields n (n + removeDelay c b) e
  have hd := removeDelay_le c b
  refine ⟨by rw [f1]; exact h.last_le, by rw [f2]; exact h.born_le, ?_, fun _ => ⟨r, hr⟩⟩
  intro r' hr'
  rw [hr] at hr'
  cases hr'
  exact ⟨hnr, by omega⟩

/-- scheduling a removal at the current time keeps `Bound` (for any reference point) -/
theorem Bound.remove {c : Cfg} {n ns x : Nat} {e : Entry} (b : Bool) (h : Bound c ns x e)
    (hl : (e.remove c n b).gone = false) : Bound c ns x (e.remove c n b) := by
  unfold Entry.remove at hl ⊢
  obtain ⟨r, hr, -, -, hmin⟩ := sched_pop hl
  rcases h with ⟨r0, h0, hb⟩ | h
  · exact Or.inl ⟨r, hr, Nat.le_trans (hmin r0 h0) hb⟩
  · exact Or.inr h

/-- a removal started no later than `x + period` establishes the bound -/
theorem Bound.of_remove {c : Cfg} {n ns x : Nat} {e : Entry} (b : Bool) (hn : n ≤ x + c.period)
    (hl : (e.remove c n b).gone = false) : Bound c ns x (e.remove c n b) := by
  unfold Entry.remove at hl ⊢
  obtain ⟨r, hr, hrt, -, -⟩ := sched_pop hl
  have := removeDelay_le c b
  exact Or.inl ⟨r, hr, by omega⟩

theorem remove_fields (c : Cfg) (n : Nat) (b : Bool) (e : Entry) :
    (e.remove c n b).last = e.last ∧ (e.remove c n b).born = e.born ∧ (e.remove c n b).closing = e.closing ∧
    (e.remove c n b).goal = e.goal ∧ (e.remove c n b).hops = e.hops ∧ (e.remove c n b).early = e.early ∧
    (e.remove c n b).fwdEarly = e.fwdEarly := by
  unfold Entry.remove
  exact sched_pop_fields n _ e

/-! #### congruence: the invariants only look at a few fields -/

theorem Sane.congr {c : Cfg} {n : Nat} {e e' : Entry} (h : Sane c n e) (h1 : e'.last = e.last)
    (h2 : e'.born = e.born) (h3 : e'.rmAt = e.rmAt) (h4 : e'.closing = e.closing) : Sane c n e' :=
  ⟨h1 ▸ h.last_le, h2 ▸ h.born_le, fun r hr => h.rm r (h3 ▸ hr), fun hc => h3 ▸ h.closing (h4 ▸ hc)⟩

theorem Bound.congr {c : Cfg} {ns x : Nat} {e e' : Entry} (h : Bound c ns x e) (h3 : e'.rmAt = e.rmAt) :
    Bound c ns x e' := by
  unfold Bound at h ⊢
  rw [h3]; exact h

theorem BoundC.congr {c : Cfg} {ns x : Nat} {e e' : Entry} (h : BoundC c ns x e) (h3 : e'.rmAt = e.rmAt)
    (h4 : e'.closing = e.closing) : BoundC c ns x e' := by
  unfold BoundC at h ⊢
  rw [h3, h4]; exact h

theorem Bound.mono {c : Cfg} {ns x y : Nat} {e : Entry} (h : Bound c ns x e) (hxy : x ≤ y) : Bound c ns y e := by
  rcases h with ⟨r, hr, hb⟩ | h
  · exact Or.inl ⟨r, hr, by omega⟩
  · exact Or.inr (by omega)

/-- an entry whose reference point is "now or later" is within bound -/
theorem Bound.fresh {c : Cfg} {n ns x : Nat} (e : Entry) (ht : TimeOk c n ns) (hx : n ≤ x) : Bound c ns x e :=
  Or.inr (by have := ht.le; omega)

/-- the conclusion everything is for: a live entry within `Bound` is younger than `x + period + delay` -/
theorem Bound.now_lt {c : Cfg} {n ns x : Nat} {e : Entry} (ht : TimeOk c n ns) (hs : Sane c n e)
    (h : Bound c ns x e) : n < x + c.period + c.delay := by
  rcases h with ⟨r, hr, hb⟩ | h
  · have := (hs.rm r hr).1; omega
  · have := ht.lt; omega

theorem BoundC.now_lt {c : Cfg} {n ns x : Nat} {e : Entry} (ht : TimeOk c n ns) (hs : Sane c n e)
    (h : BoundC c ns x e) : n < x + c.period + c.delay := by
  rcases h with ⟨r, hr, hb⟩ | ⟨-, h⟩
  · have := (hs.rm r hr).1; omega
  · have := ht.lt; omega

/-! #### relay entries -/

theorem RelayInv.beat {c : Cfg} {n ns : Nat} {e : Entry} (ht : TimeOk c n ns) (h : RelayInv c n ns e) :
    RelayInv c n ns (e.beat n) := by
  obtain ⟨hs, -, he⟩ := h
  refine ⟨⟨Nat.le_refl _, hs.born_le, hs.rm, hs.closing⟩, ?_, he⟩
  exact Bound.fresh _ ht (by show n ≤ n + c.inactive; omega)

theorem RelayInv.remove {c : Cfg} {n ns : Nat} {e : Entry} (b : Bool) (h : RelayInv c n ns e)
    (hl : (e.remove c n b).gone = false) : RelayInv c n ns (e.remove c n b) := by
  obtain ⟨hs, hi, he⟩ := h
  obtain ⟨f1, -, -, -, -, f6, f7⟩ := remove_fields c n b e
  refine ⟨hs.remove b hl, ?_, ?_⟩
  · have := Bound.remove b hi hl
    unfold IdleOk; rw [f1]; exact this
  · unfold EarlyOk; rw [f6, f7]; exact he

theorem RelayInv.new {c : Cfg} {n ns : Nat} (ht : TimeOk c n ns) (other peer : Nat) :
    RelayInv c n ns { last := n, born := n, other := other, peer := peer, early := Gen.earlyInit } := by
  refine ⟨⟨Nat.le_refl _, Nat.le_refl _, (fun r hr => by cases hr), (fun hc => by cases hc)⟩, ?_, ?_⟩
  · exact Bound.fresh _ ht (by show n ≤ n + c.inactive; omega)
  · exact ⟨by show 0 + Gen.earlyInit ≤ Gen.earlyInit; omega, Or.inl rfl⟩

theorem RelayInv.fwd {c : Cfg} {n ns : Nat} {e : Entry} (early : Bool) (h : RelayInv c n ns e)
    (hd : Gen.earlyDrop c early e.early = false) : RelayInv c n ns (e.fwd early) := by
  unfold Entry.fwd
  obtain ⟨hs, hi, hj, hk⟩ := h
  refine ⟨hs.congr rfl rfl rfl rfl, Bound.congr hi rfl, ?_⟩
  cases early with
  | false => exact ⟨by show e.fwdEarly + 0 + Gen.earlyInit ≤ e.early + 1; omega, by simpa using hk⟩
  | true =>
    have := earlyDrop_false hd
    exact ⟨by show e.fwdEarly + 1 + Gen.earlyInit ≤ e.early + 1; omega,
           Or.inr (by show e.fwdEarly + 1 + Gen.earlyInit ≤ c.maxEarly; omega)⟩

theorem RelayInv.bytes {c : Cfg} {n ns : Nat} {e : Entry} (a : Nat) (h : RelayInv c n ns e) :
    RelayInv c n ns { e with bytes := e.bytes + a } :=
  ⟨h.1.congr rfl rfl rfl rfl, Bound.congr h.2.1 rfl, h.2.2⟩

/-- one tick: `ns'` is the sweep timer afterwards -/
theorem RelayInv.tick {c : Cfg} {n ns : Nat} {e : Entry} (_ht : TimeOk c n ns) (h : RelayInv c n ns e)
    (hl : (tickRelay c (n + 1) (n + 1 == ns) e).gone = false) :
    RelayInv c (n + 1) (if (n + 1 == ns) = true then ns + c.period else ns) (tickRelay c (n + 1) (n + 1 == ns) e) := by
  obtain ⟨hs, hi, he⟩ := h
  unfold tickRelay at hl ⊢
  simp only at hl ⊢
  by_cases hg : (e.pop (n + 1)).gone = true
  · simp [hg] at hl
  · simp at hg
    simp only [hg, Bool.false_eq_true, ↓reduceIte] at hl ⊢
    have hs' := hs.step hg
    obtain ⟨f1, f2, f3, f4, f5, f6, f7, f8, -⟩ := pop_fields (n + 1) e
    have hi' : IdleOk c ns (e.pop (n + 1)) := by
      unfold IdleOk; rw [f1]; exact Bound.congr hi f3
    have he' : EarlyOk c (e.pop (n + 1)) := by unfold EarlyOk; rw [f7, f8]; exact he
    by_cases hsw : (n + 1 == ns) = true
    · have hns : n + 1 = ns := by simpa using hsw
      cases hd : Gen.sweepRelay c (n + 1) (e.pop (n + 1)) with
      | none =>
        simp only [hsw, hd, if_true] at hl ⊢
        refine ⟨hs', ?_, he'⟩
        have := sweepRelay_none hd
        exact Or.inr (by omega)
      | some d =>
        simp only [hsw, hd, if_true] at hl ⊢
        obtain ⟨a, b, c'⟩ := RelayInv.remove false ⟨hs', hi', he'⟩ hl
        refine ⟨a, ?_, c'⟩
        obtain ⟨g1, -⟩ := remove_fields c (n + 1) false (e.pop (n + 1))
        unfold IdleOk at b ⊢
        rcases b with b | b
        · exact Or.inl b
        · have := @Bound.of_remove c (n + 1) (ns + c.period) ((e.pop (n + 1)).last + c.inactive) (e.pop (n + 1)) false
            (by rw [g1] at b; omega) hl
          rw [g1]; exact this
    · simp only [hsw] at hl ⊢
      exact ⟨hs', hi', he'⟩

/-- a removal started by the sweep at `n = ns` (or by anything while `n ≤ ns`) gives the bound for every later timer -/
theorem Bound.remove_any {c : Cfg} {n ns ns' x : Nat} {e : Entry} (b : Bool) (h : Bound c ns x e) (hn : n ≤ ns)
    (hl : (e.remove c n b).gone = false) : Bound c ns' x (e.remove c n b) := by
  rcases h with h | h
  · rcases Bound.remove b (Or.inl h : Bound c ns x e) hl with h' | h'
    · exact Or.inl h'
    · exact Bound.of_remove b (by omega) hl
  · exact Bound.of_remove b (by omega) hl

/-! #### exit entries -/

theorem ExitInv.beat {c : Cfg} {n ns : Nat} {e : Entry} (ht : TimeOk c n ns) (h : ExitInv c n ns e) :
    ExitInv c n ns (e.beat n) := by
  obtain ⟨hs, -, ha⟩ := h
  exact ⟨⟨Nat.le_refl _, hs.born_le, hs.rm, hs.closing⟩, Bound.fresh _ ht (by show n ≤ n + c.inactive; omega),
         Bound.congr ha rfl⟩

theorem ExitInv.exited {c : Cfg} {n ns : Nat} {e : Entry} (ht : TimeOk c n ns) (sent : Bool) (h : ExitInv c n ns e) :
    ExitInv c n ns (e.exited n sent) := by
  obtain ⟨hs, hi, ha⟩ := h
  unfold Entry.exited
  cases sent with
  | true =>
    exact ⟨⟨Nat.le_refl _, hs.born_le, hs.rm, hs.closing⟩, Bound.fresh _ ht (by show n ≤ n + c.inactive; omega),
           Bound.congr ha rfl⟩
  | false => exact ⟨hs.congr rfl rfl rfl rfl, Bound.congr hi rfl, Bound.congr ha rfl⟩

theorem ExitInv.remove {c : Cfg} {n ns : Nat} {e : Entry} (b : Bool) (h : ExitInv c n ns e)
    (hl : (e.remove c n b).gone = false) : ExitInv c n ns (e.remove c n b) := by
  obtain ⟨hs, hi, ha⟩ := h
  obtain ⟨f1, f2, -⟩ := remove_fields c n b e
  refine ⟨hs.remove b hl, ?_, ?_⟩
  · unfold IdleOk; rw [f1]; exact Bound.remove b hi hl
  · unfold AgeOk; rw [f2]; exact Bound.remove b ha hl

theorem ExitInv.new {c : Cfg} {n ns : Nat} (ht : TimeOk c n ns) (peer : Nat) :
    ExitInv c n ns { last := n, born := n, peer := peer } :=
  ⟨⟨Nat.le_refl _, Nat.le_refl _, (fun r hr => by cases hr), (fun hc => by cases hc)⟩,
   Bound.fresh _ ht (by show n ≤ n + c.inactive; omega), Bound.fresh _ ht (by show n ≤ n + c.maxTime; omega)⟩

theorem ExitInv.bytes {c : Cfg} {n ns : Nat} {e : Entry} (a : Nat) (h : ExitInv c n ns e) :
    ExitInv c n ns { e with bytes := e.bytes + a } :=
  ⟨h.1.congr rfl rfl rfl rfl, Bound.congr h.2.1 rfl, Bound.congr h.2.2 rfl⟩

theorem ExitInv.tick {c : Cfg} {n ns : Nat} {e : Entry} (_ht : TimeOk c n ns) (h : ExitInv c n ns e)
    (hl : (tickExit c (n + 1) (n + 1 == ns) e).gone = false) :
    ExitInv c (n + 1) (if (n + 1 == ns) = true then ns + c.period else ns) (tickExit c (n + 1) (n + 1 == ns) e) := by
  obtain ⟨hs, hi, ha⟩ := h
  unfold tickExit at hl ⊢
  simp only at hl ⊢
  by_cases hg : (e.pop (n + 1)).gone = true
  · simp [hg] at hl
  · simp at hg
    simp only [hg, Bool.false_eq_true, ↓reduceIte] at hl ⊢
    have hs' := hs.step hg
    obtain ⟨f1, f2, f3, -⟩ := pop_fields (n + 1) e
    have hi' : IdleOk c ns (e.pop (n + 1)) := by unfold IdleOk; rw [f1]; exact Bound.congr hi f3
    have ha' : AgeOk c ns (e.pop (n + 1)) := by unfold AgeOk; rw [f2]; exact Bound.congr ha f3
    by_cases hsw : (n + 1 == ns) = true
    · have hns : n + 1 = ns := by simpa using hsw
      cases hd : Gen.sweepExit c (n + 1) (e.pop (n + 1)) with
      | none =>
        simp only [hsw, hd, if_true] at hl ⊢
        have := sweepExit_none hd
        exact ⟨hs', Or.inr (by omega), Or.inr (by omega)⟩
      | some d =>
        simp only [hsw, hd, if_true] at hl ⊢
        obtain ⟨g1, g2, -⟩ := remove_fields c (n + 1) false (e.pop (n + 1))
        refine ⟨hs'.remove false hl, ?_, ?_⟩
        · unfold IdleOk; rw [g1]; exact Bound.remove_any false hi' (by omega) hl
        · unfold AgeOk; rw [g2]; exact Bound.remove_any false ha' (by omega) hl
    · simp only [hsw] at hl ⊢
      exact ⟨hs', hi', ha'⟩

/-! #### circuits -/

/-- `beat_heart` at the current time gives the inactivity bound from sanity alone -/
theorem ReadyOk.of_beat {c : Cfg} {n ns : Nat} {e : Entry} (ht : TimeOk c n ns) (hs : Sane c n e) (hlast : e.last = n) :
    ReadyOk c ns e := by
  intro _
  cases hc : e.closing with
  | false => exact Or.inr ⟨hc, by have := ht.le; omega⟩
  | true =>
    obtain ⟨r, hr⟩ := hs.closing hc
    have := hs.rm r hr
    exact Or.inl ⟨r, hr, by omega⟩

theorem CircInv.beat {c : Cfg} {n ns : Nat} {e : Entry} (ht : TimeOk c n ns) (h : CircInv c n ns e) :
    CircInv c n ns (e.beat n) := by
  obtain ⟨hs, -, ha⟩ := h
  have hs' : Sane c n (e.beat n) := ⟨Nat.le_refl _, hs.born_le, hs.rm, hs.closing⟩
  exact ⟨hs', ReadyOk.of_beat ht hs' rfl, Bound.congr ha rfl⟩

theorem removeC_fields (c : Cfg) (n : Nat) (e : Entry) :
    (e.removeC c n).last = e.last ∧ (e.removeC c n).born = e.born ∧ (e.removeC c n).closing = true ∧
    (e.removeC c n).goal = e.goal ∧ (e.removeC c n).hops = e.hops := by
  unfold Entry.removeC
  obtain ⟨f1, f2, f3, f4, f5, -⟩ := remove_fields c n false { e with closing := true, retry := none, waiting := false }
  exact ⟨f1, f2, f3, f4, f5⟩

theorem sane_remove {c : Cfg} {n : Nat} {e : Entry} (b : Bool) (h1 : e.last ≤ n) (h2 : e.born ≤ n)
    (h3 : ∀ r, e.rmAt = some r → n < r ∧ r ≤ n + c.delay) (hl : (e.remove c n b).gone = false) :
    Sane c n (e.remove c n b) := by
  unfold Entry.remove at hl ⊢
  obtain ⟨r, hr, hrt, hnr, hmin⟩ := sched_pop hl
  obtain ⟨f1, f2, f3, -⟩ := sched_pop_fields n (n + removeDelay c b) e
  have hd := removeDelay_le c b
  refine ⟨by rw [f1]; exact h1, by rw [f2]; exact h2, ?_, fun _ => ⟨r, hr⟩⟩
  intro r' hr'
  rw [hr] at hr'
  cases hr'
  exact ⟨hnr, by omega⟩

/-- `remove_circuit` at time `n ≤ ns` -/
theorem CircInv.removeC {c : Cfg} {n ns ns' : Nat} {e : Entry} (hn : n ≤ ns) (h : CircInv c n ns e)
    (hl : (e.removeC c n).gone = false) : CircInv c n ns' (e.removeC c n) := by
  obtain ⟨hs, hr, ha⟩ := h
  obtain ⟨f1, f2, f3, f4, f5⟩ := removeC_fields c n e
  have hl0 := hl
  unfold Entry.removeC at hl0
  refine ⟨?_, ?_, ?_⟩
  · unfold Entry.removeC
    exact sane_remove false hs.last_le hs.born_le hs.rm hl0
  · intro hready
    rw [f4, f5] at hready
    unfold Entry.removeC Entry.remove at hl ⊢
    obtain ⟨r, hrr, hrt, -, hmin⟩ := sched_pop hl
    have hd := removeDelay_le c false
    obtain ⟨g1, -⟩ := sched_pop_fields n (n + removeDelay c false) { e with closing := true, retry := none, waiting := false }
    rcases hr hready with ⟨r0, h0, hb⟩ | ⟨-, hb⟩
    · refine Or.inl ⟨r, hrr, ?_⟩
      have := hmin r0 h0
      rw [g1]; show r ≤ e.last + c.inactive + c.period + c.delay; omega
    · refine Or.inl ⟨r, hrr, ?_⟩
      rw [g1]; show r ≤ e.last + c.inactive + c.period + c.delay; omega
  · unfold AgeOk; rw [f2]
    unfold Entry.removeC
    exact Bound.remove_any false (Bound.congr ha rfl) hn hl0

theorem CircInv.congr {c : Cfg} {n ns : Nat} {e e' : Entry} (h : CircInv c n ns e) (h1 : e'.last = e.last)
    (h2 : e'.born = e.born) (h3 : e'.rmAt = e.rmAt) (h4 : e'.closing = e.closing) (h5 : e'.goal = e.goal)
    (h6 : e'.hops = e.hops) : CircInv c n ns e' := by
  obtain ⟨hs, hr, ha⟩ := h
  refine ⟨hs.congr h1 h2 h3 h4, ?_, ?_⟩
  · intro hready
    rw [h5, h6] at hready
    have := hr hready
    rw [h1]; exact BoundC.congr this h3 h4
  · unfold AgeOk; rw [h2]; exact Bound.congr ha h3

/-- a hop was added and the heart beaten at the current time -/
theorem CircInv.hop {c : Cfg} {n ns : Nat} {e : Entry} (ht : TimeOk c n ns) (h : CircInv c n ns e) :
    CircInv c n ns { e with hops := e.hops + 1, last := n } := by
  obtain ⟨hs, -, ha⟩ := h
  have hs' : Sane c n { e with hops := e.hops + 1, last := n } := ⟨Nat.le_refl _, hs.born_le, hs.rm, hs.closing⟩
  exact ⟨hs', ReadyOk.of_beat ht hs' rfl, Bound.congr ha rfl⟩

theorem CircInv.ours {c : Cfg} {n ns : Nat} {e : Entry} (ht : TimeOk c n ns) (ok : Bool) (next : Option (Nat × Nat))
    (r : Retry) (h : CircInv c n ns e) (hl : (e.ours c n ok next r).gone = false) :
    CircInv c n ns (e.ours c n ok next r) := by
  have hn : n ≤ ns := Nat.le_of_lt ht.lt
  unfold Entry.ours at hl ⊢
  cases ok with
  | false => simp only [Bool.not_false, if_true] at hl ⊢; exact CircInv.removeC hn h hl
  | true =>
    simp only [Bool.not_true, Bool.false_eq_true, if_false] at hl ⊢
    have h1 := CircInv.hop ht h
    split
    · exact h1
    · split
      · cases next with
        | none =>
          simp only at hl ⊢
          rename_i hc hlt
          simp only [hc, hlt, if_true, Bool.false_eq_true, if_false] at hl
          exact CircInv.removeC hn h1 hl
        | some nx => exact h1.congr rfl rfl rfl rfl rfl rfl
      · exact h1.congr rfl rfl rfl rfl rfl rfl

theorem CircInv.retried {c : Cfg} {n ns : Nat} {e : Entry} (ht : TimeOk c n ns) (peer : Nat)
    (next : Option (Nat × Nat)) (h : CircInv c n ns e) (hl : (e.retried c n peer next).gone = false) :
    CircInv c n ns (e.retried c n peer next) := by
  have hn : n ≤ ns := Nat.le_of_lt ht.lt
  unfold Entry.retried at hl ⊢
  split
  · split
    · cases next with
      | none =>
        rename_i r hr hw
        simp only [hr, hw, if_true] at hl
        exact CircInv.removeC hn h hl
      | some nx => exact h.congr rfl rfl rfl rfl rfl rfl
    · exact h
  · exact h

theorem CircInv.new {c : Cfg} {n ns : Nat} (ht : TimeOk c n ns) (goal peer : Nat) (r : Option Retry) :
    CircInv c n ns { last := n, born := n, goal := goal, peer := peer, retry := r } := by
  have hs : Sane c n { last := n, born := n, goal := goal, peer := peer, retry := r } :=
    ⟨Nat.le_refl _, Nat.le_refl _, (fun r hr => by cases hr), (fun hc => by cases hc)⟩
  exact ⟨hs, ReadyOk.of_beat ht hs rfl, Bound.fresh _ ht (by show n ≤ n + c.maxTime; omega)⟩

theorem CircInv.bytes {c : Cfg} {n ns : Nat} {e : Entry} (a : Nat) (h : CircInv c n ns e) :
    CircInv c n ns { e with bytes := e.bytes + a } := h.congr rfl rfl rfl rfl rfl rfl

theorem CircInv.retry_timeout {c : Cfg} {n ns : Nat} {e : Entry} (hn : n ≤ ns) (h : CircInv c n ns e)
    (hl : (retryTimeout c n e).gone = false) : CircInv c n ns (retryTimeout c n e) := by
  unfold retryTimeout at hl ⊢
  split
  · split
    · split
      · exact h.congr rfl rfl rfl rfl rfl rfl
      · split
        · rename_i r hr h1 h2 h3
          simp only [hr, h1, h2, h3, if_true, Bool.false_eq_true, if_false] at hl
          exact CircInv.removeC hn h hl
        · exact h.congr rfl rfl rfl rfl rfl rfl
    · exact h
  · exact h

theorem CircInv.sweep_c {c : Cfg} {n ns : Nat} {e : Entry} (hsane : e.gone = false) (h : CircInv c n ns e)
    (hl : (sweepC c n (n == ns) e).gone = false) :
    CircInv c n (if (n == ns) = true then ns + c.period else ns) (sweepC c n (n == ns) e) := by
  unfold sweepC at hl ⊢
  by_cases hsw : (n == ns) = true
  · have hns : n = ns := by simpa using hsw
    cases hd : Gen.sweepCircuit c n e with
    | some d =>
      simp only [hsw, hd, if_true] at hl ⊢
      exact CircInv.removeC (by omega) h hl
    | none =>
      simp only [hsw, hd, if_true] at hl ⊢
      obtain ⟨hs, hr, ha⟩ := h
      obtain ⟨k1, k2⟩ := sweepCircuit_none hd
      refine ⟨hs, ?_, Or.inr (by omega)⟩
      intro hready
      rcases hr hready with hb | ⟨hc, hb⟩
      · exact Or.inl hb
      · have : e.isReady = true := by unfold Entry.isReady; simp [hc, hready]
        have := k1 this
        exact Or.inr ⟨hc, by omega⟩
  · simp only [hsw] at hl ⊢
    exact h

theorem CircInv.tick {c : Cfg} {n ns : Nat} {e : Entry} (ht : TimeOk c n ns) (h : CircInv c n ns e)
    (hl : (tickCircuit c (n + 1) (n + 1 == ns) e).gone = false) :
    CircInv c (n + 1) (if (n + 1 == ns) = true then ns + c.period else ns)
      (tickCircuit c (n + 1) (n + 1 == ns) e) := by
  unfold tickCircuit at hl ⊢
  simp only at hl ⊢
  by_cases hg : (e.pop (n + 1)).gone = true
  · simp [hg] at hl
  · simp at hg
    simp only [hg, Bool.false_eq_true, ↓reduceIte] at hl ⊢
    obtain ⟨hs, hr, ha⟩ := h
    obtain ⟨f1, f2, f3, f4, f5, f6, -⟩ := pop_fields (n + 1) e
    have h1 : CircInv c (n + 1) ns (e.pop (n + 1)) := by
      refine ⟨hs.step hg, ?_, ?_⟩
      · intro hready
        rw [f5, f6] at hready
        rw [f1]; exact BoundC.congr (hr hready) f3 f4
      · unfold AgeOk; rw [f2]; exact Bound.congr ha f3
    have hn : n + 1 ≤ ns := ht.lt
    by_cases hg2 : (retryTimeout c (n + 1) (e.pop (n + 1))).gone = true
    · simp [hg2] at hl
    · simp at hg2
      simp only [hg2, Bool.false_eq_true, ↓reduceIte] at hl ⊢
      exact CircInv.sweep_c hg2 (CircInv.retry_timeout hn h1 hg2) hl

/-! ### popped exit sockets are closed -/

/-- every entry (popped ones included) satisfies `P` -/
def Tbl.Every (P : Entry → Prop) (t : Tbl) : Prop := ∀ p ∈ t, P p.2

theorem Tbl.Every.nil (P : Entry → Prop) : Tbl.Every P [] := by
  intro p hp; cases hp

theorem Tbl.Every.modify {P : Entry → Prop} {t : Tbl} (h : Tbl.Every P t) (i : Nat) (f : Entry → Entry)
    (hf : ∀ e, e.gone = false → P e → P (f e)) : Tbl.Every P (t.modify i f) := by
  intro p hp
  unfold Tbl.modify at hp
  rw [List.mem_map] at hp
  obtain ⟨q, hq, rfl⟩ := hp
  by_cases hc : (q.1 == i && !q.2.gone) = true
  · simp only [hc, if_true]
    simp at hc
    exact hf q.2 hc.2 (h q hq)
  · simp only [hc]
    exact h q hq

theorem Tbl.Every.put {P : Entry → Prop} {t : Tbl} (h : Tbl.Every P t) (i : Nat) (e : Entry) (he : P e) :
    Tbl.Every P (t.put i e) := by
  intro p hp
  unfold Tbl.put at hp
  rcases List.mem_cons.mp hp with rfl | hp
  · exact he
  · exact h p (List.mem_filter.mp hp).1

theorem Tbl.Every.mapAll {P : Entry → Prop} {t : Tbl} (h : Tbl.Every P t) (f : Entry → Entry)
    (hf : ∀ e, e.gone = false → P e → P (f e)) : Tbl.Every P (t.mapAll f) := by
  intro p hp
  unfold Tbl.mapAll at hp
  rw [List.mem_map] at hp
  obtain ⟨q, hq, rfl⟩ := hp
  by_cases hc : q.2.gone = true
  · simp only [hc, if_true]; exact h q hq
  · simp at hc
    simp only [hc]
    exact hf _ hc (h q hq)

/-- a popped exit socket has closed its transports -/
def Closed (e : Entry) : Prop := e.gone = true → e.opened = false

theorem Closed.of_live {e : Entry} (h : e.gone = false) : Closed e := fun hg => by rw [h] at hg; cases hg

theorem Closed.pop {n : Nat} {e : Entry} (h : e.gone = false) : Closed (e.pop n) :=
  fun hg => pop_opened_of_gone h hg

theorem Closed.remove {c : Cfg} {n : Nat} {e : Entry} (b : Bool) (h : e.gone = false) : Closed (e.remove c n b) := by
  unfold Entry.remove
  exact Closed.pop (by unfold Entry.sched; exact h)

theorem Closed.tickExit {c : Cfg} {n : Nat} {sw : Bool} {e : Entry} (h : e.gone = false) : Closed (tickExit c n sw e) := by
  unfold Ipv8.C09.tickExit
  simp only
  split
  · exact Closed.pop h
  · rename_i hg
    simp at hg
    split
    · split
      · exact Closed.remove false hg
      · exact Closed.of_live hg
    · exact Closed.of_live hg

/-! ### the node invariant -/

structure Inv (c : Cfg) (s : Node) : Prop where
  time : TimeOk c s.now s.nextSweep
  circ : Tbl.All (fun _ e => CircInv c s.now s.nextSweep e) s.circuits
  relay : Tbl.All (fun _ e => RelayInv c s.now s.nextSweep e) s.relays
  exit : Tbl.All (fun _ e => ExitInv c s.now s.nextSweep e) s.exits
  closed : Tbl.Every Closed s.exits
  noleak : s.leaked = 0

theorem Inv.init (c : Cfg) (hp : 0 < c.period) (start : Nat) : Inv c (Node.init c start) :=
  ⟨⟨by show start < start + c.period; omega, Nat.le_refl _⟩, Tbl.All.nil _, Tbl.All.nil _, Tbl.All.nil _, Tbl.Every.nil _, rfl⟩

theorem Inv.tick {c : Cfg} (hp : 0 < c.period) {s : Node} (h : Inv c s) : Inv c (s.tick c) := by
  have ht := h.time
  have hlt := ht.lt
  have hle := ht.le
  refine ⟨?_, ?_, ?_, ?_, ?_, h.noleak⟩
  · show TimeOk c (s.now + 1) (if (s.now + 1 == s.nextSweep) = true then s.nextSweep + c.period else s.nextSweep)
    by_cases hsw : (s.now + 1 == s.nextSweep) = true
    · have : s.now + 1 = s.nextSweep := by simpa using hsw
      simp only [hsw, if_true]
      exact ⟨by omega, by omega⟩
    · have : ¬ (s.now + 1 = s.nextSweep) := by simpa using hsw
      simp only [hsw, Bool.false_eq_true, ↓reduceIte]
      exact ⟨by omega, by omega⟩
  · exact h.circ.mapAll _ (fun _ e _ hp hl => CircInv.tick ht hp hl)
  · exact h.relay.mapAll _ (fun _ e _ hp hl => RelayInv.tick ht hp hl)
  · exact h.exit.mapAll _ (fun _ e _ hp hl => ExitInv.tick ht hp hl)
  · exact h.closed.mapAll _ (fun e hg _ => Closed.tickExit hg)

theorem Inv.ticks {c : Cfg} (hp : 0 < c.period) (k : Nat) {s : Node} (h : Inv c s) : Inv c (s.ticks c k) := by
  induction k generalizing s with
  | zero => exact h
  | succ k ih => exact ih (h.tick hp)

theorem Inv.advance {c : Cfg} (hp : 0 < c.period) (t : Nat) {s : Node} (h : Inv c s) : Inv c (s.advance c t) :=
  h.ticks hp _

theorem Inv.outs {c : Cfg} {s : Node} (h : Inv c s) (o : List Out) : Inv c { s with outs := o } :=
  ⟨h.time, h.circ, h.relay, h.exit, h.closed, h.noleak⟩

theorem Inv.setCircuits {c : Cfg} {s : Node} (h : Inv c s) {t : Tbl}
    (ht : Tbl.All (fun _ e => CircInv c s.now s.nextSweep e) t) : Inv c { s with circuits := t } :=
  ⟨h.time, ht, h.relay, h.exit, h.closed, h.noleak⟩

theorem Inv.setRelays {c : Cfg} {s : Node} (h : Inv c s) {t : Tbl}
    (ht : Tbl.All (fun _ e => RelayInv c s.now s.nextSweep e) t) : Inv c { s with relays := t } :=
  ⟨h.time, h.circ, ht, h.exit, h.closed, h.noleak⟩

theorem Inv.setExits {c : Cfg} {s : Node} (h : Inv c s) {t : Tbl}
    (ht : Tbl.All (fun _ e => ExitInv c s.now s.nextSweep e) t) (hc : Tbl.Every Closed t) :
    Inv c { s with exits := t } :=
  ⟨h.time, h.circ, h.relay, ht, hc, h.noleak⟩

theorem Inv.modCircuits {c : Cfg} {s : Node} (h : Inv c s) (i : Nat) (f : Entry → Entry)
    (hf : ∀ e, e.gone = false → CircInv c s.now s.nextSweep e → (f e).gone = false → CircInv c s.now s.nextSweep (f e)) :
    Tbl.All (fun _ e => CircInv c s.now s.nextSweep e) (s.circuits.modify i f) :=
  h.circ.modify i f (fun _ _ _ hp => hp) hf

theorem Inv.modRelays {c : Cfg} {s : Node} (h : Inv c s) (i : Nat) (f : Entry → Entry)
    (hf : ∀ e, e.gone = false → RelayInv c s.now s.nextSweep e → (f e).gone = false → RelayInv c s.now s.nextSweep (f e)) :
    Tbl.All (fun _ e => RelayInv c s.now s.nextSweep e) (s.relays.modify i f) :=
  h.relay.modify i f (fun _ _ _ hp => hp) hf

theorem Inv.modExits {c : Cfg} {s : Node} (h : Inv c s) (i : Nat) (f : Entry → Entry)
    (hf : ∀ e, e.gone = false → ExitInv c s.now s.nextSweep e → (f e).gone = false → ExitInv c s.now s.nextSweep (f e)) :
    Tbl.All (fun _ e => ExitInv c s.now s.nextSweep e) (s.exits.modify i f) :=
  h.exit.modify i f (fun _ _ _ hp => hp) hf

theorem Inv.closedMod {c : Cfg} {s : Node} (h : Inv c s) (i : Nat) (f : Entry → Entry)
    (hf : ∀ e, e.gone = false → Closed (f e)) : Tbl.Every Closed (s.exits.modify i f) :=
  h.closed.modify i f (fun e hg _ => hf e hg)

theorem Closed.beat {n : Nat} {e : Entry} (h : e.gone = false) : Closed (e.beat n) := Closed.of_live h

theorem Closed.exited {n : Nat} {sent : Bool} {e : Entry} (h : e.gone = false) : Closed (e.exited n sent) := by
  unfold Entry.exited
  split <;> exact Closed.of_live h

theorem get_none_of_not_known {s : Node} {id : Nat} (h : ¬ (s.known id = true)) : s.exits.get id = none := by
  unfold Node.known at h
  cases hx : s.exits.get id with
  | none => rfl
  | some x => simp [hx] at h

theorem Inv.onCreate {c : Cfg} {s : Node} (h : Inv c s) (id peer : Nat) : Inv c (s.onCreate c id peer) := by
  unfold Node.onCreate
  split
  · exact h
  · split
    · exact h
    · split
      · exact h.outs _
      · rename_i hk _
        refine ⟨h.time, h.circ, h.relay, h.exit.put _ _ (fun _ => ExitInv.new h.time peer),
                h.closed.put _ _ (Closed.of_live rfl), ?_⟩
        show s.leaked + _ = 0
        rw [get_none_of_not_known hk, h.noleak]
        rfl

theorem Inv.onOurs {c : Cfg} {s : Node} (h : Inv c s) (id ident : Nat) (ok : Bool) (next : Option (Nat × Nat)) :
    Inv c (s.onOurs c id ident ok next) := by
  unfold Node.onOurs
  split
  · split
    · split
      · exact h.setCircuits (h.modCircuits _ _ (fun e _ hp hl => CircInv.ours h.time ok next _ hp hl))
      · exact h
    · exact h
  · exact h

theorem Inv.onCreated {c : Cfg} {s : Node} (h : Inv c s) (id ident : Nat) (ok : Bool) (next : Option (Nat × Nat)) :
    Inv c (s.onCreated c id ident ok next) := by
  unfold Node.onCreated
  split
  · simp only
    split
    · exact ⟨h.time, h.circ, h.relay, h.exit, h.closed, h.noleak⟩
    · split
      · exact ⟨h.time, h.circ, h.relay, h.exit, h.closed, h.noleak⟩
      · refine ⟨h.time, h.circ, ?_, ?_, ?_, h.noleak⟩
        · exact (h.relay.put _ _ (fun _ => RelayInv.new h.time _ _)).put _ _ (fun _ => RelayInv.new h.time _ _)
        · exact h.modExits _ _ (fun e _ hp hl => ExitInv.remove true hp hl)
        · exact h.closedMod _ _ (fun e hg => Closed.remove true hg)
  · exact h.onOurs id ident ok next

theorem Inv.onExtend {c : Cfg} {s : Node} (h : Inv c s) (id reqId toId toPeer : Nat) (candOk : Bool) :
    Inv c (s.onExtend c id reqId toId toPeer candOk) := by
  unfold Node.onExtend
  split
  · exact h
  · simp only
    split
    · exact h
    · exact ⟨h.time, h.circ, h.relay, h.exit, h.closed, h.noleak⟩

theorem Inv.dispatch {c : Cfg} {s : Node} (h : Inv c s) (id src : Nat) (body : Body) :
    Inv c (s.dispatch c id src body) := by
  unfold Node.dispatch
  cases body with
  | junk => exact h
  | other => exact h
  | pong => exact h
  | create peer => exact h.onCreate id peer
  | created ident ok next => exact h.onCreated id ident ok next
  | extended ident ok next => exact h.onOurs id ident ok next
  | extend reqId toId toPeer candOk => exact h.onExtend id reqId toId toPeer candOk
  | ping =>
    simp only
    split
    · exact ⟨h.time, h.circ, h.relay, h.modExits _ _ (fun e _ hp _ => ExitInv.beat h.time hp),
             h.closedMod _ _ (fun e hg => Closed.beat hg), h.noleak⟩
    · exact h
  | data sent =>
    simp only
    split
    · exact h
    · split
      · exact h.setExits (h.modExits _ _ (fun e _ hp _ => ExitInv.exited h.time sent hp))
          (h.closedMod _ _ (fun e hg => Closed.exited hg))
      · exact h
  | testReq =>
    simp only
    split
    · exact ⟨h.time, h.circ, h.relay, h.modExits _ _ (fun e _ hp _ => ExitInv.beat h.time hp),
             h.closedMod _ _ (fun e hg => Closed.beat hg), h.noleak⟩
    · exact h

theorem Inv.onCell {c : Cfg} {s : Node} (h : Inv c s) (id : Nat) (early plain ok : Bool) (body : Body) :
    Inv c (s.onCell c id early plain ok body) := by
  unfold Node.onCell
  split
  · rename_i nr hnr
    split
    · exact ⟨h.time, h.circ, h.modRelays _ _ (fun e _ hp _ => RelayInv.beat h.time hp), h.exit, h.closed, h.noleak⟩
    · rename_i hguard
      have hd : Gen.earlyDrop c early nr.early = false := by
        cases hx : Gen.earlyDrop c early nr.early with
        | false => rfl
        | true => simp [hx] at hguard
      refine ⟨h.time, h.circ, ?_, h.exit, h.closed, h.noleak⟩
      have h1 : Tbl.All (fun _ e => RelayInv c s.now s.nextSweep e) (s.relays.modify1 id (Entry.fwd early)) :=
        h.relay.modify1 _ _ (fun e he _ hp _ => by
          rw [hnr] at he; cases he
          exact RelayInv.fwd early hp hd)
      exact h1.modify _ _ (fun _ _ _ hp => hp) (fun e _ hp _ => RelayInv.beat h.time hp)
  · simp only
    split
    · exact h
    · have h2 := h.dispatch id
        (match s.circuits.get id with
          | some e => e.peer
          | none => match s.exits.get id with
            | some e => e.peer
            | none => 0) body
      exact h2.setCircuits (h2.modCircuits _ _ (fun e _ hp _ => CircInv.beat h2.time hp))

theorem Inv.onDestroyRest {c : Cfg} {s : Node} (h : Inv c s) (id peer : Nat) : Inv c (s.onDestroyRest c id peer) := by
  have hn : s.now ≤ s.nextSweep := Nat.le_of_lt h.time.lt
  have hc : ∀ i, Inv c { s with circuits := s.circuits.modify i (Entry.removeC c s.now) } := fun i =>
    h.setCircuits (h.modCircuits _ _ (fun e _ hp hl => CircInv.removeC hn hp hl))
  unfold Node.onDestroyRest
  split
  · split
    · exact h.setExits (h.modExits _ _ (fun e _ hp hl => ExitInv.remove false hp hl))
        (h.closedMod _ _ (fun e hg => Closed.remove false hg))
    · split
      · split
        · exact hc _
        · exact h
      · exact h
  · split
    · split
      · exact hc _
      · exact h
    · exact h

theorem Inv.onDestroy {c : Cfg} {s : Node} (h : Inv c s) (id peer : Nat) (fwd : Bool) :
    Inv c (s.onDestroy c id peer fwd) := by
  unfold Node.onDestroy
  split
  · split
    · split
      · refine ⟨h.time, h.circ, ?_, h.exit, h.closed, h.noleak⟩
        exact (h.modRelays _ _ (fun e _ hp hl => RelayInv.remove false hp hl)).modify _ _ (fun _ _ _ hp => hp)
          (fun e _ hp hl => RelayInv.remove false hp hl)
      · exact h.onDestroyRest id peer
    · exact h.onDestroyRest id peer
  · exact h.onDestroyRest id peer

theorem Inv.step {c : Cfg} {s : Node} (h : Inv c s) (ev : Ev) : Inv c (s.step c ev) := by
  have hn : s.now ≤ s.nextSweep := Nat.le_of_lt h.time.lt
  cases ev with
  | mkCircuit id goal peer cands ident =>
    exact ⟨h.time, h.circ.put _ _ (fun _ => CircInv.new h.time goal peer _), h.relay, h.exit, h.closed, h.noleak⟩
  | cell id early plain ok body => exact h.onCell id early plain ok body
  | destroy id peer fwd => exact h.onDestroy id peer fwd
  | rmCircuit id destroy =>
    show Inv c (match s.circuits.get id with | some e => _ | none => s)
    split
    · exact ⟨h.time, h.modCircuits _ _ (fun e _ hp hl => CircInv.removeC hn hp hl), h.relay, h.exit, h.closed, h.noleak⟩
    · exact h
  | rmRelay id destroy =>
    show Inv c (match s.relays.get id with | some e => _ | none => s)
    split
    · exact ⟨h.time, h.circ, h.modRelays _ _ (fun e _ hp hl => RelayInv.remove false hp hl), h.exit, h.closed, h.noleak⟩
    · exact h
  | rmExit id destroy removeNow =>
    show Inv c (match s.exits.get id with | some e => _ | none => s)
    split
    · exact ⟨h.time, h.circ, h.relay, h.modExits _ _ (fun e _ hp hl => ExitInv.remove removeNow hp hl),
             h.closedMod _ _ (fun e hg => Closed.remove removeNow hg), h.noleak⟩
    · exact h
  | retry id peer next =>
    exact h.setCircuits (h.modCircuits _ _ (fun e _ hp hl => CircInv.retried h.time peer next hp hl))
  | outside id =>
    show Inv c (match s.exits.get id with | some e => _ | none => s)
    split
    · exact h.outs _
    · exact h
  | traffic tbl id amount =>
    show Inv c (if tbl == 0 then _ else if tbl == 1 then _ else _)
    split
    · exact h.setCircuits (h.modCircuits _ _ (fun e _ hp _ => CircInv.bytes amount hp))
    · split
      · exact h.setRelays (h.modRelays _ _ (fun e _ hp _ => RelayInv.bytes amount hp))
      · exact h.setExits (h.modExits _ _ (fun e _ hp _ => ExitInv.bytes amount hp))
          (h.closedMod _ _ (fun e hg => Closed.of_live hg))

theorem Inv.run {c : Cfg} (hp : 0 < c.period) (evs : List (Nat × Ev)) {s : Node} (h : Inv c s) :
    Inv c (Node.run c s evs) := by
  induction evs generalizing s with
  | nil => exact h
  | cons p rest ih =>
    obtain ⟨t, ev⟩ := p
    exact ih ((h.advance hp t).step ev)

/-! ### a node only speaks for circuit ids it knows -/

/-- what may be emitted from state `s`: creates and the answer to a create are free; any other cell names a circuit id
    the node knows; a forwarded cell arrived under a live relay entry -/
def Out.ok (s : Node) : Out → Prop
  | .cell _ i k => k = 2 ∨ k = 3 ∨ s.known i = true
  | .fwd i _ => (s.relays.get i).isSome = true
  | _ => True

/-- the output log only grows, by messages that are `ok` for the state before -/
def Emits (s s' : Node) : Prop := ∃ extra, s'.outs = s.outs ++ extra ∧ ∀ o ∈ extra, Out.ok s o

theorem Emits.silent {s s' : Node} (h : s'.outs = s.outs) : Emits s s' :=
  ⟨[], by simp [h], by intro o ho; cases ho⟩

theorem Emits.single {s s' : Node} (o : Out) (h : s'.outs = s.outs ++ [o]) (ho : Out.ok s o) : Emits s s' :=
  ⟨[o], h, by intro o' ho'; simp at ho'; subst ho'; exact ho⟩

theorem known_of_exit {s : Node} {i : Nat} {e : Entry} (h : s.exits.get i = some e) : s.known i = true := by
  unfold Node.known; simp [h]

theorem Tbl.get_isSome_of_mem {t : Tbl} {i : Nat} {e : Entry} (hm : (i, e) ∈ t) (hg : e.gone = false) :
    (t.get i).isSome = true := by
  unfold Tbl.get
  have : (t.find? (fun p => p.1 == i && !p.2.gone)).isSome = true := by
    rw [List.find?_isSome]
    exact ⟨(i, e), hm, by simp [hg]⟩
  cases hf : t.find? (fun p => p.1 == i && !p.2.gone) with
  | none => rw [hf] at this; cases this
  | some p => rfl

theorem Emits.onCreate {c : Cfg} (s : Node) (id peer : Nat) : Emits s (s.onCreate c id peer) := by
  unfold Node.onCreate
  split
  · exact Emits.silent rfl
  · split
    · exact Emits.silent rfl
    · split
      · exact Emits.single _ rfl trivial
      · exact Emits.single _ rfl (Or.inr (Or.inl rfl))

theorem Emits.onOurs {c : Cfg} (s : Node) (id ident : Nat) (ok : Bool) (next : Option (Nat × Nat)) :
    Emits s (s.onOurs c id ident ok next) := by
  unfold Node.onOurs
  split
  · split
    · split
      · exact Emits.silent rfl
      · exact Emits.silent rfl
    · exact Emits.silent rfl
  · exact Emits.silent rfl

theorem Emits.onCreated {c : Cfg} (s : Node) (id ident : Nat) (ok : Bool) (next : Option (Nat × Nat)) :
    Emits s (s.onCreated c id ident ok next) := by
  unfold Node.onCreated
  split
  · simp only
    split
    · exact Emits.silent rfl
    · rename_i x hx
      split
      · exact Emits.silent rfl
      · exact Emits.single _ rfl (Or.inr (Or.inr (known_of_exit hx)))
  · exact Emits.onOurs s id ident ok next

theorem Emits.onExtend {c : Cfg} (s : Node) (id reqId toId toPeer : Nat) (candOk : Bool) :
    Emits s (s.onExtend c id reqId toId toPeer candOk) := by
  unfold Node.onExtend
  split
  · exact Emits.silent rfl
  · simp only
    split
    · exact Emits.silent rfl
    · exact Emits.single _ rfl (Or.inl rfl)

theorem Emits.dispatch {c : Cfg} (s : Node) (id src : Nat) (body : Body) : Emits s (s.dispatch c id src body) := by
  unfold Node.dispatch
  cases body with
  | junk => exact Emits.silent rfl
  | other => exact Emits.silent rfl
  | pong => exact Emits.silent rfl
  | create peer => exact Emits.onCreate s id peer
  | created ident ok next => exact Emits.onCreated s id ident ok next
  | extended ident ok next => exact Emits.onOurs s id ident ok next
  | extend reqId toId toPeer candOk => exact Emits.onExtend s id reqId toId toPeer candOk
  | ping =>
    simp only
    split
    · rename_i hk
      exact Emits.single _ rfl (Or.inr (Or.inr hk))
    · exact Emits.silent rfl
  | data sent =>
    simp only
    split
    · exact Emits.silent rfl
    · split
      · exact Emits.silent rfl
      · exact Emits.silent rfl
  | testReq =>
    simp only
    split
    · rename_i x hx
      exact Emits.single _ rfl (Or.inr (Or.inr (known_of_exit hx)))
    · exact Emits.silent rfl

theorem Emits.onCell {c : Cfg} (s : Node) (id : Nat) (early plain ok : Bool) (body : Body) :
    Emits s (s.onCell c id early plain ok body) := by
  unfold Node.onCell
  split
  · rename_i nr hnr
    split
    · exact Emits.single _ rfl trivial
    · exact Emits.single _ rfl (by show (s.relays.get id).isSome = true; rw [hnr]; rfl)
  · simp only
    split
    · exact Emits.silent rfl
    · obtain ⟨extra, h1, h2⟩ := Emits.dispatch (c := c) s id
        (match s.circuits.get id with
          | some e => e.peer
          | none => match s.exits.get id with
            | some e => e.peer
            | none => 0) body
      exact ⟨extra, h1, h2⟩

theorem Emits.ifDestroy {s s' : Node} (b : Bool) (p i : Nat)
    (h : s'.outs = s.outs ++ (if b = true then [Out.destroy p i] else [])) : Emits s s' := by
  cases b with
  | true => exact Emits.single (Out.destroy p i) (by simpa using h) trivial
  | false => exact Emits.silent (by simpa using h)

theorem Emits.onDestroyRest {c : Cfg} (s : Node) (id peer : Nat) : Emits s (s.onDestroyRest c id peer) := by
  unfold Node.onDestroyRest
  split
  · split
    · exact Emits.silent rfl
    · split
      · split
        · exact Emits.silent rfl
        · exact Emits.silent rfl
      · exact Emits.silent rfl
  · split
    · split
      · exact Emits.silent rfl
      · exact Emits.silent rfl
    · exact Emits.silent rfl

theorem Emits.onDestroy {c : Cfg} (s : Node) (id peer : Nat) (fwd : Bool) : Emits s (s.onDestroy c id peer fwd) := by
  unfold Node.onDestroy
  split
  · split
    · split
      · exact Emits.ifDestroy fwd _ _ rfl
      · exact Emits.onDestroyRest s id peer
    · exact Emits.onDestroyRest s id peer
  · exact Emits.onDestroyRest s id peer

theorem Emits.step {c : Cfg} (s : Node) (ev : Ev) : Emits s (s.step c ev) := by
  cases ev with
  | mkCircuit id goal peer cands ident => exact Emits.single _ rfl (Or.inl rfl)
  | cell id early plain ok body => exact Emits.onCell s id early plain ok body
  | destroy id peer fwd => exact Emits.onDestroy s id peer fwd
  | rmCircuit id destroy =>
    show Emits s (match s.circuits.get id with | some e => _ | none => s)
    split
    · exact Emits.ifDestroy destroy _ _ rfl
    · exact Emits.silent rfl
  | rmRelay id destroy =>
    show Emits s (match s.relays.get id with | some e => _ | none => s)
    split
    · exact Emits.ifDestroy destroy _ _ rfl
    · exact Emits.silent rfl
  | rmExit id destroy removeNow =>
    show Emits s (match s.exits.get id with | some e => _ | none => s)
    split
    · exact Emits.ifDestroy destroy _ _ rfl
    · exact Emits.silent rfl
  | retry id peer next => exact Emits.silent rfl
  | outside id =>
    show Emits s (match s.exits.get id with | some e => _ | none => s)
    split
    · rename_i x hx
      exact Emits.single _ rfl (Or.inr (Or.inr (known_of_exit hx)))
    · exact Emits.silent rfl
  | traffic tbl id amount =>
    show Emits s (if tbl == 0 then _ else if tbl == 1 then _ else _)
    split
    · exact Emits.silent rfl
    · split
      · exact Emits.silent rfl
      · exact Emits.silent rfl

theorem sweepOuts_ok (s : Node) (f : Nat → Entry → Option Bool) (dest : Nat → Entry → Out)
    (hd : ∀ i e, ∃ a b, dest i e = Out.destroy a b) (n : Nat) (t : Tbl) : ∀ o ∈ sweepOuts f dest n t, Out.ok s o := by
  intro o ho
  unfold sweepOuts at ho
  rw [List.mem_filterMap] at ho
  obtain ⟨p, -, hp⟩ := ho
  simp only at hp
  split at hp
  · cases hp
  · split at hp
    · cases hp
      obtain ⟨a, b, hab⟩ := hd p.1 (p.2.pop n)
      rw [hab]; trivial
    · cases hp

theorem Tbl.mem_mapAll_live {t : Tbl} {f : Entry → Entry} {i : Nat} {e : Entry} (hm : (i, e) ∈ t.mapAll f)
    (hg : e.gone = false) : ∃ e0, (i, e0) ∈ t ∧ e0.gone = false := by
  unfold Tbl.mapAll at hm
  rw [List.mem_map] at hm
  obtain ⟨q, hq, heq⟩ := hm
  cases hqg : q.2.gone with
  | true =>
    simp only [hqg, if_true] at heq
    have : e = q.2 := by cases heq; rfl
    rw [this, hqg] at hg; cases hg
  | false =>
    have : q.1 = i := by cases heq; rfl
    exact ⟨q.2, by rw [← this]; exact hq, hqg⟩

theorem pingOuts_ok (s : Node) (f : Entry → Entry) : ∀ o ∈ pingOuts (s.circuits.mapAll f), Out.ok s o := by
  intro o ho
  unfold pingOuts at ho
  rw [List.mem_filterMap] at ho
  obtain ⟨p, hp, hpo⟩ := ho
  split at hpo
  · rename_i hc
    cases hpo
    simp at hc
    obtain ⟨e0, hm, hg⟩ := Tbl.mem_mapAll_live (i := p.1) (e := p.2) hp hc.1
    refine Or.inr (Or.inr ?_)
    unfold Node.known
    simp [Tbl.get_isSome_of_mem hm hg]
  · cases hpo

theorem Emits.tick {c : Cfg} (s : Node) : Emits s (s.tick c) := by
  unfold Node.tick
  simp only
  refine ⟨_, (List.append_assoc _ _ _), ?_⟩
  intro o ho
  rcases List.mem_append.mp ho with h | h
  · split at h
    · rcases List.mem_append.mp h with h | h
      · rcases List.mem_append.mp h with h | h
        · exact sweepOuts_ok s _ _ (fun i e => ⟨_, _, rfl⟩) _ _ o h
        · exact sweepOuts_ok s _ _ (fun i e => ⟨_, _, rfl⟩) _ _ o h
      · exact sweepOuts_ok s _ _ (fun i e => ⟨_, _, rfl⟩) _ _ o h
    · cases h
  · split at h
    · exact pingOuts_ok s _ o h
    · cases h

/-! ### only received cells refresh `last_activity` (sending does not) -/

/-- every entry of `t'` comes from an entry of `t` under the same key with the same `last_activity` -/
def LastKept (t t' : Tbl) : Prop := ∀ p' ∈ t', ∃ p ∈ t, p.1 = p'.1 ∧ p.2.last = p'.2.last

theorem LastKept.refl (t : Tbl) : LastKept t t := fun p hp => ⟨p, hp, rfl, rfl⟩

theorem LastKept.trans {a b d : Tbl} (h1 : LastKept a b) (h2 : LastKept b d) : LastKept a d := by
  intro p hp
  obtain ⟨q, hq, k1, l1⟩ := h2 p hp
  obtain ⟨r, hr, k2, l2⟩ := h1 q hq
  exact ⟨r, hr, k2.trans k1, l2.trans l1⟩

theorem LastKept.modify (t : Tbl) (i : Nat) (f : Entry → Entry) (hf : ∀ e, (f e).last = e.last) :
    LastKept t (t.modify i f) := by
  intro p hp
  unfold Tbl.modify at hp
  rw [List.mem_map] at hp
  obtain ⟨q, hq, rfl⟩ := hp
  refine ⟨q, hq, ?_, ?_⟩ <;> split <;> simp [hf]

theorem LastKept.mapAll (t : Tbl) (f : Entry → Entry) (hf : ∀ e, (f e).last = e.last) :
    LastKept t (t.mapAll f) := by
  intro p hp
  unfold Tbl.mapAll at hp
  rw [List.mem_map] at hp
  obtain ⟨q, hq, rfl⟩ := hp
  refine ⟨q, hq, rfl, ?_⟩
  simp only
  split <;> simp [hf]

theorem remove_last (c : Cfg) (n : Nat) (b : Bool) (e : Entry) : (e.remove c n b).last = e.last :=
  (remove_fields c n b e).1

theorem removeC_last (c : Cfg) (n : Nat) (e : Entry) : (e.removeC c n).last = e.last := (removeC_fields c n e).1

theorem retried_last (c : Cfg) (n peer : Nat) (next : Option (Nat × Nat)) (e : Entry) :
    (e.retried c n peer next).last = e.last := by
  unfold Entry.retried
  split
  · split
    · split
      · rfl
      · exact removeC_last c n e
    · rfl
  · rfl

theorem tickRelay_last (c : Cfg) (n : Nat) (sw : Bool) (e : Entry) : (tickRelay c n sw e).last = e.last := by
  unfold tickRelay
  simp only
  have hp := (pop_fields n e).1
  split
  · exact hp
  · split
    · split
      · rw [remove_last]; exact hp
      · exact hp
    · exact hp

theorem tickExit_last (c : Cfg) (n : Nat) (sw : Bool) (e : Entry) : (tickExit c n sw e).last = e.last := by
  unfold tickExit
  simp only
  have hp := (pop_fields n e).1
  split
  · exact hp
  · split
    · split
      · rw [remove_last]; exact hp
      · exact hp
    · exact hp

theorem retryTimeout_last (c : Cfg) (n : Nat) (e : Entry) : (retryTimeout c n e).last = e.last := by
  unfold retryTimeout
  split
  · split
    · split
      · rfl
      · split
        · exact removeC_last c n e
        · rfl
    · rfl
  · rfl

theorem sweepC_last (c : Cfg) (n : Nat) (sw : Bool) (e : Entry) : (sweepC c n sw e).last = e.last := by
  unfold sweepC
  split
  · split
    · exact removeC_last c n e
    · rfl
  · rfl

theorem tickCircuit_last (c : Cfg) (n : Nat) (sw : Bool) (e : Entry) : (tickCircuit c n sw e).last = e.last := by
  unfold tickCircuit
  simp only
  have hp := (pop_fields n e).1
  split
  · exact hp
  · split
    · rw [retryTimeout_last]; exact hp
    · rw [sweepC_last, retryTimeout_last]; exact hp

/-- all three tables keep every `last_activity` -/
def QuietStep (s s' : Node) : Prop :=
  LastKept s.circuits s'.circuits ∧ LastKept s.relays s'.relays ∧ LastKept s.exits s'.exits

theorem QuietStep.refl (s : Node) : QuietStep s s := ⟨LastKept.refl _, LastKept.refl _, LastKept.refl _⟩

theorem QuietStep.tick (c : Cfg) (s : Node) : QuietStep s (s.tick c) :=
  ⟨LastKept.mapAll _ _ (tickCircuit_last c _ _), LastKept.mapAll _ _ (tickRelay_last c _ _),
   LastKept.mapAll _ _ (tickExit_last c _ _)⟩

theorem QuietStep.onDestroyRest (c : Cfg) (s : Node) (id peer : Nat) : QuietStep s (s.onDestroyRest c id peer) := by
  have hc : ∀ i, QuietStep s { s with circuits := s.circuits.modify i (Entry.removeC c s.now) } := fun i =>
    ⟨LastKept.modify _ _ _ (removeC_last c _), LastKept.refl _, LastKept.refl _⟩
  unfold Node.onDestroyRest
  split
  · split
    · exact ⟨LastKept.refl _, LastKept.refl _, LastKept.modify _ _ _ (remove_last c _ _)⟩
    · split
      · split
        · exact hc _
        · exact QuietStep.refl s
      · exact QuietStep.refl s
  · split
    · split
      · exact hc _
      · exact QuietStep.refl s
    · exact QuietStep.refl s

theorem QuietStep.onDestroy (c : Cfg) (s : Node) (id peer : Nat) (fwd : Bool) :
    QuietStep s (s.onDestroy c id peer fwd) := by
  unfold Node.onDestroy
  split
  · split
    · split
      · exact ⟨LastKept.refl _,
               (LastKept.modify _ _ _ (remove_last c _ _)).trans (LastKept.modify _ _ _ (remove_last c _ _)),
               LastKept.refl _⟩
      · exact QuietStep.onDestroyRest c s id peer
    · exact QuietStep.onDestroyRest c s id peer
  · exact QuietStep.onDestroyRest c s id peer

/-- stimuli that are not the reception of a cell (and not the creation of a circuit) -/
def Ev.isLocal : Ev → Bool
  | .cell .. => false
  | .mkCircuit .. => false
  | _ => true

theorem QuietStep.step (c : Cfg) (s : Node) (ev : Ev) (h : ev.isLocal = true) : QuietStep s (s.step c ev) := by
  cases ev with
  | mkCircuit id goal peer cands ident => cases h
  | cell id early plain ok body => cases h
  | destroy id peer fwd => exact QuietStep.onDestroy c s id peer fwd
  | rmCircuit id destroy =>
    show QuietStep s (match s.circuits.get id with | some e => _ | Option.none => s)
    split
    · exact ⟨LastKept.modify _ _ _ (removeC_last c _), LastKept.refl _, LastKept.refl _⟩
    · exact QuietStep.refl s
  | rmRelay id destroy =>
    show QuietStep s (match s.relays.get id with | some e => _ | Option.none => s)
    split
    · exact ⟨LastKept.refl _, LastKept.modify _ _ _ (remove_last c _ _), LastKept.refl _⟩
    · exact QuietStep.refl s
  | rmExit id destroy removeNow =>
    show QuietStep s (match s.exits.get id with | some e => _ | Option.none => s)
    split
    · exact ⟨LastKept.refl _, LastKept.refl _, LastKept.modify _ _ _ (remove_last c _ _)⟩
    · exact QuietStep.refl s
  | retry id peer next =>
    exact ⟨LastKept.modify _ _ _ (retried_last c _ peer next), LastKept.refl _, LastKept.refl _⟩
  | outside id =>
    show QuietStep s (match s.exits.get id with | some e => _ | Option.none => s)
    split
    · exact QuietStep.refl s
    · exact QuietStep.refl s
  | traffic tbl id amount =>
    show QuietStep s (if tbl == 0 then _ else if tbl == 1 then _ else _)
    split
    · exact ⟨LastKept.modify _ _ (fun e => { e with bytes := e.bytes + amount }) (fun _ => rfl), LastKept.refl _, LastKept.refl _⟩
    · split
      · exact ⟨LastKept.refl _, LastKept.modify _ _ (fun e => { e with bytes := e.bytes + amount }) (fun _ => rfl), LastKept.refl _⟩
      · exact ⟨LastKept.refl _, LastKept.refl _, LastKept.modify _ _ (fun e => { e with bytes := e.bytes + amount }) (fun _ => rfl)⟩

/-! ### a destroy from the neighbour schedules the removal -/

/-- a removal is pending that ends at most `delay` after `n` -/
def Pend (c : Cfg) (n : Nat) (e : Entry) : Prop := ∃ r, e.rmAt = some r ∧ r ≤ n + c.delay

theorem Pend.remove {c : Cfg} {n : Nat} (b : Bool) {e : Entry} (hl : (e.remove c n b).gone = false) :
    Pend c n (e.remove c n b) := by
  unfold Entry.remove at hl ⊢
  obtain ⟨r, hr, hrt, -, -⟩ := sched_pop hl
  have := removeDelay_le c b
  exact ⟨r, hr, by omega⟩

theorem Pend.removeC {c : Cfg} {n : Nat} {e : Entry} (hl : (e.removeC c n).gone = false) : Pend c n (e.removeC c n) := by
  unfold Entry.removeC at hl ⊢
  exact Pend.remove false hl

theorem Tbl.mem_modify_key {t : Tbl} {i : Nat} {f : Entry → Entry} {e' : Entry} (hm : (i, e') ∈ t.modify i f)
    (hg : e'.gone = false) : ∃ e, (i, e) ∈ t ∧ e.gone = false ∧ e' = f e := by
  unfold Tbl.modify at hm
  rw [List.mem_map] at hm
  obtain ⟨q, hq, heq⟩ := hm
  by_cases hc : (q.1 == i && !q.2.gone) = true
  · simp only [hc, if_true] at heq
    simp at hc
    have h1 : q.1 = i := hc.1
    have h2 : f q.2 = e' := by cases heq; rfl
    exact ⟨q.2, by rw [← h1]; exact hq, hc.2, h2.symm⟩
  · simp only [hc, Bool.false_eq_true, ↓reduceIte] at heq
    exfalso
    apply hc
    have h1 : q.1 = i := by rw [heq]
    have h2 : q.2 = e' := by rw [heq]
    simp [h1, h2, hg]

/-- every live entry under key `k` has a pending removal -/
def KeyPend (c : Cfg) (n k : Nat) (t : Tbl) : Prop := ∀ e, (k, e) ∈ t → e.gone = false → Pend c n e

theorem KeyPend.modify_self (c : Cfg) (n i : Nat) (b : Bool) (t : Tbl) :
    KeyPend c n i (t.modify i (Entry.remove c n b)) := by
  intro e hm hg
  obtain ⟨e0, -, -, rfl⟩ := Tbl.mem_modify_key hm hg
  exact Pend.remove b hg

theorem KeyPend.modifyC_self (c : Cfg) (n i : Nat) (t : Tbl) : KeyPend c n i (t.modify i (Entry.removeC c n)) := by
  intro e hm hg
  obtain ⟨e0, -, -, rfl⟩ := Tbl.mem_modify_key hm hg
  exact Pend.removeC hg

theorem KeyPend.modify_other {c : Cfg} {n k : Nat} {t : Tbl} (h : KeyPend c n k t) (j : Nat) (b : Bool) :
    KeyPend c n k (t.modify j (Entry.remove c n b)) := by
  intro e hm hg
  unfold Tbl.modify at hm
  rw [List.mem_map] at hm
  obtain ⟨q, hq, heq⟩ := hm
  by_cases hc : (q.1 == j && !q.2.gone) = true
  · simp only [hc, if_true] at heq
    have h2 : Entry.remove c n b q.2 = e := by cases heq; rfl
    rw [← h2] at hg ⊢
    exact Pend.remove b hg
  · simp only [hc, Bool.false_eq_true, ↓reduceIte] at heq
    rw [heq] at hq
    exact h e hq hg

/-- the pop really happens when the time has come -/
theorem pop_fires {n r : Nat} {e : Entry} (hr : e.rmAt = some r) (hle : r ≤ n) : (e.pop n).gone = true := by
  unfold Entry.pop
  simp [hr, hle]

theorem tickRelay_fires {c : Cfg} {n r : Nat} {sw : Bool} {e : Entry} (hr : e.rmAt = some r) (hle : r ≤ n) :
    (tickRelay c n sw e).gone = true := by
  unfold tickRelay
  simp [pop_fires hr hle]

theorem tickExit_fires {c : Cfg} {n r : Nat} {sw : Bool} {e : Entry} (hr : e.rmAt = some r) (hle : r ≤ n) :
    (tickExit c n sw e).gone = true ∧ (tickExit c n sw e).opened = (e.opened && !Gen.closeOnPop e.opened) := by
  unfold tickExit
  simp only [pop_fires hr hle, if_true]
  refine ⟨trivial, ?_⟩
  unfold Entry.pop
  simp [hr, hle]

theorem tickCircuit_fires {c : Cfg} {n r : Nat} {sw : Bool} {e : Entry} (hr : e.rmAt = some r) (hle : r ≤ n) :
    (tickCircuit c n sw e).gone = true := by
  unfold tickCircuit
  simp [pop_fires hr hle]

/-! ### a received cell only refreshes the entries of its own circuit -/

/-- as `LastKept`, except possibly for entries stored under key `k` -/
def LastKeptExcept (k : Nat) (t t' : Tbl) : Prop :=
  ∀ p' ∈ t', p'.1 = k ∨ ∃ p ∈ t, p.1 = p'.1 ∧ p.2.last = p'.2.last

theorem LastKept.except {t t' : Tbl} (h : LastKept t t') (k : Nat) : LastKeptExcept k t t' :=
  fun p hp => Or.inr (h p hp)

theorem LastKeptExcept.refl (k : Nat) (t : Tbl) : LastKeptExcept k t t := (LastKept.refl t).except k

theorem LastKeptExcept.trans {k : Nat} {a b d : Tbl} (h1 : LastKeptExcept k a b) (h2 : LastKeptExcept k b d) :
    LastKeptExcept k a d := by
  intro p hp
  rcases h2 p hp with hk | ⟨q, hq, k1, l1⟩
  · exact Or.inl hk
  · rcases h1 q hq with hk | ⟨r, hr, k2, l2⟩
    · exact Or.inl (k1 ▸ hk)
    · exact Or.inr ⟨r, hr, k2.trans k1, l2.trans l1⟩

theorem LastKeptExcept.modify (t : Tbl) (i : Nat) (f : Entry → Entry) : LastKeptExcept i t (t.modify i f) := by
  intro p hp
  unfold Tbl.modify at hp
  rw [List.mem_map] at hp
  obtain ⟨q, hq, rfl⟩ := hp
  by_cases hc : (q.1 == i && !q.2.gone) = true
  · simp only [hc, if_true]
    simp at hc
    exact Or.inl hc.1
  · simp only [hc, Bool.false_eq_true, ↓reduceIte]
    exact Or.inr ⟨q, hq, rfl, rfl⟩

theorem LastKeptExcept.put (t : Tbl) (i : Nat) (e : Entry) : LastKeptExcept i t (t.put i e) := by
  intro p hp
  unfold Tbl.put at hp
  rcases List.mem_cons.mp hp with rfl | hp
  · exact Or.inl rfl
  · exact Or.inr ⟨p, (List.mem_filter.mp hp).1, rfl, rfl⟩

theorem LastKept.modify1 (t : Tbl) (i : Nat) (f : Entry → Entry) (hf : ∀ e, (f e).last = e.last) :
    LastKept t (t.modify1 i f) := by
  induction t with
  | nil => intro p hp; cases hp
  | cons q r ih =>
    unfold Tbl.modify1
    by_cases hc : (q.1 == i && !q.2.gone) = true
    · simp only [hc, if_true]
      intro p hp
      rcases List.mem_cons.mp hp with rfl | hp
      · exact ⟨q, List.mem_cons_self, rfl, (hf q.2).symm⟩
      · exact ⟨p, List.mem_cons_of_mem _ hp, rfl, rfl⟩
    · simp only [hc, Bool.false_eq_true, ↓reduceIte]
      intro p hp
      rcases List.mem_cons.mp hp with rfl | hp
      · exact ⟨p, List.mem_cons_self, rfl, rfl⟩
      · obtain ⟨p0, h0, k0, l0⟩ := ih p hp
        exact ⟨p0, List.mem_cons_of_mem _ h0, k0, l0⟩

/-- relay path of `process_cell`: only the opposite route's heart is beaten -/
theorem onCell_relay_touches {c : Cfg} (s : Node) (id : Nat) (early plain ok : Bool) (body : Body) (nr : Entry)
    (hn : s.relays.get id = some nr) :
    LastKeptExcept nr.other s.relays (s.onCell c id early plain ok body).relays ∧
    (s.onCell c id early plain ok body).circuits = s.circuits ∧
    (s.onCell c id early plain ok body).exits = s.exits := by
  unfold Node.onCell
  simp only [hn]
  split
  · exact ⟨LastKeptExcept.modify _ _ _, rfl, rfl⟩
  · exact ⟨((LastKept.modify1 s.relays id (Entry.fwd early) (fun _ => rfl)).except _).trans
           (LastKeptExcept.modify _ _ _), rfl, rfl⟩

theorem onCreate_touches {c : Cfg} (s : Node) (id peer : Nat) :
    (s.onCreate c id peer).circuits = s.circuits ∧ LastKeptExcept id s.exits (s.onCreate c id peer).exits := by
  unfold Node.onCreate
  split
  · exact ⟨rfl, LastKeptExcept.refl _ _⟩
  · split
    · exact ⟨rfl, LastKeptExcept.refl _ _⟩
    · split
      · exact ⟨rfl, LastKeptExcept.refl _ _⟩
      · exact ⟨rfl, LastKeptExcept.put _ _ _⟩

theorem onOurs_touches {c : Cfg} (s : Node) (id ident : Nat) (ok : Bool) (next : Option (Nat × Nat)) :
    LastKeptExcept id s.circuits (s.onOurs c id ident ok next).circuits ∧
    (s.onOurs c id ident ok next).exits = s.exits := by
  unfold Node.onOurs
  split
  · split
    · split
      · exact ⟨LastKeptExcept.modify _ _ _, rfl⟩
      · exact ⟨LastKeptExcept.refl _ _, rfl⟩
    · exact ⟨LastKeptExcept.refl _ _, rfl⟩
  · exact ⟨LastKeptExcept.refl _ _, rfl⟩

theorem onCreated_touches {c : Cfg} (s : Node) (id ident : Nat) (ok : Bool) (next : Option (Nat × Nat)) :
    LastKeptExcept id s.circuits (s.onCreated c id ident ok next).circuits ∧
    LastKeptExcept id s.exits (s.onCreated c id ident ok next).exits := by
  unfold Node.onCreated
  split
  · simp only
    split
    · exact ⟨LastKeptExcept.refl _ _, LastKeptExcept.refl _ _⟩
    · split
      · exact ⟨LastKeptExcept.refl _ _, LastKeptExcept.refl _ _⟩
      · exact ⟨LastKeptExcept.refl _ _, (LastKept.modify _ _ _ (remove_last c _ _)).except _⟩
  · have := onOurs_touches (c := c) s id ident ok next
    exact ⟨this.1, this.2 ▸ LastKeptExcept.refl _ _⟩

theorem dispatch_touches {c : Cfg} (s : Node) (id src : Nat) (body : Body) :
    LastKeptExcept id s.circuits (s.dispatch c id src body).circuits ∧
    LastKeptExcept id s.exits (s.dispatch c id src body).exits := by
  unfold Node.dispatch
  cases body with
  | junk => exact ⟨LastKeptExcept.refl _ _, LastKeptExcept.refl _ _⟩
  | other => exact ⟨LastKeptExcept.refl _ _, LastKeptExcept.refl _ _⟩
  | pong => exact ⟨LastKeptExcept.refl _ _, LastKeptExcept.refl _ _⟩
  | create peer =>
    have := onCreate_touches (c := c) s id peer
    exact ⟨this.1 ▸ LastKeptExcept.refl _ _, this.2⟩
  | created ident ok next => exact onCreated_touches s id ident ok next
  | extended ident ok next =>
    have := onOurs_touches (c := c) s id ident ok next
    exact ⟨this.1, this.2 ▸ LastKeptExcept.refl _ _⟩
  | extend reqId toId toPeer candOk =>
    simp only
    unfold Node.onExtend
    split
    · exact ⟨LastKeptExcept.refl _ _, LastKeptExcept.refl _ _⟩
    · simp only
      split
      · exact ⟨LastKeptExcept.refl _ _, LastKeptExcept.refl _ _⟩
      · exact ⟨LastKeptExcept.refl _ _, LastKeptExcept.refl _ _⟩
  | ping =>
    simp only
    split
    · exact ⟨LastKeptExcept.refl _ _, LastKeptExcept.modify _ _ _⟩
    · exact ⟨LastKeptExcept.refl _ _, LastKeptExcept.refl _ _⟩
  | data sent =>
    simp only
    split
    · exact ⟨LastKeptExcept.refl _ _, LastKeptExcept.refl _ _⟩
    · split
      · exact ⟨LastKeptExcept.refl _ _, LastKeptExcept.modify _ _ _⟩
      · exact ⟨LastKeptExcept.refl _ _, LastKeptExcept.refl _ _⟩
  | testReq =>
    simp only
    split
    · exact ⟨LastKeptExcept.refl _ _, LastKeptExcept.modify _ _ _⟩
    · exact ⟨LastKeptExcept.refl _ _, LastKeptExcept.refl _ _⟩

/-- local path of `process_cell`: only circuit / exit entries stored under the cell's own id may be refreshed -/
theorem onCell_local_touches {c : Cfg} (s : Node) (id : Nat) (early plain ok : Bool) (body : Body)
    (hn : s.relays.get id = none) :
    LastKeptExcept id s.circuits (s.onCell c id early plain ok body).circuits ∧
    LastKeptExcept id s.exits (s.onCell c id early plain ok body).exits := by
  unfold Node.onCell
  simp only [hn]
  split
  · exact ⟨LastKeptExcept.refl _ _, LastKeptExcept.refl _ _⟩
  · have h := dispatch_touches (c := c) s id
      (match s.circuits.get id with
        | some e => e.peer
        | none => match s.exits.get id with
          | some e => e.peer
          | none => 0) body
    exact ⟨h.1.trans (LastKeptExcept.modify _ _ _), h.2⟩

end Ipv8.C09
