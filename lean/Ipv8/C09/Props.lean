/-
  C09 — tunnel state is always reclaimed, whatever gets lost: the property theorems over the per-node timed model.

  All theorems quantify over EVERY timed history `evs : List (Nat × Ev)` of a node (any number of stimuli, any
  interleaving, any time stamps: lost messages are stimuli that never come, duplicates and reorderings are stimuli that
  come twice or late) and over every configuration `c` with a positive sweep period; the decision functions of the
  sweep, the join limit, the relay_early budget and the retry give-up are the ones generated from the source
  (`GenC09.lean`).  Times are ticks (64 per second in the generated configuration `Gen.cfg`).
-/
import Ipv8.C09.Lemmas

namespace Ipv8.C09

/-- the state of a node started at `start` after the timed history `evs` -/
def reach (c : Cfg) (start : Nat) (evs : List (Nat × Ev)) : Node := Node.run c (Node.init c start) evs

/-- **Relay entries.**  Whatever happened, a relay entry that is still in `relay_from_to` had its last activity less
    than `max_time_inactive + sweep period + remove_tunnel_delay` ago.  Contrapositive: if no cell refreshes the entry
    after `t₀` (destroy lost, peer gone, …) it is absent at every time `≥ t₀ + inactive + period + delay`. -/
theorem relay_reclaimed_within_bound (c : Cfg) (hp : 0 < c.period) (start : Nat) (evs : List (Nat × Ev))
    (i : Nat) (e : Entry) (hm : (i, e) ∈ (reach c start evs).relays) (hl : e.gone = false) :
    (reach c start evs).now < e.last + c.inactive + c.period + c.delay := by
  have h := (Inv.init c hp start).run hp evs
  obtain ⟨hs, hi, -⟩ := h.relay (i, e) hm hl
  exact Bound.now_lt h.time hs hi

/-- **Exit sockets**: the same inactivity bound, and an age bound. -/
theorem exit_reclaimed_within_bound (c : Cfg) (hp : 0 < c.period) (start : Nat) (evs : List (Nat × Ev))
    (i : Nat) (e : Entry) (hm : (i, e) ∈ (reach c start evs).exits) (hl : e.gone = false) :
    (reach c start evs).now < e.last + c.inactive + c.period + c.delay ∧
    (reach c start evs).now < e.born + c.maxTime + c.period + c.delay := by
  have h := (Inv.init c hp start).run hp evs
  obtain ⟨hs, hi, ha⟩ := h.exit (i, e) hm hl
  exact ⟨Bound.now_lt h.time hs hi, Bound.now_lt h.time hs ha⟩

/-- **Circuits** (originator side): a circuit that has all its hops (READY, or closing after having been ready) obeys
    the inactivity bound; every circuit, also one stuck half-built with no retry cache, obeys the age bound. -/
theorem circuit_reclaimed_within_bound (c : Cfg) (hp : 0 < c.period) (start : Nat) (evs : List (Nat × Ev))
    (i : Nat) (e : Entry) (hm : (i, e) ∈ (reach c start evs).circuits) (hl : e.gone = false) :
    (e.goal ≤ e.hops → (reach c start evs).now < e.last + c.inactive + c.period + c.delay) ∧
    (reach c start evs).now < e.born + c.maxTime + c.period + c.delay := by
  have h := (Inv.init c hp start).run hp evs
  obtain ⟨hs, hr, ha⟩ := h.circ (i, e) hm hl
  exact ⟨fun hg => BoundC.now_lt h.time hs (hr hg), Bound.now_lt h.time hs ha⟩

/-- **relay_early budget**: over one relay route, the number of forwarded cells that carried the relay_early flag plus
    the initial count (the extend that created the route) never exceeds `max_relay_early`.
    `fwdEarly` is incremented by `Entry.fwd`, which `Node.onCell` applies (to the entry `get` returned, `modify1`) in
    the same branch that appends the `Out.fwd` record, and only there; `Entry.fwd` does not test anything itself, so the
    proof rests on the guard `Gen.earlyDrop` of `Node.onCell` (generated from `relay_cell`): without the guard
    `Inv.onCell` does not go through.  Per live route entry (a route replaced by a later `created` starts afresh). -/
theorem relay_early_budget (c : Cfg) (hp : 0 < c.period) (start : Nat) (evs : List (Nat × Ev))
    (i : Nat) (e : Entry) (hm : (i, e) ∈ (reach c start evs).relays) (hl : e.gone = false) :
    e.fwdEarly = 0 ∨ e.fwdEarly + Gen.earlyInit ≤ c.maxEarly := by
  have h := (Inv.init c hp start).run hp evs
  exact (h.relay (i, e) hm hl).2.2.2

/-- (The closing decision is the generated `Gen.closeOnPop` — `remove_exit_socket`'s test on the object it pops —
    through the obligation `closeOnPop_enabled`; whether `TunnelExitSocket.close()` then really closes both OS
    sockets is outside the model and checked by the harness on the loop's own transport objects.)
    **Exit sockets are closed when dropped, and never replaced.**  In every reachable state an exit socket that has
    been popped from `exit_sockets` has no open transport, and no exit socket was ever overwritten in the table
    (which would leak its transports). -/
theorem exit_closed_when_removed (c : Cfg) (hp : 0 < c.period) (start : Nat) (evs : List (Nat × Ev)) :
    (∀ i e, (i, e) ∈ (reach c start evs).exits → e.gone = true → e.opened = false) ∧
    (reach c start evs).leaked = 0 := by
  have h := (Inv.init c hp start).run hp evs
  exact ⟨fun i e hm hg => h.closed (i, e) hm hg, h.noleak⟩

/-- **Join limit** (`on_create` + `should_join_circuit`): at or above `max_joined_circuits` joined entries a create
    changes neither `exit_sockets`, `relay_from_to` nor the created-cache and the only possible output is the refusal. -/
theorem join_limit (c : Cfg) (s : Node) (id peer : Nat) (hfull : c.maxJoined ≤ s.relays.count + s.exits.count) :
    (s.onCreate c id peer).exits = s.exits ∧ (s.onCreate c id peer).relays = s.relays ∧
    (s.onCreate c id peer).created = s.created ∧
    ((s.onCreate c id peer).outs = s.outs ∨ (s.onCreate c id peer).outs = s.outs ++ [Out.refused id]) := by
  have hr := joinRefused_of_full hfull
  unfold Node.onCreate
  split
  · exact ⟨rfl, rfl, rfl, Or.inl rfl⟩
  · split
    · exact ⟨rfl, rfl, rfl, Or.inl rfl⟩
    · exact ⟨rfl, rfl, rfl, Or.inr rfl⟩

/-- the same for the whole stimulus "a cell carrying a create arrives" (whatever its flags and wherever it is routed) -/
theorem join_limit_cell (c : Cfg) (s : Node) (id peer : Nat) (early plain ok : Bool)
    (hfull : c.maxJoined ≤ s.relays.count + s.exits.count) :
    (s.step c (.cell id early plain ok (.create peer))).exits = s.exits ∧
    (s.step c (.cell id early plain ok (.create peer))).created = s.created := by
  show (s.onCell c id early plain ok (.create peer)).exits = s.exits ∧
       (s.onCell c id early plain ok (.create peer)).created = s.created
  unfold Node.onCell
  split
  · split <;> exact ⟨rfl, rfl⟩
  · simp only
    split
    · exact ⟨rfl, rfl⟩
    · exact ⟨(join_limit c s id peer hfull).1, (join_limit c s id peer hfull).2.2.1⟩

/-- **Teardown by the destroy message, relay.**  A destroy for circuit id `id` signed by the peer of the opposite
    route makes the relay (i) start the removal of BOTH routes — every live entry under `id` and under the paired id
    has a removal pending that ends at most `remove_tunnel_delay` later — and (ii) pass the destroy on to the next hop
    under the paired id (unless the legacy reason code 0 was used). -/
theorem destroy_tears_down_relay (c : Cfg) (s : Node) (id peer : Nat) (fwd : Bool) (nr pr : Entry)
    (hn : s.relays.get id = some nr) (hp : s.relays.get nr.other = some pr) (hpeer : pr.peer = peer) :
    KeyPend c s.now id (s.onDestroy c id peer fwd).relays ∧
    KeyPend c s.now nr.other (s.onDestroy c id peer fwd).relays ∧
    (s.onDestroy c id peer fwd).outs = s.outs ++ (if fwd then [Out.destroy nr.peer nr.other] else []) := by
  unfold Node.onDestroy
  simp only [hn, hp, hpeer, beq_self_eq_true, if_true]
  exact ⟨(KeyPend.modify_self c s.now id false s.relays).modify_other nr.other false,
         KeyPend.modify_self c s.now nr.other false _, trivial⟩

/-- **Teardown by the destroy message, exit.**  A destroy from the previous hop starts the removal of the exit socket. -/
theorem destroy_tears_down_exit (c : Cfg) (s : Node) (id peer : Nat) (fwd : Bool) (x : Entry)
    (hr : s.relays.get id = none) (hx : s.exits.get id = some x) (hpeer : x.peer = peer) :
    KeyPend c s.now id (s.onDestroy c id peer fwd).exits := by
  unfold Node.onDestroy Node.onDestroyRest
  simp only [hr, hx, hpeer, beq_self_eq_true, if_true]
  exact KeyPend.modify_self c s.now id false s.exits

/-- **Teardown by the destroy message, originator.**  A destroy from the first hop closes the circuit and starts its
    removal. -/
theorem destroy_tears_down_circuit (c : Cfg) (s : Node) (id peer : Nat) (fwd : Bool) (e : Entry)
    (hr : s.relays.get id = none) (hx : s.exits.get id = none) (he : s.circuits.get id = some e)
    (hpeer : e.peer = peer) : KeyPend c s.now id (s.onDestroy c id peer fwd).circuits := by
  unfold Node.onDestroy Node.onDestroyRest
  simp only [hr, hx, he, hpeer, beq_self_eq_true, if_true]
  exact KeyPend.modifyC_self c s.now id s.circuits

/-- **A pending removal fires**: once the clock reaches the end of the sleep, the next tick pops the entry (for an exit
    socket the transports are closed according to the generated `closeOnPop`, which closes an enabled socket:
    `closeOnPop_enabled`). -/
theorem pending_removal_fires (c : Cfg) (n r : Nat) (sw : Bool) (e : Entry) (hr : e.rmAt = some r) (hle : r ≤ n) :
    (tickRelay c n sw e).gone = true ∧ (tickCircuit c n sw e).gone = true ∧ (tickExit c n sw e).gone = true ∧
    (tickExit c n sw e).opened = false := by
  refine ⟨tickRelay_fires hr hle, tickCircuit_fires hr hle, (tickExit_fires hr hle).1, ?_⟩
  rw [(tickExit_fires (c := c) (sw := sw) hr hle).2]
  cases ho : e.opened with
  | false => rfl
  | true => simp [closeOnPop_enabled]

/-- **A started removal completes within `remove_tunnel_delay`, over every history.**  In every reachable state a live
    entry (any table) with a removal pending has that removal strictly in the future and at most `remove_tunnel_delay`
    away; since `pending_removal_fires` pops it when the clock gets there, an entry whose removal was started at time t
    (by a destroy: `destroy_tears_down_*`, by the sweep or locally) is not live at any time ≥ t + remove_tunnel_delay —
    a live entry under the same id then is a re-created one (its `rmAt` would otherwise contradict `now < r`). -/
theorem pending_removal_within_delay (c : Cfg) (hp : 0 < c.period) (start : Nat) (evs : List (Nat × Ev))
    (i : Nat) (e : Entry) (r : Nat) (hl : e.gone = false) (hr : e.rmAt = some r)
    (hm : (i, e) ∈ (reach c start evs).relays ∨ (i, e) ∈ (reach c start evs).exits ∨
          (i, e) ∈ (reach c start evs).circuits) :
    (reach c start evs).now < r ∧ r ≤ (reach c start evs).now + c.delay := by
  have h := (Inv.init c hp start).run hp evs
  rcases hm with hm | hm | hm
  · exact (h.relay (i, e) hm hl).1.rm r hr
  · exact (h.exit (i, e) hm hl).1.rm r hr
  · exact (h.circ (i, e) hm hl).1.rm r hr

/-- **The code's `on_destroy` is the one the model implements** (table regenerated from the source on every run): the
    if/elif chain has exactly the three guarded branches, in this order — relay pair with the signer being the peer of
    the opposite route: remove the route under the id *passing the destroy on* and the paired route; exit socket whose
    previous hop signed: remove it; circuit whose first hop signed: remove it — and nothing else removes anything.
    `Node.onDestroy`, which `destroy_tears_down_relay/exit/circuit` are about, is written after this table. -/
theorem destroy_branches_as_modelled :
    Gen.destroyBranches = [("relayPair", [(1, false, true), (1, true, false)]), ("exit", [(2, false, false)]),
                           ("circuit", [(0, false, false)])] := by decide

/-- **The code refreshes `last_activity` exactly where the model does** (tables regenerated from the five anchored files):
    the only `beat_heart()` calls are — `process_cell`: the route *opposite* to the one the cell arrived under, and the
    circuit the cell was dispatched for; `on_data` / `on_pong`: that same circuit; `on_ping` / `on_test_request`: the exit
    socket under the cell's id; `TunnelExitSocket.sendto`: the socket itself when a datagram really leaves — and
    `last_activity` / `creation_time` are written by the constructor and (`last_activity` only) by `beat_heart`.
    These are the updates `Node.onCell` / `Node.dispatch` / `Entry.exited` make; `only_received_cells_refresh` and
    `cell_refreshes_only_its_circuit` are statements about them. -/
theorem heartbeat_sites_as_modelled :
    Gen.beatSites =
      [("community.py", "on_data", "circuit", "self.circuits.get(circuit_id, None)"),
       ("community.py", "on_ping", "exit_socket", "self.exit_sockets.get(payload.circuit_id)"),
       ("community.py", "on_pong", "circuit", "self.circuits.get(payload.circuit_id)"),
       ("community.py", "on_test_request", "exit_socket", "self.exit_sockets.get(circuit_id)"),
       ("crypto.py", "process_cell", "circuit", "self.circuits.get(cell.circuit_id)"),
       ("crypto.py", "process_cell", "this_relay", "self.relays.get(next_relay.circuit_id)"),
       ("exit_socket.py", "sendto", "self", "self")] ∧
    Gen.clockWrites =
      [("tunnel.py", "__init__", "self.creation_time"), ("tunnel.py", "__init__", "self.last_activity"),
       ("tunnel.py", "beat_heart", "self.last_activity")] := by decide

/-- `do_ping` (condition regenerated from the source) never pings a closing circuit nor one without hops. -/
theorem closing_circuits_not_pinged (h : Nat) (b : Bool) :
    Gen.pingWanted true h = false ∧ Gen.pingWanted b 0 = false := by
  unfold Gen.pingWanted
  cases b <;> simp

/-- **Abandon ⇒ quiet** (`Emits`, `Out.ok` are defined in Lemmas.lean).  Whatever the stimulus, and in every tick, the
    output log only grows, and every message appended is: a destroy / drop / refusal record, a create (message id 2) or
    the answer to a create (id 3), a cell naming a circuit id that is in one of the node's three tables *before* the
    step, or a forwarded cell that arrived under a live relay entry. -/
theorem no_cell_for_unknown_id (c : Cfg) (s : Node) : (∀ ev, Emits s (s.step c ev)) ∧ Emits s (s.tick c) :=
  ⟨fun ev => Emits.step s ev, Emits.tick s⟩

/-- explicit form: for a circuit id `i` in none of the tables, a step or a tick appends no ping / pong / data / extend /
    extended cell for `i` and forwards nothing that arrived under `i`.  Hence once the originator's entry is gone
    (or, for pings, closing — see `pingOuts`) the next hop sees no further cell for it, and the premise of the
    `…_reclaimed_within_bound` theorems propagates hop by hop. -/
theorem silent_for_unknown_id (c : Cfg) (s s' : Node) (i : Nat) (hk : s.known i = false)
    (hs : (∃ ev, s' = s.step c ev) ∨ s' = s.tick c) :
    ∃ extra, s'.outs = s.outs ++ extra ∧
      ∀ o ∈ extra, (∀ p k, o = Out.cell p i k → k = 2 ∨ k = 3) ∧ (∀ j, o ≠ Out.fwd i j) := by
  have he : Emits s s' := by
    rcases hs with ⟨ev, rfl⟩ | rfl
    · exact Emits.step s ev
    · exact Emits.tick s
  obtain ⟨extra, h1, h2⟩ := he
  refine ⟨extra, h1, fun o ho => ⟨?_, ?_⟩⟩
  · intro p k hpk
    have := h2 o ho
    rw [hpk] at this
    rcases this with h | h | h
    · exact Or.inl h
    · exact Or.inr h
    · rw [hk] at h; cases h
  · intro j hj
    have := h2 o ho
    rw [hj] at this
    have hr : (s.relays.get i).isSome = true := this
    unfold Node.known at hk
    simp [hr] at hk

/-- **Only received cells refresh `last_activity`; sending does not.**  A tick (which sends the periodic pings), a
    datagram from outside (which sends a data cell back over the circuit), a retry (which sends a create / extend), a
    destroy, a local removal (which may send destroys) or traffic accounting leave the `last_activity` of every
    circuit, relay and exit entry untouched (`QuietStep`/`LastKept`, Lemmas.lean: every entry afterwards stems from an
    entry with the same key and the same `last_activity`).  So "inactive" in the `…_reclaimed_within_bound` theorems
    means: no *incoming* cell was processed for the entry — an originator whose far end vanished is not kept alive by
    its own pings. -/
theorem only_received_cells_refresh (c : Cfg) (s : Node) :
    (∀ ev, ev.isLocal = true → QuietStep s (s.step c ev)) ∧ QuietStep s (s.tick c) :=
  ⟨fun ev h => QuietStep.step c s ev h, QuietStep.tick c s⟩

/-- **A received cell only refreshes its own circuit.**  `process_cell` for a cell under id `id`:
    relay path — the only `last_activity` that may change is that of the entry stored under the paired id (the opposite
    route); circuits and exit sockets are untouched.  Local path — only a circuit / exit entry stored under `id` itself
    may be refreshed.  (`LastKeptExcept k`: every entry afterwards not stored under `k` stems from an entry with the same
    key and the same `last_activity`.)  So traffic of another circuit through the same node or from the same neighbour
    never keeps an abandoned circuit's entries alive.  Relay entries created by `on_created` in the local path are new
    routes and not covered by this statement. -/
theorem cell_refreshes_only_its_circuit (c : Cfg) (s : Node) (id : Nat) (early plain ok : Bool) (body : Body) :
    (∀ nr, s.relays.get id = some nr →
      LastKeptExcept nr.other s.relays (s.step c (.cell id early plain ok body)).relays ∧
      (s.step c (.cell id early plain ok body)).circuits = s.circuits ∧
      (s.step c (.cell id early plain ok body)).exits = s.exits) ∧
    (s.relays.get id = none →
      LastKeptExcept id s.circuits (s.step c (.cell id early plain ok body)).circuits ∧
      LastKeptExcept id s.exits (s.step c (.cell id early plain ok body)).exits) :=
  ⟨fun nr hn => onCell_relay_touches s id early plain ok body nr hn,
   fun hn => onCell_local_touches s id early plain ok body hn⟩

/-- the same over any stretch of time in which only the node's own timers run (sweeps, cache timeouts, pings):
    no `last_activity` changes, so together with `circuit_reclaimed_within_bound` an originator that receives nothing
    from `t₀` on has dropped its ready circuit by `t₀ + inactive + period + delay` (example `silentPeer` below). -/
theorem ticks_keep_last (c : Cfg) (k : Nat) (s : Node) : QuietStep s (s.ticks c k) := by
  induction k generalizing s with
  | zero => exact QuietStep.refl s
  | succ k ih =>
    have h1 := QuietStep.tick c s
    have h2 := ih (s.tick c)
    exact ⟨h1.1.trans h2.1, h1.2.1.trans h2.2.1, h1.2.2.trans h2.2.2⟩

/-
  Full statement intended for half-built circuits (DESIGN.md, C09):
    a live circuit that still lacks hops is gone by
      creation_time + (tries0 + 1 + goal_hops) * next_hop_timeout + remove_tunnel_delay
    unless it is stuck without a retry cache (then `circuit_reclaimed_within_bound`'s age bound applies).
  Proved below: the two local facts the bound rests on (every retry or hop consumes one try and restarts the
  next_hop_timeout clock; a cache with no tries left removes the circuit when it times out).  Missing: the
  potential-function invariant  deadline + (tries + goal - hops) * next_hop_timeout ≤ creation + (tries0+1+goal) *
  next_hop_timeout  over whole histories (non-linear in the configuration; not mechanised).  The age bound of
  `circuit_reclaimed_within_bound` covers half-built circuits unconditionally.
-/
theorem halfbuilt_gives_up_partial (c : Cfg) (n : Nat) (e : Entry) (r : Retry) (hr : e.retry = some r)
    (hw : e.waiting = false) (hc : e.closing = false) (ht : r.tries = 0) (hd : r.deadline ≤ n) :
    retryTimeout c n e = e.removeC c n ∧ (e.removeC c n).closing = true ∧ (e.removeC c n).retry = none := by
  refine ⟨?_, (removeC_fields c n e).2.2.1, ?_⟩
  · unfold retryTimeout
    simp [hr, hw, hc, hd, ht, giveUp_of_no_tries]
  · unfold Entry.removeC Entry.remove
    exact (pop_fields n _).2.2.2.2.2.2.2.2.1

theorem retry_consumes_a_try_partial (c : Cfg) (n tries : Nat) (nx : Nat × Nat) :
    (newRetry c n tries nx).tries = tries - 1 ∧ (newRetry c n tries nx).deadline = n + c.hopTimeout :=
  ⟨rfl, rfl⟩

/-- **A handshake that does not verify leaves the retry cache in charge.**  A created / extended whose authenticator
    does not verify aborts `_ours_on_created_extended` (the exception is swallowed by `on_packet_from_circuit`); the
    harness reports such a cell with body `other`.  In the model that cell only beats the circuit's heart: no entry is
    added or dropped and every circuit keeps its `retry` (deadline, tries) and `waiting` fields, so the timeout of the
    RetryRequestCache still retries or gives the circuit up (`halfbuilt_gives_up_partial`).  (Modelling statement: its
    link to the code is the correspondence run with faulty hops, class `bad_auth`.) -/
theorem failed_handshake_keeps_retry (c : Cfg) (s : Node) (id : Nat) (early plain ok : Bool)
    (hn : s.relays.get id = none) :
    (s.step c (.cell id early plain ok .other)).circuits = s.circuits ∨
    (s.step c (.cell id early plain ok .other)).circuits = s.circuits.modify id (Entry.beat s.now) := by
  show (s.onCell c id early plain ok .other).circuits = _ ∨ (s.onCell c id early plain ok .other).circuits = _
  unfold Node.onCell
  simp only [hn]
  split
  · exact Or.inl rfl
  · exact Or.inr rfl

theorem beat_keeps_retry (n : Nat) (e : Entry) :
    (e.beat n).retry = e.retry ∧ (e.beat n).waiting = e.waiting ∧ (e.beat n).gone = e.gone ∧
    (e.beat n).closing = e.closing ∧ (e.beat n).hops = e.hops := ⟨rfl, rfl, rfl, rfl, rfl⟩

/-- a small configuration for the non-vacuity examples (1 tick = 1 s: 20 s inactivity, 5 s sweep, 5 s delay) -/
def demoCfg : Cfg :=
  { Gen.cfg with inactive := 20, maxTime := 3600, delay := 5, period := 5, hopTimeout := 10, createdTtl := 60,
                 createReqTtl := 10, pingPeriod := 7 }

/-- non-vacuity: a concrete history (a circuit is extended through this node, three cells pass, then silence)
    reaches a state with two live relay entries; they are still there at time 39 and gone at time 40
    (last activity 12 / 13, bound 42 / 43). -/
def demoEvs : List (Nat × Ev) :=
  [(10, .cell 5 false true true (.create 1)),
   (10, .cell 5 true false true (.extend 77 6 3 true)),
   (10, .cell 6 false true true (.created 77 true none)),
   (11, .cell 5 true false true .junk), (12, .cell 6 false false true .junk), (13, .cell 5 true false true .junk)]

example : ((reach demoCfg 0 (demoEvs ++ [(39, .outside 0)])).relays.count,
           (reach demoCfg 0 (demoEvs ++ [(40, .outside 0)])).relays.count,
           (reach demoCfg 0 (demoEvs ++ [(40, .outside 0)])).exits.count) = (2, 0, 0) := by decide +kernel

example : ((reach demoCfg 0 demoEvs).relays.get 5).map (·.fwdEarly) = some 2 := by decide +kernel

/-- non-vacuity of `join_limit`: with a limit of 2, the third create is refused, the second is not -/
def tinyJoin : Cfg := { demoCfg with maxJoined := 2 }

example : ((reach tinyJoin 0 [(1, .cell 5 false true true (.create 1)), (1, .cell 6 false true true (.create 1)),
                              (1, .cell 7 false true true (.create 1))]).exits.count,
           (reach tinyJoin 0 [(1, .cell 5 false true true (.create 1)), (1, .cell 6 false true true (.create 1)),
                              (1, .cell 7 false true true (.create 1))]).outs.contains (Out.refused 7)) = (2, true) := by
  decide +kernel

/-- non-vacuity of `exit_closed_when_removed`: an exit socket is enabled by a data cell, destroyed by its neighbour,
    and popped 5 ticks later with its transports closed -/
example : ((reach demoCfg 0 [(1, .cell 5 false true true (.create 1)), (2, .cell 5 false false true (.data true)),
                             (3, .destroy 5 1 true), (7, .outside 0)]).exits.map (fun p => (p.2.gone, p.2.opened)),
           (reach demoCfg 0 [(1, .cell 5 false true true (.create 1)), (2, .cell 5 false false true (.data true)),
                             (3, .destroy 5 1 true), (8, .outside 0)]).exits.map (fun p => (p.2.gone, p.2.opened)))
          = ([(false, true)], [(true, false)]) := by decide +kernel

/-- non-vacuity for the half-built facts: every created is lost; with 6 tries the originator retries at 10, 20, …, gives
    up at time 61 (tries 5,4,3,2,1,0) and the circuit is gone 5 ticks later -/
def lostCreated : List (Nat × Ev) :=
  [(1, .mkCircuit 9 2 4 3 100), (11, .retry 9 4 (some (2, 101))), (21, .retry 9 4 (some (1, 102))),
   (31, .retry 9 4 (some (1, 103))), (41, .retry 9 4 (some (1, 104))), (51, .retry 9 4 (some (1, 105)))]

example : ((reach demoCfg 0 (lostCreated ++ [(60, .outside 0)])).circuits.map (fun p => (p.2.closing, p.2.gone)),
           (reach demoCfg 0 (lostCreated ++ [(61, .outside 0)])).circuits.map (fun p => (p.2.closing, p.2.gone)),
           (reach demoCfg 0 (lostCreated ++ [(66, .outside 0)])).circuits.map (fun p => (p.2.closing, p.2.gone)))
          = ([(false, false)], [(true, false)], [(true, true)]) := by decide +kernel

/-- non-vacuity for `silent_for_unknown_id`: a ping for an unknown id is not answered, one for a known id is -/
example : ((reach demoCfg 0 [(1, .cell 5 false true true (.create 1)), (2, .cell 6 false true true .ping)]).outs,
           (reach demoCfg 0 [(1, .cell 5 false true true (.create 1)), (2, .cell 5 false false true .ping)]).outs)
          = ([Out.cell 1 5 3], [Out.cell 1 5 3, Out.cell 1 5 7]) := by decide +kernel

/-- non-vacuity for `only_received_cells_refresh`: a 1-hop circuit becomes ready at time 2 (the created arrives), then
    the peer falls silent.  The originator keeps pinging (pings at 7, 14, 21 in the output log; none at 28, the circuit is closing) but its entry
    still has last_activity 2, is closing after the sweep at 25 and gone at 30 -/
def silentPeer : List (Nat × Ev) :=
  [(1, .mkCircuit 9 1 4 0 100), (2, .cell 9 false true true (.created 100 true none))]

example : ((reach demoCfg 0 (silentPeer ++ [(24, .outside 0)])).circuits.map (fun p => (p.2.last, p.2.closing, p.2.gone)),
           (reach demoCfg 0 (silentPeer ++ [(29, .outside 0)])).circuits.map (fun p => (p.2.last, p.2.closing, p.2.gone)),
           (reach demoCfg 0 (silentPeer ++ [(30, .outside 0)])).circuits.map (fun p => (p.2.last, p.2.closing, p.2.gone)),
           ((reach demoCfg 0 (silentPeer ++ [(30, .outside 0)])).outs.filter (· == Out.cell 4 9 6)).length)
          = ([(2, false, false)], [(2, true, false)], [(2, true, true)], 3) := by decide +kernel

/-- the same when the socket is only enabled DURING its post-mortem window (destroy at 3, first data cell at 5, pop
    at 8): the close decision is taken on the entry that is popped, so the late transports are closed as well -/
example : ((reach demoCfg 0 [(1, .cell 5 false true true (.create 1)), (3, .destroy 5 1 true),
                             (5, .cell 5 false false true (.data true)), (7, .outside 0)]).exits.map
              (fun p => (p.2.gone, p.2.opened)),
           (reach demoCfg 0 [(1, .cell 5 false true true (.create 1)), (3, .destroy 5 1 true),
                             (5, .cell 5 false false true (.data true)), (8, .outside 0)]).exits.map
              (fun p => (p.2.gone, p.2.opened)))
          = ([(false, true)], [(true, false)]) := by decide +kernel

/-- non-vacuity of `destroy_tears_down_relay`: the relay of `demoEvs` gets a destroy for id 5 from peer 1 at time 14:
    the destroy is passed on to peer 3 under id 6, both routes are still there at 18 and gone at 19 -/
example : ((reach demoCfg 0 (demoEvs ++ [(14, .destroy 5 1 true), (18, .outside 0)])).relays.count,
           (reach demoCfg 0 (demoEvs ++ [(14, .destroy 5 1 true), (19, .outside 0)])).relays.count,
           (reach demoCfg 0 (demoEvs ++ [(14, .destroy 5 1 true)])).outs.contains (Out.destroy 3 6),
           (reach demoCfg 0 (demoEvs ++ [(14, .destroy 5 1 false)])).outs.contains (Out.destroy 3 6),
           (reach demoCfg 0 (demoEvs ++ [(14, .destroy 5 2 true), (19, .outside 0)])).relays.count)
          = (2, 0, true, false, 2) := by decide +kernel

/-- non-vacuity of `cell_refreshes_only_its_circuit`: the node of `demoEvs` relays a second circuit (ids 8/9, same
    neighbours 1 and 3); cells of the second circuit at times 20..40 do not keep the first circuit's routes (5/6, last
    activity 12/13): at time 40 only the second pair is left -/
example : ((reach demoCfg 0 (demoEvs ++
              [(14, .cell 8 false true true (.create 1)), (14, .cell 8 true false true (.extend 78 9 3 true)),
               (14, .cell 9 false true true (.created 78 true none)),
               (20, .cell 8 false false true .junk), (26, .cell 9 false false true .junk),
               (32, .cell 8 false false true .junk), (38, .cell 9 false false true .junk), (40, .outside 0)])).relays.filter
              (fun p => !p.2.gone)).map (·.1) = [8, 9] := by decide +kernel

/-- non-vacuity: a created with the right identifier that does not verify arrives at time 2 (body `other`); the
    cache (tries 5, deadline 11) is still there at 10, the retry at 11 installs tries 4 -/
example : ((reach demoCfg 0 [(1, .mkCircuit 9 2 4 3 100), (2, .cell 9 false true true .other),
                             (10, .outside 0)]).circuits.map (fun p => (p.2.retry.map (·.tries), p.2.hops)),
           (reach demoCfg 0 [(1, .mkCircuit 9 2 4 3 100), (2, .cell 9 false true true .other),
                             (11, .retry 9 4 (some (2, 101)))]).circuits.map (fun p => (p.2.retry.map (·.tries), p.2.hops)))
          = ([(some 5, 0)], [(some 4, 0)]) := by decide +kernel

example : 0 < Gen.cfg.period := by decide

end Ipv8.C09
