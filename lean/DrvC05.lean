/- line-protocol driver for the C05 model (Mathlib-free): a network of nodes + datagrams in flight, symbolic AEAD -/
import Ipv8.Base.Proto
import Ipv8.C05.Model
open Ipv8 Ipv8.C05

inductive Payload where
  | cell (c : Cell SymBody)
  | destroy (signer cid : Nat) (sigok : Bool) (reason : Nat)

structure Pkt where
  src : Nat
  dst : Nat
  pl : Payload

structure Net where
  nodes : List Node := []
  flight : List Pkt := []
  hist : List Pkt := []

def getNode (net : Net) (i : Nat) : Option Node := net.nodes.find? (fun n => n.self == i)

def putNode (net : Net) (n : Node) : Net :=
  { net with nodes := net.nodes.map (fun m => if m.self == n.self then n else m) }

def dirNum : Dir → Nat
  | .fwd => 0
  | .bwd => 1

def msgHeader (b : SymBody) : Nat × Nat :=
  match b.layers, b.msg with
  | [], some (.create ident _ _) => (2, ident)
  | [], some (.created ident _ _ _) => (3, ident)
  | _, _ => (0, 0)

def b2n (b : Bool) : Nat := if b then 1 else 0

def showSend : Out SymBody → Option String
  | .cell dst c =>
    let (mid, ident) := if c.plaintext then msgHeader c.body else (0, 0)
    some s!"{dst},cell,{c.cid},{b2n c.plaintext},{b2n c.relayEarly},{mid},{ident}"
  | .destroy dst signer cid reason => some s!"{dst},destroy,{cid},0,0,{signer},{reason}"
  | _ => none

def showLog (node : Nat) : Out SymBody → Option String
  | .exitOut cid dest tag => some s!"X,{node},{cid},{dest},{tag}"
  | .rawIn cid org tag => some s!"O,{node},{cid},{org},{tag}"
  | _ => none

def showTables (n : Node) : String :=
  let c := n.circuits.map fun (cid, c) =>
    let keys := "/".intercalate (c.hops.map fun h => toString h.key)
    let ha := match c.firstHop with | some h => h.addr | none => 0
    let up := match c.unv with | some h => h.peer | none => 0
    s!"{cid},{c.goal},{keys},{ha},{up},{c.retry},{c.reCount},{b2n c.closing}"
  let r := n.relays.map fun (cid, r) =>
    s!"{cid},{r.next},{r.hop.addr},{r.hop.peer},{r.hop.key},{dirNum r.dir},{r.reCount}"
  let e := n.exits.map fun (cid, e) => s!"{cid},{e.hop.addr},{e.hop.peer},{e.hop.key},{e.phase},{e.queue.length}"
  let q := n.created.map toString
  let p := n.creates.map fun rq =>
    s!"{rq.number},{rq.extIdent},{rq.toId},{rq.fromId},{rq.peer.peer},{rq.peer.addr},{rq.toPeer.peer},{rq.toPeer.addr}"
  let j := fun (l : List String) => ";".intercalate l
  s!"C:{j c}|R:{j r}|E:{j e}|Q:{j q}|P:{j p}"

/-- apply a node step: store the node, queue its datagrams, format the reply -/
def finish (net : Net) (res : Node × List (Out SymBody)) : Net × String :=
  let (n, outs) := res
  let pk : List Pkt := outs.filterMap fun o =>
    match o with
    | .cell dst c => some ⟨n.self, dst, .cell c⟩
    | .destroy dst signer cid reason => some ⟨n.self, dst, .destroy signer cid true reason⟩
    | _ => none
  let net := putNode net n
  let net := { net with flight := net.flight ++ pk, hist := net.hist ++ pk }
  let s := ";".intercalate (outs.filterMap showSend)
  let l := ";".intercalate (outs.filterMap (showLog n.self))
  (net, s!"S={s} T={showTables n} L={l}")

def parseChoice (toks : List String) : Choice :=
  toks.foldl (fun ch t =>
    if t.startsWith "new=" then
      match ((t.drop 4).toString.splitOn ",").map String.toNat? with
      | [some a, some b, some c, some d] => { ch with new := some (a, b, c, d) }
      | _ => ch
    else if t.startsWith "ext=" then
      match ((t.drop 4).toString.splitOn ",").map String.toNat? with
      | [some a, some b] => { ch with ext := some (a, b) }
      | _ => ch
    else ch) {}

def parseMsg (s : String) : Option Msg :=
  match (s.splitOn ":") with
  | ["junk"] => none
  | ["other", m] => m.toNat?.map Msg.other
  | ["created", a, b, c, d] => do
    let a ← a.toNat?; let b ← b.toNat?; let c ← c.toNat?; let d ← d.toNat?
    pure (Msg.created a b c d)
  | ["create", a, b, c] => do
    let a ← a.toNat?; let b ← b.toNat?; let c ← c.toNat?
    pure (Msg.create a b c)
  | ["data", a, b, c] => do
    let a ← a.toNat?; let b ← b.toNat?; let c ← c.toNat?
    pure (Msg.data a b c)
  | _ => none

/-- forged plaintext cells of other kinds must carry *some* non-create message -/
def forgedBody (spec : String) : SymBody :=
  match spec.splitOn ":" with
  | ["other", "1"] => ⟨[], some (.data 66 0 0)⟩
  | ["other", "4"] => ⟨[], some (.extend 7 0 0)⟩
  | ["other", "6"] => ⟨[], some (.ping 7)⟩
  | _ => ⟨[], parseMsg spec⟩

def removeAt {α : Type} : List α → Nat → Option (α × List α)
  | [], _ => none
  | x :: t, 0 => some (x, t)
  | x :: t, i + 1 => (removeAt t i).map fun (y, t') => (y, x :: t')

def nats (l : List String) : Option (List Nat) := l.mapM String.toNat?

def stepLine (net : Net) (toks : List String) : Net × String :=
  let bad := (net, "bad-line")
  match toks with
  | ["reset", n] =>
    match n.toNat? with
    | some n => ({ nodes := (List.range n).map fun i => Node.init (i + 1) }, "ok")
    | none => bad
  | "reset" :: n :: flags =>
    match n.toNat? with
    | some n => ({ nodes := (List.range n).map fun i =>
        { Node.init (i + 1) with defer := flags.contains "defer", gated := flags.contains "gated" } }, "ok")
    | none => bad
  | "xr" :: node :: cid :: rest =>
    match node.toNat?, cid.toNat? with
    | some node, some cid =>
      match getNode net node with
      | some n => finish net (expireRetry sym n cid (parseChoice rest))
      | none => bad
    | _, _ => bad
  | "dlv" :: idx :: rest =>
    match idx.toNat?.bind (removeAt net.flight) with
    | none => bad
    | some (p, fl) =>
      let net := { net with flight := fl }
      match getNode net p.dst with
      | none => (net, "S= T=- L=")
      | some n =>
        match p.pl with
        | .cell c => finish net (processCell sym n p.src c (parseChoice rest))
        | .destroy signer cid ok reason => finish net (onDestroy n signer cid ok reason)
  | "dlvs" :: idx :: src :: rest =>
    -- a genuine datagram is taken off the wire and handed to its destination from another source address
    match idx.toNat?.bind (removeAt net.flight), src.toNat? with
    | some (p, fl), some src =>
      let net := { net with flight := fl }
      match getNode net p.dst with
      | none => (net, "S= T=- L=")
      | some n =>
        match p.pl with
        | .cell c => finish net (processCell sym n src c (parseChoice rest))
        | .destroy signer cid ok reason => finish net (onDestroy n signer cid ok reason)
    | _, _ => bad
  | "fc" :: node :: src :: cid :: pt :: re :: _layers :: spec :: _ =>
    match nats [node, src, cid, pt, re] with
    | some [node, src, cid, pt, re] =>
      match getNode net node with
      | some n => finish net (processCell sym n src ⟨cid, pt == 1, re == 1, forgedBody spec⟩ {})
      | none => bad
    | _ => bad
  | ["spl", node, src, hi, cid, re] =>
    match nats [node, src, hi, cid, re] with
    | some [node, src, hi, cid, re] =>
      match getNode net node, net.hist[hi]? with
      | some n, some ⟨_, _, .cell c⟩ => finish net (processCell sym n src { c with cid := cid, plaintext := false, relayEarly := re == 1 } {})
      | _, _ => bad
    | _ => bad
  | ["fd", node, _src, signer, cid, ok, reason] =>
    match nats [node, signer, cid, ok, reason] with
    | some [node, signer, cid, ok, reason] =>
      match getNode net node with
      | some n => finish net (onDestroy n signer cid (ok == 1) reason)
      | none => bad
    | _ => bad
  | op :: args =>
    match nats args with
    | none => bad
    | some xs =>
      match op, xs with
      | "mk", [o, cid, goal, hp, ha, ident, _ex] =>
        match getNode net o with
        | some n => finish net (apiCreate sym n cid goal hp ha ident)
        | none => bad
      | "sd", [o, cid, dest, tag] =>
        match getNode net o with
        | some n => finish net (apiSendData sym n cid dest tag)
        | none => bad
      | "rp", [i, cid, org, tag] =>
        match getNode net i with
        | some n => finish net (apiTunnelData sym n cid org tag)
        | none => bad
      | "rps", [i, cid, hop, org, tag] =>
        match getNode net i with
        | some n => finish net (apiStaleTunnelData sym n cid hop org tag)
        | none => bad
      | "rpn", [i, cid, mid] =>
        match getNode net i with
        | some n => finish net (apiTunnelNested sym n cid mid)
        | none => bad
      | "sx", [o, cid, ident, pk] =>
        match getNode net o with
        | some n => finish net (apiSendExtend sym n cid ident pk)
        | none => bad
      | "png", [o] =>
        match getNode net o with
        | some n => finish net (apiPing sym n)
        | none => bad
      | "og", [i, cid] =>
        match getNode net i with
        | some n => finish net (openStep n cid)
        | none => bad
      | "xq", [i, cid] =>
        match getNode net i with
        | some n => finish net (expireCreated n cid, [])
        | none => bad
      | "xp", [i, num] =>
        match getNode net i with
        | some n => finish net (expireCreate n num, [])
        | none => bad
      | "jg", [i, k] =>
        match getNode net i with
        | some n => finish net (joinRelease sym n k)
        | none => bad
      | "rxC", [i, cid] =>
        match getNode net i with
        | some n => finish net (popCircuit n cid, [])
        | none => bad
      | "rxR", [i, cid] =>
        match getNode net i with
        | some n => finish net (popRelay n cid, [])
        | none => bad
      | "rxE", [i, cid] =>
        match getNode net i with
        | some n => finish net (popExit n cid, [])
        | none => bad
      | "rmC", [i, cid] =>
        match getNode net i with
        | some n => finish net (apiRemoveCircuit n cid)
        | none => bad
      | "rmE", [i, cid] =>
        match getNode net i with
        | some n => finish net (apiRemoveExit n cid)
        | none => bad
      | "rmH", [i, cid, d] =>
        match getNode net i with
        | some n => finish net (apiRemoveRelayHalf n cid (d != 0))
        | none => bad
      | "ts", [o, h, dest, tag] =>
        match getNode net o with
        | some n => finish net (apiEndpointSend sym n h dest tag)
        | none => bad
      | "rmR", [i, cid] =>
        match getNode net i with
        | some n => finish net (apiRemoveRelay n cid)
        | none => bad
      | _, _ => bad
  | [] => bad

def main : IO Unit := Proto.run ({} : Net) stepLine
