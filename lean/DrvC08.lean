/- line-protocol driver for the C08 handshake model over the free crypto instance (Mathlib-free) -/
import Ipv8.Base.Proto
import Ipv8.C08.Model
open Ipv8 Ipv8.C08 Ipv8.Proto

abbrev N := Node Secret
abbrev O := Out FTag FBlob

structure St where
  nodes : List (Nat × N × List Nat)       -- node id ↦ (node, ids mentioned so far)

def optNat? (s : String) : Option (Option Nat) :=
  if s == "-" then some none else (s.toNat?).map some

def wire? (s : String) : Option (Option Wire) :=
  if s == "bad" then some none
  else match splitChar s '.' with
    | [a, b] => do
      let a ← a.toNat?
      let b ← b.toNat?
      pure (some ⟨a, b⟩)
    | _ => none

def dh? (s : String) : Option DH :=
  match splitChar s '.' with
  | [a, b] => do
    let a ← a.toNat?
    let b ← b.toNat?
    pure ⟨a, b⟩
  | _ => none

def secret? (s : String) : Option Secret :=
  if s == "-" then some [] else (splitChar s '+').mapM dh?

def tag? (s : String) : Option FTag :=
  match splitChar s '/' with
  | ["M", k, w] => do
    let k ← secret? k
    let w ← wire? w
    match w with
    | some w => pure (.mac k w)
    | none => none
  | ["J", n] => n.toNat?.map .junk
  | _ => none

def blob? (s : String) : Option FBlob :=
  match splitChar s '/' with
  | ["E", k, l] => do
    let k ← secret? k
    let l ← natList? l
    pure (.enc k l)
  | ["J", n] => n.toNat?.map .junk
  | _ => none

def env? (x i f : String) : Option Env := do
  let x ← x.toNat?
  let i ← i.toNat?
  let f ← optNat? f
  pure ⟨x, i, f⟩

def showWire : Option Wire → String
  | none => "bad"
  | some w => s!"{w.pt}.{w.enc}"

def showSecret (s : Secret) : String :=
  if s.isEmpty then "-" else "+".intercalate (s.map fun d => s!"{d.lo}.{d.hi}")

def showTag : FTag → String
  | .mac k w => s!"M/{showSecret k}/{showWire (some w)}"
  | .junk n => s!"J/{n}"

def showBlob : FBlob → String
  | .enc k l => s!"E/{showSecret k}/{showNatList l}"
  | .junk n => s!"J/{n}"

def showMsg : Msg FTag FBlob → String
  | .create cid i pk k => s!"create:{cid}:{i}:{pk}:{showWire k}"
  | .created cid i k a c => s!"created:{cid}:{i}:{showWire k}:{showTag a}:{showBlob c}"
  | .extend cid i pk k ag => s!"extend:{cid}:{i}:{pk}:{showWire k}:{if ag then 1 else 0}"
  | .extended cid i k a c => s!"extended:{cid}:{i}:{showWire k}:{showTag a}:{showBlob c}"

def showOut (o : O) : String := s!"{showMsg o.msg}>{o.to}"

def showHop (h : Hop Secret) : String := s!"{h.peer}@{showSecret h.keys}"

def showCirc (cid : Nat) (c : Circ Secret) : String :=
  let u := match c.unverified with
    | some (p, x) => s!"u({p},{x})"
    | none => "u-"
  let r := match c.retry with
    | some r => s!"r({r.ident},{showNatList r.cands},{r.tries},{if r.kind == Kind.create then "c" else "e"})"
    | none => "r-"
  let e := match c.requiredExit with
    | some k => s!"e{k}"
    | none => "e-"
  s!"C{cid}:g{c.goal}:h[{";".intercalate (c.hops.map showHop)}]:{u}:{r}:{e}"

def insertSorted (x : Nat) : List Nat → List Nat
  | [] => [x]
  | y :: ys => if x < y then x :: y :: ys else if x == y then y :: ys else y :: insertSorted x ys

def showState (n : N) (ids : List Nat) : String :=
  let cs := ids.filterMap fun i => (n.circuits i).map (showCirc i)
  let cr := ids.filterMap fun i => (n.created i).map fun l =>
    s!"{i}:{showNatList (l.foldl (fun acc k => insertSorted k acc) [])}"
  let ce := ids.filterMap fun i => (n.creates i).map fun r =>
    s!"{i}:{r.extendIdent}:{r.toCid}:{r.fromCid}:{r.peer}:{r.toPeer}"
  let ex := ids.filterMap fun i => (n.exits i).map fun h => s!"{i}:{showHop h}"
  let rl := ids.filterMap fun i => (n.relays i).map fun r =>
    s!"{i}>{r.target}:{r.peer}@{showSecret r.keys}:{if r.forward then "F" else "B"}"
  s!"{" ".intercalate cs} created[{",".intercalate cr}] creates[{",".intercalate ce}] exits[{",".intercalate ex}] relays[{",".intercalate rl}]"

def parseEv (toks : List String) : Option (Ev FTag FBlob × List Nat) :=
  match toks with
  | ["cc", cid, goal, re, fh, x, i, f] => do
    let cid ← cid.toNat?
    let goal ← goal.toNat?
    let re ← optNat? re
    let fh ← natList? fh
    let env ← env? x i f
    pure (.createCircuit cid goal re fh env, [cid])
  | [op, cid, ident, w, t, b, x, i, f] => do
    let cid ← cid.toNat?
    let ident ← ident.toNat?
    let w ← wire? w
    let t ← tag? t
    let b ← blob? b
    let env ← env? x i f
    if op == "created" then pure (.created cid ident w t b env, [cid, ident])
    else if op == "extended" then pure (.extended cid ident w t b env, [cid])
    else none
  | ["timeout", cid, x, i, f] => do
    let cid ← cid.toNat?
    let env ← env? x i f
    pure (.retryTimeout cid env, [cid])
  | ["join", cid, ident, pk, w, y, offered] => do
    let cid ← cid.toNat?
    let ident ← ident.toNat?
    let pk ← pk.toNat?
    let w ← wire? w
    let y ← y.toNat?
    let offered ← natList? offered
    pure (.join cid ident pk w y offered, [cid])
  | ["oncreate", cid, ident, pk, w, y, offered] => do
    let cid ← cid.toNat?
    let ident ← ident.toNat?
    let pk ← pk.toNat?
    let w ← wire? w
    let y ← y.toNat?
    let offered ← natList? offered
    pure (.create cid ident pk w y offered, [cid])
  | [op, cid, cands, tries, x, i, f] => do
    let cid ← cid.toNat?
    let cands ← natList? cands
    let tries ← tries.toInt?
    let env ← env? x i f
    if op == "sendextend" then pure (.sendExtend cid cands tries env, [cid])
    else if op == "sendcreate" then pure (.sendInitialCreate cid cands tries env, [cid])
    else none
  | ["remove", cid] => do
    let cid ← cid.toNat?
    pure (.removeCircuit cid, [cid])
  | ["onextend", cid, ident, pk, w, ag, toCid, number] => do
    let cid ← cid.toNat?
    let ident ← ident.toNat?
    let pk ← pk.toNat?
    let w ← wire? w
    let toCid ← toCid.toNat?
    let number ← number.toNat?
    pure (.extend cid ident pk w (ag == "1") toCid number, [cid, toCid, number])
  | ["createdexpire", cid] => do
    let cid ← cid.toNat?
    pure (.createdExpire cid, [cid])
  | ["createexpire", num] => do
    let num ← num.toNat?
    pure (.createExpire num, [num])
  | _ => none

def setNode (l : List (Nat × N × List Nat)) (k : Nat) (v : N × List Nat) : List (Nat × N × List Nat) :=
  (k, v) :: l.filter (fun e => e.1 != k)

def stepSt (st : St) (toks : List String) : St × String :=
  match toks with
  | ["reset"] => (⟨[]⟩, "ok")
  | ["node", nid, me, cj, cr] =>
    match nid.toNat?, me.toNat? with
    | some nid, some me => (⟨setNode st.nodes nid (Node.init me (cj == "1") (cr == "1"), [])⟩, "ok")
    | _, _ => (st, "bad-op")
  | nid :: rest =>
    match nid.toNat? with
    | none => (st, "bad-op")
    | some nid =>
      -- "<nid> raw <event…>": the cell did not decrypt under the circuit's keys (or was never encrypted)
      let (authentic, rest) := match rest with
        | "raw" :: r => (false, r)
        | r => (true, r)
      -- removals of joined entries (destroy from the neighbour, sweep) are NOT events of the model (design.d/C08.md);
      -- the driver applies them to its copy of the node so that the correspondence stays in step afterwards
      match st.nodes.find? (fun e => e.1 == nid), rest with
      | some (_, n, ids), ["removeexit", c] =>
        match c.toNat? with
        | some c =>
          let n' : N := { n with exits := upd n.exits c none }
          (⟨setNode st.nodes nid (n', ids)⟩, s!"[] | {showState n' ids}")
        | none => (st, "bad-op")
      | some (_, n, ids), ["removerelay", c] =>
        match c.toNat? with
        | some c =>
          let n' : N := { n with relays := upd n.relays c none }
          (⟨setNode st.nodes nid (n', ids)⟩, s!"[] | {showState n' ids}")
        | none => (st, "bad-op")
      | _, _ =>
      match st.nodes.find? (fun e => e.1 == nid), parseEv rest with
      | some (_, n, ids), none =>
        if rest == ["show"] then (st, s!"[] | {showState n ids}") else (st, "bad-op")
      | some (_, n, ids), some (ev, newIds) =>
        let (n', outs) := deliverCell Free n authentic ev
        let ids' := newIds.foldl (fun acc i => insertSorted i acc) ids
        (⟨setNode st.nodes nid (n', ids')⟩, s!"[{",".intercalate (outs.map showOut)}] | {showState n' ids'}")
      | none, _ => (st, "no-node")
  | [] => (st, "bad-op")

def main : IO Unit := Proto.run (⟨[]⟩ : St) stepSt
