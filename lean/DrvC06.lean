/- line-protocol driver for the C06 model (Mathlib-free) -/
import Ipv8.Base.Proto
import Ipv8.C06.Model
open Ipv8 Ipv8.Proto Ipv8.C06

def kindStr : Kind → String
  | .v4 => "4" | .v6 => "6" | .dom => "d"

def kindOf? : String → Option Kind
  | "4" => some .v4 | "6" => some .v6 | "d" => some .dom | _ => none

def showDest (d : Dest) : String := s!"{kindStr d.kind}:{toHex d.host}:{d.port}"

def showOut : Out → String
  | .emit c v6 data d => s!"emit:{c}:{if v6 then "6" else "4"}:{toHex data}:{showDest d}"
  | .tunnel c ip port data src => s!"tunnel:{c}:{toHex ip}:{port}:{toHex data}:{showDest src}"
  | .resolve c h _ _ => s!"resolve:{c}:{toHex h}"
  | .loc c how => s!"loc:{c}:{how}"
  | .reenter c => s!"reenter:{c}"

def b01 (b : Bool) : String := if b then "1" else "0"

def showSock (st : St) (cid : Nat) : String :=
  match st.socks.find? (fun s => s.cid == cid) with
  | none => "nosock"
  | some s => s!"en={b01 s.enabled} t4={b01 s.t4} t6={b01 s.t6} q={s.queue.length} p={s.pending.length}"

def showOuts (os : List Out) : String :=
  if os.isEmpty then "-" else ";".intercalate (os.map showOut)

def tfx : Option Bool → String
  | some true => "t" | some false => "f" | none => "x"

def parseSock (s : String) : Option Sock :=
  match splitChar s ':' with
  | [c, ip, p] => do
    let c ← c.toNat?
    let ip ← ofHex? ip
    let p ← p.toNat?
    pure { cid := c, hopIp := ip, hopPort := p }
  | _ => none

def parseCirc (s : String) : Option Circ :=
  match splitChar s ':' with
  | [c, ip, p, e] => do
    let c ← c.toNat?
    let ip ← ofHex? ip
    let p ← p.toNat?
    let t ← e.toNat?
    pure { cid := c, hopIp := ip, hopPort := p, ctype := t }
  | _ => none

def parseInfo (s : String) : Option (Bool × Bytes) :=
  match splitChar s ':' with
  | [f, ip] => do
    let ip ← ofHex? ip
    pure (f == "6", ip)
  | _ => none

/-- the 8 subsets of {RELAY, EXIT_BT, EXIT_IPV8} by bit mask 0..7 (bit 0 RELAY, bit 1 EXIT_BT, bit 2 EXIT_IPV8) -/
def flagSets : List (Bool × Bool × List Nat) :=
  (List.range 8).map (fun m =>
    let r := m &&& 1 != 0
    let b := m &&& 2 != 0
    let i := m &&& 4 != 0
    (b, i, (if r then [Gen.PEER_FLAG_RELAY] else []) ++ (if b then [Gen.PEER_FLAG_EXIT_BT] else [])
           ++ (if i then [Gen.PEER_FLAG_EXIT_IPV8] else [])))

def reply (st : St) (cid : Nat) (r : St × List Out) : St × String :=
  let _ := st
  (r.1, s!"{showOuts r.2} | {showSock r.1 cid}")

def stepLine (st : St) (toks : List String) : St × String :=
  let r : Option (St × String) :=
    match toks with
    | ["reset", pfx, fl, socks, circs, tep, xids] => do
      let pfx ← ofHex? pfx
      let fl ← natList? fl
      let ss ← (← listItems? socks).mapM parseSock
      let cs ← (← listItems? circs).mapM parseCirc
      let xs ← natList? xids
      pure ({ flags := fl, pfx := pfx, socks := ss, circs := cs, tunnelEp := tep == "1", exitIds := xs }, "ok")
    | ["flags", fl] => do
      let fl ← natList? fl
      pure ((step st (.setFlags fl)).1, "ok")
    | ["data", sip, sport, cid, k, host, port, data] => do
      let sip ← ofHex? sip
      let sport ← sport.toNat?
      let cid ← cid.toNat?
      let k ← kindOf? k
      let host ← ofHex? host
      let port ← port.toNat?
      let data ← ofHex? data
      pure (reply st cid (step st (.data sip sport cid ⟨k, host, port⟩ data)))
    | ["join", ip, port, cid] => do
      let ip ← ofHex? ip
      let port ← port.toNat?
      let cid ← cid.toNat?
      pure (reply st cid (step st (.join ip port cid)))
    | ["open4", cid] => do
      let cid ← cid.toNat?
      pure (reply st cid (step st (.open4 cid)))
    | ["open6", cid] => do
      let cid ← cid.toNat?
      pure (reply st cid (step st (.open6 cid)))
    | ["resolved", cid, idx, infos] => do
      let cid ← cid.toNat?
      let idx ← idx.toNat?
      let infos ← (← listItems? infos).mapM parseInfo
      pure (reply st cid (step st (.resolved cid idx infos)))
    | ["outside", cid, fam, host, port, data] => do
      let cid ← cid.toNat?
      let host ← ofHex? host
      let port ← port.toNat?
      let data ← ofHex? data
      pure (reply st cid (step st (.outside cid (fam == "6") host port data)))
    | ["cls", data] => do
      let d ← ofHex? data
      let g := String.join [tfx (Gen.could_be_utp d), tfx (Gen.could_be_udp_tracker d), tfx (Gen.could_be_dht d),
                            tfx (Gen.could_be_bt d), tfx (Gen.could_be_ipv8 d)]
      let s := String.join ([Spec.isUtp d, Spec.isTracker d, Spec.isDht d, Spec.isBT d, Spec.isIPv8 d].map
                            (fun b => tfx (some b)))
      pure (st, s!"gen={g} spec={s}")
    | ["allow", pfx, data] => do
      let pfx ← ofHex? pfx
      let d ← ofHex? data
      let g := String.join (flagSets.map (fun fl => tfx (Gen.is_allowed fl.2.2 pfx d)))
      let s := String.join (flagSets.map (fun fl => tfx (some (Spec.allowed fl.1 fl.2.1 pfx d))))
      pure (st, s!"gen={g} spec={s}")
    | _ => none
  r.getD (st, "bad-op")

def main : IO Unit := Proto.run (default : St) stepLine
