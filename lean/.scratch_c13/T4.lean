import Ipv8.C13.Script
open Ipv8.C13
#eval (allCfgs.filter (fun c => !(introductionOkW c (prehistoryResp c)))).length
#eval (allCfgs.filter (fun c => !(contactOkW c (prehistoryResp c)))).length
#eval (allCfgs.filter (fun c => !(mutualOk c (scriptResp c)))).length
#eval (allCfgs.filter (fun c => !(styleOkW c (prehistoryResp c)))).map (fun c => repr c)
#eval (allCfgs.filter (fun c => !(!sameBox c || lanOnlyW c (prehistoryResp c)))).length
