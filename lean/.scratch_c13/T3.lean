import Ipv8.C13.Script
namespace Ipv8.C13

/-- further candidates: 3 public/fullCone, 4 behind box 1 (R's box when R is boxed), 5 behind box 2, 6 own box 3 -/
def extraHosts : List Host :=
  [ { lan := ⟨ipv4 4 4 4 4, 8090⟩, wan := ⟨ipv4 4 4 4 4, 8090⟩, box := 0, typ := .fullCone },
    { lan := ⟨ipv4 192 168 1 4, 8090⟩, wan := ⟨ipv4 2 2 2 2, 40004⟩, box := 1, typ := .portRestricted },
    { lan := ⟨ipv4 192 168 1 5, 8090⟩, wan := ⟨ipv4 3 3 3 3, 40005⟩, box := 2, typ := .addrRestricted },
    { lan := ⟨ipv4 10 0 0 6, 8090⟩, wan := ⟨ipv4 6 6 6 6, 8090⟩, box := 3, typ := .none } ]

def worldK (c : Cfg) (k : Nat) : World := (extraHosts.take k).foldl (fun w h => w.addHost h) (world0 c)

def candWalks (c : Cfg) (k : Nat) (w : World) : World :=
  ((List.range k).map (· + 3)).foldl (fun w i => if c.newStyle then (w.walk i addrI).ask i 0 else w.walk i addrI) w

/-- extras arrive before P when `before`, else after -/
def prehistoryK (c : Cfg) (k : Nat) (before : Bool) : World :=
  let w := setPref (worldK c k) 0 [2]
  let w := if c.newStyle then w.walk 1 addrI else w
  let pw (w : World) : World := if c.newStyle then (w.walk 2 addrI).ask 2 0 else w.walk 2 addrI
  if before then pw (candWalks c k w) else candWalks c k (pw w)

def scriptK (c : Cfg) (k : Nat) (before : Bool) : World := (introduce c (prehistoryK c k before)).walkAll 1

theorem t4 : allCfgs.all (fun c => mutualOk c (scriptK c 4 true)) = true := by decide +kernel
end Ipv8.C13
