import Ipv8.C13.Script
namespace Ipv8.C13
theorem walks_wan (s : SelfView) (p : IntroRespView) (h0 : p.wan_introduction_address ≠ Addr.zero)
    (h : p.wan_introduction_address.ip ≠ s.my_estimated_wan.ip) :
    p.wan_introduction_address ∈ Gen.introductionsOf s p := by
  simp [Gen.introductionsOf, Id.run, pure, h, h0]
  trace_state
  sorry

theorem lan_rfc (ip : Nat) : inLanSubnets ip = isPrivate ip := by
  simp [inLanSubnets, isPrivate, Gen.lanSubnets]
  trace_state
  sorry
end Ipv8.C13
