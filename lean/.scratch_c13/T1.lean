import Ipv8.C13.Script
namespace Ipv8.C13

theorem puncture_target_wan (s : SelfView) (p : PunctReqView) (h : p.wan_walker_address.ip ≠ s.my_estimated_wan.ip) :
    (Gen.punctureSends s p).1 = p.wan_walker_address := by
  simp [Gen.punctureSends, Id.run, pure, h]

theorem intro_known (s : SelfView) (q : PeerView) (l : Addr) (hl : q.lan_address = some l)
    (h : s.address_is_lan q.address.ip = false) :
    Gen.introAddrs s q = (l, q.address, true) := by
  simp [Gen.introAddrs, Id.run, pure, h, hl]

theorem walks_wan (s : SelfView) (p : IntroRespView) (h0 : p.wan_introduction_address ≠ Addr.zero)
    (h : p.wan_introduction_address.ip ≠ s.my_estimated_wan.ip) :
    p.wan_introduction_address ∈ Gen.introductionsOf s p := by
  simp only [Gen.introductionsOf, Id.run, pure, bne_iff_ne, ne_eq, h, h0, not_false_eq_true, and_self, Bool.and_self, decide_true, ite_true]
  split <;> simp

theorem walks_lan (s : SelfView) (p : IntroRespView) (h0 : p.lan_introduction_address ≠ Addr.zero)
    (h : p.wan_introduction_address.ip = s.my_estimated_wan.ip) :
    Gen.introductionsOf s p = [p.lan_introduction_address] := by
  simp [Gen.introductionsOf, Id.run, pure, h, h0]

theorem lan_rfc (ip : Nat) : inLanSubnets ip = isPrivate ip := by
  simp [inLanSubnets, isPrivate, Gen.lanSubnets]
  sorry
end Ipv8.C13
