/- line-protocol driver for the C18 model (Mathlib-free) -/
import Ipv8.Base.Proto
import Ipv8.C18.Model
open Ipv8 Ipv8.C18

def getInts (ts : List String) : Option (List Int) := ts.mapM String.toInt?

def mkV : List Int → Option (FP2 Int × List Int)
  | a :: b :: c :: d :: e :: f :: rest => some ({ a := a, b := b, c := c, aC := d, bC := e, cC := f }, rest)
  | _ => none

def showV (v : FP2 Int) : String :=
  s!"{v.a} {v.b} {v.c} {v.aC} {v.bC} {v.cC}"

def step (_ : Unit) (toks : List String) : Unit × String :=
  let r : Option String := do
    match toks with
    | op :: rest =>
      let xs ← getInts rest
      match op, xs with
      | "modinv", [e, m] => some (toString (modinv e m))
      | _, p :: vs =>
        let (v, vs) ← mkV vs
        match op with
        | "inv" => some (showV (invP p v))
        | "norm" => some (showV (normalizeP p v))
        | "wpnum" => some (showV (wpNumP p v))
        | "wpdi" => some (showV (wpDenomInverseP p v))
        | "wpc" => some (match wpCompressP p v with | some r => showV r | none => "none")
        | "pow" => match vs with
          | [k] => some (showV (intpowP p v k))
          | _ => none
        | _ =>
          let (w, _) ← mkV vs
          match op with
          | "add" => some (showV (addP p v w))
          | "sub" => some (showV (subP p v w))
          | "mul" => some (showV (mulP p v w))
          | "div" => some (showV (divP p v w))
          | "eq" => some (toString (eqP p v w))
          | _ => none
      | _, _ => none
    | [] => none
  ((), r.getD "bad-op")

def main : IO Unit := Proto.run () step
