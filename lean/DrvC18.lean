/- line-protocol driver for the C18 model (Mathlib-free) -/
import Ipv8.Base.Proto
import Ipv8.C18.Model
import Ipv8.C18.Proto
import Ipv8.C18.Range
import Ipv8.C18.Ser
import Ipv8.C18.Verifier
import Ipv8.C18.Issuance
open Ipv8 Ipv8.C18

def getInts (ts : List String) : Option (List Int) := ts.mapM String.toInt?

def mkV : List Int → Option (FP2 Int × List Int)
  | a :: b :: c :: d :: e :: f :: rest => some ({ a := a, b := b, c := c, aC := d, bC := e, cC := f }, rest)
  | _ => none

def showV (v : FP2 Int) : String :=
  s!"{v.a} {v.b} {v.c} {v.aC} {v.bC} {v.cC}"

/-- FP2Value(p, a, b) -/
def ab (p a b : Int) : FP2 Int := modP p { a := a, b := b, c := 0, aC := 1, bC := 0, cC := 0 }

def intList? (s : String) : Option (List Int) := do
  let items ← Proto.listItems? s
  items.mapM String.toInt?

def showIntList (l : List Int) : String := "[" ++ ",".intercalate (l.map toString) ++ "]"

/-- `(v.wp_nominator() * v.wp_denom_inverse()).normalize()`: the canonical representative that is hashed -/
def canonP (p : Int) (v : FP2 Int) : FP2 Int := normalizeP p (mulP p (wpNumP p v) (wpDenomInverseP p v))

def coords (p : Int) (W : FP2 Int × FP2 Int) : List Int :=
  let c1 := canonP p W.1
  let c2 := canonP p W.2
  [c1.a, c1.b, c2.a, c2.b]

/-- Fiat–Shamir hash as a finite table (coordinates of the two canonical values ↦ sha256_as_int, computed by the
    harness with hashlib); unknown queries hash to 0 -/
def tableHash (p : Int) (table : List (List Int × Int)) (W1 W2 : FP2 Int) : Int :=
  match table.find? (fun e => e.1 == coords p (W1, W2)) with
  | some e => e.2
  | none => 0

def mkTable : List Int → List (List Int × Int)
  | a :: b :: c :: d :: h :: rest => ([a, b, c, d], h) :: mkTable rest
  | _ => []

/-- sequential reader over a flat list of integers -/
abbrev Rd := StateT (List Int) Option

def rdInt : Rd Int := fun s => match s with | x :: r => some (x, r) | [] => none
def rdV : Rd (FP2 Int) := fun s => mkV s
def rdEL : Rd ELProof := do
  let c ← rdInt; let d ← rdInt; let d1 ← rdInt; let d2 ← rdInt
  pure ⟨c, d, d1, d2⟩
def rdELRand : Rd ELRand := do
  let w ← rdInt; let n1 ← rdInt; let n2 ← rdInt
  pure ⟨w, n1, n2⟩
def rdSQR : Rd (SQRProof (FP2 Int)) := do
  let f ← rdV; let e ← rdEL
  pure ⟨f, e⟩
def rdCom : Rd (Commitment (FP2 Int)) := do
  let c ← rdV; let c1 ← rdV; let c2 ← rdV; let ca ← rdV; let ca1 ← rdV; let ca2 ← rdV; let ca3 ← rdV; let caa ← rdV
  pure ⟨c, c1, c2, ca, ca1, ca2, ca3, caa⟩
def rdRest : Rd (List Int) := fun s => some (s, [])

def showEL (e : ELProof) : String := s!"{e.c} {e.D} {e.D1} {e.D2}"
def showInts (l : List Int) : String := " ".intercalate (l.map toString)

def showPairs (bps : List (BitPair (FP2 Int))) : String :=
  " ".intercalate (bps.map fun bp => s!"{showV bp.a} {showV bp.b} {showV bp.complement}")

def showRat (q : Rat) : String := s!"{q.num}/{q.den}"

def rcheck (xs : List Int) : Option String :=
  (do
    let p ← rdInt; let g ← rdV; let h ← rdV; let com ← rdCom; let el ← rdEL; let s1 ← rdSQR; let s2 ← rdSQR
    let a ← rdInt; let b ← rdInt; let s ← rdInt; let t ← rdInt
    let x ← rdInt; let y ← rdInt; let u ← rdInt; let v ← rdInt
    let tbl ← rdRest
    let o := fp2Ops p
    let pd : RangePublic (FP2 Int) := ⟨com, el, s1, s2⟩
    let res := rangeCheck o (tableHash p (mkTable tbl)) g h pd a b s t x y u v
    let q1 := coords p (elCheckPre o el g h com.c1 h com.c2 com.ca)
    let q2 := coords p (elCheckPre o s1.el com.ca h s1.F h s1.F com.caa)
    let q3 := coords p (elCheckPre o s2.el g h s2.F h s2.F com.ca3)
    pure s!"{res} {showInts (q1 ++ q2 ++ q3)}" : Rd String).run' xs

def rcreate (xs : List Int) : Option String :=
  (do
    let p ← rdInt; let g ← rdV; let h ← rdV
    let value ← rdInt; let a ← rdInt; let b ← rdInt
    let r ← rdInt; let ra ← rdInt; let raa0 ← rdInt; let w ← rdInt
    let m4 ← rdInt; let m1 ← rdInt; let r1 ← rdInt; let r2 ← rdInt
    let el ← rdELRand; let sq1r2 ← rdInt; let sq1 ← rdELRand; let sq2r2 ← rdInt; let sq2 ← rdELRand
    let tbl ← rdRest
    let o := fp2Ops p
    let rnd : RangeRand := ⟨r, ra, raa0, w, m4, m1, r1, r2, el, sq1r2, sq1, sq2r2, sq2⟩
    match createAttestPair o (tableHash p (mkTable tbl)) g h value a b rnd with
    | none => pure "none"
    | some (pd, pv) =>
      let cm := pd.com
      let q1 := coords p (elCommit o g h cm.c1 h el)
      let q2 := coords p (elCommit o cm.ca h pd.sqr1.F h sq1)
      let q3 := coords p (elCommit o g h pd.sqr2.F h sq2)
      let coms := " ".intercalate ([cm.c, cm.c1, cm.c2, cm.ca, cm.ca1, cm.ca2, cm.ca3, cm.caa].map showV)
      pure s!"{coms} {showEL pd.el} {showV pd.sqr1.F} {showEL pd.sqr1.el} {showV pd.sqr2.F} {showEL pd.sqr2.el} {pv.m1} {pv.m2} {pv.m3} {pv.r1} {pv.r2} {pv.r3} {showInts (q1 ++ q2 ++ q3)}"
    : Rd String).run' xs

def natsOf (l : List Int) : List Nat := l.map Int.toNat

def showBytes (b : ByteStr) : String := Proto.toHex b

def protoStep (toks : List String) : Option String :=
  match toks with
  | ["attest", p, ga, gb, ha, hb, value, bitspace, draws, permR, perm2, tape] => do
    let p ← p.toInt?; let ga ← ga.toInt?; let gb ← gb.toInt?; let ha ← ha.toInt?; let hb ← hb.toInt?
    let value ← value.toNat?; let bitspace ← bitspace.toNat?
    let draws ← Proto.natList? draws; let permR ← Proto.natList? permR
    let perm2 ← Proto.natList? perm2; let tape ← Proto.natList? tape
    let pk : PubKey (FP2 Int) := ⟨p.toNat, ab p ga gb, ab p ha hb⟩
    match attest (fp2Ops p) pk value bitspace draws permR perm2 tape with
    | none => some "none"
    | some (bps, rest) => some s!"{rest.length} {showPairs bps}"
  | ["chal", p, ga, gb, ha, hb, aa, ab', ba, bb, ca, cb, tape] => do
    let p ← p.toInt?; let ga ← ga.toInt?; let gb ← gb.toInt?; let ha ← ha.toInt?; let hb ← hb.toInt?
    let aa ← aa.toInt?; let ab' ← ab'.toInt?; let ba ← ba.toInt?; let bb ← bb.toInt?
    let ca ← ca.toInt?; let cb ← cb.toInt?
    let tape ← Proto.natList? tape
    let pk : PubKey (FP2 Int) := ⟨p.toNat, ab p ga gb, ab p ha hb⟩
    match createChallenge (fp2Ops p) pk ⟨ab p aa ab', ab p ba bb, ab p ca cb⟩ tape with
    | none => some "none"
    | some (c, rest) => some s!"{rest.length} {showV c}"
  | ["resp", p, ga, gb, t1, ca, cb] => do
    let p ← p.toInt?; let ga ← ga.toInt?; let gb ← gb.toInt?; let t1 ← t1.toNat?
    let ca ← ca.toInt?; let cb ← cb.toInt?
    let sk : PrivKey (FP2 Int) := { p := p.toNat, g := ab p ga gb, h := ab p 0 0, n := 0, t1 := t1 }
    some (toString (respond (fp2Ops p) sk (ab p ca cb)))
  | ["decode", p, ga, gb, t1, space, ca, cb] => do
    let p ← p.toInt?; let ga ← ga.toInt?; let gb ← gb.toInt?; let t1 ← t1.toNat?
    let space ← Proto.natList? space
    let ca ← ca.toInt?; let cb ← cb.toInt?
    let sk : PrivKey (FP2 Int) := { p := p.toNat, g := ab p ga gb, h := ab p 0 0, n := 0, t1 := t1 }
    match decode (fp2Ops p) sk space (ab p ca cb) with
    | some m => some (toString m)
    | none => some "none"
  | ["enc", p, ga, gb, ha, hb, m, tape] => do
    let p ← p.toInt?; let ga ← ga.toInt?; let gb ← gb.toInt?; let ha ← ha.toInt?; let hb ← hb.toInt?
    let m ← m.toNat?; let tape ← Proto.natList? tape
    let pk : PubKey (FP2 Int) := ⟨p.toNat, ab p ga gb, ab p ha hb⟩
    match encode (fp2Ops p) pk m tape with
    | none => some "none"
    | some (c, rest) => some s!"{rest.length} {showV c}"
  | ["relmap", value, bitspace] => do
    let value ← value.toNat?; let bitspace ← bitspace.toNat?
    let r := binaryRelativity value bitspace
    some s!"{r.c0} {r.c1} {r.c2} {r.c3}"
  | ["agg", rs] => do
    let rs ← Proto.natList? rs
    let r := aggregate rs
    some s!"{r.c0} {r.c1} {r.c2} {r.c3}"
  | ["predict", value, bitspace, perm2, order] => do
    -- responses the model predicts when the challenges at the (shuffled) positions `order` are answered
    let value ← value.toNat?; let bitspace ← bitspace.toNat?
    let perm2 ← Proto.natList? perm2; let order ← Proto.natList? order
    let sums := applyPerm perm2 (pairSums (bitsOf value bitspace))
    let rs := applyPerm order sums
    let r := aggregate rs
    some s!"{Proto.showNatList rs} {r.c0} {r.c1} {r.c2} {r.c3}"
  | ["score", e0, e1, e2, e3, v0, v1, v2, v3] => do
    let e0 ← e0.toNat?; let e1 ← e1.toNat?; let e2 ← e2.toNat?; let e3 ← e3.toNat?
    let v0 ← v0.toNat?; let v1 ← v1.toNat?; let v2 ← v2.toNat?; let v3 ← v3.toNat?
    let e : Rel := ⟨e0, e1, e2, e3⟩
    let v : Rel := ⟨v0, v1, v2, v3⟩
    some s!"{showRat (matchQ e v)} {showRat (certaintyQ e v)}"
  | ["ipack", n] => do
    let n ← n.toNat?
    some (showBytes (ipack n))
  | ["iunpack", hx] => do
    let b ← Proto.ofHex? hx
    match iunpack b with
    | none => some "error"
    | some (n, rest) => some s!"{n} {showBytes rest}"
  | ["keyunser", hx] => do
    let b ← Proto.ofHex? hx
    match KeyInts.unserialize b with
    | none => some "none"
    | some (k, rest) => some s!"{k.p} {k.ga} {k.gb} {k.ha} {k.hb} {showBytes rest}"
  | ["privunser", hx] => do
    let b ← Proto.ofHex? hx
    match privUnserialize b with
    | none => some "none"
    | some (k, n, t1) => some s!"{k.p} {k.ga} {k.gb} {k.ha} {k.hb} {n} {t1}"
  | ["privser", p, ga, gb, ha, hb, n, t1] => do
    let p ← p.toNat?; let ga ← ga.toNat?; let gb ← gb.toNat?; let ha ← ha.toNat?; let hb ← hb.toNat?
    let n ← n.toNat?; let t1 ← t1.toNat?
    some (showBytes (privSerialize ⟨p, ga, gb, ha, hb⟩ n t1))
  | ["attser", p, ga, gb, ha, hb, flat] => do
    let p ← p.toNat?; let ga ← ga.toNat?; let gb ← gb.toNat?; let ha ← ha.toNat?; let hb ← hb.toNat?
    let flat ← Proto.natList? flat
    let rec chunk (fuel : Nat) (l : List Nat) : List (List Nat) :=
      match fuel with
      | 0 => []
      | f + 1 => if l.isEmpty then [] else l.take 6 :: chunk f (l.drop 6)
    some (showBytes (attSerialize ⟨p, ga, gb, ha, hb⟩ (chunk flat.length flat)))
  | ["attunser", hx] => do
    let b ← Proto.ofHex? hx
    match attUnserialize b with
    | none => some "none"
    | some (k, pairs) => some s!"{k.p} {k.ga} {k.gb} {k.ha} {k.hb} {Proto.showNatList pairs.flatten}"
  | ["vrun", n, evs] => do
    -- verifier bookkeeping: events flattened as (kind, id, r, honesty+1)*, kind 0 = response, 1 = time-out
    let n ← n.toNat?
    let flat ← Proto.natList? evs
    let rec mk (fuel : Nat) (l : List Nat) : List VEvent :=
      match fuel, l with
      | f + 1, k :: id :: r :: h :: rest =>
        (if k == 0 then VEvent.response id r (if h == 0 then none else some (h - 1)) else VEvent.timeout id) :: mk f rest
      | _, _ => []
    let showS (s : VState) : String :=
      let pend := ",".intercalate (s.pending.map fun e => s!"{e.1}:{e.2}")
      s!"u={Proto.showNatList s.unanswered};p=[{pend}];r={s.relmap.c0},{s.relmap.c1},{s.relmap.c2},{s.relmap.c3};k={s.completions.length};l={s.liar}"
    let (_, outs) := (mk flat.length flat).foldl (fun (acc : VState × List String) e =>
      let s' := acc.1.step e
      (s', showS s' :: acc.2)) (VState.init n, [showS (VState.init n)])
    some ("|".intercalate outs.reverse)
  | ["reqrun", reqs, evs] => do
    -- issuance bookkeeping: reqs flattened (gt, key)*, events flattened (gt, attestation, seq, nchunks)*
    let rq ← Proto.natList? reqs
    let ev ← Proto.natList? evs
    let rec pairs (fuel : Nat) (l : List Nat) : List (Nat × Nat) :=
      match fuel, l with
      | f + 1, a :: b :: rest => (a, b) :: pairs f rest
      | _, _ => []
    let rec quads (fuel : Nat) (l : List Nat) : List (Nat × Nat × Nat × Nat) :=
      match fuel, l with
      | f + 1, a :: b :: c :: d :: rest => (a, b, c, d) :: quads f rest
      | _, _ => []
    let s := runChunks (pairs rq.length rq) (quads ev.length ev)
    some (Proto.showNatList (s.stored.flatMap fun p => [p.1, p.2]) ++ " " ++ toString s.outstanding.length)
  | ["guard", large, s, t] => do
    let large ← large.toInt?; let s ← s.toInt?; let t ← t.toInt?
    some s!"{verifierAccepts large s} {verifierAccepts large t} {proverAnswersHonestly large s t}"
  | "rcheck" :: rest => do
    let xs ← getInts rest
    rcheck xs
  | "rcreate" :: rest => do
    let xs ← getInts rest
    rcreate xs
  | _ => none

def arithStep (toks : List String) : Option String := do
  match toks with
  | op :: rest =>
    let xs ← getInts rest
    match op, xs with
    | "modinv", [e, m] => some (toString (modinv e m))
    | _, p :: vs =>
      let (v, vs) ← mkV vs
      match op with
      | "inv" => some (showV (invP p v))
      | "norm" => some (showV (normalizeP p v))
      | "wpnum" => some (showV (wpNumP p v))
      | "wpdi" => some (showV (wpDenomInverseP p v))
      | "wpc" => some (match wpCompressP p v with | some r => showV r | none => "none")
      | "pow" => match vs with
        | [k] => some (showV (intpowP p v k))
        | _ => none
      | _ =>
        let (w, _) ← mkV vs
        match op with
        | "add" => some (showV (addP p v w))
        | "sub" => some (showV (subP p v w))
        | "mul" => some (showV (mulP p v w))
        | "div" => some (showV (divP p v w))
        | "eq" => some (toString (eqP p v w))
        | _ => none
    | _, _ => none
  | [] => none

def step (_ : Unit) (toks : List String) : Unit × String :=
  let r : Option String :=
    match protoStep toks with
    | some s => some s
    | none => arithStep toks
  ((), r.getD "bad-op")

def main : IO Unit := Proto.run () step
