/- line-protocol driver for the C03 model (Mathlib-free) -/
import Ipv8.Base.Proto
import Ipv8.C03.Recv
open Ipv8 Ipv8.C03

def lookupFmt (name : String) : Option FmtList := (Gen.payloads.find? (·.1 == name)).map (·.2)

def showErr (e : Err) : String := "err " ++ e.name

def evStr : Ev → String
  | .called l => s!"c{l}"
  | .pub l _ m => s!"p{l}:{m}"
  | .priv l _ m c d => s!"q{l}:{m}:{c}:{Proto.toHex (d.drop 22)}"

def outStr (o : Out) : String :=
  " ".intercalate (o.1.map evStr) ++ " exn=" ++ (match o.2 with | none => "none" | some e => e.name)

def parseDec (s : String) : Option (Nat → Bytes → Dec) :=
  if s == "na" || s == "fail" then some (fun _ _ => .fail)
  else if s == "raise" then some (fun _ _ => .raise)
  else match Proto.splitChar s ':' with
    | ["ok", h] => (Proto.ofHex? h).map (fun m => fun _ _ => .ok m)
    | _ => none

def worstEnv : Env := { pubRaises := fun _ _ _ => true, privRaises := fun _ _ _ _ => true, relayRaises := fun _ _ => true }

def step (r : Registry) (toks : List String) : Registry × String :=
  match toks with
  | ["dec", cls, hex, off] =>
    (r, (do
      let fs ← lookupFmt cls
      let d ← Proto.ofHex? hex
      let o ← off.toNat?
      pure (match unpackListAt fs d o with
        | .ok (vs, e) => s!"ok {e} {renderAll vs}"
        | .error e => showErr e)).getD "bad-op")
  | ["decl", consume, classes, hex, off] =>
    (r, (do
      let fss ← (Proto.splitChar classes ',').mapM lookupFmt
      let d ← Proto.ofHex? hex
      let o ← off.toNat?
      pure (match unpackPayloadsAt fss d o (consume == "1") with
        | .ok (vss, rem) => s!"ok {"|".intercalate (vss.map renderAll)} rem={Proto.toHex rem}"
        | .error e => showErr e)).getD "bad-op")
  | ["snap", hex] =>
    (r, match Proto.ofHex? hex with
      | some d => renderAll (loadSnapshot d)
      | none => "bad-op")
  | ["reset"] => ({}, "ok")
  | ["ov", lid, pfx, pub, priv, tun] =>
    match (do
      let l ← lid.toNat?
      let p ← Proto.ofHex? pfx
      let a ← Proto.natList? pub
      let b ← Proto.natList? priv
      pure ({ r with table := (l, Listener.community { pfx := p, pub := a, priv := b, tunnel := tun == "1" }) :: r.table } : Registry)) with
    | some r' => (r', "ok")
    | none => (r, "bad-op")
  | ["cr", lid, pfx, tl, relays, circuits, exits, mre] =>
    match (do
      let l ← lid.toNat?
      let p ← Proto.ofHex? pfx
      let rl ← Proto.natList? relays
      let ci ← Proto.natList? circuits
      let ex ← Proto.natList? exits
      let m ← mre.toNat?
      let t ← (if tl == "none" then some none else do
        let k ← tl.toNat?
        match lookupListener r.table k with
        | some (.community o) => some (some (k, o))
        | _ => none)
      pure ({ r with table := (l, Listener.crypto { pfx := p, tunnel := t, relays := rl, circuits := ci, exits := ex,
                                                     maxRelayEarly := m }) :: r.table } : Registry)) with
    | some r' => (r', "ok")
    | none => (r, "bad-op")
  | ["inert", lid] =>
    match lid.toNat? with
    | some l => ({ r with table := (l, Listener.inert) :: r.table }, "ok")
    | none => (r, "bad-op")
  | ["add", lid] =>
    match lid.toNat? with
    | some l => (r.addListener l, "ok")
    | none => (r, "bad-op")
  | ["addp", lid, pfx] =>
    match (do
      let l ← lid.toNat?
      let p ← Proto.ofHex? pfx
      pure (r.addPrefixListener l p)) with
    | some (some r') => (r', "ok")
    | some none => (r, "runtimeerror")
    | none => (r, "bad-op")
  | ["rm", lid] =>
    match lid.toNat? with
    | some l => (r.removeListener l, "ok")
    | none => (r, "bad-op")
  | ["open", b] => ({ r with isOpen := b == "1" }, "ok")
  | ["notify", hex, dec] =>
    match Proto.ofHex? hex, parseDec dec with
    | some d, some f => (r, outStr (notify worstEnv f r d))
    | _, _ => (r, "bad-op")
  | ["direct", lid, hex, dec] =>
    match lid.toNat?, Proto.ofHex? hex, parseDec dec with
    | some l, some d, some f => (r, outStr (listenerOnPacket worstEnv f r.table l d))
    | _, _, _ => (r, "bad-op")
  | _ => (r, "bad-op")

def main : IO Unit := Proto.run ({} : Registry) step
