/- line-protocol driver for the C03 model (Mathlib-free) -/
import Ipv8.Base.Proto
import Ipv8.C03.Recv
open Ipv8 Ipv8.C03

def lookupFmt (name : String) : Option FmtList := (Gen.payloads.find? (·.1 == name)).map (·.2)

def showErr (e : Err) : String := "err " ++ e.name

def evStr : Ev → String
  | .called l => s!"c{l}"
  | .sender l p => s!"s{l}:" ++ (match p with | some o => toString o | none => "none")
  | .pub l _ m => s!"p{l}:{m}"
  | .priv l _ m c d => s!"q{l}:{m}:{c}:{Proto.toHex (d.drop 22)}"

def outStr (o : Out) : String :=
  " ".intercalate (o.1.map evStr) ++ " exn=" ++ (match o.2 with | none => "none" | some e => e.name)

def parseDec (s : String) : Option (Nat → Bytes → Dec) :=
  if s == "na" || s == "fail" then some (fun _ _ => .fail)
  else if s == "raise" then some (fun _ _ => .raise)
  else match Proto.splitChar s ':' with
    | ["ok", h] => (Proto.ofHex? h).map (fun m => fun _ _ => .ok m)
    | _ => none

structure St where
  reg : Registry := {}
  net : NetS := {}
  fx : List (Nat × List RegOp) := []

def parseOp (t : String) : Option RegOp :=
  match Proto.splitChar t ':' with
  | ["add", l] => l.toNat?.map RegOp.add
  | ["rm", l] => l.toNat?.map RegOp.rm
  | ["addp", l, h] => do
    let x ← l.toNat?
    let p ← Proto.ofHex? h
    pure (RegOp.addp x p)
  | ["open", b] => some (RegOp.setOpen (b == "1"))
  | _ => none

def worstEnv (fx : List (Nat × List RegOp)) : Env :=
  { pubRaises := fun _ _ _ => true, privRaises := fun _ _ _ _ => true, relayRaises := fun _ _ => true,
    effects := fun l _ => ((fx.find? (·.1 == l)).map (·.2)).getD [] }

/-! branch tags: which branch of the model's definitions an input exercises, computed with the model's own guard functions
    (cellFromBin, cryptoIsCell, deliverCond, lookupPrefix, NetS.*).  The harness counts them and refuses to pass a run in which
    a branch class listed in the design stays at zero. -/

def tagsLookup (n : NetS) (a : Bytes) : List String :=
  let evict := if n.cache.length ≥ n.cap && !(n.cache.any (·.1 == a)) then ["lk:cache-full"] else []
  evict ++ (match (n.cache.find? (·.1 == a)).map (·.2) with
    | some oid =>
      match n.indexGet (n.keyOf oid) with
      | some o' => if o' == oid && n.hasAddr oid a then ["lk:cache-hit-valid"]
                   else if o' != oid then ["lk:cache-stale-other-object"] else ["lk:cache-stale-address"]
      | none => ["lk:cache-stale-key-gone"]
    | none => []) ++
  (match (n.cache.find? (·.1 == a)).map (·.2) with
    | some oid => if (n.indexGet (n.keyOf oid)) == some oid && n.hasAddr oid a then [] else
        [if (n.verified.filter (n.hasAddr · a)).length > 1 then "lk:scan-several" else
         if (n.verified.any (n.hasAddr · a)) then "lk:scan-found" else "lk:scan-none"]
    | none => [if (n.verified.filter (n.hasAddr · a)).length > 1 then "lk:scan-several" else
               if (n.verified.any (n.hasAddr · a)) then "lk:scan-found" else "lk:scan-none"])

def tagsFromCircuit (o : Overlay) (x : Bytes) : List String :=
  if o.pfx != x.take Gen.privTake || x.length < Gen.privMinLen then ["fc:gate-closed"]
  else match x[Gen.privIdx]? with
    | none => ["fc:index-error"]
    | some m => if o.priv.contains m.toNat then ["fc:handler"] else ["fc:no-handler"]

def tagsOnCell (o : Overlay) (data : Bytes) : List String :=
  match cellFromBin data with
  | .error _ => ["oncell:header-short"]
  | .ok c =>
    if c.plaintext then
      match c.message.head? with
      | none => ["oncell:plaintext-empty"]
      | some m0 => if Gen.noCryptoPackets.contains m0.toNat then "oncell:plaintext-create" :: tagsFromCircuit o (cellUnwrap o.pfx c)
                   else ["oncell:plaintext-not-create"]
    else "oncell:encrypted-flag" :: tagsFromCircuit o (cellUnwrap o.pfx c)

def tagsCommunity (o : Overlay) (data : Bytes) : List String :=
  if o.pfx != data.take Gen.pubTake then ["com:foreign-prefix"]
  else if data.length < Gen.pubMinLen then ["com:prefix-only"]
  else match data[Gen.pubIdx]? with
    | none => ["com:index-error"]
    | some m =>
      if o.pub.contains m.toNat then
        (if o.tunnel && m.toNat == Gen.cellMsgId then "com:on_cell" :: tagsOnCell o data else ["com:handler"])
      else ["com:no-handler"]

def tagsTunnelBranch (c : Crypto) (data : Bytes) : List String :=
  match c.tunnel with
  | none => ["cry:no-tunnel-community"]
  | some (_, o) => tagsCommunity o data

def tagsCell (dec : Nat → Bytes → Dec) (c : Crypto) (data : Bytes) : List String :=
  match cellFromBin data with
  | .error _ => ["cell:header-short"]
  | .ok cell =>
    if c.relays.contains cell.cid then ["cell:relay"]
    else
      let known := c.circuits.contains cell.cid || c.exits.contains cell.cid
      if !known && !cell.plaintext then ["cell:unknown-circuit-encrypted"]
      else if c.circuits.contains cell.cid && !c.exits.contains cell.cid && c.hopless.contains cell.cid && !cell.plaintext
        then ["cell:circuit-without-hops"]
      else
        let r : Dec := if cell.plaintext || !known then .ok cell.message else dec cell.cid cell.message
        let how := if cell.plaintext then "cell:plaintext" else if c.exits.contains cell.cid then "cell:exit-decrypt" else "cell:circuit-decrypt"
        how :: (match r with
        | .fail => ["cell:decrypt-failed"]
        | .raise => ["cell:decrypt-raised"]
        | .ok m =>
          match m.head? with
          | none => ["cell:empty-message"]
          | some m0 =>
            if (!cell.relayEarly && m0.toNat == 4) || c.maxRelayEarly == 0 then ["cell:relay-early-rule"]
            else if cell.plaintext && !Gen.noCryptoPackets.contains m0.toNat then ["cell:plaintext-not-create"]
            else "cell:to-tunnel-community" :: tagsTunnelBranch c (cellToBin c.pfx { cell with message := m }))

def tagsListener (dec : Nat → Bytes → Dec) (t : List (Nat × Listener)) (l : Nat) (data : Bytes) : List String :=
  match lookupListener t l with
  | some (.community o) => tagsCommunity o data
  | some (.crypto c) =>
    if c.pfx.isPrefixOf data then
      match cryptoIsCell data with
      | .error _ => ["cry:index-error"]
      | .ok true => "cry:cell" :: tagsCell dec c data
      | .ok false => (if data.length ≤ Gen.cryptoIdx then "cry:prefix-only" else "cry:not-a-cell") :: tagsTunnelBranch c data
    else "cry:foreign-prefix" :: tagsTunnelBranch c data
  | some (.stats tracked) =>
    if !tracked.contains (data.take Gen.statTake) then ["stats:untracked"]
    else if data.length < Gen.statMinLen then ["stats:prefix-only"] else ["stats:counted"]
  | some .inert => ["inert"]
  | none => ["unknown-listener"]

def tagsOp (key : Option Bytes) (attached : Bool) : RegOp → String
  | .add _ => if attached then "fx:add-seen-by-running-loop" else "fx:add-after-detach"
  | .addp _ q => if key == some q then "fx:addp-iterated-prefix" else "fx:addp-other-prefix"
  | .rm _ => "fx:rm"
  | .setOpen b => if b then "fx:open" else "fx:close"

def tagsNotify (st : St) (dec : Nat → Bytes → Dec) (src data : Bytes) : List String :=
  let r := st.reg
  let key := iterKey r data
  let head := [if key.isSome then "iter:prefix-list" else "iter:global-list",
               if r.isOpen then "ep:open" else "ep:closed"]
  let per := (recipients r data).flatMap fun l =>
    if !r.isOpen then ["deliver:closed"]
    else if !(deliverCond r l data) then ["deliver:no-longer-registered"]
    else
      (if key.isSome then "deliver:prefix-registered" else "deliver:global") ::
      (tagsListener dec r.table l data ++
       (((st.fx.find? (·.1 == l)).map (·.2)).getD []).map (tagsOp key true))
  let lk := if per.any (fun t => t.startsWith "com:" ) then tagsLookup st.net src else []
  head ++ per ++ lk

def regStep (r : Registry) (toks : List String) : Registry × String :=
  match toks with
  | ["ov", lid, pfx, pub, priv, tun] =>
    match (do
      let l ← lid.toNat?
      let p ← Proto.ofHex? pfx
      let a ← Proto.natList? pub
      let b ← Proto.natList? priv
      pure ({ r with table := (l, Listener.community { pfx := p, pub := a, priv := b, tunnel := tun == "1" }) :: r.table } : Registry)) with
    | some r' => (r', "ok")
    | none => (r, "bad-op")
  | ["st", lid, prefixes] =>
    match (do
      let l ← lid.toNat?
      let ps ← (if prefixes == "-" then some [] else (Proto.splitChar prefixes ',').mapM Proto.ofHex?)
      pure ({ r with table := (l, Listener.stats ps) :: r.table } : Registry)) with
    | some r' => (r', "ok")
    | none => (r, "bad-op")
  | ["cr", lid, pfx, tl, relays, circuits, exits, mre, hopless] =>
    match (do
      let hl ← Proto.natList? hopless
      let l ← lid.toNat?
      let p ← Proto.ofHex? pfx
      let rl ← Proto.natList? relays
      let ci ← Proto.natList? circuits
      let ex ← Proto.natList? exits
      let m ← mre.toNat?
      let t ← (if tl == "none" then some none else do
        let k ← tl.toNat?
        match lookupListener r.table k with
        | some (.community o) => some (some (k, o))
        | _ => none)
      pure ({ r with table := (l, Listener.crypto { pfx := p, tunnel := t, relays := rl, circuits := ci, exits := ex,
                                                     maxRelayEarly := m, hopless := hl }) :: r.table } : Registry)) with
    | some r' => (r', "ok")
    | none => (r, "bad-op")
  | ["inert", lid] =>
    match lid.toNat? with
    | some l => ({ r with table := (l, Listener.inert) :: r.table }, "ok")
    | none => (r, "bad-op")
  | ["add", lid] =>
    match lid.toNat? with
    | some l => (r.addListener l, "ok")
    | none => (r, "bad-op")
  | ["addp", lid, pfx] =>
    match (do
      let l ← lid.toNat?
      let p ← Proto.ofHex? pfx
      pure (r.addPrefixListener l p)) with
    | some (some r') => (r', "ok")
    | some none => (r, "runtimeerror")
    | none => (r, "bad-op")
  | ["rm", lid] =>
    match lid.toNat? with
    | some l => (r.removeListener l, "ok")
    | none => (r, "bad-op")
  | ["open", b] => ({ r with isOpen := b == "1" }, "ok")
  | _ => (r, "bad-op")

def netStep (n : NetS) (toks : List String) : Option NetS :=
  match toks with
  | ["new", oid, key, a] => do
    let o ← oid.toNat?
    let k ← key.toNat?
    let b ← Proto.ofHex? a
    pure (n.newObj o k b)
  | ["addv", oid] => oid.toNat?.map n.addVerified
  | ["rmp", oid] => oid.toNat?.map n.removePeer
  | ["rma", a] => (Proto.ofHex? a).map n.removeByAddress
  | ["seta", oid, a] => do
    let o ← oid.toNat?
    let b ← Proto.ofHex? a
    pure (n.setAddr o b)
  | ["cap", c] => c.toNat?.map fun k => { n with cap := k }
  | ["hints", l] => (Proto.natList? l).map fun hs => { n with hints := hs }
  | _ => none

def step (st : St) (toks : List String) : St × String :=
  match toks with
  | ["dec", cls, hex, off] =>
    (st, (do
      let fs ← lookupFmt cls
      let d ← Proto.ofHex? hex
      let o ← off.toNat?
      pure (match unpackListAt fs d o with
        | .ok (vs, e) => s!"ok {e} {renderAll vs}"
        | .error e => showErr e)).getD "bad-op")
  | ["decl", consume, classes, hex, off] =>
    (st, (do
      let fss ← (Proto.splitChar classes ',').mapM lookupFmt
      let d ← Proto.ofHex? hex
      let o ← off.toNat?
      pure (match unpackPayloadsAt fss d o (consume == "1") with
        | .ok (vss, rem) => s!"ok {"|".intercalate (vss.map renderAll)} rem={Proto.toHex rem}"
        | .error e => showErr e)).getD "bad-op")
  | ["snap", hex] =>
    (st, match Proto.ofHex? hex with
      | some d => (match loadSnapshot d with
                   | .ok l => renderAll l
                   | .error e => "exn=" ++ e.name)
      | none => "bad-op")
  | ["exit", bt, v8, pfx, hex] =>
    (st, match Proto.ofHex? pfx, Proto.ofHex? hex with
      | some p, some d =>
        let chk := s!"utp={match couldBeUtp d with | .ok b => toString b | .error _ => "exn"} " ++
                   s!"trk={match couldBeTracker d with | .ok b => toString b | .error _ => "exn"} " ++
                   s!"dht={couldBeDht d} v8={couldBeIpv8 d} "
        chk ++ (match exitDatagramReceived { exitBT := bt == "1", exitIPv8 := v8 == "1", pfx := p } true d with
          | .ok .tunneled => "tunneled"
          | .ok .dropped => "dropped"
          | .error e => "exn=" ++ e.name)
      | _, _ => "bad-op")
  | ["bcast", lid, hdr, src, hex] =>
    (st, match lid.toNat?, Proto.ofHex? hdr, Proto.ofHex? src, Proto.ofHex? hex with
      | some l, some h, some a, some d =>
        (match lookupListener st.reg.table l with
         | some (.community o) => outStr (bcastDatagramReceived (worstEnv st.fx) (st.net.lookup a).1 h false l o d)
         | _ => "bad-op")
      | _, _, _, _ => "bad-op")
  | ["exitentry", v6, mapped, arity] =>
    (st, match arity.toNat? with
      | some ar => (match exitEntry { exitBT := true, exitIPv8 := true, pfx := [] } false (v6 == "1") (mapped == "1") ar [] with
                    | .ok _ => "ok" | .error e => "exn=" ++ e.name)
      | none => "bad-op")
  | ["cellhdr", hex] =>
    (st, match Proto.ofHex? hex with
      | some d => (match cellFromBin d with
                   | .ok c => s!"ok {c.cid} {c.plaintext} {c.relayEarly} {Proto.toHex c.message}"
                   | .error e => "exn=" ++ e.name)
      | none => "bad-op")
  | ["reset"] => ({}, "ok")
  | "net" :: rest =>
    match netStep st.net rest with
    | some n => ({ st with net := n }, "ok")
    | none => (st, "bad-op")
  | ["fx", lid, ops] =>
    match lid.toNat?, (if ops == "-" then some [] else (Proto.splitChar ops ',').mapM parseOp) with
    | some l, some os => ({ st with fx := (l, os) :: st.fx.filter (·.1 != l) }, "ok")
    | _, _ => (st, "bad-op")
  | ["dgram", running, v6, arity, src, hex, dec] =>
    match arity.toNat?, Proto.ofHex? src, Proto.ofHex? hex, parseDec dec with
    | some ar, some a, some d, some f =>
      let o := datagramReceived (worstEnv st.fx) f 100000 (running == "1") (v6 == "1") ar st.reg st.net a d
      (st, outStr o)
    | _, _, _, _ => (st, "bad-op")
  | ["notify", src, hex, dec] =>
    match Proto.ofHex? src, Proto.ofHex? hex, parseDec dec with
    | some a, some d, some f =>
      let r := notify (worstEnv st.fx) f 100000 st.reg st.net a d
      ({ st with reg := r.2.reg, net := r.2.net }, outStr r.1 ++ " | " ++ ",".intercalate (tagsNotify st f a d))
    | _, _, _ => (st, "bad-op")
  | _ =>
    let (r', reply) := regStep st.reg toks
    ({ st with reg := r' }, reply)

def main : IO Unit := Proto.run ({} : St) step
