import Ipv8.C12.Lemmas
namespace Ipv8.C12

theorem addMissing_akeys (all : List (Addr × WAddr)) (l : List Addr) (a : Addr) :
    a ∈ akeys (addMissing all l) ↔ a ∈ akeys all ∨ a ∈ l := by
  induction l generalizing all with
  | nil => simp [addMissing]
  | cons x t ih =>
    simp only [addMissing, ih, List.mem_cons]
    split
    · rename_i hx
      have : x ∈ akeys all := aget_isSome_iff.1 hx
      constructor
      · rintro (h | h)
        · exact Or.inl h
        · exact Or.inr (Or.inr h)
      · rintro (h | rfl | h)
        · exact Or.inl h
        · exact Or.inl this
        · exact Or.inr h
    · rw [mem_akeys_aset]; tauto

def Op.isLoad : Op → Bool
  | .load _ => true
  | _ => false

theorem addVerified_blAddr (g : Graph) (p : Peer) : (g.addVerified p).blAddr = g.blAddr := by
  unfold Graph.addVerified
  split; · rfl
  split; · rfl
  split; · rfl
  split <;> rfl

theorem addVerified_unknown (g : Graph) (p : Peer) (a : Addr) (hb : a ∈ g.blAddr) (hk : a ∉ akeys g.allAddr) :
    a ∉ akeys (g.addVerified p).allAddr := by
  unfold Graph.addVerified
  split; · exact hk
  split; · exact hk
  split; · exact hk
  split
  · rename_i hall
    simp only [List.all_eq_true, Bool.not_eq_true', decide_eq_false_iff_not] at hall
    show a ∉ akeys (addMissing g.allAddr p.addrList)
    rw [addMissing_akeys]
    rintro (h | h)
    · exact hk h
    · exact hall a h hb
  · exact hk

theorem step_blAddr (g : Graph) (op : Op) (a : Addr) (hl : op.isLoad = false) (hb : a ∈ g.blAddr)
    (hk : a ∉ akeys g.allAddr) : a ∈ (g.step op).blAddr ∧ a ∉ akeys (g.step op).allAddr := by
  cases op with
  | add p => exact ⟨by rw [Graph.step, addVerified_blAddr]; exact hb, addVerified_unknown g p a hb hk⟩
  | disc p x svc ns =>
    simp only [Graph.step, Graph.discoverAddress]
    split
    · exact ⟨by rw [addVerified_blAddr]; exact hb, addVerified_unknown g p a hb hk⟩
    · rename_i hx
      split
      · refine ⟨by rw [addVerified_blAddr]; exact hb, addVerified_unknown _ p a hb ?_⟩
        show a ∉ akeys (aset x _ g.allAddr)
        rw [mem_akeys_aset]
        rintro (h | h)
        · exact hk h
        · exact hx (h ▸ hb)
      · exact ⟨by rw [addVerified_blAddr]; exact hb, addVerified_unknown g p a hb hk⟩
  | svcs p l => exact ⟨hb, hk⟩
  | rmPeer p =>
    refine ⟨hb, fun h => hk ?_⟩
    simp only [Graph.step, Graph.removePeer, akeys, List.mem_map, List.mem_filter] at h ⊢
    obtain ⟨e, ⟨he, _⟩, rfl⟩ := h; exact ⟨e, he, rfl⟩
  | rmAddr x =>
    refine ⟨hb, fun h => hk ?_⟩
    simp only [Graph.step, Graph.removeByAddress, adel, akeys, List.mem_map, List.mem_filter] at h ⊢
    obtain ⟨e, ⟨he, _⟩, rfl⟩ := h; exact ⟨e, he, rfl⟩
  | blAddr x => exact ⟨by simp [Graph.step, hb], hk⟩
  | blMid k' => exact ⟨hb, hk⟩
  | load d => simp [Op.isLoad] at hl
  | qAddr x hint => exact ⟨hb, hk⟩
  | qKey k => exact ⟨hb, hk⟩
  | qSvc sv => exact ⟨hb, hk⟩
  | qWalk svc o => exact ⟨hb, hk⟩
  | qIntro k => exact ⟨hb, hk⟩

theorem run_blAddr (g : Graph) (ops : List Op) (a : Addr) (hl : ∀ op ∈ ops, op.isLoad = false) (hb : a ∈ g.blAddr)
    (hk : a ∉ akeys g.allAddr) : a ∉ akeys (g.run ops).allAddr := by
  induction ops generalizing g with
  | nil => exact hk
  | cons op t ih =>
    have := step_blAddr g op a (hl op (List.mem_cons_self ..)) hb hk
    exact ih (g.step op) (fun o ho => hl o (List.mem_cons_of_mem _ ho)) this.1 this.2

end Ipv8.C12
