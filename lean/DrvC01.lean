/- line-protocol driver for the C01 model (Mathlib-free).

   keyfield <data>                                  -> <keybytes> | err
   query <data> <n>                                 -> <message> <signature> <remainder> | err
        (the slices the GENERATED _verify_signature hands to the signature check when the key's signature length is n)
   recv <overlay> <data> <parse> <verify> <decode> <net> <netaddr>
        parse  = none | <n>:<canonical key hex>      answer of the real key parser on the model's key field
        verify = 0|1                                 answer of the real verifier on the model's (message, signature)
        decode = bits, one per decode attempt        answer of the real payload decoder on the model's remainder
        net    = - | <canonical key hex>             verified_by_public_key_bin.get(key field)
        netaddr= - | <canonical key hex>             key of get_verified_by_address(source address)
     -> dropped-prefix | dropped-short | no-handler | other <kind> | stuck
      | called <peer key> <wd 0|1> <payload bytes> | called-addr <wd 0|1> | rejected <stage>
        each optionally followed by ` touched=<key>`: the stored Peer whose address book the wrapper updated
   pack <prefix> <msgid> <pub> <body> <signature>   -> <datagram>     (Gen.ezrPack with a signer that returns <signature>)
   slice <data> <lo|-> <hi|->                       -> <data[lo:hi]>                 (pySlice)
   varlen <strict 0|1> <data> <offset>              -> <field> <end offset> | err   (unpackVarlenH)
   hist-reset                                       -> ok
   hist <overlay> <data> <parse> <verify> <decode>  -> verified <sorted keys>   (stateful: Node.recv on the driver's Node, all
                                                       overlays share its key index; adds = introduction handlers + raw)
-/
import Ipv8.Base.Proto
import Ipv8.C01.Gen
open Ipv8 Ipv8.C01

def stageName : Stage → String
  | .keyField => "keyfield" | .keyParse => "keyparse" | .decode => "decode" | .signature => "signature"

def kindName : Kind → String
  | .signed => "signed" | .signedWd => "signedWd" | .unsigned => "unsigned" | .unsignedWd => "unsignedWd"
  | .deprecated => "deprecated" | .cell => "cell" | .cellDirect => "cellDirect" | .raw => "raw"
  | .rawOther => "rawOther"

def showOutcome : Outcome Bytes → String
  | .called k p wd => s!"called {Proto.toHex k} {if wd.isSome then 1 else 0} {Proto.toHex p}"
  | .calledAddr _ wd => s!"called-addr {if wd.isSome then 1 else 0}"
  | .returned k _ => s!"returned {Proto.toHex k}"
  | .rejected st => s!"rejected {stageName st}"
  | .stuck => "stuck"

/-- the stored Peer the wrapper of handler `h` touches for this datagram (model: `touchedBy`) -/
def touchedFor (_o : Overlay) (E : Env Bytes) (data : Bytes) (h : Handler) : Option Bytes :=
  match h.kind with
  | .signed => touchedBy E Gen.progs.signed data
  | .signedWd => touchedBy E Gen.progs.signedWd data
  | _ => none

def parseAnswer (s : String) : Option (Option (Nat × Bytes)) :=
  if s == "none" then some none else
  match Proto.splitChar s ':' with
  | [n, k] => do
    let n ← n.toNat?
    let k ← Proto.ofHex? k
    pure (some (n, k))
  | _ => none

def bitAt (s : String) (i : Nat) : Bool := (s.toList.getD i '0') == '1'

def mkEnv (data : Bytes) (parse : Option (Nat × Bytes)) (verify : Bool) (dec decAlt : Bool) (net : Option Bytes)
    (netAddr : Option Bytes) : Env Bytes :=
  let kf := keyField Gen.strictVarlen data
  { S := { parse := fun b => if some b == kf then parse.map (·.2) else none,
           sigLen := fun _ => (parse.map (·.1)).getD 0,
           verify := fun _ _ _ => verify },
    strict := Gen.strictVarlen,
    verifySig := Gen.verifySignature,
    decode := fun buf off => if dec then some (buf.drop off) else none,
    decodeAlt := fun buf off => if decAlt then some (buf.drop off) else none,
    net := fun b => if some b == kf then net else none,
    netAddr := netAddr }

def recv (ovName : String) (data : Bytes) (parse : Option (Nat × Bytes)) (verify : Bool) (dec : String)
    (net netAddr : Option Bytes) : String :=
  match findOverlay Gen.overlays ovName with
  | none => "unknown-overlay"
  | some o =>
    -- the function the theorems are about, nothing else: `onPacket` with the generated programs and offsets
    let E := mkEnv data parse verify (bitAt dec 0) (bitAt dec 1) net netAddr
    match onPacket Gen.progs o (fun _ => E) Gen.prefixLen Gen.msgIdOffset data with
    | .droppedPrefix => "dropped-prefix"
    | .droppedShort => "dropped-short"
    | .noHandler => "no-handler"
    | .handler h out =>
      let t := match touchedFor o E data h with | some k => " touched=" ++ Proto.toHex k | none => ""
      showOutcome out ++ t
    | .other h => s!"other {kindName h.kind}"

def constSigner (pub sig : Bytes) : Signer :=
  { parse := fun b => some b, sigLen := fun _ => sig.length, verify := fun _ _ _ => true,
    SK := Unit, pub := fun _ => pub, sign := fun _ _ => sig }

/-- which handlers hand their Peer to `add_verified_peer`: the introduction request / response handlers of every
    overlay (old and new style) and the raw discovery handler — the `adds` parameter of `Node.recv` for the shipped code -/
def addsPeer (h : Handler) : Bool := h.msgId == 245 || h.msgId == 246 || h.msgId == 233 || h.msgId == 234

def showKeys (n : Node) : String :=
  let ks := (n.verified.map Proto.toHex).toArray.qsort (· < ·)
  "verified " ++ " ".intercalate ks.toList

def step (st : Node) (toks : List String) : Node × String :=
  match toks with
  | ["hist-reset"] => ({}, "ok")
  | ["hist", ov, d, p, v, dec] =>
    -- one step of `Node.recv` (the function `history_sound` is about) on the node state kept by this driver
    let r : Option Node := do
      let d ← Proto.ofHex? d
      let p ← parseAnswer p
      let o ← findOverlay Gen.overlays ov
      let E := mkEnv d p (v == "1") (bitAt dec 0) (bitAt dec 1) none none
      pure (Node.recv Gen.progs (fun _ => E) addsPeer st o d)
    match r with
    | some st' => (st', showKeys st')
    | none => (st, "bad-op")
  | _ =>
  let r : Option String :=
    match toks with
    | ["keyfield", d] => do
      let d ← Proto.ofHex? d
      pure (match keyField Gen.strictVarlen d with | some k => Proto.toHex k | none => "err")
    | ["query", d, n] => do
      let d ← Proto.ofHex? d
      let n ← n.toNat?
      pure (match keyField Gen.strictVarlen d with
        | some kb =>
          let (m, s, r) := Gen.verifyQuery n kb d
          s!"{Proto.toHex m} {Proto.toHex s} {Proto.toHex r}"
        | none => "err")
    | ["recv", ov, d, p, v, dec, net, na] => do
      let d ← Proto.ofHex? d
      let p ← parseAnswer p
      let net ← if net == "-" then some none else (Proto.ofHex? net).map some
      let na ← if na == "-" then some none else (Proto.ofHex? na).map some
      pure (recv ov d p (v == "1") dec net na)
    | ["slice", d, lo, hi] => do
      -- the hand-written Python-slice model against CPython itself: d[lo:hi], "-" = bound omitted
      let d ← Proto.ofHex? d
      let lo ← if lo == "-" then some none else lo.toInt?.map some
      let hi ← if hi == "-" then some none else hi.toInt?.map some
      pure (Proto.toHex (pySlice d lo hi))
    | ["varlen", strict, d, off] => do
      -- the hand-written varlenH unpacker against the live packer
      let d ← Proto.ofHex? d
      let off ← off.toNat?
      pure (match unpackVarlenH (strict == "1") d off with
        | some (k, e) => s!"{Proto.toHex k} {e}"
        | none => "err")
    | ["pack", pfx, m, pub, body, sig] => do
      let pfx ← Proto.ofHex? pfx
      let m ← m.toNat?
      let pub ← Proto.ofHex? pub
      let body ← Proto.ofHex? body
      let sig ← Proto.ofHex? sig
      let S := constSigner pub sig
      pure (Proto.toHex (Gen.ezrPack S () pfx (UInt8.ofNat m) body true))
    | _ => none
  (st, r.getD "bad-op")

def main : IO Unit := Proto.run ({} : Node) step
