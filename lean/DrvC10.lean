/- line-protocol driver for the C10 model (Mathlib-free) -/
import Ipv8.Base.Proto
import Ipv8.C10.Model
import Ipv8.C10.AsyncTask
open Ipv8 Ipv8.C10

def optNat? (s : String) : Option (Option Nat) :=
  if s == "-" then some none else (s.toNat?).map some

def boolList? (s : String) : Option (List Bool) := do
  let l ← Proto.natList? s
  pure (l.map (fun x => x != 0))

def optNatList? (s : String) : Option (Option (List Nat)) :=
  if s == "-" then some none else (Proto.natList? s).map some

def parseEv : List String → Option Ev
  | ["tick", t] => do pure (.tick (← t.toNat?))
  | ["mk", p, n, d, cls, ks] => do
    pure (.mk (← p.toNat?) (← n.toNat?) (← optNat? d) (← cls.toNat?) (← boolList? ks))
  | ["mkr", p, cands, d, cls, ks] => do
    pure (.mkRandom (← p.toNat?) (← Proto.natList? cands) (← optNat? d) (← cls.toNat?) (← boolList? ks))
  | ["add", c] => do pure (.add (← c.toNat?))
  | ["pop", p, n] => do pure (.pop (← p.toNat?) (← n.toNat?))
  | ["get", p, n] => do pure (.get (← p.toNat?) (← n.toNat?))
  | ["enter", t, fs] => do pure (.enter (← t.toNat?) (← optNatList? fs))
  | ["exit"] => some .exit
  | ["fb", c] => do pure (.fireBegin (← c.toNat?))
  | ["fe"] => some .fireEnd
  | ["fa"] => some .fireAbort
  | ["clear"] => some .clear
  | ["shutdown"] => some .shutdown
  | ["tmshutdown"] => some .tmShutdown
  | ["fset", c, i] => do pure (.futSet (← c.toNat?) (← i.toNat?))
  | ["fcancel", c, i] => do pure (.futCancel (← c.toNat?) (← i.toNat?))
  | ["regfut", c, k] => do pure (.regFut (← c.toNat?) ((← k.toNat?) != 0))
  | _ => none

def showReply : Reply → String
  | .okMk c n => s!"mk {c} {n}"
  | .inUse => "inuse"
  | .raised => "raised"
  | .assertFail => "assert"
  | .added c => s!"added {c}"
  | .dup => "dup"
  | .droppedShutdown => "dropped-shutdown"
  | .claimed c => s!"claimed {c}"
  | .keyError => "keyerror"
  | .got none => "got none"
  | .got (some c) => s!"got {c}"
  | .timedOut c => s!"timeout {c}"
  | .fired c => s!"fired {c}"
  | .aborted c => s!"aborted {c}"
  | .overdue l => "overdue=" ++ Proto.showNatList l
  | .done => "done"
  | .refused => "refused"

def insSorted (e : Ident × Nat) : List (Ident × Nat) → List (Ident × Nat)
  | [] => [e]
  | x :: r =>
    if e.1.1 < x.1.1 || (e.1.1 == x.1.1 && e.1.2 ≤ x.1.2) then e :: x :: r else x :: insSorted e r

def futChar (f : Fut) : Char :=
  match f.st with
  | .pending => 'P' | .result => 'R' | .exception => 'E' | .extSet => 'X' | .cancelled => 'C'

def digest (s : St) : String :=
  let ids := (s.ids.foldr insSorted []).map (fun e => s!"{e.1.1}:{e.1.2}={e.2}")
  let cs := List.range s.n
  let act := (cs.filter (fun c => active s c)).map toString
  let futs := cs.map (fun c => s!"{c}:" ++ String.ofList ((s.caches c).futs.map futChar))
  "ids=" ++ Proto.showStrList ids ++ " act=" ++ Proto.showStrList act ++ " futs=" ++ Proto.showStrList futs

/-- a line starting with the token `~` is answered without the digest (the harness observed that event too late
    to take a consistent snapshot, e.g. the end of `_on_timeout` noticed from inside the next on_timeout) -/
def phaseName : AsyncTask.Phase → String
  | .created => "created" | .sleeping => "sleeping" | .woken => "woken" | .running => "running"
  | .finished => "finished" | .cancelled => "cancelled"

/-- `atask <delayed> <phase>`: bring one timeout Task of AsyncTask.lean into the given phase, call cancel(), let the
    loop run it to the end; reply = how often the body was entered and how the Task ended (compared with the real
    asyncio.Task the harness cancelled in that phase) -/
def atask (delayed : Bool) (phase : String) (ending : AsyncTask.Ev := .bodyEnd) : Option String :=
  let pre : Option (List AsyncTask.Ev) :=
    match phase, delayed with
    | "created", _ => some []
    | "sleeping", true => some [.step]
    | "woken", true => some [.step, .timer]
    | "running", true => some [.step, .timer, .step]
    | "running", false => some [.step]
    | _, _ => none
  pre.map fun p =>
    let t := AsyncTask.run { delayed := delayed } (p ++ [.cancel, .step, .step, ending, .step])
    s!"body={t.bodyRuns} end={phaseName t.phase}"

def stepLine (s : St) (toks : List String) : St × String :=
  match toks with
  | ["reset"] => (init, "reset")
  | ["atask", d, ph] => (s, (atask (d != "0") ph).getD "bad-op")
  | ["atask", d, ph, "raise"] => (s, (atask (d != "0") ph .bodyRaise).getD "bad-op")
  | ["atask", d, ph, "raisec"] => (s, (atask (d != "0") ph .bodyCancelled).getD "bad-op")
  | "~" :: rest =>
    match parseEv rest with
    | none => (s, "bad-op")
    | some e => let r := step s e; (r.1, showReply r.2)
  | _ =>
    match parseEv toks with
    | none => (s, "bad-op")
    | some e =>
      let r := step s e
      match e with
      | .tick _ => (r.1, showReply r.2)      -- no digest: the harness may observe a tick from inside on_timeout
      | _ => (r.1, showReply r.2 ++ " | " ++ digest r.1)

def main : IO Unit := Proto.run init stepLine
