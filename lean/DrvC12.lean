/- line-protocol driver for the C12 model (Mathlib-free) -/
import Ipv8.Base.Proto
import Ipv8.C12.Model
open Ipv8 Ipv8.C12

/-- "<kind>.<hex>.<port>[~<class>]": the class of the argument object is irrelevant (Python compares address tuples by
    value) and dropped -/
def parseAddr (tok0 : String) : Option Addr :=
  let tok := (Proto.splitChar tok0 '~').headD tok0
  match Proto.splitChar tok '.' with
  | [k, h, p] => do
    let kind ← k.toNat?
    let host ← Proto.ofHex? h
    let port ← p.toNat?
    pure ⟨kind, host, port⟩
  | _ => none

def showAddr (a : Addr) : String :=
  s!"{a.kind}.{Proto.toHex a.host}.{a.port}"

/-- "p3" → 3, "s2" → 2 -/
def parseTagged (c : Char) (tok : String) : Option Nat :=
  match tok.toList with
  | x :: rest => if x == c then (String.ofList rest).toNat? else none
  | [] => none

def dropPrefix (c : Char) (s : String) : String × Bool :=
  match s.toList with
  | x :: rest => if x == c then (String.ofList rest, true) else (s, false)
  | [] => (s, false)

/-- "[@]p1:[^]0=<addr>,2=<addr>": '@' (the stored object is passed) is irrelevant for the model, '^' marks the
    address given to the Peer constructor -/
def parsePeer (tok0 : String) : Option Peer :=
  let tok := (dropPrefix '@' tok0).1
  match Proto.splitChar tok ':' with
  | [k, rest] => do
    let key ← parseTagged 'p' k
    if rest == "-" then pure { key := key, addrs := [] }
    else
      let items ← (Proto.splitChar rest ',').mapM (fun it0 =>
        let (it, isCtor) := dropPrefix '^' it0
        match Proto.splitChar it '=' with
        | [s, a] => do
          let slot ← s.toNat?
          let addr ← parseAddr a
          pure ((slot, addr), isCtor)
        | _ => none)
      let ctor := (items.find? (·.2)).map (·.1.2)
      pure { key := key, addrs := items.map (·.1), ctor := ctor }
  | _ => none

def insertBy {α : Type} (le : α → α → Bool) (x : α) : List α → List α
  | [] => [x]
  | y :: t => if le x y then x :: y :: t else y :: insertBy le x t

def sortBy {α : Type} (le : α → α → Bool) (l : List α) : List α := l.foldr (insertBy le) []

def showPeer (p : Peer) : String :=
  let items := (sortBy (fun (a b : Nat × Addr) => a.1 ≤ b.1) p.addrs).map (fun sa => s!"{sa.1}={showAddr sa.2}")
  "p" ++ toString p.key ++ "{" ++ ",".intercalate items ++ "}"

/-- sorted, duplicates kept (answers are compared as multisets) -/
def showSet (l : List String) : String :=
  Proto.showStrList (sortBy (fun a b => !(b < a)) l)

def showOptPeer : Option Peer → String
  | some p => showPeer p
  | none => "none"

def parseOptSvc (tok : String) : Option (Option Svc) :=
  if tok == "-" then some none else (parseTagged 's' tok).map some

def drvStep (s : Net) (toks : List String) : Net × String :=
  let r : Option (Net × String) :=
    match toks with
    | ["reset"] => some ({}, "ok")
    | ["caps", a, b, c] => do
      let a ← a.toNat?
      let b ← b.toNat?
      let c ← c.toNat?
      pure ({ s with ipCap := a, introCap := b, svcCap := c }, "ok")
    | ["add", p] => do
      let p ← parsePeer p
      pure (step s (.add p), "ok")
    | ["disc", p, a, sv, ns] => do
      let p ← parsePeer p
      let a ← parseAddr a
      let sv ← parseOptSvc sv
      pure (step s (.disc p a sv (ns == "1")), "ok")
    | ["svcs", p, l] => do
      let p ← parsePeer p
      let items ← Proto.listItems? l
      let l ← items.mapM (parseTagged 's')
      pure (step s (.svcs p l), "ok")
    | ["rmp", p] => do
      let p ← parsePeer p
      pure (step s (.rmPeer p), "ok")
    | ["rma", a] => do
      let a ← parseAddr a
      pure (step s (.rmAddr a), "ok")
    | ["bla", a] => do
      let a ← parseAddr a
      pure (step s (.blAddr a), "ok")
    | ["blm", k] => do
      let k ← parseTagged 'p' k
      pure (step s (.blMid k), "ok")
    | ["set", k, slot, a] => do
      let k ← parseTagged 'p' k
      let slot ← slot.toNat?
      let a ← parseAddr a
      pure (step s (.setAddr k slot a), "ok")
    | ["load", h] => do
      let d ← Proto.ofHex? h
      pure (step s (.load d), "ok")
    | ["qa", a, h] => do
      let a ← parseAddr a
      let hint := parseTagged 'p' h
      let (r, s') := s.getByAddr a hint
      pure (s', showOptPeer r)
    | ["qk", k] => do
      let k ← parseTagged 'p' k
      pure (s, showOptPeer (s.getByKey k))
    | ["qs", sv] => do
      let sv ← parseTagged 's' sv
      let (r, s') := s.peersForService sv
      pure (s', showSet (r.map showPeer))
    | ["qw", sv, o] => do
      let sv ← parseOptSvc sv
      let (r, s') := s.walkable sv (o == "1")
      pure (s', showSet (r.map showAddr))
    | ["qi", k] => do
      let k ← parseTagged 'p' k
      let (r, s') := s.introsFrom k
      pure (s', showSet (r.map showAddr))
    | ["qsp", k] => do
      let k ← parseTagged 'p' k
      pure (s, showSet ((s.servicesFor k).map (fun sv => s!"s{sv}")))
    | ["qn", a] => do
      let a ← parseAddr a
      pure (s, if s.isNewStyle a then "1" else "0")
    | ["snap"] =>
      some (s, Proto.showStrList (sortBy (fun a b => !(b < a)) (s.g.snapshotAddrs.map (fun a => Proto.toHex (encodeAddr a)))))
    | ["caches"] =>
      some (s, s!"ip={s.ipCache.length}/{s.ipCap} intro={s.introCache.length}/{s.introCap} svc={s.svcCache.length}/{s.svcCap}")
    | _ => none
  r.getD (s, "bad-op")

def main : IO Unit := Proto.run ({} : Net) drvStep
