/- line-protocol driver for the C15 model (Mathlib-free) -/
import Ipv8.Base.Proto
import Ipv8.C15.Model
import Ipv8.C15.Wire
open Ipv8 Ipv8.C15 Ipv8.Proto

/-- driver tokens: `none` is any byte string this node never issued -/
abbrev DTok := Option (Nat × Nat × Nat)

def toySig (pk d v : Nat) : Nat := ((pk * 1048576 + d) * 8589934592 + v) * 2 + 1

def drvCrypto : Crypto DTok :=
  { tokenHash := fun a m s => some (a, m, s), verify := fun pk d v sig => sig == toySig pk d v }

structure DState where
  node : Node
  issued : Array DTok
  sto : Storage

def parseBlob (s : String) : Option Blob := do
  let parts := splitChar s ':'
  match parts with
  | uid :: len :: hid :: kind :: rest =>
    let uid ← uid.toNat?
    let len ← len.toNat?
    let hid ← hid.toNat?
    let wire ← match kind, rest with
      | "s", [d] => do pure (Wire.str (← d.toNat?))
      | "g", [d, v, pk, pkh, sig] => do
        pure (Wire.signed (← d.toNat?) (← v.toNat?) (← pk.toNat?) (← pkh.toNat?) (← sig.toNat?))
      | "u", [] => some Wire.unknown
      | "m", [] => some Wire.malformed
      | _, _ => none
    pure { uid := uid, len := len, hid := hid, wire := wire }
  | _ => none

def parseTok (st : DState) (s : String) : Option DTok :=
  if s == "j" then some none
  else match s.toList with
    | 'r' :: rest => do
      let i ← (String.ofList rest).toNat?
      st.issued[i]?
    | _ => none

def showPP (l : List (Nat × Option Nat)) : String :=
  showStrList (l.map (fun e => toString e.1 ++ ":" ++ (match e.2 with | some pk => toString pk | none => "-")))

def parseLimit (s : String) : Option (Option Nat) :=
  if s == "none" then some none else s.toNat?.map some

def step (st : DState) (toks : List String) : DState × String :=
  let bad := (st, "bad-op")
  match toks with
  | ["sreset"] => ({ st with sto := [] }, "ok")
  | ["sput", now, key, id, data, maxAge, ver] =>
    match now.toNat?, key.toNat?, id.toNat?, data.toNat?, maxAge.toNat?, ver.toNat? with
    | some now, some key, some id, some data, some maxAge, some ver =>
      ({ st with sto := st.sto.put key { id := id, data := data, lastUpdate := now, maxAge := maxAge, version := ver } },
       "ok")
    | _, _, _, _, _, _ => bad
  | ["sget", key, start, limit] =>
    match key.toNat?, start.toNat?, parseLimit limit with
    | some key, some start, some limit => (st, showNatList (st.sto.get key start limit))
    | _, _, _ => bad
  | ["sclean", now] =>
    match now.toNat? with
    | some now => ({ st with sto := st.sto.clean now }, "ok")
    | none => bad
  | ["sold", now, minAge] =>
    match now.toNat?, minAge.toNat? with
    | some now, some m =>
      (st, showStrList ((st.sto.olderThan now m).map (fun e => toString e.1 ++ ":" ++ toString e.2)))
    | _, _ => bad
  | ["reset", now0] =>
    match now0.toNat? with
    | some t => ({ st with node := Node.init t, issued := #[] }, "ok")
    | none => bad
  | ["adv", dt] =>
    match dt.toNat? with
    | some dt => ({ st with node := st.node.adv dt }, "ok")
    | none => bad
  | ["rotate"] => ({ st with node := st.node.rotate }, "ok")
  | ["clean"] => ({ st with node := st.node.clean }, "ok")
  | ["find", addr, pk, mid, nid, target, offset, force] =>
    match addr.toNat?, pk.toNat?, mid.toNat?, nid.toNat?, target.toNat?, offset.toNat?, force.toNat? with
    | some addr, some pk, some mid, some nid, some target, some offset, some force =>
      let (n', r) := st.node.findReq drvCrypto { addr := addr, pk := pk, mid := mid } nid target offset (force != 0)
      match r with
      | none => ({ st with node := n' }, "none")
      | some (t, vals) =>
        ({ st with node := n', issued := st.issued.push t }, s!"tok#{st.issued.size} {showNatList vals}")
    | _, _, _, _, _, _, _ => bad
  | "store" :: addr :: pk :: mid :: nid :: tok :: target :: numCloser :: blobs =>
    match addr.toNat?, pk.toNat?, mid.toNat?, nid.toNat?, parseTok st tok, target.toNat?, numCloser.toNat?,
          blobs.mapM parseBlob with
    | some addr, some pk, some mid, some nid, some tok, some target, some nc, some blobs =>
      let (n', resp) := st.node.storeReq drvCrypto
        { who := { addr := addr, pk := pk, mid := mid }, nid := nid, token := tok, target := target,
          values := blobs, numCloser := nc }
      ({ st with node := n' }, if resp then "resp=1" else "resp=0")
    | _, _, _, _, _, _, _, _ => bad
  | ["storepeer", addr, pk, mid, tok, target] =>
    match addr.toNat?, pk.toNat?, mid.toNat?, parseTok st tok, target.toNat? with
    | some addr, some pk, some mid, some tok, some target =>
      let (n', resp) := st.node.storePeerReq drvCrypto { addr := addr, pk := pk, mid := mid } tok target
      ({ st with node := n' }, if resp then "resp=1" else "resp=0")
    | _, _, _, _, _ => bad
  | "cache" :: key :: loc :: blobs =>
    match key.toNat?, loc.toNat?, blobs.mapM parseBlob with
    | some key, some loc, some blobs => ({ st with node := st.node.cacheStore drvCrypto key blobs (loc != 0) }, "ok")
    | _, _, _ => bad
  | "keep" :: blobs =>
    match blobs.mapM parseBlob with
    | some blobs => (st, showNatList ((keepLocal blobs).map (·.uid)))
    | none => bad
  | ["recvtok", nid] =>
    match nid.toNat? with
    | some nid => ({ st with node := st.node.recvToken nid }, "ok")
    | none => bad
  | ["maysend", now, ts] =>
    match now.toNat? with
    | some now =>
      let recv : List (Nat × Nat) := match ts.toNat? with
        | some t => [(7, t)]
        | none => []
      (st, toString (({ Node.init 0 with now := now, recv := recv } : Node).maySendStore 7))
    | none => bad
  | ["ntok"] => (st, toString st.node.recv.length)
  | ["nsecrets"] => (st, toString st.node.nextSecret)
  | ["ping", nid] =>
    match nid.toNat? with
    | some nid =>
      let (n', resp) := st.node.pingReq nid
      ({ st with node := n' }, if resp then "resp=1" else "resp=0")
    | none => bad
  | ["dump", key] =>
    match key.toNat? with
    | some key => (st, showNatList (st.node.store.get key 0 none))
    | none => bad
  | ["peers", key] =>
    match key.toNat? with
    | some key => (st, showStrList ((lookupP st.node.peers key).map (fun i => s!"{i.pk}@{i.addr}")))
    | none => bad
  | "pp" :: blobs =>
    match blobs.mapM parseBlob with
    | some blobs =>
      (st, match postProcess drvCrypto blobs with
           | none => "err"
           | some l => showPP l)
    | none => bad
  | "crawl" :: lists =>
    match lists.mapM natList? with
    | some ls => (st, showNatList (crawlValues ls))
    | none => bad
  | ["unserb", hex, keyok, siglen, valid, canon] =>
    match ofHex? hex, keyok.toNat?, siglen.toNat?, valid.toNat?, ofHex? canon with
    | some v, some keyok, some siglen, some valid, some canon =>
      let B : BCrypto := { keyOk := fun _ => keyok != 0, sigLen := fun _ => siglen, verify := fun _ _ _ => valid != 0,
                           canon := fun _ => canon }
      let q := match v with
        | t :: _ =>
          if t.toNat = Gen.entryStrSigned then
            match readSigned v with
            | some (_, _, pk, _) => s!" q={toHex pk}:{(pyButLast v siglen).length}:{(pyLast v siglen).length}"
            | none => ""
          else ""
        | [] => ""
      (st, (match unserializeB B v with
            | .raise => "raise"
            | .none => "none"
            | .ok d pk ver => s!"ok {toHex d} {match pk with | some p => toHex p | none => "-"} {ver}") ++ q)
    | _, _, _, _, _ => bad
  | ["serb", data, ver, pk, sig] =>
    match ofHex? data, ver.toNat?, ofHex? pk, ofHex? sig with
    | some data, some ver, some pk, some sig => (st, toHex (serializeSigned (fun _ => sig) data ver pk))
    | _, _, _, _ => bad
  | ["serp", data] =>
    match ofHex? data with
    | some data => (st, toHex (serializePlain data))
    | none => bad
  | ["maxage", nc] =>
    match nc.toNat? with
    | some nc => (st, toString (Gen.storeMaxAge nc))
    | none => bad
  | _ => bad

def main : IO Unit := Proto.run ({ node := Node.init 0, issued := #[], sto := [] } : DState) step
