#!/bin/bash
# usage: .c12_mut.sh <name> <python-snippet-file>
cd /tmp/wt_c12 && git checkout -q -- . && /venv/bin/python "$2" || exit 9
echo "=== mutation $1"; git -C /tmp/wt_c12 diff --stat | tail -1
( cd /tmp/wt_c12 && /venv/bin/python -m pytest -q -p no:cacheprovider --timeout=900 ipv8/test/peerdiscovery ipv8/test/test_peer.py ipv8/test/messaging/test_serialization.py 2>&1 | tail -1 )
cd /verif && VERIF_REPO=/tmp/wt_c12 ./check C12 quick 2>&1 | grep -E "VIOLATION|C12 quick|broken|disagreement" | head -6
for f in replays/C12/violation_0.json; do [ -f $f ] && /venv/bin/python -c "
import json; r=json.load(open('$f')); print('  first:', r['signature'], '|', r['what'][:160]); print('  lines:', r['replay']['lines'][-6:])"; done
