#!/bin/bash
cd /tmp/wt_c12 && git checkout -q -- . && /venv/bin/python "$2" || exit 9
echo "=== $1"; git -C /tmp/wt_c12 diff --stat | tail -1
cd /verif && VERIF_REPO=/tmp/wt_c12 ./check C12 quick 2>&1 | grep -E "VIOLATION|C12 quick" | head -3
[ -f replays/C12/violation_0.json ] && /venv/bin/python -c "
import json; r=json.load(open('/verif/replays/C12/violation_0.json')); print('  first:', r['signature'], '|', r['what'][:150]); print('  lines:', r['replay']['lines'][-6:])"
rm -f replays/C12/violation_*.json
